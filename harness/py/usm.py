"""RFC 3414 USM key derivation, HMAC-96 and privacy parameter helpers (hashlib/hmac only)."""

import functools
import hashlib
import hmac as _hmac

ALGS = {"md5": hashlib.md5, "sha1": hashlib.sha1, 1: hashlib.md5, 2: hashlib.sha1}
MEGABYTE = 1048576


def _h(alg):
    """hashlib constructor for 'md5'/'sha1' (or auth codes 1/2)."""
    try:
        return ALGS[alg & 0x3F if isinstance(alg, int) else alg.lower()]
    except KeyError:
        raise ValueError("unknown auth algorithm %r" % (alg,))


@functools.lru_cache(maxsize=256)
def _p2k(alg, password):
    """Cached worker for password_to_key."""
    n = -(-MEGABYTE // len(password))
    return _h(alg)((password * n)[:MEGABYTE]).digest()


def password_to_key(alg, password):
    """RFC 3414 A.2.1/A.2.2 master key Ku: digest of the first 1 MiB of the repeated password."""
    password = password.encode() if isinstance(password, str) else bytes(password)
    if not password:
        raise ValueError("empty password")
    return _p2k(alg if isinstance(alg, int) else alg.lower(), password)


def localize(alg, key, engine_id):
    """RFC 3414 2.6 localized key Kul = H(Ku || engineID || Ku)."""
    return _h(alg)(bytes(key) + bytes(engine_id) + bytes(key)).digest()


def hmac96(alg, key, msg):
    """HMAC-MD5-96 / HMAC-SHA-96: first 12 octets of the HMAC."""
    return _hmac.new(bytes(key), bytes(msg), _h(alg)).digest()[:12]


def verify_auth(datagram, offset, alg, key):
    """Zero the 12 octets at offset, recompute HMAC-96 under the localized key, compare with the original."""
    d = bytes(datagram)
    if offset < 0 or offset + 12 > len(d):
        return False
    zeroed = d[:offset] + bytes(12) + d[offset + 12:]
    return _hmac.compare_digest(hmac96(alg, key, zeroed), d[offset:offset + 12])


def sign(datagram, offset, alg, key):
    """Return datagram with the 12 octets at offset replaced by the HMAC-96 over the zeroed message."""
    d = bytes(datagram)
    zeroed = d[:offset] + bytes(12) + d[offset + 12:]
    return d[:offset] + hmac96(alg, key, zeroed) + d[offset + 12:]


def local_key(alg, secret, engine_id, key_type="password"):
    """Localized key from a 'password', 'master' key or already 'localized' key."""
    if key_type == "password":
        return localize(alg, password_to_key(alg, secret), engine_id)
    if key_type == "master":
        return localize(alg, secret, engine_id)
    if key_type == "localized":
        return bytes(secret)
    raise ValueError("key_type must be password, master or localized")


def priv_key(auth_alg, password_or_key, engine_id, key_type="password"):
    """Privacy key: localized with the AUTH digest, truncated to 16 octets."""
    return local_key(auth_alg, password_or_key, engine_id, key_type)[:16]


def des_params(local_priv_key16, salt8):
    """RFC 3414 8.1.1.1: (DES key = first 8 octets, IV = last 8 octets XOR salt)."""
    k, s = bytes(local_priv_key16), bytes(salt8)
    if len(k) < 16 or len(s) != 8:
        raise ValueError("need a 16-octet key and an 8-octet salt")
    return k[:8], bytes(a ^ b for a, b in zip(k[8:16], s))


def aes_iv(boots, time, salt8):
    """RFC 3826 3.1.2.1: IV = engineBoots(4, BE) || engineTime(4, BE) || salt(8)."""
    s = bytes(salt8)
    if len(s) != 8:
        raise ValueError("need an 8-octet salt")
    return (boots & 0xFFFFFFFF).to_bytes(4, "big") + (time & 0xFFFFFFFF).to_bytes(4, "big") + s


def selftest():
    """RFC 3414 A.3 vectors; returns list of (name, ok)."""
    eng = bytes.fromhex("000000000000000000000002")
    md5 = password_to_key("md5", b"maplesyrup")
    sha = password_to_key("sha1", b"maplesyrup")
    return [
        ("A.3.1 md5 Ku", md5.hex() == "9faf3283884e92834ebc9847d8edd963"),
        ("A.3.1 md5 Kul", localize("md5", md5, eng).hex() == "526f5eed9fcce26f8964c2930787d82b"),
        ("A.3.2 sha1 Ku", sha.hex() == "9fb5cc0381497b3793528939ff788d5d79145211"),
        ("A.3.2 sha1 Kul", localize("sha1", sha, eng).hex() == "6695febc9288e36282235fc7151f128497b38f3f"),
    ]


if __name__ == "__main__":
    for name, ok in selftest():
        print("%s %s" % ("PASS" if ok else "FAIL", name))
