"""Self-test of the e2e harness: crypto vectors, codec round trips, then real exchanges with the built extension."""

import random
import sys
import time

sys.path.insert(0, "/verif/harness/py")

import ber  # noqa: E402
import build  # noqa: E402
import ossl  # noqa: E402
import usm  # noqa: E402
from agent import (AUTH_MD5, AUTH_SHA1, PRIV_AES128, PRIV_DES, Agent, V3AgentState, call,  # noqa: E402
                   make_sock)

OID0 = "1.3.6.1.2.1.1.5.0"
ARCS0 = (1, 3, 6, 1, 2, 1, 1, 5, 0)
ENGINE = bytes.fromhex("80001f8880010203040506")
COUNTS = {"PASS": 0, "FAIL": 0, "KNOWN": 0}


class Known(Exception):
    """A defect already recorded for the pinned commit was hit."""


def report(status, name, detail=""):
    """Print one result line and count it."""
    COUNTS[status] += 1
    print("%-5s %s%s" % (status, name, (": " + detail) if detail else ""), flush=True)


def step(name, f, *args):
    """Run one step: PASS, KNOWN (recorded defect) or FAIL with the reason; returns f's value."""
    try:
        r = f(*args)
    except Known as e:
        report("KNOWN", name, str(e))
        return None
    except (KeyboardInterrupt, SystemExit):
        raise
    except BaseException as e:  # noqa: BLE001 - PanicException is a BaseException
        report("FAIL", name, "%s: %s" % (type(e).__name__, str(e)[:200]))
        return None
    report("PASS", name, r if isinstance(r, str) else "")
    return r


def check(cond, msg):
    """Assert with a message."""
    if not cond:
        raise AssertionError(msg)


# ---------------------------------------------------------------- offline parts


def codec_round_trips():
    """Encoder -> strict decoder round trips, non-minimal detection and rejection of malformed input."""
    rng = random.Random(1)
    for _ in range(300):
        arcs = (rng.choice([0, 1]), rng.randrange(40)) + tuple(
            rng.choice([0, 1, 127, 128, 16383, 16384, 2**32 - 1, rng.randrange(2**32)]) for _ in range(rng.randrange(0, 12)))
        rid = rng.choice([0, 1, 127, 128, 255, 256, 2**31 - 1, rng.randrange(2**31)])
        vbs = [ber.varbind(arcs), ber.varbind((2, 999, 1), ber.INT(rng.randrange(-2**63, 2**63)))]
        kind = rng.randrange(3)
        if kind == 0:
            m = ber.msg_v1(b"c" * rng.randrange(200), ber.pdu(0, rid, 0, 0, vbs))
        elif kind == 1:
            m = ber.msg_v2c("public", ber.pdu(5, rid, 0, rng.randrange(100), vbs))
        else:
            sp = ber.scoped_pdu(ENGINE, "", ber.pdu(1, rid, 0, 0, vbs))
            m = ber.msg_v3(rng.randrange(2**31), 5, ENGINE, rng.randrange(2**31), rng.randrange(2**31), "u", bytes(12), b"", sp)
        d = ber.decode_message(m)
        check(d["all_minimal"] and d["request_id"] == rid, "round trip %r" % (d,))
        check(d["varbinds"][0] == (arcs, 5, b"") and d["varbinds"][1][0] == (2, 999, 1), "varbinds %r" % (d["varbinds"],))
        if kind == 2:
            check(m[d["auth_params_offset"]:d["auth_params_offset"] + 12] == bytes(12), "auth offset")
    good = ber.msg_v2c("public", ber.pdu(0, 1, 0, 0, [ber.varbind(OID0)]))
    nonmin = [
        ber.tlv(0x30, good[2:], lenform=1),
        ber.SEQ(ber.INT(1, pad=1), ber.OCT(b"p"), ber.pdu(0, 1, 0, 0, [])),
        ber.SEQ(ber.INT(1), ber.OCT(b"p"), ber.pdu(0, 1, 0, 0, [ber.SEQ(ber.tlv(6, b"\x2b\x80\x01"), ber.NULL)])),
        ber.SEQ(ber.INT(1), ber.tlv(4, b"p", lenform=3), ber.pdu(0, 1, 0, 0, [])),
    ]
    for m in nonmin:
        check(ber.decode_message(m)["all_minimal"] is False, "non-minimal not flagged: " + m.hex())
    bad = [good + b"\x00", good[:-1], b"", b"\x30", b"\x30\x80", b"\x1f\x80", ber.SEQ(ber.INT(2), ber.OCT(b"p"), ber.pdu(0, 1, 0, 0, [])),
           ber.SEQ(ber.INT(1), ber.OCT(b"p"), ber.pdu(0, 1, 0, 0, [ber.SEQ(ber.OID("1.3"), ber.NULL, ber.NULL)])),
           ber.SEQ(ber.INT(1), ber.OCT(b"p"), ber.pdu(0, 1, 0, 0, []), ber.NULL),
           ber.SEQ(ber.INT(1), ber.OCT(b"p"), ber.tlv(0xA0, ber.INT(1) + ber.INT(0) + ber.INT(0) + ber.SEQ() + ber.NULL))]
    for m in bad:
        try:
            ber.decode_message(m)
        except ber.BerError:
            continue
        raise AssertionError("malformed accepted: " + m.hex())
    check(ber.UINT(0x41, 2**32 - 1, pad=1).hex() == "41060000ffffffff", "UINT pad")
    check(ber.UINT(0x46, 0) == b"\x46\x01\x00" and ber.INT(-129) == b"\x02\x02\xff\x7f", "INT/UINT")
    check(ber.oid_arcs(ber.oid_content("2.999.3")) == (2, 999, 3) and ber.dotted((1, 3)) == "1.3", "oid")
    sp = ber.scoped_pdu(ENGINE, "", ber.pdu(0, 7, 0, 0, []))
    check(ber.decode_scoped(sp + bytes(5))["padding"] == bytes(5), "scoped padding")


def lines(results):
    """Fail when any (name, ok) pair is not ok."""
    badl = [n for n, ok in results if not ok]
    check(not badl, "failed: %s" % badl)
    return "%d vectors" % len(results)


# ---------------------------------------------------------------- live parts


def check_community_request(datagram, version, pdu_type, arcs):
    """Strictly decode a v1/v2c request and check its shape; returns the dict."""
    d = ber.decode_message(datagram)
    check(d["all_minimal"], "request not minimally encoded: " + datagram.hex())
    check(d["version"] == version and d["community"] == b"public", "version/community %r" % (d,))
    check(d["pdu_type"] == pdu_type and 0 <= d["request_id"] < 2**31, "pdu type/request id %r" % (d,))
    check(d["varbinds"] == [(arcs, 5, b"")], "varbinds %r" % (d["varbinds"],))
    return d


def community_get(fast, agent, version):
    """send_get -> agent decodes and answers INTEGER 42 -> recv_get returns 42."""
    s = make_sock(fast, agent, version)
    mk = ber.msg_v1 if version == 1 else ber.msg_v2c
    check(call(lambda: s.send_get(OID0)) == ("ok", None), "send_get")
    d = check_community_request(agent.recv_one(), version - 1, 0, ARCS0)
    check(d["error_status"] == 0 and d["error_index"] == 0, "error fields")
    agent.send(mk("public", ber.pdu(2, d["request_id"], 0, 0, [ber.varbind(OID0, ber.INT(42))])))
    check(call(s.recv_get) == ("ok", 42), "recv_get")
    check(call(s.recv_get) == ("exc", "BlockingIOError", True), "empty queue must raise BlockingIOError")


def getnext_and_bulk(fast, agent):
    """One GetNext step advances the iterator; GetBulk carries non-repeaters 0 and max-repetitions."""
    s = make_sock(fast, agent, 2)
    it = fast.GetIter("1.3.6.1.2.1.1")
    s.send_get_next(it)
    d = check_community_request(agent.recv_one(), 1, 1, (1, 3, 6, 1, 2, 1, 1))
    nxt = "1.3.6.1.2.1.1.1.0"
    agent.send(ber.msg_v2c("public", ber.pdu(2, d["request_id"], 0, 0, [ber.varbind(nxt, ber.OCT(b"descr"))])))
    check(call(lambda: s.recv_get_next(it)) == ("ok", (nxt, b"descr")), "recv_get_next")
    s.send_get_next(it)
    d = check_community_request(agent.recv_one(), 1, 1, (1, 3, 6, 1, 2, 1, 1, 1, 0))
    agent.send(ber.msg_v2c("public", ber.pdu(2, d["request_id"], 0, 0, [ber.varbind("1.3.6.1.2.1.2.1.0", ber.INT(1))])))
    check(call(lambda: s.recv_get_next(it))[:2] == ("exc", "StopAsyncIteration"), "walk must stop outside the subtree")
    it = fast.GetIter("1.3.6.1.2.1.1", 10)
    s.send_get_bulk(it)
    d = check_community_request(agent.recv_one(), 1, 5, (1, 3, 6, 1, 2, 1, 1))
    check(d["non_repeaters"] == 0 and d["max_repetitions"] == 10, "bulk parameters %r" % (d,))
    vbs = [ber.varbind("1.3.6.1.2.1.1.%d.0" % i, ber.INT(i)) for i in (1, 2)]
    agent.send(ber.msg_v2c("public", ber.pdu(2, d["request_id"], 0, 0, vbs)))
    want = [("1.3.6.1.2.1.1.1.0", 1), ("1.3.6.1.2.1.1.2.0", 2)]
    check(call(lambda: s.recv_get_bulk(it)) == ("ok", want), "recv_get_bulk")


def check_v3_request(st, req, arcs, first=True):
    """Check header, security level, MAC and scoped PDU of a parsed v3 GET request."""
    flags = (1 if st.auth_alg else 0) | (2 if st.priv_alg else 0)
    check(req["all_minimal"], "request not minimally encoded")
    check(req["flags"] & 3 == flags and req["security_model"] == 3, "flags %r" % req["flags"])
    check(req["user"] == st.user and req["engine_id"] == st.engine_id, "user/engine id")
    check(0 <= req["msg_id"] < 2**31 and 0 <= req["request_id"] < 2**31, "ids")
    check(req["auth_ok"] is (True if st.auth_alg else None), "HMAC verification: %r" % req["auth_ok"])
    check(len(req["auth_params"]) == (12 if st.auth_alg else 0), "auth params length")
    check(len(req["priv_params"]) == (8 if st.priv_alg else 0), "priv params length")
    check(req["ctx_engine_id"] == st.engine_id and req["ctx_name"] == b"", "context")
    check(req["pdu_type"] == 0 and req["varbinds"] == [(arcs, 5, b"")], "pdu %r" % (req["varbinds"],))
    if st.priv_alg:
        block = 8 if st.priv_alg == PRIV_DES else 16
        if st.priv_alg == PRIV_DES and not first and len(req["padding"]) >= block:
            raise Known("DES request after a reply carries %d octets of stale padding (private buffer not reset)"
                        % len(req["padding"]))
        check(len(req["padding"]) < block, "padding of %d octets" % len(req["padding"]))


def v3_get(fast, agent, st, rounds=2):
    """send_get -> agent verifies/decrypts -> answers at the same level -> recv_get returns the value."""
    s = make_sock(fast, agent, 3, **st.client_kwargs())
    for i in range(rounds):
        r = call(lambda: s.send_get(OID0))
        if r == ("exc", "PanicException", False) and not st.auth_alg:
            agent.recv_all()
            raise Known("PanicException on v3 noAuth send (bookmark underflow in debug build)")
        check(r == ("ok", None), "send_get -> %r" % (r,))
        req = st.parse_request(agent.recv_one())
        check_v3_request(st, req, ARCS0, first=i == 0)
        check((req["boots"], req["time"]) == ((0, 0) if i == 0 else (st.boots, st.time)), "boots/time %r" % i)
        agent.send(st.reply_to(req, [ber.varbind(OID0, ber.INT(1000 + i))]))
        check(call(s.recv_get) == ("ok", 1000 + i), "recv_get round %d" % i)
    return s


def v3_discovery(fast, agent, st):
    """Without engine id: refresh gets a Report, the socket learns engine id, boots and time."""
    s = make_sock(fast, agent, 3, **st.client_kwargs(with_engine_id=False))
    check(call(s.send_refresh) == ("ok", None), "send_refresh")
    req = st.parse_request(agent.recv_one())
    check(req["engine_id"] == b"" and req["varbinds"] == [] and req["flags"] & 4, "discovery request %r" % (req,))
    agent.send(st.report(req["request_id"], req["msg_id"]))
    check(call(s.recv_refresh) == ("ok", None), "recv_refresh")
    check(s.get_engine_id() == st.engine_id, "engine id learned")
    s.send_get(OID0)
    req = st.parse_request(agent.recv_one())
    check((req["engine_id"], req["boots"], req["time"]) == (st.engine_id, st.boots, st.time), "engine parameters")


def des_resend_growth(fast, agent, st):
    """Two DES requests without a reply in between must have the same size."""
    s = make_sock(fast, agent, 3, **st.client_kwargs())
    sizes = []
    for _ in range(3):
        s.send_get(OID0)
        sizes.append(len(agent.recv_one()))
    if len(set(sizes)) != 1:
        raise Known("consecutive DES requests grow %r (private buffer not reset)" % sizes)


def throughput(fast, agent, n=20000):
    """v2c get exchanges per second with a full strict decode of every request."""
    s = make_sock(fast, agent, 2)
    t0 = time.perf_counter()
    for i in range(n):
        s.send_get(OID0)
        d = ber.decode_message(agent.recv_one())
        agent.send(ber.msg_v2c("public", ber.pdu(2, d["request_id"], 0, 0, [ber.varbind(OID0, ber.INT(i))])))
        if s.recv_get() != i:
            raise AssertionError("wrong value at %d" % i)
    return "%d exchanges, %.0f exchanges/s" % (n, n / (time.perf_counter() - t0))


def main():
    """Run every step; exit status 1 when something failed."""
    step("ossl vectors + openssl CLI cross-check", lambda: lines(ossl.selftest()))
    step("usm RFC 3414 A.3 vectors", lambda: lines(usm.selftest()))
    step("codec round trips", codec_round_trips)
    t0 = time.time()
    fast = step("build extension", build.load)
    if fast is None:
        return 1
    print("      %s (%.1f s)" % (fast.__file__, time.time() - t0))
    agent = Agent()
    step("v1 get", community_get, fast, agent, 1)
    step("v2c get", community_get, fast, agent, 2)
    step("v2c getnext step + getbulk", getnext_and_bulk, fast, agent)
    noauth = V3AgentState(ENGINE, boots=3, time=777, user="noauth")
    md5 = V3AgentState(ENGINE, 3, 777, "md5user", AUTH_MD5, b"maplesyrup")
    sha_aes = V3AgentState(ENGINE, 3, 777, "shaaes", AUTH_SHA1, b"authpass12", PRIV_AES128, b"privpass12")
    md5_des = V3AgentState(ENGINE, 3, 777, "md5des", AUTH_MD5, b"authpass12", PRIV_DES, b"privpass12")
    first = step("v3 noAuth get (engine id given)", v3_get, fast, agent, noauth)
    step("v3 MD5 auth get", v3_get, fast, agent, md5)
    step("v3 SHA1+AES128 get", v3_get, fast, agent, sha_aes)
    step("v3 MD5+DES get", v3_get, fast, agent, md5_des)
    if first is None:
        step("v3 noAuth get, retried right after an MD5 get", lambda: (v3_get(fast, agent, md5, 1), v3_get(fast, agent, noauth))[1])
    step("v3 engine discovery via refresh/Report (MD5)", v3_discovery, fast, agent, md5)
    step("v3 DES request size stable across resends", des_resend_growth, fast, agent, md5_des)
    step("v2c get throughput", throughput, fast, agent)
    agent.close()
    print("summary: %(PASS)d PASS, %(KNOWN)d KNOWN, %(FAIL)d FAIL" % COUNTS)
    return 1 if COUNTS["FAIL"] else 0


if __name__ == "__main__":
    sys.exit(main())
