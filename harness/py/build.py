"""Build the real gufo.snmp._fast extension from /repo's working tree into /verif/.build."""

import fcntl
import importlib
import os
import shutil
import subprocess
import sys

REPO = "/repo"
BUILD = "/verif/.build"
TARGET = BUILD + "/cdylib-target"
PKG = BUILD + "/pkg"
LOCK = BUILD + "/cargo.lock"
PYTHON = "/root/.pyenv/versions/3.11.7/bin/python3"
SO_SRC = TARGET + "/debug/libgufo_snmp.so"
SO_DST = PKG + "/gufo/snmp/_fast.so"


class BuildError(RuntimeError):
    """cargo failed; str(e) carries cargo's stderr."""


def _ensure_build_dir():
    """Create /verif/.build with a self-ignoring .gitignore."""
    os.makedirs(BUILD, exist_ok=True)
    gi = BUILD + "/.gitignore"
    if not os.path.exists(gi):
        with open(gi, "w") as f:
            f.write("*\n")


def _cargo():
    """Run the offline dev-profile cargo build; raise BuildError with stderr on failure."""
    env = dict(os.environ)
    env.update(CARGO_TARGET_DIR=TARGET, CARGO_NET_OFFLINE="true")
    env.setdefault("PYO3_PYTHON", PYTHON)
    cmd = ["cargo", "build", "--offline", "--manifest-path", REPO + "/Cargo.toml"]
    p = subprocess.run(cmd, env=env, stdout=subprocess.PIPE, stderr=subprocess.PIPE, text=True)
    if p.returncode != 0 or not os.path.exists(SO_SRC):
        raise BuildError("cargo build failed (exit %d):\n%s" % (p.returncode, p.stderr))


def _same(src, dst):
    """True when dst exists with the size and mtime of src."""
    try:
        a, b = os.stat(src), os.stat(dst)
    except FileNotFoundError:
        return False
    return a.st_size == b.st_size and a.st_mtime_ns == b.st_mtime_ns


def _install(src, dst):
    """Atomically copy src over dst (rename, so a mapped old .so stays intact) if it differs."""
    if _same(src, dst):
        return
    os.makedirs(os.path.dirname(dst), exist_ok=True)
    tmp = "%s.tmp%d" % (dst, os.getpid())
    shutil.copy2(src, tmp)
    os.replace(tmp, dst)


def _skip(name):
    """Files never mirrored in either direction."""
    return name.endswith(".so") or name.endswith(".pyc") or ".tmp" in name


def _sync_package():
    """Mirror /repo/src/gufo into PKG/gufo: copy changed files, delete stale ones, skip *.so."""
    src_root, dst_root = REPO + "/src/gufo", PKG + "/gufo"
    wanted = set()
    for d, dirs, files in os.walk(src_root):
        dirs[:] = [x for x in dirs if x != "__pycache__"]
        rel = os.path.relpath(d, src_root)
        for f in files:
            if not _skip(f):
                r = os.path.normpath(os.path.join(rel, f))
                wanted.add(r)
                _install(os.path.join(src_root, r), os.path.join(dst_root, r))
    for d, dirs, files in os.walk(dst_root, topdown=False):
        if os.path.basename(d) == "__pycache__":
            continue
        rel = os.path.relpath(d, dst_root)
        for f in files:
            r = os.path.normpath(os.path.join(rel, f))
            if r not in wanted and os.path.join(dst_root, r) != SO_DST:
                os.unlink(os.path.join(d, f))
        if d != dst_root and not os.path.isdir(os.path.join(src_root, rel)):
            shutil.rmtree(d, ignore_errors=True)


def build_ext():
    """Build the cdylib (dev profile) and refresh /verif/.build/pkg; return that path."""
    _ensure_build_dir()
    with open(LOCK, "w") as lf:
        fcntl.flock(lf, fcntl.LOCK_EX)
        _cargo()
        _sync_package()
        _install(SO_SRC, SO_DST)
    return PKG


def load():
    """build_ext(), put the package first on sys.path and return the gufo.snmp._fast module."""
    pkg = build_ext()
    os.environ["RUST_BACKTRACE"] = "0"
    if pkg in sys.path:
        sys.path.remove(pkg)
    sys.path.insert(0, pkg)
    importlib.invalidate_caches()
    fast = importlib.import_module("gufo.snmp._fast")
    assert fast.__file__.startswith(PKG + "/"), "foreign gufo.snmp picked up: %s" % fast.__file__
    return fast


if __name__ == "__main__":
    import time

    t0 = time.time()
    m = load()
    print("%s (%.2f s)" % (m.__file__, time.time() - t0))
