"""Single-threaded scripted SNMP agent on loopback plus helpers to drive the raw _fast client sockets."""

import socket
import time as _time

import ber
import ossl
import usm

AUTH_NONE, AUTH_MD5, AUTH_SHA1 = 0, 1, 2
PRIV_NONE, PRIV_DES, PRIV_AES128 = 0, 1, 2
KT_PASSWORD, KT_MASTER, KT_LOCALIZED = 0x00, 0x40, 0x80
_KT = {"password": KT_PASSWORD, "master": KT_MASTER, "localized": KT_LOCALIZED}
_AUTH = {None: 0, "none": 0, "md5": 1, "sha1": 2, 0: 0, 1: 1, 2: 2}
_PRIV = {None: 0, "none": 0, "des": 1, "aes": 2, "aes128": 2, 0: 0, 1: 1, 2: 2}
FLAG_AUTH, FLAG_PRIV, FLAG_REPORTABLE = 1, 2, 4
USM_STATS_UNKNOWN_ENGINE_IDS = "1.3.6.1.6.3.15.1.1.4.0"
USM_STATS_NOT_IN_TIME_WINDOWS = "1.3.6.1.6.3.15.1.1.2.0"


class Agent:
    """Non-blocking UDP socket on 127.0.0.1:0 playing the agent in the caller's thread."""

    def __init__(self):
        self.sock = socket.socket(socket.AF_INET, socket.SOCK_DGRAM)
        self.sock.bind(("127.0.0.1", 0))
        self.sock.setblocking(False)
        self.port = self.sock.getsockname()[1]
        self.addr = "127.0.0.1:%d" % self.port
        self.peer = None

    def _drain(self, out):
        """Append every queued datagram to out."""
        while True:
            try:
                data, peer = self.sock.recvfrom(65535)
            except BlockingIOError:
                return
            self.peer = peer
            out.append(data)

    def recv_all(self, expect=0, wait=0.05):
        """Drain queued datagrams; when fewer than `expect` arrived, retry for up to `wait` seconds."""
        out = []
        self._drain(out)
        deadline = _time.monotonic() + wait
        while len(out) < expect and _time.monotonic() < deadline:
            _time.sleep(0.0005)
            self._drain(out)
        return out

    def recv_one(self):
        """Exactly one datagram must be queued; return it."""
        got = self.recv_all(expect=1)
        if len(got) != 1:
            raise AssertionError("expected 1 datagram, got %d" % len(got))
        return got[0]

    def send(self, datagram, peer=None):
        """Send a datagram to `peer` or to the sender of the last received datagram."""
        self.sock.sendto(bytes(datagram), peer or self.peer)

    def close(self):
        """Close the socket."""
        self.sock.close()


def make_sock(fast, agent, version, community="public", engine_id=b"", user_name="", auth_alg=0, auth_key=b"",
              priv_alg=0, priv_key=b"", timeout_ns=0):
    """Raw _fast client socket (version 1, 2 or 3) connected to the agent; timeout_ns=0 is non-blocking."""
    addr = agent.addr if hasattr(agent, "addr") else "127.0.0.1:%d" % agent
    if version == 1:
        return fast.SnmpV1ClientSocket(addr, community, 0, 0, 0, timeout_ns)
    if version in (2, "2c"):
        return fast.SnmpV2cClientSocket(addr, community, 0, 0, 0, timeout_ns)
    if version == 3:
        return fast.SnmpV3ClientSocket(addr, bytes(engine_id), user_name, auth_alg, bytes(auth_key), priv_alg,
                                       bytes(priv_key), 0, 0, 0, timeout_ns)
    raise ValueError("version must be 1, 2 or 3")


def call(f):
    """Run f(): ('ok', value) or ('exc', class name, is-an-Exception-subclass); catches BaseException."""
    try:
        return ("ok", f())
    except BaseException as e:  # noqa: BLE001 - pyo3 PanicException derives from BaseException
        return ("exc", type(e).__name__, isinstance(e, Exception))


class V3AgentState:
    """USM state of a scripted v3 agent: verifies/decrypts requests and builds signed/encrypted replies."""

    def __init__(self, engine_id, boots=1, time=1000, user="user", auth_alg=0, auth_password=b"", priv_alg=0,
                 priv_password=b"", auth_key_type="password", priv_key_type="password"):
        self.engine_id, self.boots, self.time = bytes(engine_id), boots, time
        self.user = user.encode() if isinstance(user, str) else bytes(user)
        self.auth_alg, self.priv_alg = _AUTH[auth_alg], _PRIV[priv_alg]
        self.auth_secret, self.priv_secret = bytes(auth_password), bytes(priv_password)
        self.auth_key_type, self.priv_key_type = auth_key_type, priv_key_type
        self.salt = 1
        self.pad_style = "zero"      # DES padding content is the sender's choice: zero | count | ff | random
        self.auth_key = self.priv_key = b""
        if self.auth_alg:
            self.auth_key = usm.local_key(self.auth_alg, self.auth_secret, self.engine_id, auth_key_type)
        if self.priv_alg:
            self.priv_key = usm.priv_key(self.auth_alg, self.priv_secret, self.engine_id, priv_key_type)

    def client_kwargs(self, with_engine_id=True):
        """Keyword arguments for make_sock(fast, agent, 3, **kw) matching this user."""
        return dict(
            engine_id=self.engine_id if with_engine_id else b"",
            user_name=self.user.decode(),
            auth_alg=(self.auth_alg | _KT[self.auth_key_type]) if self.auth_alg else 0,
            auth_key=self.auth_secret,
            priv_alg=(self.priv_alg | _KT[self.priv_key_type]) if self.priv_alg else 0,
            priv_key=self.priv_secret,
        )

    # -- crypto -------------------------------------------------------
    def decrypt(self, ciphertext, priv_params, boots, time):
        """Decrypt msgData with this user's privacy key and the transmitted salt."""
        if self.priv_alg == PRIV_DES:
            key, iv = usm.des_params(self.priv_key, priv_params)
            return ossl.des_cbc_decrypt(key, iv, ciphertext)
        return ossl.aes128_cfb_decrypt(self.priv_key, usm.aes_iv(boots, time, priv_params), ciphertext)

    def encrypt(self, plaintext, boots, time):
        """Encrypt a scoped PDU: (ciphertext, priv_params); DES input is zero-padded to 8 octets."""
        self.salt += 1
        if self.priv_alg == PRIV_DES:
            salt = (boots & 0xFFFFFFFF).to_bytes(4, "big") + (self.salt & 0xFFFFFFFF).to_bytes(4, "big")
            key, iv = usm.des_params(self.priv_key, salt)
            n = -len(plaintext) % 8
            pad = {"zero": bytes(n), "count": bytes([n]) * n, "ff": b"\xff" * n,
                   "random": bytes((17 * i + 91) % 251 + 1 for i in range(n))}[self.pad_style]
            return ossl.des_cbc_encrypt(key, iv, plaintext + pad), salt
        salt = self.salt.to_bytes(8, "big")
        return ossl.aes128_cfb_encrypt(self.priv_key, usm.aes_iv(boots, time, salt), plaintext), salt

    # -- requests -----------------------------------------------------
    def parse_request(self, datagram):
        """Decode a client message; adds auth_ok (None without auth flag), plaintext, padding and scoped fields."""
        d = ber.decode_message(datagram)
        if d["version"] != 3:
            raise ber.BerError("not a v3 message")
        d["auth_ok"] = None
        if d["flags"] & FLAG_AUTH:
            ok = len(d["auth_params"]) == 12 and bool(self.auth_alg)
            d["auth_ok"] = ok and usm.verify_auth(datagram, d["auth_params_offset"], self.auth_alg, self.auth_key)
        if d["encrypted"]:
            if not self.priv_alg:
                raise ber.BerError("encrypted message but agent has no privacy key")
            d["plaintext"] = self.decrypt(d["msgdata"], d["priv_params"], d["boots"], d["time"])
            sp = ber.decode_scoped(d["plaintext"], allow_padding=True)
            d["all_minimal"] = d["all_minimal"] and sp.pop("all_minimal")
            d.update(sp)
        return d

    # -- replies ------------------------------------------------------
    def build(self, pdu_tagno, request_id, msg_id, varbinds, error_status=0, error_index=0, auth=None, priv=None,
              reportable=False, auth_params=None, engine_id=None, boots=None, time=None, user=None,
              ctx_engine_id=None, ctx_name=b"", max_size=65507):
        """Build a v3 message; auth/priv default to the user's level, auth_params overrides the computed MAC."""
        auth = bool(self.auth_alg) if auth is None else auth
        priv = bool(self.priv_alg) if priv is None else priv
        engine_id = self.engine_id if engine_id is None else engine_id
        boots = self.boots if boots is None else boots
        time = self.time if time is None else time
        user = self.user if user is None else user
        ctx = engine_id if ctx_engine_id is None else ctx_engine_id
        data = ber.scoped_pdu(ctx, ctx_name, ber.pdu(pdu_tagno, request_id, error_status, error_index, varbinds))
        priv_params = b""
        if priv:
            ct, priv_params = self.encrypt(data, boots, time)
            data = ber.OCT(ct)
        flags = (FLAG_AUTH if auth else 0) | (FLAG_PRIV if priv else 0) | (FLAG_REPORTABLE if reportable else 0)
        mac = bytes(12) if auth else b""
        if auth_params is not None:
            mac = bytes(auth_params)
        msg = ber.msg_v3(msg_id, flags, engine_id, boots, time, user, mac, priv_params, data, max_size)
        if auth and auth_params is None:
            msg = usm.sign(msg, ber.decode_message(msg)["auth_params_offset"], self.auth_alg, self.auth_key)
        return msg

    def response(self, request_id, msg_id, varbinds, **kw):
        """GetResponse (0xa2) at the user's security level."""
        return self.build(2, request_id, msg_id, varbinds, **kw)

    def report(self, request_id, msg_id, varbinds=None, **kw):
        """Report (0xa8), by default unauthenticated usmStatsUnknownEngineIDs as in engine discovery."""
        kw.setdefault("auth", False)
        kw.setdefault("priv", False)
        if varbinds is None:
            varbinds = [ber.varbind(USM_STATS_UNKNOWN_ENGINE_IDS, ber.UINT(0x41, 1))]
        return self.build(8, request_id, msg_id, varbinds, **kw)

    def reply_to(self, req, varbinds, **kw):
        """Response to a parsed request dict (takes request_id and msg_id from it)."""
        return self.response(req["request_id"], req["msg_id"], varbinds, **kw)
