"""ctypes wrappers over OpenSSL 3 libcrypto: DES-CBC (legacy provider) and AES-128-CFB128, no padding."""

import ctypes
import ctypes.util
from ctypes import POINTER, byref, c_char_p, c_int, c_void_p, create_string_buffer

_lib = ctypes.CDLL(ctypes.util.find_library("crypto") or "libcrypto.so.3")


def _proto(name, restype, *argtypes):
    """Declare argtypes/restype of a libcrypto function and return it."""
    f = getattr(_lib, name)
    f.restype, f.argtypes = restype, list(argtypes)
    return f


_provider_load = _proto("OSSL_PROVIDER_load", c_void_p, c_void_p, c_char_p)
_cipher_fetch = _proto("EVP_CIPHER_fetch", c_void_p, c_void_p, c_char_p, c_char_p)
_ctx_new = _proto("EVP_CIPHER_CTX_new", c_void_p)
_ctx_free = _proto("EVP_CIPHER_CTX_free", None, c_void_p)
_init = _proto("EVP_CipherInit_ex", c_int, c_void_p, c_void_p, c_void_p, c_char_p, c_char_p, c_int)
_set_padding = _proto("EVP_CIPHER_CTX_set_padding", c_int, c_void_p, c_int)
_update = _proto("EVP_CipherUpdate", c_int, c_void_p, c_char_p, POINTER(c_int), c_char_p, c_int)
_final = _proto("EVP_CipherFinal_ex", c_int, c_void_p, c_char_p, POINTER(c_int))


class OsslError(RuntimeError):
    """An OpenSSL call failed."""


_PROVIDERS = [_provider_load(None, b"legacy"), _provider_load(None, b"default")]
if not all(_PROVIDERS):
    raise OsslError("cannot load OpenSSL legacy/default providers")
_CIPHERS = {}


def _cipher(name):
    """Fetch (and cache) an EVP_CIPHER by name."""
    if name not in _CIPHERS:
        c = _cipher_fetch(None, name, None)
        if not c:
            raise OsslError("cipher %r unavailable" % name)
        _CIPHERS[name] = c
    return _CIPHERS[name]


def _crypt(name, key, iv, data, enc, keylen, ivlen, block):
    """Run one whole-message cipher operation without padding."""
    key, iv, data = bytes(key), bytes(iv), bytes(data)
    if len(key) != keylen or len(iv) != ivlen:
        raise ValueError("%s needs a %d-octet key and %d-octet iv" % (name.decode(), keylen, ivlen))
    if block and len(data) % block:
        raise ValueError("%s without padding needs a multiple of %d octets" % (name.decode(), block))
    ctx = _ctx_new()
    if not ctx:
        raise OsslError("EVP_CIPHER_CTX_new failed")
    try:
        if _init(ctx, _cipher(name), None, key, iv, 1 if enc else 0) != 1:
            raise OsslError("EVP_CipherInit_ex failed")
        _set_padding(ctx, 0)
        out = create_string_buffer(len(data) + 32)
        n1, n2 = c_int(0), c_int(0)
        if _update(ctx, out, byref(n1), data, len(data)) != 1:
            raise OsslError("EVP_CipherUpdate failed")
        tail = create_string_buffer(32)
        if _final(ctx, tail, byref(n2)) != 1:
            raise OsslError("EVP_CipherFinal_ex failed")
        return out.raw[:n1.value] + tail.raw[:n2.value]
    finally:
        _ctx_free(ctx)


def des_cbc_encrypt(key8, iv8, data):
    """DES-CBC encrypt, no padding (len(data) % 8 == 0)."""
    return _crypt(b"DES-CBC", key8, iv8, data, True, 8, 8, 8)


def des_cbc_decrypt(key8, iv8, data):
    """DES-CBC decrypt, no padding (len(data) % 8 == 0)."""
    return _crypt(b"DES-CBC", key8, iv8, data, False, 8, 8, 8)


def aes128_cfb_encrypt(key16, iv16, data):
    """AES-128-CFB128 encrypt, any length."""
    return _crypt(b"AES-128-CFB", key16, iv16, data, True, 16, 16, 0)


def aes128_cfb_decrypt(key16, iv16, data):
    """AES-128-CFB128 decrypt, any length."""
    return _crypt(b"AES-128-CFB", key16, iv16, data, False, 16, 16, 0)


def _cli(args, data):
    """Run `openssl enc` with the legacy+default providers on data."""
    import subprocess

    cmd = ["openssl", "enc", "-provider", "legacy", "-provider", "default"] + args
    return subprocess.run(cmd, input=data, stdout=subprocess.PIPE, stderr=subprocess.PIPE, check=True).stdout


def selftest(rounds=8, seed=20260930):
    """Known-answer vectors plus cross-checks against the openssl CLI; returns list of (name, ok)."""
    import random

    res = []
    pt = b"0123456789abcdef"
    k8, z8 = bytes.fromhex("0123456789abcdef"), bytes(8)
    k16, z16 = bytes(range(16)), bytes(16)
    c = des_cbc_encrypt(k8, z8, pt)
    res.append(("des-cbc KAT", c.hex() == "fece28f58618b10a3f37f37eb24e6d98" and des_cbc_decrypt(k8, z8, c) == pt))
    c = aes128_cfb_encrypt(k16, z16, pt)
    res.append(("aes-128-cfb KAT", c.hex() == "f6900904b3ba6db55776e000c2acbd1f" and aes128_cfb_decrypt(k16, z16, c) == pt))
    rng = random.Random(seed)
    ok_des = ok_aes = True
    for _ in range(rounds):
        key, iv = rng.randbytes(8), rng.randbytes(8)
        data = rng.randbytes(8 * rng.randrange(1, 20))
        ct = des_cbc_encrypt(key, iv, data)
        ref = _cli(["-des-cbc", "-K", key.hex(), "-iv", iv.hex(), "-nopad"], data)
        ok_des &= ct == ref and des_cbc_decrypt(key, iv, ct) == data
        key, iv = rng.randbytes(16), rng.randbytes(16)
        data = rng.randbytes(rng.randrange(0, 200))
        ct = aes128_cfb_encrypt(key, iv, data)
        ref = _cli(["-aes-128-cfb", "-K", key.hex(), "-iv", iv.hex()], data)
        ok_aes &= ct == ref and aes128_cfb_decrypt(key, iv, ct) == data
    res.append(("des-cbc vs openssl CLI x%d" % rounds, ok_des))
    res.append(("aes-128-cfb vs openssl CLI x%d" % rounds, ok_aes))
    return res


if __name__ == "__main__":
    for name, ok in selftest():
        print("%s %s" % ("PASS" if ok else "FAIL", name))
