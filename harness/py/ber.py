"""Independent BER / SNMP v1, v2c, v3 codec (X.690, RFC 1157/3416/3412/3414); shares no code with /repo."""


class BerError(ValueError):
    """Malformed BER or SNMP structure."""


# ---------------------------------------------------------------- encoder


def enc_len(n, lenform=None):
    """Length octets for n: minimal when lenform is None, else long form with lenform octets (0 = short)."""
    if lenform is None:
        if n < 128:
            return bytes([n])
        b = n.to_bytes((n.bit_length() + 7) // 8, "big")
        return bytes([0x80 | len(b)]) + b
    if lenform == 0:
        if n >= 128:
            raise ValueError("short form needs length < 128")
        return bytes([n])
    if not 1 <= lenform <= 126:
        raise ValueError("lenform out of range")
    return bytes([0x80 | lenform]) + n.to_bytes(lenform, "big")


def tlv(tag, content, lenform=None):
    """One TLV; tag is a tag octet (int) or raw identifier octets (bytes)."""
    t = bytes([tag]) if isinstance(tag, int) else bytes(tag)
    return t + enc_len(len(content), lenform) + bytes(content)


def int_content(v):
    """Minimal two's-complement content octets of v."""
    n = (v if v >= 0 else ~v).bit_length() // 8 + 1
    return v.to_bytes(n, "big", signed=True)


NINE = set()     # values to write as nine content octets 01 xx*8 (= 2^64 + v: not the value, and out of range)


def INT(v, pad=0):
    """INTEGER (tag 0x02), minimal plus `pad` redundant sign-extension octets."""
    if v in NINE and 0 <= v < 2 ** 64:
        return tlv(0x02, b"\x01" + v.to_bytes(8, "big"))
    c = int_content(v)
    return tlv(0x02, (b"\xff" if v < 0 else b"\x00") * pad + c)


def uint_content(v, pad=0):
    """Minimal unsigned content (leading 0x00 when the top bit is set) plus `pad` extra zero octets."""
    if v < 0:
        raise ValueError("unsigned value expected")
    c = v.to_bytes(max(1, (v.bit_length() + 7) // 8), "big")
    if c[0] & 0x80:
        c = b"\x00" + c
    return b"\x00" * pad + c


def UINT(tagbyte, v, pad=0):
    """Application unsigned: Counter32 0x41, Gauge32 0x42, TimeTicks 0x43, Opaque 0x44, Counter64 0x46, UInteger32 0x47."""
    return tlv(tagbyte, uint_content(v, pad))


def OCT(b):
    """OCTET STRING."""
    return tlv(0x04, bytes(b))


NULL = b"\x05\x00"
NOSUCHOBJECT = b"\x80\x00"
NOSUCHINSTANCE = b"\x81\x00"
ENDOFMIBVIEW = b"\x82\x00"


def base128(n):
    """Minimal base-128 sub-identifier octets."""
    if n < 0:
        raise ValueError("negative arc")
    out = [n & 0x7F]
    n >>= 7
    while n:
        out.append(0x80 | (n & 0x7F))
        n >>= 7
    return bytes(reversed(out))


def _arcs(x):
    """Arcs from a dotted string or an iterable of ints."""
    if isinstance(x, str):
        return tuple(int(p) for p in x.strip(".").split(".")) if x.strip(".") else ()
    return tuple(int(a) for a in x)


def oid_content(arcs):
    """OID content octets: first sub-identifier is 40*a+b (X.690 8.19); () gives empty content."""
    a = _arcs(arcs)
    if not a:
        return b""
    if len(a) < 2 or a[0] > 2 or (a[0] < 2 and a[1] > 39):
        raise ValueError("not an encodable OID: %r" % (a,))
    return base128(40 * a[0] + a[1]) + b"".join(base128(x) for x in a[2:])


def OID(arcs_or_dotted):
    """OBJECT IDENTIFIER."""
    return tlv(0x06, oid_content(arcs_or_dotted))


def IPADDR(a, b, c, d):
    """IpAddress (0x40)."""
    return tlv(0x40, bytes([a, b, c, d]))


def BOOL(v):
    """BOOLEAN; True is 0xff, an int 0..255 is used verbatim."""
    return tlv(0x01, bytes([0xFF if v is True else int(v)]))


_REAL_SPECIAL = {"inf": 0x40, "+inf": 0x40, "-inf": 0x41, "nan": 0x42, "-0": 0x43}


def REAL_special(kind):
    """REAL special value: 'inf', '-inf', 'nan', '-0' (or a raw octet)."""
    return tlv(0x09, bytes([_REAL_SPECIAL[kind] if isinstance(kind, str) else kind]))


def REAL_decimal(nr, text):
    """REAL in ISO 6093 decimal form NR1/NR2/NR3 (nr = 1, 2, 3) with the given ASCII text."""
    t = text.encode("ascii") if isinstance(text, str) else bytes(text)
    return tlv(0x09, bytes([nr]) + t)


def REAL_binary(sign, base, scale, exponent, mantissa, explen=None):
    """REAL binary form: (-1)^sign * mantissa * 2^scale * base^exponent, base in 2/8/16, scale 0..3."""
    e = int_content(exponent)
    if explen is not None:
        e = exponent.to_bytes(explen, "big", signed=True)
    first = 0x80 | (sign << 6) | ({2: 0, 8: 1, 16: 2}[base] << 4) | (scale << 2)
    if len(e) <= 3:
        head = bytes([first | (len(e) - 1)])
    else:
        head = bytes([first | 3, len(e)])
    n = mantissa.to_bytes(max(1, (mantissa.bit_length() + 7) // 8), "big")
    return tlv(0x09, head + e + n)


REAL_ZERO = b"\x09\x00"


def SEQ(*items):
    """SEQUENCE of already-encoded items."""
    return tlv(0x30, b"".join(items))


def varbind(oid, value_bytes=NULL):
    """VarBind: SEQUENCE { name OID, value }."""
    return SEQ(OID(oid), value_bytes)


def pdu(tagno, request_id, error_status, error_index, varbinds):
    """PDU with tag 0xa0|tagno (2 Response, 8 Report; for GetBulk the two ints are non-repeaters / max-repetitions)."""
    return tlv(0xA0 | tagno, INT(request_id) + INT(error_status) + INT(error_index) + SEQ(*varbinds))


def _community_msg(version, community, pdu_bytes):
    """Message ::= SEQUENCE { version, community, data }."""
    c = community.encode() if isinstance(community, str) else bytes(community)
    return SEQ(INT(version), OCT(c), pdu_bytes)


def msg_v1(community, pdu_bytes):
    """SNMPv1 message (version 0)."""
    return _community_msg(0, community, pdu_bytes)


def msg_v2c(community, pdu_bytes):
    """SNMPv2c message (version 1)."""
    return _community_msg(1, community, pdu_bytes)


def _b(x):
    """str -> utf-8 bytes, bytes unchanged."""
    return x.encode() if isinstance(x, str) else bytes(x)


def usm_params(engine_id, boots, time, user, auth_params, priv_params):
    """UsmSecurityParameters SEQUENCE (not yet wrapped in its OCTET STRING)."""
    return SEQ(OCT(engine_id), INT(boots), INT(time), OCT(_b(user)), OCT(auth_params), OCT(priv_params))


def msg_v3(msg_id, flags, engine_id, boots, time, user, auth_params, priv_params, msgdata_bytes,
           max_size=65507, security_model=3):
    """SNMPv3 message; msgdata_bytes is an encoded scoped PDU or OCT(ciphertext)."""
    header = SEQ(INT(msg_id), INT(max_size), OCT(bytes([flags])), INT(security_model))
    usm = OCT(usm_params(engine_id, boots, time, user, auth_params, priv_params))
    return SEQ(INT(3), header, usm, msgdata_bytes)


def scoped_pdu(ctx_engine_id, ctx_name, pdu_bytes):
    """ScopedPDU ::= SEQUENCE { contextEngineID, contextName, data }."""
    return SEQ(OCT(ctx_engine_id), OCT(_b(ctx_name)), pdu_bytes)


# ---------------------------------------------------------------- strict decoder


def parse_tlv(buf, off=0, limit=None):
    """Parse one definite-length, single-octet-tag TLV at off (within buf[:limit]): (tag_byte, content, end, minimal)."""
    n = len(buf) if limit is None else limit
    if off >= n:
        raise BerError("truncated: no tag at %d" % off)
    tag = buf[off]
    if tag & 0x1F == 0x1F:
        raise BerError("high-tag-number form at %d" % off)
    if off + 1 >= n:
        raise BerError("truncated: no length at %d" % off)
    first = buf[off + 1]
    pos = off + 2
    minimal = True
    if first < 0x80:
        length = first
    elif first == 0x80:
        raise BerError("indefinite length at %d" % off)
    elif first == 0xFF:
        raise BerError("reserved length octet 0xff at %d" % off)
    else:
        k = first & 0x7F
        if pos + k > n:
            raise BerError("truncated length octets at %d" % off)
        length = int.from_bytes(buf[pos:pos + k], "big")
        minimal = buf[pos] != 0 and length >= 128
        pos += k
    end = pos + length
    if end > n:
        raise BerError("truncated: element at %d runs to %d past %d" % (off, end, n))
    return tag, bytes(buf[pos:end]), end, minimal


def parse_all(content):
    """Split content into consecutive TLVs: list of (tag, content, minimal); no trailing garbage allowed."""
    out, off = [], 0
    while off < len(content):
        tag, c, off, m = parse_tlv(content, off)
        out.append((tag, c, m))
    return out


def int_value(content):
    """(value, minimal) of INTEGER content octets."""
    if not content:
        raise BerError("empty INTEGER")
    minimal = len(content) == 1 or not (
        (content[0] == 0x00 and content[1] < 0x80) or (content[0] == 0xFF and content[1] >= 0x80))
    return int.from_bytes(content, "big", signed=True), minimal


def oid_decode(content):
    """(arcs, minimal) of OID content; minimal = no sub-identifier starts with 0x80."""
    if not content:
        raise BerError("empty OBJECT IDENTIFIER")
    if content[-1] & 0x80:
        raise BerError("truncated sub-identifier")
    subs, cur, minimal, start = [], 0, True, True
    for o in content:
        if start and o == 0x80:
            minimal = False
        cur = (cur << 7) | (o & 0x7F)
        start = not (o & 0x80)
        if start:
            subs.append(cur)
            cur = 0
    x = subs[0]
    head = (0, x) if x < 40 else (1, x - 40) if x < 80 else (2, x - 80)
    return head + tuple(subs[1:]), minimal


def oid_arcs(content):
    """Arcs tuple of OID content octets."""
    return oid_decode(content)[0]


def dotted(arcs):
    """Dotted-decimal text of an arcs tuple."""
    return ".".join(str(a) for a in arcs)


class _Rd:
    """Cursor over buf[pos:end] with absolute offsets; records non-minimal encodings in flags['min']."""

    def __init__(self, buf, pos, end, flags):
        self.buf, self.pos, self.end, self.flags = buf, pos, end, flags

    def next(self, expect=None, what=""):
        """Read one TLV inside the window: (tag, content_start, content_end)."""
        if self.pos >= self.end:
            raise BerError("missing %s" % (what or "element"))
        tag, content, end, minimal = parse_tlv(self.buf, self.pos, self.end)
        if expect is not None and tag != expect:
            raise BerError("%s: tag 0x%02x, expected 0x%02x" % (what, tag, expect))
        if not minimal:
            self.flags["min"] = False
        self.pos = end
        return tag, end - len(content), end

    def sub(self, expect, what):
        """Read a constructed TLV and return a reader over its content."""
        _, s, e = self.next(expect, what)
        return _Rd(self.buf, s, e, self.flags)

    def integer(self, what):
        """Read an INTEGER value."""
        _, s, e = self.next(0x02, what)
        v, m = int_value(self.buf[s:e])
        if not m:
            self.flags["min"] = False
        return v

    def octets(self, what):
        """Read an OCTET STRING: (bytes, absolute content offset)."""
        _, s, e = self.next(0x04, what)
        return bytes(self.buf[s:e]), s

    def done(self, what):
        """Require the window to be fully consumed."""
        if self.pos != self.end:
            raise BerError("trailing bytes in %s" % what)


def _decode_pdu(rd, out):
    """Decode a PDU at the cursor into out."""
    if rd.pos >= rd.end:
        raise BerError("missing PDU")
    tag = rd.buf[rd.pos]
    if tag & 0xE0 != 0xA0 or tag == 0xA4:
        raise BerError("not a supported PDU tag: 0x%02x" % tag)
    p = rd.sub(tag, "PDU")
    out["pdu_type"] = tag & 0x1F
    out["request_id"] = p.integer("request-id")
    a, b = p.integer("error-status"), p.integer("error-index")
    if out["pdu_type"] == 5:
        out["non_repeaters"], out["max_repetitions"] = a, b
    else:
        out["error_status"], out["error_index"] = a, b
    vbl = p.sub(0x30, "varbind list")
    p.done("PDU")
    vbs = []
    while vbl.pos < vbl.end:
        vb = vbl.sub(0x30, "varbind")
        _, s, e = vb.next(0x06, "varbind name")
        arcs, m = oid_decode(rd.buf[s:e])
        if not m:
            rd.flags["min"] = False
        vtag, s, e = vb.next(None, "varbind value")
        if vtag == 0x02 and not int_value(rd.buf[s:e])[1]:
            rd.flags["min"] = False
        if vtag == 0x06 and not oid_decode(rd.buf[s:e])[1]:
            rd.flags["min"] = False
        vb.done("varbind")
        vbs.append((arcs, vtag, bytes(rd.buf[s:e])))
    out["varbinds"] = vbs


def _decode_scoped(rd, out):
    """Decode a ScopedPDU SEQUENCE at the cursor into out."""
    sp = rd.sub(0x30, "scoped PDU")
    out["ctx_engine_id"] = sp.octets("contextEngineID")[0]
    out["ctx_name"] = sp.octets("contextName")[0]
    _decode_pdu(sp, out)
    sp.done("scoped PDU")


def decode_scoped(data, allow_padding=True):
    """Decode a (decrypted) scoped PDU; bytes after the SEQUENCE are returned as 'padding'."""
    data = bytes(data)
    flags = {"min": True}
    rd = _Rd(data, 0, len(data), flags)
    out = {}
    _decode_scoped(rd, out)
    out["padding"] = data[rd.pos:]
    out["scoped_raw"] = data[:rd.pos]
    if out["padding"] and not allow_padding:
        raise BerError("trailing bytes after scoped PDU")
    out["all_minimal"] = flags["min"]
    return out


def _decode_v3(m, out):
    """Decode the v3 part of a message (after the version) into out."""
    h = m.sub(0x30, "msgGlobalData")
    out["msg_id"] = h.integer("msgID")
    out["max_size"] = h.integer("msgMaxSize")
    fl, _ = h.octets("msgFlags")
    if len(fl) != 1:
        raise BerError("msgFlags must be one octet")
    out["flags"] = fl[0]
    out["security_model"] = h.integer("msgSecurityModel")
    h.done("msgGlobalData")
    _, s, e = m.next(0x04, "msgSecurityParameters")
    u = _Rd(m.buf, s, e, m.flags).sub(0x30, "UsmSecurityParameters")
    if u.end != e:
        raise BerError("trailing bytes in msgSecurityParameters")
    out["engine_id"] = u.octets("msgAuthoritativeEngineID")[0]
    out["boots"] = u.integer("msgAuthoritativeEngineBoots")
    out["time"] = u.integer("msgAuthoritativeEngineTime")
    out["user"] = u.octets("msgUserName")[0]
    out["auth_params"], out["auth_params_offset"] = u.octets("msgAuthenticationParameters")
    out["priv_params"] = u.octets("msgPrivacyParameters")[0]
    u.done("UsmSecurityParameters")
    if m.pos >= m.end:
        raise BerError("missing msgData")
    out["encrypted"] = m.buf[m.pos] == 0x04
    if out["encrypted"] != bool(out["flags"] & 2):
        raise BerError("priv flag does not match msgData form")
    if out["encrypted"]:
        out["msgdata"] = m.octets("encryptedPDU")[0]
    else:
        _decode_scoped(m, out)


def decode_message(datagram):
    """Strictly decode a whole v1/v2c/v3 SNMP message into a dict (see module docs); BerError if malformed."""
    buf = bytes(datagram)
    flags = {"min": True}
    top = _Rd(buf, 0, len(buf), flags)
    m = top.sub(0x30, "message")
    top.done("datagram")
    out = {}
    ver = m.integer("version")
    out["version"] = ver
    if ver in (0, 1):
        out["community"] = m.octets("community")[0]
        _decode_pdu(m, out)
    elif ver == 3:
        _decode_v3(m, out)
    else:
        raise BerError("unknown version %d" % ver)
    m.done("message")
    out["all_minimal"] = flags["min"]
    return out
