fn main() {
    gufo_snmp::verif_harness::main()
}
