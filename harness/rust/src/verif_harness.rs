//! `gsv` verification harness: line protocol of /verif/harness/PROTOCOL.md.
//!
//! This file is compiled as a module *inside* the gufo_snmp crate (see build.sh), so it can
//! reach `pub(crate)` items and the crate-private modules `privacy` and `util`.
#![warn(unused)]

use crate::auth::{AuthKey, SnmpAuth};
use crate::ber::{
    BerClass, BerDecoder, BerEncoder, BerHeader, SnmpBool, SnmpCounter32, SnmpCounter64,
    SnmpGauge32, SnmpInt, SnmpIpAddress, SnmpNull, SnmpObjectDescriptor, SnmpOctetString, SnmpOid,
    SnmpOpaque, SnmpOption, SnmpReal, SnmpRelativeOid, SnmpSequence, SnmpTimeTicks, SnmpUInteger32,
};
use crate::buf::Buffer;
use crate::error::{SnmpError, SnmpResult};
use crate::privacy::{PrivKey, SnmpPriv};
use crate::snmp::get::SnmpGet;
use crate::snmp::getbulk::SnmpGetBulk;
use crate::snmp::msg::v3::{MsgData, ScopedPdu, UsmParameters};
use crate::snmp::msg::{SnmpPdu, SnmpV1Message, SnmpV2cMessage, SnmpV3Message};
use crate::snmp::op::{GetIter, OpGet, OpGetBulk, OpGetMany, OpGetNext, OpRefresh, PyOp};
use crate::snmp::value::SnmpValue;
use pyo3::prelude::*;
use pyo3::types::PyBytes;
use std::fmt::Write as _;
use std::io::{BufRead, Write};
use std::panic::{AssertUnwindSafe, catch_unwind};
use std::str::FromStr;

// ---------------------------------------------------------------------------
// Control flow: a handler returns the response line, or stops early with
// either `bad-op` (request malformed) or a complete line (`err X`, `pyerr X`).
// ---------------------------------------------------------------------------

enum Stop {
    Bad,
    Out(String),
}

type R<T = String> = Result<T, Stop>;

impl From<SnmpError> for Stop {
    fn from(e: SnmpError) -> Stop {
        Stop::Out(format!("err {}", err_name(&e)))
    }
}

impl From<nom::Err<SnmpError>> for Stop {
    fn from(e: nom::Err<SnmpError>) -> Stop {
        Stop::from(SnmpError::from(e))
    }
}

fn err_name(e: &SnmpError) -> &'static str {
    #[allow(unreachable_patterns)]
    match e {
        SnmpError::Incomplete => "Incomplete",
        SnmpError::UnexpectedTag => "UnexpectedTag",
        SnmpError::InvalidTagFormat => "InvalidTagFormat",
        SnmpError::UnknownPdu => "UnknownPdu",
        SnmpError::InvalidPdu => "InvalidPdu",
        SnmpError::InvalidData => "InvalidData",
        SnmpError::InvalidKey => "InvalidKey",
        SnmpError::UnsupportedTag(_) => "UnsupportedTag",
        SnmpError::TrailingData => "TrailingData",
        SnmpError::InvalidVersion(_) => "InvalidVersion",
        SnmpError::OutOfBuffer => "OutOfBuffer",
        SnmpError::NotImplemented => "NotImplemented",
        SnmpError::NoSuchInstance => "NoSuchInstance",
        SnmpError::SocketError(_) => "SocketError",
        SnmpError::WouldBlock => "WouldBlock",
        SnmpError::ConnectionRefused => "ConnectionRefused",
        SnmpError::UnknownSecurityModel => "UnknownSecurityModel",
        SnmpError::AuthenticationFailed => "AuthenticationFailed",
        _ => "Other",
    }
}

// ---------------------------------------------------------------------------
// Adapter for APIs whose signature is expected to change (see task notes).
// ---------------------------------------------------------------------------

/// `AuthKey::{as_localized, as_master, as_password, password_to_master, localize}` return `()`
/// today and may return `SnmpResult<()>` later.
trait IntoUnitResult {
    fn into_unit_result(self) -> SnmpResult<()>;
}
impl IntoUnitResult for () {
    fn into_unit_result(self) -> SnmpResult<()> {
        Ok(())
    }
}
impl IntoUnitResult for SnmpResult<()> {
    fn into_unit_result(self) -> SnmpResult<()> {
        self
    }
}

// ---------------------------------------------------------------------------
// Encoding helpers
// ---------------------------------------------------------------------------

const HEXDIGITS: &[u8; 16] = b"0123456789abcdef";

fn hex(out: &mut String, data: &[u8]) {
    if data.is_empty() {
        out.push('-');
        return;
    }
    out.reserve(data.len() * 2);
    for &b in data {
        out.push(HEXDIGITS[(b >> 4) as usize] as char);
        out.push(HEXDIGITS[(b & 15) as usize] as char);
    }
}

fn nibble(c: u8) -> R<u8> {
    match c {
        b'0'..=b'9' => Ok(c - b'0'),
        b'a'..=b'f' => Ok(c - b'a' + 10),
        b'A'..=b'F' => Ok(c - b'A' + 10),
        _ => Err(Stop::Bad),
    }
}

fn unhex(s: &str) -> R<Vec<u8>> {
    if s == "-" {
        return Ok(Vec::new());
    }
    let b = s.as_bytes();
    if b.is_empty() || b.len() % 2 != 0 {
        return Err(Stop::Bad);
    }
    let mut v = Vec::with_capacity(b.len() / 2);
    for p in b.chunks_exact(2) {
        v.push((nibble(p[0])? << 4) | nibble(p[1])?);
    }
    Ok(v)
}

/// Decimal number; optional leading `-` (only meaningful for signed `T`), no `+`, no blanks.
fn num<T: FromStr>(s: &str) -> R<T> {
    let digits = s.strip_prefix('-').unwrap_or(s);
    if digits.is_empty() || !digits.bytes().all(|c| c.is_ascii_digit()) {
        return Err(Stop::Bad);
    }
    s.parse::<T>().map_err(|_| Stop::Bad)
}

fn utf8(v: Vec<u8>) -> R<String> {
    String::from_utf8(v).map_err(|_| Stop::Bad)
}

/// `LIST(x)`: `-` is the empty list, otherwise items joined with `,`.
fn list(s: &str) -> Vec<&str> {
    if s == "-" {
        Vec::new()
    } else {
        s.split(',').collect()
    }
}

fn hex_list(s: &str) -> R<Vec<Vec<u8>>> {
    list(s).into_iter().map(unhex).collect()
}

struct Fields<'a>(std::str::Split<'a, char>);

impl<'a> Fields<'a> {
    fn s(&mut self) -> R<&'a str> {
        self.0.next().ok_or(Stop::Bad)
    }
    fn hex(&mut self) -> R<Vec<u8>> {
        unhex(self.s()?)
    }
    fn num<T: FromStr>(&mut self) -> R<T> {
        num(self.s()?)
    }
    fn flag(&mut self) -> R<bool> {
        match self.s()? {
            "0" => Ok(false),
            "1" => Ok(true),
            _ => Err(Stop::Bad),
        }
    }
    fn end(&mut self) -> R<()> {
        match self.0.next() {
            None => Ok(()),
            Some(_) => Err(Stop::Bad),
        }
    }
}

// ---------------------------------------------------------------------------
// Rendering
// ---------------------------------------------------------------------------

fn render_f64(out: &mut String, v: f64) {
    if v.is_nan() {
        out.push_str("nan");
    } else {
        let _ = write!(out, "{:016x}", v.to_bits());
    }
}

fn tagged_hex(out: &mut String, name: &str, data: &[u8]) {
    out.push_str(name);
    hex(out, data);
}

fn render_value(out: &mut String, v: SnmpValue) {
    match v {
        SnmpValue::Bool(x) => {
            let b: bool = x.into();
            let _ = write!(out, "bool:{}", b);
        }
        SnmpValue::Int(x) => {
            let i: i64 = x.into();
            let _ = write!(out, "int:{}", i);
        }
        SnmpValue::Null => out.push_str("null"),
        SnmpValue::OctetString(x) => tagged_hex(out, "octets:", x.0),
        SnmpValue::Oid(x) => tagged_hex(out, "oid:", &x.0),
        SnmpValue::ObjectDescriptor(x) => tagged_hex(out, "objdesc:", x.0),
        SnmpValue::Real(x) => {
            out.push_str("real:");
            render_f64(out, x.into());
        }
        SnmpValue::IpAddress(x) => {
            let s: String = (&x).into();
            let _ = write!(out, "ipaddr:{}", s);
        }
        SnmpValue::Counter32(x) => {
            let _ = write!(out, "counter32:{}", x.0);
        }
        SnmpValue::Gauge32(x) => {
            let _ = write!(out, "gauge32:{}", x.0);
        }
        SnmpValue::TimeTicks(x) => {
            let _ = write!(out, "timeticks:{}", x.0);
        }
        SnmpValue::Opaque(x) => tagged_hex(out, "opaque:", x.0),
        SnmpValue::Counter64(x) => {
            let _ = write!(out, "counter64:{}", x.0);
        }
        SnmpValue::UInteger32(x) => {
            let _ = write!(out, "uinteger32:{}", x.0);
        }
        SnmpValue::NoSuchObject => out.push_str("nosuchobject"),
        SnmpValue::NoSuchInstance => out.push_str("nosuchinstance"),
        SnmpValue::EndOfMibView => out.push_str("endofmibview"),
    }
}

fn render_oids(out: &mut String, oids: &[SnmpOid]) {
    if oids.is_empty() {
        out.push('-');
    }
    for (n, oid) in oids.iter().enumerate() {
        if n > 0 {
            out.push(',');
        }
        hex(out, &oid.0);
    }
}

fn render_pdu(out: &mut String, pdu: SnmpPdu) {
    match pdu {
        SnmpPdu::GetRequest(g) => {
            let _ = write!(out, "get {} ", g.request_id);
            render_oids(out, &g.vars);
        }
        SnmpPdu::GetNextRequest(g) => {
            let _ = write!(out, "getnext {} ", g.request_id);
            render_oids(out, &g.vars);
        }
        SnmpPdu::GetBulkRequest(g) => {
            let _ = write!(
                out,
                "getbulk {} {} {} ",
                g.request_id, g.non_repeaters, g.max_repetitions
            );
            render_oids(out, &g.vars);
        }
        SnmpPdu::GetResponse(r) => {
            let _ = write!(
                out,
                "response {} {} {} ",
                r.request_id, r.error_status, r.error_index
            );
            if r.vars.is_empty() {
                out.push('-');
            }
            for (n, var) in r.vars.into_iter().enumerate() {
                if n > 0 {
                    out.push(',');
                }
                hex(out, &var.oid.0);
                out.push('=');
                render_value(out, var.value);
            }
        }
        SnmpPdu::Report(r) => {
            out.push_str("report ");
            hex(out, r.0);
        }
    }
}

fn render_usm(out: &mut String, u: &UsmParameters) {
    hex(out, u.engine_id);
    let _ = write!(out, " {} {} ", u.engine_boots, u.engine_time);
    hex(out, u.user_name);
    out.push(' ');
    hex(out, u.auth_params);
    out.push(' ');
    hex(out, u.privacy_params);
}

fn render_scoped(out: &mut String, s: ScopedPdu) {
    hex(out, s.engine_id);
    out.push(' ');
    render_pdu(out, s.pdu);
}

fn render_msgdata(out: &mut String, d: MsgData) {
    match d {
        MsgData::Plaintext(s) => {
            out.push_str("plain ");
            render_scoped(out, s);
        }
        MsgData::Encrypted(x) => {
            out.push_str("enc ");
            hex(out, x);
        }
    }
}

fn ok_hex(data: &[u8]) -> String {
    let mut out = String::with_capacity(4 + data.len() * 2);
    out.push_str("ok ");
    hex(&mut out, data);
    out
}

// ---------------------------------------------------------------------------
// REQ parsing (request PDUs for the encoders)
// ---------------------------------------------------------------------------

fn owned_oids(s: &str) -> R<Vec<SnmpOid<'static>>> {
    Ok(hex_list(s)?.into_iter().map(SnmpOid::from).collect())
}

/// `REQ = get INT OIDS | getnext INT OIDS | getbulk INT INT INT OIDS`
fn parse_req(f: &mut Fields) -> R<SnmpPdu<'static>> {
    Ok(match f.s()? {
        "get" => {
            let request_id = f.num::<i64>()?;
            let vars = owned_oids(f.s()?)?;
            SnmpPdu::GetRequest(SnmpGet { request_id, vars })
        }
        "getnext" => {
            let request_id = f.num::<i64>()?;
            let vars = owned_oids(f.s()?)?;
            SnmpPdu::GetNextRequest(SnmpGet { request_id, vars })
        }
        "getbulk" => {
            let request_id = f.num::<i64>()?;
            let non_repeaters = f.num::<i64>()?;
            let max_repetitions = f.num::<i64>()?;
            let vars = owned_oids(f.s()?)?;
            SnmpPdu::GetBulkRequest(SnmpGetBulk {
                request_id,
                non_repeaters,
                max_repetitions,
                vars,
            })
        }
        _ => return Err(Stop::Bad),
    })
}

// ---------------------------------------------------------------------------
// BER layer
// ---------------------------------------------------------------------------

fn op_hdr(f: &mut Fields) -> R {
    let data = f.hex()?;
    f.end()?;
    let (tail, h) = BerHeader::from_ber(&data)?;
    let class = match h.class {
        BerClass::Universal => 0,
        BerClass::Application => 1,
        BerClass::Context => 2,
        BerClass::Private => 3,
    };
    let mut out = String::new();
    let _ = write!(
        out,
        "ok {} {} {} {} ",
        class, h.constructed as u8, h.tag, h.length
    );
    hex(&mut out, tail);
    Ok(out)
}

fn ber_with<'a, T: BerDecoder<'a>>(data: &'a [u8], render: impl FnOnce(&mut String, T)) -> R {
    let (rest, v) = T::from_ber(data)?;
    let mut out = String::from("ok ");
    render(&mut out, v);
    out.push(' ');
    hex(&mut out, rest);
    Ok(out)
}

/// The content field of `SnmpRelativeOid` is private to its module; recover it from `Debug`
/// (`SnmpRelativeOid([1, 2, 3])`).
fn reloid_content(v: &SnmpRelativeOid) -> Vec<u8> {
    let s = format!("{:?}", v);
    let inner = match (s.find('['), s.rfind(']')) {
        (Some(a), Some(b)) if a < b => &s[a + 1..b],
        _ => panic!("harness: unexpected SnmpRelativeOid debug format"),
    };
    inner
        .split(',')
        .map(|x| x.trim())
        .filter(|x| !x.is_empty())
        .map(|x| x.parse::<u8>().expect("harness: reloid debug octet"))
        .collect()
}

fn op_ber(f: &mut Fields) -> R {
    let ty = f.s()?;
    let data = f.hex()?;
    f.end()?;
    let d: &[u8] = &data;
    match ty {
        "int" => ber_with::<SnmpInt>(d, |o, v| {
            let i: i64 = v.into();
            let _ = write!(o, "{}", i);
        }),
        "bool" => ber_with::<SnmpBool>(d, |o, v| {
            let b: bool = v.into();
            let _ = write!(o, "{}", b);
        }),
        "null" => ber_with::<SnmpNull>(d, |o, _| o.push_str("null")),
        "octets" => ber_with::<SnmpOctetString>(d, |o, v| hex(o, v.0)),
        "objdesc" => ber_with::<SnmpObjectDescriptor>(d, |o, v| hex(o, v.0)),
        "opaque" => ber_with::<SnmpOpaque>(d, |o, v| hex(o, v.0)),
        "oid" => ber_with::<SnmpOid>(d, |o, v| hex(o, &v.0)),
        "reloid" => ber_with::<SnmpRelativeOid>(d, |o, v| hex(o, &reloid_content(&v))),
        "sequence" => ber_with::<SnmpSequence>(d, |o, v| hex(o, v.0)),
        "option" => ber_with::<SnmpOption>(d, |o, v| {
            let _ = write!(o, "{}:", v.tag);
            hex(o, v.value);
        }),
        "ipaddr" => ber_with::<SnmpIpAddress>(d, |o, v| {
            let s: String = (&v).into();
            o.push_str(&s);
        }),
        "counter32" => ber_with::<SnmpCounter32>(d, |o, v| {
            let _ = write!(o, "{}", v.0);
        }),
        "gauge32" => ber_with::<SnmpGauge32>(d, |o, v| {
            let _ = write!(o, "{}", v.0);
        }),
        "timeticks" => ber_with::<SnmpTimeTicks>(d, |o, v| {
            let _ = write!(o, "{}", v.0);
        }),
        "uinteger32" => ber_with::<SnmpUInteger32>(d, |o, v| {
            let _ = write!(o, "{}", v.0);
        }),
        "counter64" => ber_with::<SnmpCounter64>(d, |o, v| {
            let _ = write!(o, "{}", v.0);
        }),
        "real" => ber_with::<SnmpReal>(d, |o, v| render_f64(o, v.into())),
        _ => Err(Stop::Bad),
    }
}

fn op_value(f: &mut Fields) -> R {
    let data = f.hex()?;
    f.end()?;
    let (rest, v) = SnmpValue::from_ber(&data)?;
    let mut out = String::from("ok ");
    render_value(&mut out, v);
    out.push(' ');
    hex(&mut out, rest);
    Ok(out)
}

fn op_normalize(f: &mut Fields) -> R {
    let rel = f.hex()?;
    let oid = f.hex()?;
    f.end()?;
    if rel.len() >= 128 {
        return Err(Stop::Bad);
    }
    let mut enc = Vec::with_capacity(rel.len() + 2);
    enc.push(0x0d);
    enc.push(rel.len() as u8);
    enc.extend_from_slice(&rel);
    let (_, r) = SnmpRelativeOid::from_ber(&enc)?;
    let base = SnmpOid::from(oid);
    let n = r.try_normalize(&base)?;
    Ok(ok_hex(&n.0))
}

// ---------------------------------------------------------------------------
// PDU / message layer
// ---------------------------------------------------------------------------

fn op_pdu(f: &mut Fields) -> R {
    let data = f.hex()?;
    f.end()?;
    let pdu = SnmpPdu::try_from(data.as_slice())?;
    let mut out = String::from("ok ");
    render_pdu(&mut out, pdu);
    Ok(out)
}

fn op_msg(f: &mut Fields) -> R {
    let ver = f.s()?;
    let data = f.hex()?;
    f.end()?;
    let d = data.as_slice();
    let mut out = String::from("ok ");
    match ver {
        "v1" => {
            let m = SnmpV1Message::try_from(d)?;
            hex(&mut out, m.community);
            out.push(' ');
            render_pdu(&mut out, m.pdu);
        }
        "v2c" => {
            let m = SnmpV2cMessage::try_from(d)?;
            hex(&mut out, m.community);
            out.push(' ');
            render_pdu(&mut out, m.pdu);
        }
        "v3" => {
            let m = SnmpV3Message::try_from(d)?;
            let _ = write!(
                out,
                "{} {} {} {} ",
                m.msg_id, m.flag_auth as u8, m.flag_priv as u8, m.flag_report as u8
            );
            render_usm(&mut out, &m.usm);
            out.push(' ');
            render_msgdata(&mut out, m.data);
        }
        _ => return Err(Stop::Bad),
    }
    Ok(out)
}

fn op_usm(f: &mut Fields) -> R {
    let data = f.hex()?;
    f.end()?;
    let u = UsmParameters::try_from(data.as_slice())?;
    let mut out = String::from("ok ");
    render_usm(&mut out, &u);
    Ok(out)
}

fn op_scoped(f: &mut Fields) -> R {
    let data = f.hex()?;
    f.end()?;
    let s = ScopedPdu::try_from(data.as_slice())?;
    let mut out = String::from("ok ");
    render_scoped(&mut out, s);
    Ok(out)
}

fn op_msgdata(f: &mut Fields) -> R {
    let data = f.hex()?;
    f.end()?;
    let d = MsgData::try_from(data.as_slice())?;
    let mut out = String::from("ok ");
    render_msgdata(&mut out, d);
    Ok(out)
}

// ---------------------------------------------------------------------------
// Encoders
// ---------------------------------------------------------------------------

fn encode(x: &impl BerEncoder) -> R {
    let mut buf = Buffer::default();
    x.push_ber(&mut buf)?;
    Ok(ok_hex(buf.data()))
}

fn op_encint(f: &mut Fields) -> R {
    let v = f.num::<i64>()?;
    f.end()?;
    encode(&SnmpInt::from(v))
}

fn op_encoid(f: &mut Fields) -> R {
    let v = f.hex()?;
    f.end()?;
    encode(&SnmpOid::from(v))
}

fn op_encnull(f: &mut Fields) -> R {
    f.end()?;
    encode(&SnmpNull)
}

fn op_encpdu(f: &mut Fields) -> R {
    let pdu = parse_req(f)?;
    f.end()?;
    encode(&pdu)
}

fn op_encscoped(f: &mut Fields) -> R {
    let engine_id = f.hex()?;
    let pdu = parse_req(f)?;
    f.end()?;
    encode(&ScopedPdu {
        engine_id: &engine_id,
        pdu,
    })
}

fn op_encmsg(f: &mut Fields) -> R {
    match f.s()? {
        "v1" => {
            let community = f.hex()?;
            let pdu = parse_req(f)?;
            f.end()?;
            encode(&SnmpV1Message {
                community: &community,
                pdu,
            })
        }
        "v2c" => {
            let community = f.hex()?;
            let pdu = parse_req(f)?;
            f.end()?;
            encode(&SnmpV2cMessage {
                community: &community,
                pdu,
            })
        }
        "v3" => {
            let msg_id = f.num::<i64>()?;
            let flag_auth = f.flag()?;
            let flag_priv = f.flag()?;
            let flag_report = f.flag()?;
            let engine_id = f.hex()?;
            let engine_boots = f.num::<i64>()?;
            let engine_time = f.num::<i64>()?;
            let user_name = f.hex()?;
            let auth_params = f.hex()?;
            let privacy_params = f.hex()?;
            let kind = f.s()?;
            let blob = f.hex()?; // ctx engine id (plain) or ciphertext (enc)
            let data = match kind {
                "plain" => MsgData::Plaintext(ScopedPdu {
                    engine_id: &blob,
                    pdu: parse_req(f)?,
                }),
                "enc" => MsgData::Encrypted(&blob),
                _ => return Err(Stop::Bad),
            };
            f.end()?;
            let msg = SnmpV3Message {
                msg_id,
                flag_auth,
                flag_priv,
                flag_report,
                usm: UsmParameters {
                    engine_id: &engine_id,
                    engine_boots,
                    engine_time,
                    user_name: &user_name,
                    auth_params: &auth_params,
                    privacy_params: &privacy_params,
                },
                data,
            };
            let mut buf = Buffer::default();
            msg.push_ber(&mut buf)?;
            let bm: i64 = if auth_params.is_empty() {
                -1
            } else {
                buf.get_bookmark() as i64
            };
            let mut out = String::new();
            let _ = write!(out, "ok {} ", bm);
            hex(&mut out, buf.data());
            Ok(out)
        }
        _ => Err(Stop::Bad),
    }
}

// ---------------------------------------------------------------------------
// OID text
// ---------------------------------------------------------------------------

fn op_oidstr(f: &mut Fields) -> R {
    let text = utf8(f.hex()?)?;
    f.end()?;
    let oid = SnmpOid::try_from(text.as_str())?;
    Ok(ok_hex(&oid.0))
}

fn op_oidtxt(f: &mut Fields) -> R {
    let oid = SnmpOid::from(f.hex()?);
    f.end()?;
    let s = String::try_from(&oid)?;
    Ok(format!("ok {}", s))
}

fn op_startswith(f: &mut Fields) -> R {
    let a = SnmpOid::from(f.hex()?);
    let b = SnmpOid::from(f.hex()?);
    f.end()?;
    Ok(format!("ok {}", a.starts_with(&b)))
}

fn op_cmparcs(f: &mut Fields) -> R {
    let a = SnmpOid::from(f.hex()?);
    let b = SnmpOid::from(f.hex()?);
    f.end()?;
    Ok(format!(
        "ok {}",
        match a.cmp_arcs(&b) {
            std::cmp::Ordering::Less => "lt",
            std::cmp::Ordering::Equal => "eq",
            std::cmp::Ordering::Greater => "gt",
        }
    ))
}

// ---------------------------------------------------------------------------
// Buffer
// ---------------------------------------------------------------------------

enum BufOp {
    Push(Vec<u8>),
    U8(u8),
    TagLen(u8, usize),
    Tagged(u8, Vec<u8>),
    SkipFill(Vec<u8>),
    Skip(usize),
    Reset,
    Bm(usize),
    GetBm,
    Data,
}

fn parse_bufop(s: &str) -> R<BufOp> {
    let mut p = s.split(':');
    let name = p.next().ok_or(Stop::Bad)?;
    let mut arg = || p.next().ok_or(Stop::Bad);
    let op = match name {
        "push" => BufOp::Push(unhex(arg()?)?),
        "u8" => BufOp::U8(num(arg()?)?),
        "taglen" => BufOp::TagLen(num(arg()?)?, num(arg()?)?),
        "tagged" => BufOp::Tagged(num(arg()?)?, unhex(arg()?)?),
        "skipfill" => BufOp::SkipFill(unhex(arg()?)?),
        "skip" => BufOp::Skip(num(arg()?)?),
        "reset" => BufOp::Reset,
        "bm" => BufOp::Bm(num(arg()?)?),
        "getbm" => BufOp::GetBm,
        "data" => BufOp::Data,
        _ => return Err(Stop::Bad),
    };
    if p.next().is_some() {
        return Err(Stop::Bad);
    }
    Ok(op)
}

fn unit_or_e(out: &mut String, r: SnmpResult<()>) -> R<()> {
    match r {
        Ok(()) => out.push('-'),
        Err(SnmpError::OutOfBuffer) => out.push('E'),
        Err(e) => return Err(e.into()),
    }
    Ok(())
}

fn op_buf(f: &mut Fields) -> R {
    let spec = f.s()?;
    f.end()?;
    let ops = if spec == "-" {
        Vec::new()
    } else {
        spec.split(';').map(parse_bufop).collect::<R<Vec<BufOp>>>()?
    };
    let mut buf = Buffer::default();
    let mut out = String::from("ok ");
    if ops.is_empty() {
        out.push('-');
    }
    for (n, op) in ops.iter().enumerate() {
        if n > 0 {
            out.push(';');
        }
        match op {
            BufOp::Push(d) => unit_or_e(&mut out, buf.push(d))?,
            BufOp::U8(v) => unit_or_e(&mut out, buf.push_u8(*v))?,
            BufOp::TagLen(t, l) => unit_or_e(&mut out, buf.push_tag_len(*t, *l))?,
            BufOp::Tagged(t, d) => unit_or_e(&mut out, buf.push_tagged(*t, d))?,
            BufOp::SkipFill(d) => {
                buf.skip(d.len());
                let dst = buf.data_mut();
                let n = d.len().min(dst.len());
                dst[..n].copy_from_slice(&d[..n]);
                out.push('-');
            }
            BufOp::Skip(n) => {
                buf.skip(*n);
                out.push('-');
            }
            BufOp::Reset => {
                buf.reset();
                out.push('-');
            }
            BufOp::Bm(n) => {
                buf.set_bookmark(*n);
                out.push('-');
            }
            BufOp::GetBm => match catch_unwind(AssertUnwindSafe(|| buf.get_bookmark())) {
                Ok(v) => {
                    let _ = write!(out, "{}", v);
                }
                Err(_) => out.push('P'),
            },
            BufOp::Data => hex(&mut out, buf.data()),
        }
        let _ = write!(out, "@{}/{}", buf.len(), buf.free());
    }
    Ok(out)
}

/// `pool a;w<k>:<hex>;d<k>;...`: a private `BufferPool`; `a` takes a handle (prints the length of the buffer
/// it got), `w<k>` pushes bytes through handle k, `d<k>` drops handle k
fn op_pool(f: &mut Fields) -> R {
    use crate::buf::pool::{BufferHandle, BufferPool};
    let spec = f.s()?;
    f.end()?;
    let pool = BufferPool::default();
    let mut hs: Vec<Option<BufferHandle>> = Vec::new();
    let mut out = String::from("ok ");
    for (n, op) in spec.split(';').enumerate() {
        if n > 0 {
            out.push(';');
        }
        if op == "a" {
            let mut h = pool.acquire();
            let _ = write!(out, "{}", h.as_mut().len());
            hs.push(Some(h));
        } else if let Some(rest) = op.strip_prefix('d') {
            let k: usize = num(rest)?;
            match hs.get_mut(k) {
                Some(slot @ Some(_)) => {
                    *slot = None;
                    out.push('-');
                }
                _ => return Err(Stop::Bad),
            }
        } else if let Some(rest) = op.strip_prefix('w') {
            let mut p = rest.split(':');
            let k: usize = num(p.next().ok_or(Stop::Bad)?)?;
            let d = unhex(p.next().ok_or(Stop::Bad)?)?;
            if p.next().is_some() {
                return Err(Stop::Bad);
            }
            match hs.get_mut(k) {
                Some(Some(h)) => unit_or_e(&mut out, h.as_mut().push(&d))?,
                _ => return Err(Stop::Bad),
            }
        } else {
            return Err(Stop::Bad);
        }
    }
    Ok(out)
}

// ---------------------------------------------------------------------------
// Op layer (Python conversion)
// ---------------------------------------------------------------------------

/// `__name__` of the exception type. The crate's own exceptions are created by
/// `create_exception!(_fast, PySnmpDecodeError, ..)`, so their real `__name__` carries the Rust
/// identifier (`PySnmpDecodeError`); they are exported from the `_fast` module without the `Py`
/// prefix (`SnmpDecodeError`), which is the spelling PROTOCOL.md uses. Normalise to that.
fn py_class_name(py: Python<'_>, e: &PyErr) -> String {
    let ty = e.get_type(py);
    let name = match ty.name() {
        Ok(n) => n.to_string(),
        Err(_) => return "?".to_string(),
    };
    let own = ty
        .module()
        .map(|m| m.to_string() == "_fast")
        .unwrap_or(false);
    match name.strip_prefix("Py") {
        Some(short) if own => short.to_string(),
        _ => name,
    }
}

fn py_result(py: Python<'_>, r: PyResult<Bound<'_, PyAny>>) -> String {
    match r.and_then(|o| o.repr().map(|s| s.to_string())) {
        Ok(s) => format!("pyok {}", s),
        Err(e) => format!("pyerr {}", py_class_name(py, &e)),
    }
}

fn op_topy(f: &mut Fields) -> R {
    let op = f.s()?;
    let data = f.hex()?;
    f.end()?;
    if !matches!(op, "get" | "getmany" | "refresh") {
        return Err(Stop::Bad);
    }
    let pdu = SnmpPdu::try_from(data.as_slice())?;
    Ok(Python::with_gil(|py| {
        let r = match op {
            "get" => OpGet::to_python(&pdu, None, py),
            "getmany" => OpGetMany::to_python(&pdu, None, py),
            _ => OpRefresh::to_python(&pdu, None, py),
        };
        py_result(py, r)
    }))
}

fn op_walk(f: &mut Fields) -> R {
    let op = f.s()?;
    let oid_text = utf8(f.hex()?)?;
    let maxrep = f.num::<i64>()?;
    let pdus = hex_list(f.s()?)?;
    f.end()?;
    if !matches!(op, "getnext" | "getbulk") {
        return Err(Stop::Bad);
    }
    Ok(Python::with_gil(|py| {
        let obj = match py.get_type::<GetIter>().call1((oid_text.as_str(), maxrep)) {
            Ok(o) => o,
            Err(e) => return format!("pyerr {}", py_class_name(py, &e)),
        };
        let bound = match obj.downcast_into::<GetIter>() {
            Ok(b) => b,
            Err(_) => return "pyerr TypeError".to_string(),
        };
        let mut guard = bound.borrow_mut();
        let mut out = String::from("ok ");
        if pdus.is_empty() {
            out.push('-');
        }
        for (n, raw) in pdus.iter().enumerate() {
            if n > 0 {
                out.push(';');
            }
            match SnmpPdu::try_from(raw.as_slice()) {
                Err(e) => {
                    let _ = write!(out, "err {}", err_name(&e));
                }
                Ok(pdu) => {
                    let iter: &mut GetIter = &mut guard;
                    let r = match op {
                        "getnext" => OpGetNext::to_python(&pdu, Some(iter), py),
                        _ => OpGetBulk::to_python(&pdu, Some(iter), py),
                    };
                    out.push_str(&py_result(py, r));
                }
            }
            out.push('@');
            hex(&mut out, &guard.get_next_oid().0);
        }
        out
    }))
}

// ---------------------------------------------------------------------------
// Auth
// ---------------------------------------------------------------------------

fn digest_code(s: &str) -> R<u8> {
    match s {
        "md5" => Ok(crate::auth::MD5_AUTH),
        "sha1" => Ok(crate::auth::SHA1_AUTH),
        _ => Err(Stop::Bad),
    }
}

fn op_p2m(f: &mut Fields) -> R {
    let code = digest_code(f.s()?)?;
    let pw = f.hex()?;
    f.end()?;
    let k = AuthKey::new(code)?;
    let mut out = vec![0u8; k.get_key_size()];
    k.password_to_master(&pw, &mut out).into_unit_result()?;
    Ok(ok_hex(&out))
}

fn op_localize(f: &mut Fields) -> R {
    let code = digest_code(f.s()?)?;
    let key = f.hex()?;
    let engine = f.hex()?;
    f.end()?;
    let k = AuthKey::new(code)?;
    let mut out = vec![0u8; k.get_key_size()];
    k.localize(&key, &engine, &mut out).into_unit_result()?;
    Ok(ok_hex(&out))
}

fn op_keytype(f: &mut Fields) -> R {
    let code = f.num::<u8>()?;
    let key = f.hex()?;
    let engine = f.hex()?;
    f.end()?;
    let mut k = AuthKey::new(code)?;
    k.as_key_type(code, &key, &engine)?;
    Ok(ok_hex(k.get_key()))
}

fn op_sign(f: &mut Fields) -> R {
    let code = digest_code(f.s()?)?;
    let key = f.hex()?;
    let offset = f.num::<usize>()?;
    let mut data = f.hex()?;
    f.end()?;
    let mut k = AuthKey::new(code)?;
    k.as_localized(&key).into_unit_result()?;
    k.sign(&mut data, offset)?;
    Ok(ok_hex(&data))
}

fn py_bytes_result(py: Python<'_>, r: PyResult<PyObject>) -> String {
    match r {
        Ok(o) => match o.bind(py).downcast::<PyBytes>() {
            Ok(b) => {
                let mut out = String::from("pyok ");
                hex(&mut out, b.as_bytes());
                out
            }
            Err(_) => "pyerr TypeError".to_string(),
        },
        Err(e) => format!("pyerr {}", py_class_name(py, &e)),
    }
}

fn op_getkey(f: &mut Fields) -> R {
    let alg = f.num::<u8>()?;
    let pw = f.hex()?;
    f.end()?;
    Ok(Python::with_gil(|py| {
        py_bytes_result(py, crate::util::get_master_key(py, alg, &pw))
    }))
}

fn op_getlkey(f: &mut Fields) -> R {
    let alg = f.num::<u8>()?;
    let key = f.hex()?;
    let engine = f.hex()?;
    f.end()?;
    Ok(Python::with_gil(|py| {
        py_bytes_result(py, crate::util::get_localized_key(py, alg, &key, &engine))
    }))
}

// ---------------------------------------------------------------------------
// Privacy
// ---------------------------------------------------------------------------

fn op_privenc(f: &mut Fields) -> R {
    let alg = f.num::<u8>()?;
    let key = f.hex()?;
    let boots = f.num::<u32>()?;
    let time = f.num::<u32>()?;
    let count = f.num::<usize>()?;
    let engine_id = f.hex()?;
    // optional `seed=N`: start value of the salt counter (needs the cfg(gufo_snmp_verif) hook in /repo;
    // build.sh sets gsv_salt_hook when the hook is present, otherwise the field is ignored)
    let mut seed: Option<u64> = None;
    {
        let mut g = Fields(f.0.clone());
        if let Ok(t) = g.s() {
            if let Some(v) = t.strip_prefix("seed=") {
                seed = Some(num::<u64>(v)?);
                f.s()?;
            }
        }
    }
    let pdu = parse_req(f)?;
    f.end()?;
    let mut k = PrivKey::new(alg)?;
    k.as_localized(&key)?;
    #[cfg(gsv_salt_hook)]
    if let Some(v) = seed {
        k.set_salt_value(v);
    }
    let _ = seed;
    let scoped = ScopedPdu {
        engine_id: &engine_id,
        pdu,
    };
    let mut out = String::from("ok ");
    if count == 0 {
        out.push('-');
    }
    for n in 0..count {
        if n > 0 {
            out.push(';');
        }
        let (ct, salt) = k.encrypt(&scoped, boots, time)?;
        hex(&mut out, ct);
        out.push('/');
        hex(&mut out, salt);
    }
    Ok(out)
}

fn op_privdec(f: &mut Fields) -> R {
    let alg = f.num::<u8>()?;
    let key = f.hex()?;
    let engine_boots = f.num::<i64>()?;
    let engine_time = f.num::<i64>()?;
    let privacy_params = f.hex()?;
    let data = f.hex()?;
    f.end()?;
    let mut k = PrivKey::new(alg)?;
    k.as_localized(&key)?;
    let usm = UsmParameters {
        engine_id: &[],
        engine_boots,
        engine_time,
        user_name: &[],
        auth_params: &[],
        privacy_params: &privacy_params,
    };
    let scoped = k.decrypt(&data, &usm)?;
    let mut out = String::from("ok ");
    render_scoped(&mut out, scoped);
    Ok(out)
}

// ---------------------------------------------------------------------------
// Dispatch and main loop
// ---------------------------------------------------------------------------

fn dispatch(line: &str) -> R {
    let mut f = Fields(line.split(' '));
    match f.s()? {
        "hdr" => op_hdr(&mut f),
        "ber" => op_ber(&mut f),
        "value" => op_value(&mut f),
        "normalize" => op_normalize(&mut f),
        "pdu" => op_pdu(&mut f),
        "msg" => op_msg(&mut f),
        "usm" => op_usm(&mut f),
        "scoped" => op_scoped(&mut f),
        "msgdata" => op_msgdata(&mut f),
        "encint" => op_encint(&mut f),
        "encoid" => op_encoid(&mut f),
        "encnull" => op_encnull(&mut f),
        "encpdu" => op_encpdu(&mut f),
        "encmsg" => op_encmsg(&mut f),
        "encscoped" => op_encscoped(&mut f),
        "oidstr" => op_oidstr(&mut f),
        "oidtxt" => op_oidtxt(&mut f),
        "startswith" => op_startswith(&mut f),
        "cmparcs" => op_cmparcs(&mut f),
        "buf" => op_buf(&mut f),
        "pool" => op_pool(&mut f),
        "topy" => op_topy(&mut f),
        "walk" => op_walk(&mut f),
        "p2m" => op_p2m(&mut f),
        "localize" => op_localize(&mut f),
        "keytype" => op_keytype(&mut f),
        "sign" => op_sign(&mut f),
        "getkey" => op_getkey(&mut f),
        "getlkey" => op_getlkey(&mut f),
        "privenc" => op_privenc(&mut f),
        "privdec" => op_privdec(&mut f),
        _ => Err(Stop::Bad),
    }
}

/// One request line (without the line terminator) -> one response line.
pub fn respond(raw: &[u8]) -> String {
    let line = match std::str::from_utf8(raw) {
        Ok(s) => s,
        Err(_) => return "bad-op".to_string(),
    };
    if line.trim().is_empty() || line.starts_with('#') {
        return "#".to_string();
    }
    match catch_unwind(AssertUnwindSafe(|| dispatch(line))) {
        Ok(Ok(s)) | Ok(Err(Stop::Out(s))) => s,
        Ok(Err(Stop::Bad)) => "bad-op".to_string(),
        Err(_) => "PANIC".to_string(),
    }
}

pub fn main() {
    // Panics are part of the observable behaviour (`PANIC`); keep stderr quiet unless asked.
    if std::env::var_os("GSV_SHOW_PANICS").is_none() {
        std::panic::set_hook(Box::new(|_| {}));
    }
    let stdin = std::io::stdin();
    let mut input = std::io::BufReader::with_capacity(1 << 16, stdin.lock());
    let stdout = std::io::stdout();
    let mut output = std::io::BufWriter::with_capacity(1 << 16, stdout.lock());
    let mut line: Vec<u8> = Vec::with_capacity(1 << 12);
    loop {
        line.clear();
        match input.read_until(b'\n', &mut line) {
            Ok(0) => break,
            Ok(_) => {}
            Err(_) => break,
        }
        if line.last() == Some(&b'\n') {
            line.pop();
        }
        if line.last() == Some(&b'\r') {
            line.pop();
        }
        let resp = respond(&line);
        if output.write_all(resp.as_bytes()).is_err() || output.write_all(b"\n").is_err() {
            return;
        }
        // every answer is flushed: when a later request never returns (or kills the process), the caller knows
        // exactly which request that was
        if output.flush().is_err() {
            return;
        }
    }
    let _ = output.flush();
}
