#!/usr/bin/env bash
# Run the gsv harness (stdin: request lines, stdout: response lines). Build first with build.sh.
PYVER=${GSV_PYTHON_HOME:-/root/.pyenv/versions/3.11.7}
export LD_LIBRARY_PATH="$PYVER/lib${LD_LIBRARY_PATH:+:$LD_LIBRARY_PATH}"
export PYTHONHOME="$PYVER"
exec /verif/.build/rust/target/debug/gsv "$@"
