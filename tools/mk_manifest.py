#!/usr/bin/env python3
"""Regenerate /verif/MANIFEST.json from the table below (kept in one place so it stays valid)."""
import json

TB = ("Trusted: Lean 4.33 kernel; axioms propext, Classical.choice, Quot.sound only (audited on every run); "
      "tools/gen_consts.py; the correspondence check that ties the hand-written model to /repo; ")

CLAIMS = {
 "C01": ("Lean theorems: every decoder on the receive path (header, typed decoders, SnmpValue, relative OID, PDUs, v1/v2c/v3 messages, USM, scoped PDU, msgData, DES/AES decrypt, unwrap_pdu, op-layer conversion, the receive loop over any datagram sequence) returns a value or a documented exception and never panics, for every byte string, session state and pending operation; termination by structural / well-founded recursion with the progress guards shown unreachable. Tied to /repo by running model and Rust harness on generated, mutated, malformed and exhaustive-small inputs; oracle: no panic, process alive.",
         TB + "block ciphers are parameters returning whole blocks; safe-Rust bounds checks; dev-profile overflow checks; socket / PyO3 glue not modelled.",
         "Lean 4 proof (totality by induction on the input) + differential correspondence + panic oracle", "§7 C01"),
 "C15": ("Lean theorems: for every i64 the INTEGER encoder writes the minimal two's complement form (X.690 8.3.2) and the decoder inverts it; push_tag_len writes the minimal length form and the header parser inverts it for all lengths < 65536; OID / OCTET STRING / NULL and every Get/GetNext/GetBulk v1/v2c message that fits the buffer round-trip through the library's own decoder. Correspondence + independent minimal encoder / strict decoder on exhaustive small integers, boundary neighbourhoods and generated messages.",
         TB + "v3 message round trip is covered by the correspondence stream only in this check.",
         "Lean 4 proof (encoder specification + decoder inverse) + differential correspondence", "§7 C15"),
 "C16": ("Lean theorems: generic from_ber of every typed decoder, SnmpValue (REAL included) and the header parser return the same value and exactly the appended bytes as remainder for every (x, s); the header is determined by its own octets and a declared length exceeding the available octets yields Incomplete; bytes after a v1/v2c/v3 message or after a response varbind list yield TrailingData. Metamorphic oracle on the real decoders (append / truncate).",
         TB, "Lean 4 proof (locality lemmas) + metamorphic oracle + correspondence", "§7 C16"),
 "C17": ("Lean theorems: every sequence of buffer operations keeps the position inside the array; under the operations the library uses no unwritten cell is exposed (the bare pub skip does expose them: proved hazard, no call site); a v1/v2c request fails with OutOfBuffer iff its encoding exceeds the capacity and is otherwise complete; capacity < 65536. Op-sequence correspondence against the Lean model and a Vec-backed shadow; sizes swept across 127/128, 255/256 and the capacity against an independent encoder.",
         TB + "the unsafe blocks are modelled as list operations; no sanitizer run.",
         "Lean 4 proof (invariant over operation histories, encoder specification) + differential correspondence", "§7 C17"),
 "C19": ("Lean theorems over an executable model of RPSPolicer.get_timeout for every interval and every admissible history of any length: delay <= one interval; any k+2 consecutive releases span more than k intervals; constructor refusals. Tied to policer.py by running model and implementation on the same generated histories.",
         TB + "float division NS/rps, sleep and the clock.",
         "Lean 4 proof (invariant by induction over histories) + differential correspondence", "§7 C19"),
}

NOT_YET = "check not built yet in this round (planned, see DESIGN.md §7); not a statement that the technique cannot apply"


def main():
    props = [json.loads(l) for l in open("/verif/properties.jsonl")]
    checks = []
    for pid in sorted(CLAIMS):
        text, note, tech, ref = CLAIMS[pid]
        checks.append({
            "property_id": pid,
            "quick_cmd": f"./check {pid} --tier quick",
            "thorough_cmd": f"./check {pid} --tier thorough",
            "evidence_file": f"/verif/evidence/{pid}.json",
            "replay_cmd_template": f"./check {pid} --replay {{path}}",
            "engine": "lean-proof+correspondence",
            "level_claimed": {"category": "proof", "text": text, "design_ref": "DESIGN.md " + ref},
            "level_note": note,
            "technique": tech,
        })
    na = [{"property_id": p["id"], "reason": NOT_YET} for p in props if p["id"] not in CLAIMS]
    m = {"version": 1, "setup_cmd": "sh tools/setup.sh",
         "hooks": {"guard": "gufo_snmp_verif",
                   "enable": "no hooks are needed: the Rust harness compiles /repo/src inside its own crate (generated crate root), the e2e harness uses the real extension",
                   "baseline_off_cmd": "cd /repo && cargo test --workspace --no-fail-fast --offline",
                   "source_commits": [], "add_only": True},
         "engines": [{"name": "lean-proof+correspondence", "path": "/verif/lean, /verif/tools, /verif/harness",
                      "serves_properties": sorted(CLAIMS),
                      "kind_free_text": "Lean 4 model + theorems; generated constants; compiled model driver vs Rust in-crate harness and Python e2e harness"}],
         "checks": checks, "not_applicable": na,
         "notes": "fix: commits in /repo are listed in known_findings.json under 'fixed'."}
    json.dump(m, open("/verif/MANIFEST.json", "w"), indent=1)
    print("claimed:", sorted(CLAIMS))


if __name__ == "__main__":
    main()
