#!/usr/bin/env python3
"""Regenerate /verif/MANIFEST.json from the table below (kept in one place so it stays valid)."""
import json

TB = ("Trusted: Lean 4.33 kernel; axioms propext, Classical.choice, Quot.sound only (audited on every run); "
      "tools/gen_consts.py; the correspondence check that ties the hand-written model to /repo; ")

CLAIMS = {
 "C01": ("Lean theorems: every decoder on the receive path (header, typed decoders, SnmpValue, relative OID, PDUs, v1/v2c/v3 messages, USM, scoped PDU, msgData, DES/AES decrypt, unwrap_pdu, op-layer conversion, the receive loop over any datagram sequence) returns a value or a documented exception and never panics, for every byte string, session state and pending operation; termination by structural / well-founded recursion with the progress guards shown unreachable. Tied to /repo by running model and Rust harness on generated, mutated, malformed and exhaustive-small inputs; oracle: no panic, process alive.",
         TB + "block ciphers are parameters returning whole blocks; safe-Rust bounds checks; dev-profile overflow checks; socket / PyO3 glue not modelled.",
         "Lean 4 proof (totality by induction on the input) + differential correspondence + panic oracle", "§7 C01"),
 "C05": ("Lean theorem: composed with an RFC 3416 GetNext agent over ANY finite strictly sorted MIB (independent Spec.agentNext / Spec.subtree), the library's GetNext walk from any valid base yields exactly the entries strictly below the base, in order, each once, then stops; supporting theorems: byte-prefix = arc-prefix and cmp_arcs = arc order on canonical encodings, end-of-MIB answers stop the walk, fetch policy. GetBulk, fetch, sync/async and v1/v2c/v3 equivalence: e2e against an RFC agent simulator over random MIBs with an independent subtree oracle (plus the C06 safety theorems for GetBulk).",
         TB + "GetBulk completeness is decided by the e2e oracle and the C06 theorems, not by a composition theorem (partial); asyncio, sockets not modelled.",
         "Lean 4 proof (refinement to an abstract agent/subtree spec, induction over the sorted MIB) + e2e oracle + correspondence", "§7 C05"),
 "C06": ("Lean theorems for an ARBITRARY agent (any list of reply PDUs): every yielded OID is inside the subtree; yields are strictly increasing in sub-identifier order (cmp_arcs proved irreflexive and transitive), hence never repeated; each follow-up request names the last accepted OID; empty / non-data / out-of-subtree / non-increasing replies end the walk; for GetNext and GetBulk including the Python iterator wrappers. E2E with hostile scripts through the raw API, the sync iterators and the async client against an independent walk specification with an iteration cap.",
         TB + "Python iterator classes are modelled (Walk.walkNext / walkBulk) and compared e2e.",
         "Lean 4 proof (invariant by induction over the reply history) + e2e oracle + correspondence", "§7 C06"),
 "C07": ("Lean theorems: the complete result table of get (0 / 1 / >=2 varbinds; NULL, exception values, data), get_many = dict of the data varbinds with last-binding-wins and unique keys, Report -> SnmpAuthError for all four operations, BlockingIOError -> TimeoutError in the sync client, class hierarchy from the generated error table. E2E over all session kinds with generated replies against the documented table; conversion-layer correspondence.",
         TB + "PyO3 conversions trusted.",
         "Lean 4 proof (exhaustive case analysis + induction over the varbind list) + e2e oracle + correspondence", "§7 C07"),
 "C08": ("Lean theorems over all byte strings: every accepted text is transmitted as exactly the X.690 content of the arcs its parts denote (sound), canonical text of every valid OID is accepted (complete) and prints back identically, every other text is refused with InvalidData and never panics; the five-way arc encoder equals the minimal base-128 form. Independent Spec.derOid / Spec.dotted. Correspondence + independent denotation oracle on generated and malformed texts.",
         TB + "Rust u32::from_str / split / Display modelled and compared.",
         "Lean 4 proof (soundness + completeness against an independent DER spec) + differential correspondence", "§7 C08"),
 "C15": ("Lean theorems: for every i64 the INTEGER encoder writes the minimal two's complement form (X.690 8.3.2) and the decoder inverts it; push_tag_len writes the minimal length form and the header parser inverts it for all lengths < 65536; OID / OCTET STRING / NULL and every Get/GetNext/GetBulk v1/v2c message that fits the buffer round-trip through the library's own decoder. Correspondence + independent minimal encoder / strict decoder on exhaustive small integers, boundary neighbourhoods and generated messages.",
         TB + "v3 message round trip is covered by the correspondence stream only in this check.",
         "Lean 4 proof (encoder specification + decoder inverse) + differential correspondence", "§7 C15"),
 "C16": ("Lean theorems: generic from_ber of every typed decoder, SnmpValue (REAL included) and the header parser return the same value and exactly the appended bytes as remainder for every (x, s); the header is determined by its own octets and a declared length exceeding the available octets yields Incomplete; bytes after a v1/v2c/v3 message or after a response varbind list yield TrailingData. Metamorphic oracle on the real decoders (append / truncate).",
         TB, "Lean 4 proof (locality lemmas) + metamorphic oracle + correspondence", "§7 C16"),
 "C17": ("Lean theorems: every sequence of buffer operations keeps the position inside the array; under the operations the library uses no unwritten cell is exposed (the bare pub skip does expose them: proved hazard, no call site); a v1/v2c request fails with OutOfBuffer iff its encoding exceeds the capacity and is otherwise complete; capacity < 65536. Op-sequence correspondence against the Lean model and a Vec-backed shadow; sizes swept across 127/128, 255/256 and the capacity against an independent encoder.",
         TB + "the unsafe blocks are modelled as list operations; no sanitizer run.",
         "Lean 4 proof (invariant over operation histories, encoder specification) + differential correspondence", "§7 C17"),
 "C19": ("Lean theorems over an executable model of RPSPolicer.get_timeout for every interval and every admissible history of any length: delay <= one interval; any k+2 consecutive releases span more than k intervals; constructor refusals. Tied to policer.py by running model and implementation on the same generated histories.",
         TB + "float division NS/rps, sleep and the clock.",
         "Lean 4 proof (invariant by induction over histories) + differential correspondence", "§7 C19"),
}

NOT_YET = "check not built yet in this round (planned, see DESIGN.md §7); not a statement that the technique cannot apply"


def main():
    props = [json.loads(l) for l in open("/verif/properties.jsonl")]
    checks = []
    for pid in sorted(CLAIMS):
        text, note, tech, ref = CLAIMS[pid]
        checks.append({
            "property_id": pid,
            "quick_cmd": f"./check {pid} --tier quick",
            "thorough_cmd": f"./check {pid} --tier thorough",
            "evidence_file": f"/verif/evidence/{pid}.json",
            "replay_cmd_template": f"./check {pid} --replay {{path}}",
            "engine": "lean-proof+correspondence",
            "level_claimed": {"category": "proof", "text": text, "design_ref": "DESIGN.md " + ref},
            "level_note": note,
            "technique": tech,
        })
    na = [{"property_id": p["id"], "reason": NOT_YET} for p in props if p["id"] not in CLAIMS]
    m = {"version": 1, "setup_cmd": "sh tools/setup.sh",
         "hooks": {"guard": "gufo_snmp_verif",
                   "enable": "no hooks are needed: the Rust harness compiles /repo/src inside its own crate (generated crate root), the e2e harness uses the real extension",
                   "baseline_off_cmd": "cd /repo && cargo test --workspace --no-fail-fast --offline",
                   "source_commits": [], "add_only": True},
         "engines": [{"name": "lean-proof+correspondence", "path": "/verif/lean, /verif/tools, /verif/harness",
                      "serves_properties": sorted(CLAIMS),
                      "kind_free_text": "Lean 4 model + theorems; generated constants; compiled model driver vs Rust in-crate harness and Python e2e harness"}],
         "checks": checks, "not_applicable": na,
         "notes": "fix: commits in /repo are listed in known_findings.json under 'fixed'."}
    json.dump(m, open("/verif/MANIFEST.json", "w"), indent=1)
    print("claimed:", sorted(CLAIMS))


if __name__ == "__main__":
    main()
