#!/usr/bin/env python3
"""Regenerate /verif/MANIFEST.json from the table below (kept in one place so it stays valid)."""
import json

TB = ("Trusted: Lean 4.33 kernel; axioms propext, Classical.choice, Quot.sound only (audited on every run); "
      "tools/gen_consts.py; the correspondence check that ties the hand-written model to /repo; ")

CLAIMS = {
 "C01": ("Lean theorems: every decoder on the receive path (header, typed decoders, SnmpValue, relative OID, PDUs, v1/v2c/v3 messages, USM, scoped PDU, msgData, DES/AES decrypt, unwrap_pdu, op-layer conversion, the receive loop over any datagram sequence) returns a value or a documented exception and never panics, for every byte string, session state and pending operation; termination by structural / well-founded recursion with the progress guards shown unreachable. Tied to /repo by running model and Rust harness on generated, mutated, malformed and exhaustive-small inputs; oracle: no panic, process alive.",
         TB + "block ciphers are parameters returning whole blocks; safe-Rust bounds checks; dev-profile overflow checks; socket / PyO3 glue not modelled.",
         "Lean 4 proof (totality by induction on the input) + differential correspondence + panic oracle", "§7 C01"),
 "C02": ("Lean theorems: for every value of every supported type, every X.690 content encoding of it (INTEGERs with up to 8 octets incl. redundant sign octets, unsigned 32/64-bit values with leading zero octets, sub-identifiers up to 2^32-1), every definite length form (short or long with 1..8 length octets) and every position (arbitrary following octets), SnmpValue::from_ber returns a value that IntoPyObject turns into exactly the Python object the encoding denotes (independent Spec.derOid / dotted / twos / beNat), consuming exactly the TLV; a varbind list of any length with per-item length forms is recovered in order; a one-varbind response delivers py(value) through get; REAL: special values, NR2/NR3 text passed exactly to the float parser, and the binary form (sign, base 2/8/16, scaling factor, two's complement exponent of 1..3 octets, mantissa up to 8 octets) decodes to ± N * 2^(E*log2 B + F) (real_binary_sound; repaired by fix 456348d). E2E with ground-truth values through get / get_many / getnext / getbulk on every session kind and through the real sync and async clients.",
         TB + "the single rounding to binary64 (Rust f64::from_str for decimal text, SnmpReal::ldexp for the binary form) is compared with exact arithmetic (Python float() / Fraction) on every run, not proved; PyO3 constructors.",
         "Lean 4 proof (decoder soundness against an independent X.690 reading, induction over the varbind list) + ground-truth e2e oracle + correspondence", "§7 C02"),
 "C03": ("Lean theorems: for every v1/v2c session state, call and buffer contents the emitted datagram is exactly the independent minimal encoding (Lemmas.EncSpec) of version, community, PDU type of the call, masked request-id, zero error fields and the requested OIDs in order bound to NULL, or the call fails and nothing is sent; the result does not depend on what the pooled buffer held before (history_free, pool_reset); request ids are in 0..2^31-1; fetch / max-repetitions policy. v3 (wire_v3, wire_v3_priv): the datagram is exactly the independent encoding encV3 of version 3, the masked msgID, msgMaxSize, msgFlags (auth / priv from the session's keys, reportable only for the probe), USM model, the session's engine id / boots / time / user, and the scoped PDU (engine id, empty context name, PDU of the call) — or the OCTET STRING of the ciphertext the key object returned, with the salt as msgPrivacyParameters — with the 12 placeholder octets replaced by the HMAC when the session signs; too large => OutOfBuffer and nothing is sent. Every datagram of random multi-session histories is re-read by an independent strict decoder and replayed byte-for-byte (HMAC and ciphertext included) on the Lean model.",
         TB + "rand (ids are inputs), the pool mutex (histories are sequential).",
         "Lean 4 proof (encoder refinement to an independent DER spec, frame independence) + e2e oracle + session-level correspondence", "§7 C03"),
 "C04": ("Lean theorems about the receive loop for ANY datagram sequence: a PDU is delivered only if the datagram decodes as the session's version and community (v1/v2c) or user, engine id and msgID (v3) match and the request-id equals the single stored id, which every send overwrites (latest_only); a well-formed non-matching message is skipped and the loop continues on the rest of the sequence; an undecodable datagram ends the call with a decode error; an exhausted queue yields WouldBlock; history_sound: in EVERY history of sends and receives a PDU handed to the caller carries the request id of the most recent send (or is a Report), receiving never changes the outstanding id. E2E: scripts of 1..4 requests with 13 fault kinds, expected outcome computed from the ids on the wire, and replay on the model.",
         TB + "the kernel UDP queue (sequences are inputs); Reports bypass the request-id check by design (C07).",
         "Lean 4 proof (invariant over arbitrary datagram sequences) + fault-script oracle + correspondence", "§7 C04"),
 "C09": ("Lean theorems: for every message, key and buffer history the datagram of an authenticated session equals the independent encoding with the 12 placeholder octets replaced by Spec.hmac96 (RFC 2104 over the whole message with the field zeroed) — the bookmark is proved to be the offset of the placeholder for every field width and long-form length; flags carry auth iff the session has a key; without a key the field is empty. E2E: every datagram of random histories re-verified with Python hmac/hashlib under independently derived keys.",
         TB + "MD5 / SHA-1 are parameters of the model with their output sizes as the only assumption (Digests.WF).",
         "Lean 4 proof (encoder specification + HMAC refinement) + e2e oracle + correspondence", "§7 C09"),
 "C10": ("The property does NOT hold of the code and this is proved, not assumed: Lean theorems mac_ignored (the acceptance decision is independent of msgAuthenticationParameters and of the auth / priv flags), forged_delivered (every otherwise-matching plaintext GetResponse is delivered whatever its MAC and flags) and not_holds (a concrete refutation of the weakest reading of the property); accept_partial is the part that holds (user, engine id, msgID, request-id all match), Reports are exempt. The check replays the whole forgery matrix on the real extension: the listed forgery classes print KNOWN-FINDING, any other delivered forgery, or one with a mismatching field, is a VIOLATION.",
         TB + "known finding D12 (C10-D12a/b/c in known_findings.json), not repaired: verifying the MAC needs the raw datagram in unwrap_pdu, a change of the socket trait.",
         "Lean 4 proof (refutation with witness + partial theorem) + forgery-matrix oracle + correspondence", "§7 C10"),
 "C11": ("Lean theorems: DES / AES encrypt produce Spec.cbcEncrypt / Spec.cfbEncrypt (textbook CBC, CFB-128) of the scoped PDU's independent encoding plus < 1 block of zero padding, with key / pre-IV / IV as RFC 3414 8.1.1.1 and RFC 3826 3.1.2.1 prescribe, independent of the private buffer's earlier contents; decrypt inverts encrypt for any invertible block function and the scoped PDU parser recovers the exact content despite padding. E2E: every encrypted request decrypted with OpenSSL and compared octet for octet; agent-encrypted replies delivered exactly.",
         TB + "the DES / AES block functions are parameters (Ciphers.WF: block size, invertibility for the inverse theorem).",
         "Lean 4 proof (refinement to textbook mode specifications, inverse theorem) + e2e oracle + correspondence", "§7 C11"),
 "C12": ("Lean theorems: password_to_master hashes exactly the first 2^20 octets of the endlessly repeated password (Spec.passwordToKey, for every non-empty password incl. lengths not dividing 2^20), localisation is H(Ku || engineID || Ku), as_key_type dispatches on the two high bits for every code < 64 x 4 and refuses unknown codes, empty passwords and wrong-size localized keys with InvalidKey / InvalidVersion and never panics; the privacy key is localized with the auth digest; the Python key classes (user.py, modelled in Model/User.lean) hand the socket master / localized keys of exactly the digest size and codes that carry digest and key type (user_keys_sized, user_codes). Streams against hashlib (itself validated against the RFC's loop), Python API, user.py, sessions per key type, constructor on malformed material.",
         TB + "MD5 / SHA-1 are parameters; a wrong-size MASTER key is hashed as given by the Rust layer; the public Python API never passes one (user_keys_sized) — DESIGN.md §11.2.",
         "Lean 4 proof (refinement to the RFC 3414 A.2 specification, totality) + differential correspondence + e2e oracle", "§7 C12"),
 "C13": ("Lean theorems about unwrap_pdu and set_keys for every session state and incoming message: an empty engine id is replaced by the one of the first accepted message and never changes afterwards; boots and time are those of the most recent accepted message and untouched by skipped ones; every request is stamped with the stored engine id (USM and context), boots, time and user; set_keys localizes to the stored engine id; probe = empty reportable GET; the clients' refresh() state machine (Py.refresh): an unanswered discovery probe leaves the deferred user in place, set_keys happens exactly after an answered discovery probe, a session with a configured engine id never re-keys. E2E: the real sync and async SnmpSession with and without engine id against an agent whose clock moves between replies.",
         TB + "asyncio and the sockets are not modelled; the refresh() state machine is modelled and compared with both real clients.",
         "Lean 4 proof (state-machine invariants) + e2e oracle (sync + async clients) + correspondence", "§7 C13"),
 "C14": ("Lean theorems: every encrypt advances the per-key counter by exactly one modulo 2^32 (DES) / 2^64 (AES), also when it fails; the transmitted msgPrivacyParameters are boots||counter resp. the 64-bit counter (8 octets, injective in the counter), hence (sequence_distinct) over ANY sequence of encrypt calls of one key installation — any requests, any boots / time, failed calls in between — two messages fewer than 2^32 / 2^64 calls apart carry different msgPrivacyParameters; the priv flag is set iff the session has a privacy key; everything outside msgData depends only on the ciphertext's length (frame_request_independent). E2E: salt sequences of sessions and bare cipher objects, plaintext-window search outside the ciphertext.",
         TB + "ciphertext opacity is the cipher's property, not proved; rand seeds the counter (any seed).",
         "Lean 4 proof (counter invariant over call histories, injectivity) + e2e oracle + correspondence", "§7 C14"),
 "C05": ("Lean theorem: composed with an RFC 3416 GetNext agent over ANY finite strictly sorted MIB (independent Spec.agentNext / Spec.subtree), the library's GetNext walk from any valid base yields exactly the entries strictly below the base, in order, each once, then stops; the same for GetBulk with any max-repetitions n >= 1 against the RFC 3416 4.2.3 agent (next n successors, endOfMibView padding once the MIB is exhausted): getbulk_walk, and bulk_eq_next (both walks yield the subtree); the agent hypothesis is shown satisfiable (agent_exists, encoding of valid OIDs is injective). Supporting theorems: byte-prefix = arc-prefix and cmp_arcs = arc order on canonical encodings, end-of-MIB answers stop the walk, fetch policy. fetch, sync/async and v1/v2c/v3 equivalence: e2e against an RFC agent simulator over random MIBs with an independent subtree oracle.",
         TB + "the Python iterator classes are modelled (Walk.drain / bulkWalk / agentWalk) and compared e2e; asyncio, sockets not modelled.",
         "Lean 4 proof (refinement to an abstract agent/subtree spec, induction over the sorted MIB) + e2e oracle + correspondence", "§7 C05"),
 "C06": ("Lean theorems for an ARBITRARY agent (any list of reply PDUs): every yielded OID is inside the subtree; yields are strictly increasing in sub-identifier order (cmp_arcs proved irreflexive and transitive), hence never repeated; each follow-up request names the last accepted OID; empty / non-data / out-of-subtree / non-increasing replies end the walk; for GetNext and GetBulk including the Python iterator wrappers. E2E with hostile scripts through the raw API, the sync iterators and the async client against an independent walk specification with an iteration cap.",
         TB + "Python iterator classes are modelled (Walk.walkNext / walkBulk) and compared e2e.",
         "Lean 4 proof (invariant by induction over the reply history) + e2e oracle + correspondence", "§7 C06"),
 "C07": ("Lean theorems: the complete result table of get (0 / 1 / >=2 varbinds; NULL, exception values, data), get_many = dict of the data varbinds with last-binding-wins and unique keys, Report -> SnmpAuthError for all four operations, BlockingIOError -> TimeoutError in the sync client, class hierarchy from the generated error table. E2E over all session kinds with generated replies against the documented table; conversion-layer correspondence.",
         TB + "PyO3 conversions trusted.",
         "Lean 4 proof (exhaustive case analysis + induction over the varbind list) + e2e oracle + correspondence", "§7 C07"),
 "C08": ("Lean theorems over all byte strings: every accepted text is transmitted as exactly the X.690 content of the arcs its parts denote (sound), canonical text of every valid OID is accepted (complete) and prints back identically, every other text is refused with InvalidData and never panics; the five-way arc encoder equals the minimal base-128 form. Independent Spec.derOid / Spec.dotted. Correspondence + independent denotation oracle on generated and malformed texts.",
         TB + "Rust u32::from_str / split / Display modelled and compared.",
         "Lean 4 proof (soundness + completeness against an independent DER spec) + differential correspondence", "§7 C08"),
 "C15": ("Lean theorems: for every i64 the INTEGER encoder writes the minimal two's complement form (X.690 8.3.2) and the decoder inverts it; push_tag_len writes the minimal length form and the header parser inverts it for all lengths < 65536; OID / OCTET STRING / NULL, every Get/GetNext/GetBulk v1/v2c message and every v3 message (any flags, USM parameters, plaintext scoped PDU or ciphertext; usm_roundtrip, msgdata_roundtrip, msg_v3) round-trip through the library's own decoder. Correspondence + independent minimal encoder / strict decoder on exhaustive small integers, boundary neighbourhoods and generated messages.",
         TB,
         "Lean 4 proof (encoder specification + decoder inverse) + differential correspondence", "§7 C15"),
 "C16": ("Lean theorems: generic from_ber of every typed decoder, SnmpValue (REAL included) and the header parser return the same value and exactly the appended bytes as remainder for every (x, s); the header is determined by its own octets and a declared length exceeding the available octets yields Incomplete; bytes after a v1/v2c/v3 message or after a response varbind list yield TrailingData. Metamorphic oracle on the real decoders (append / truncate).",
         TB, "Lean 4 proof (locality lemmas) + metamorphic oracle + correspondence", "§7 C16"),
 "C17": ("Lean theorems: every sequence of buffer operations keeps the position inside the array; under the operations the library uses no unwritten cell is exposed (the bare pub skip does expose them: proved hazard, no call site); a v1/v2c request fails with OutOfBuffer iff its encoding exceeds the capacity and is otherwise complete; capacity < 65536. Op-sequence correspondence against the Lean model and a Vec-backed shadow; sizes swept across 127/128, 255/256 and the capacity against an independent encoder.",
         TB + "the unsafe blocks are modelled as list operations; no sanitizer run.",
         "Lean 4 proof (invariant over operation histories, encoder specification) + differential correspondence", "§7 C17"),
 "C18": ("Lean theorems over a discrete-time model of the receive loop (Model/Timing.lean) for EVERY arrival schedule (any number of datagrams of any kind at any times): the blocking call (one deadline per call, as repaired by the fix commit 4d1c0ae) and the awaited call end no later than timeout + the processing time of one datagram; a silent agent and an agent that only sends non-matching datagrams yield TimeoutError; a matching reply in hand before the deadline is delivered; old_unbounded proves that the pre-repair loop (fresh timeout per recv) has no bound; the socket option is modelled explicitly (syncRecvS re-arms SO_RCVTIMEO with the remainder, syncCall restores it): armed_is_remaining, call_restores, calls_bounded (every call of any history of calls on one session ends within the configured timeout). Tied to the code by running the same schedules through the real sync and async SnmpSession (v1, v2c, v3) on a 50 ms grid with re-confirmation.",
         TB + "the discrete-time abstraction of SO_RCVTIMEO and asyncio.wait_for; kernel, event loop and thread scheduling are not modelled (wall-clock slack of one tick).",
         "Lean 4 proof (induction over arrival schedules on a discrete-time model) + wall-clock schedule oracle + correspondence", "§7 C18"),
 "C19": ("Lean theorems over an executable model of RPSPolicer.get_timeout for every interval and every admissible history of any length: delay <= one interval; any k+2 consecutive releases span more than k intervals; constructor refusals. Tied to policer.py by running model and implementation on the same generated histories.",
         TB + "float division NS/rps, sleep and the clock.",
         "Lean 4 proof (invariant by induction over histories) + differential correspondence", "§7 C19"),
}

NOT_YET = "check not built yet in this round (planned, see DESIGN.md §7); not a statement that the technique cannot apply"


def main():
    props = [json.loads(l) for l in open("/verif/properties.jsonl")]
    checks = []
    for pid in sorted(CLAIMS):
        text, note, tech, ref = CLAIMS[pid]
        checks.append({
            "property_id": pid,
            "quick_cmd": f"./check {pid} --tier quick",
            "thorough_cmd": f"./check {pid} --tier thorough",
            "evidence_file": f"/verif/evidence/{pid}.json",
            "replay_cmd_template": f"./check {pid} --replay {{path}}",
            "engine": "lean-proof+correspondence",
            "level_claimed": {"category": "proof", "text": text, "design_ref": "DESIGN.md " + ref},
            "level_note": note,
            "technique": tech,
        })
    na = [{"property_id": p["id"], "reason": NOT_YET} for p in props if p["id"] not in CLAIMS]
    m = {"version": 1, "setup_cmd": "sh tools/setup.sh",
         "hooks": {"guard": "gufo_snmp_verif",
                   "enable": "RUSTFLAGS='--cfg gufo_snmp_verif' (harness/rust/build.sh sets it for the in-crate Rust harness; the Python extension used by the e2e checks is built WITHOUT it). One hook: PrivKey::set_salt_value (start value of the DES / AES salt counter) used by the C14 wrap-around stream; everything else needs no hook: the Rust harness compiles /repo/src inside its own crate (generated crate root), the e2e harness uses the real extension",
                   "baseline_off_cmd": "cd /repo && cargo test --workspace --no-fail-fast --offline",
                   "source_commits": ["395f6e3"], "add_only": True},
         "engines": [{"name": "lean-proof+correspondence", "path": "/verif/lean, /verif/tools, /verif/harness",
                      "serves_properties": sorted(CLAIMS),
                      "kind_free_text": "Lean 4 model + theorems; generated constants; compiled model driver vs Rust in-crate harness and Python e2e harness"}],
         "checks": checks, "not_applicable": na,
         "notes": "fix: commits in /repo are listed in known_findings.json under 'fixed'."}
    json.dump(m, open("/verif/MANIFEST.json", "w"), indent=1)
    print("claimed:", sorted(CLAIMS))


if __name__ == "__main__":
    main()
