#!/usr/bin/env python3
"""Deliberately (re)record the statements of a property's obligations in Props/statements.lock.

The check compares every obligation's pretty-printed type with this file, so a theorem cannot
be weakened quietly to make a proof pass; changing a statement means running this tool and
committing the diff of statements.lock, which is reviewed like any other change."""
import json
import os
import sys

sys.path.insert(0, os.path.dirname(os.path.abspath(__file__)))
from vlib import common  # noqa: E402


def main():
    lock = common.statements_lock()
    for pid in sys.argv[1:]:
        ok, msg = common.gen_consts()
        ob = common.obligations(pid)
        ok, log = common.lake_build([ob["module"]])
        if not ok:
            print(log[-2000:])
            raise SystemExit(1)
        res, _ = common.audit(pid)
        for x in res:
            if x["kind"] == "theorem":
                lock[x["name"]] = common.norm_stmt(x["type"])
                print("locked", x["name"])
            else:
                print("NOT A THEOREM", x)
    p = os.path.join(common.LEAN, "GufoSnmp", "Props", "statements.lock")
    with open(p, "w") as f:
        json.dump(lock, f, indent=1, sort_keys=True, ensure_ascii=False)


if __name__ == "__main__":
    main()
