#!/usr/bin/env python3
"""Evaluate the checks against seeded changes.

  seedtest.py confirm <worktree> <k>      confirm a candidate in its scratch worktree: tests pass with the
                                          patch, the demo fails with it and passes without it
  seedtest.py keep <worktree> <k> <prop>  copy a confirmed candidate to /verif/seeded/<prop>-<name>/
  seedtest.py run <seed-dir> [checks...]  apply the patch to /repo, run the checks (default: the property's own),
                                          undo it; prints which checks report a violation
"""
import json
import os
import shutil
import subprocess
import sys
import time

ROOT = "/verif"


def sh(cmd, cwd=None, env=None, timeout=3600):
    e = dict(os.environ)
    if env:
        e.update(env)
    return subprocess.run(cmd, shell=True, cwd=cwd, text=True, capture_output=True, env=e, timeout=timeout)


def confirm(wt, k):
    out = os.path.join(wt, "_out", str(k))
    env = {"CARGO_TARGET_DIR": os.path.join(wt, "target"), "CARGO_NET_OFFLINE": "true"}
    res = {}
    sh("git checkout -- . && git clean -fdq -e _out -e target", cwd=wt)
    r = sh(f"sh {out}/run_demo.sh", cwd=wt, env=env)
    res["demo_without_patch_rc"] = r.returncode
    sh("git checkout -- . && git clean -fdq -e _out -e target", cwd=wt)
    r = sh(f"git apply {out}/patch.diff", cwd=wt)
    if r.returncode != 0:
        res["apply"] = r.stderr[-300:]
        return res
    r = sh("cargo test --workspace --offline 2>&1 | grep -E '^test result' | head -3", cwd=wt, env=env)
    res["tests_with_patch"] = r.stdout.strip()
    r = sh(f"sh {out}/run_demo.sh", cwd=wt, env=env)
    res["demo_with_patch_rc"] = r.returncode
    sh("git checkout -- . && git clean -fdq -e _out -e target", cwd=wt)
    res["confirmed"] = (res["demo_without_patch_rc"] == 0 and res["demo_with_patch_rc"] != 0
                        and "104 passed; 0 failed" in res["tests_with_patch"])
    return res


def keep(wt, k, prop, name=None):
    out = os.path.join(wt, "_out", str(k))
    dst = os.path.join(ROOT, "seeded", f"{prop}-{name or k}")
    os.makedirs(dst, exist_ok=True)
    for fn in os.listdir(out):
        shutil.copy(os.path.join(out, fn), os.path.join(dst, fn))
    return dst


def run(seed, checks):
    seed = os.path.abspath(seed)
    patch = os.path.join(seed, "patch.diff")
    sh("git checkout -- .", cwd="/repo")
    r = sh(f"git apply {patch}", cwd="/repo")
    if r.returncode != 0:
        return {"apply_error": r.stderr[-300:]}
    res = {}
    try:
        for c in checks:
            t = time.time()
            r = sh(f"./check {c} --tier quick", cwd=ROOT)
            line = [l for l in r.stdout.splitlines() if l.startswith("VIOLATION") or l.startswith("CHECK-ERROR")]
            what = [l for l in r.stdout.splitlines() if l.startswith("  ")]
            res[c] = {"rc": r.returncode, "verdict": line[0] if line else "OK", "what": what[0][:300] if what else "",
                      "wall": round(time.time() - t, 1)}
    finally:
        sh("git checkout -- .", cwd="/repo")
    return res


if __name__ == "__main__":
    cmd = sys.argv[1]
    if cmd == "confirm":
        print(json.dumps(confirm(sys.argv[2], sys.argv[3]), indent=1))
    elif cmd == "keep":
        print(keep(sys.argv[2], sys.argv[3], sys.argv[4], sys.argv[5] if len(sys.argv) > 5 else None))
    elif cmd == "run":
        seed = sys.argv[2]
        checks = sys.argv[3:]
        if not checks:
            with open(os.path.join(seed, "meta.json")) as f:
                checks = [json.load(f)["property"]]
        print(json.dumps(run(seed, checks), indent=1))
