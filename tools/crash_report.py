#!/usr/bin/env python3
"""The check process itself died (killed by a signal, or left with a status that is neither 0 nor 1) — typically
because the implementation, which the Python checks load in-process as an extension module, crashed the interpreter
(segmentation fault, abort). That is never a pass: report it as a violation with what is known."""
import argparse
import json
import os
import signal
import sys

sys.path.insert(0, os.path.dirname(os.path.abspath(__file__)))
from vlib import common  # noqa: E402


def main():
    ap = argparse.ArgumentParser()
    ap.add_argument("rc", type=int)
    ap.add_argument("pid")
    ap.add_argument("--tier", default=os.environ.get("VERIF_TIER", "quick"))
    ap.add_argument("--replay")
    a = ap.parse_args()
    tier = a.tier if a.tier in ("quick", "thorough") else "quick"
    signo = a.rc - 128 if a.rc > 128 else None
    try:
        signame = signal.Signals(signo).name if signo else None
    except ValueError:
        signame = None
    what = (f"the check process was killed by {signame or 'signal ' + str(signo)}" if signo else f"the check process exited with status {a.rc}")
    what += (" while it was driving the implementation in-process (the extension module runs inside the check): the implementation "
             "crashed the interpreter — an abort or an access outside its buffers")
    chk = common.Check(a.pid, tier, int(os.environ.get("VERIF_SEED", "20260930")))
    progress = os.path.join(common.ROOT, ".build", f"progress-{a.pid}.txt")
    last = ""
    if os.path.exists(progress):
        with open(progress) as f:
            last = f.read()[:2000]
    chk.violation("oracle", what + (f"; last recorded step: {last[-300:]}" if last else ""),
                  {"kind": "oracle", "lines": [last] if last else [], "exit_status": a.rc, "signal": signame,
                   "broken": ["the check process did not survive the run"]}, no_input=not last)
    rc = chk.finish()
    sys.stdout.flush()
    os._exit(rc)


if __name__ == "__main__":
    main()
