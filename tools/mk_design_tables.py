#!/usr/bin/env python3
"""Regenerate the generated tables of DESIGN.md §11 (between the BEGIN/END markers) from obligations.json,
known_findings.json and seeded/*/meta.json."""
import json
import os
import re

ROOT = "/verif"


def seeds_table():
    rows = ["| seed | change and trigger (as described by its author) | own check | what the check reported |",
            "|---|---|---|---|"]
    sd = os.path.join(ROOT, "seeded")
    for d in sorted(os.listdir(sd)):
        mp = os.path.join(sd, d, "meta.json")
        if not os.path.exists(mp):
            continue
        m = json.load(open(mp))
        notes = ""
        np_ = os.path.join(sd, d, "notes.md")
        if os.path.exists(np_):
            notes = open(np_).read()
        first = re.sub(r"\s+", " ", re.sub(r"[#*`|]", "", notes)).strip()[:260]
        res = m.get("result", {})
        what = re.sub(r"\s+", " ", str(res.get("what", ""))).replace("|", "/").strip()[:150]
        verdict = "DETECTED" if m.get("detected") else "missed"
        if "no-failing-input-found" in str(res.get("verdict", "")):
            verdict += " (no failing input: proof / correspondence only)"
        also = m.get("also_detected_by")
        rows.append(f"| {d} | {first} | {verdict}"
                    f"{' ; also ' + ', '.join(also) if also else ''} | {what} |")
    return "\n".join(rows)


def obligations_table():
    ob = json.load(open(os.path.join(ROOT, "lean/GufoSnmp/Props/obligations.json")))
    rows = ["| property | theorems (all audited: no sorry, axioms ⊆ {propext, Classical.choice, Quot.sound}) |", "|---|---|"]
    for pid in sorted(ob):
        rows.append(f"| {pid} | " + ", ".join("`" + t.split(".")[-1] + "`" for t in ob[pid]["theorems"]) + " |")
    return "\n".join(rows)


def main():
    p = os.path.join(ROOT, "DESIGN.md")
    s = open(p).read()
    for name, fn in (("SEEDS", seeds_table), ("OBLIGATIONS", obligations_table)):
        a, b = f"<!-- BEGIN {name} -->", f"<!-- END {name} -->"
        if a in s:
            s = s[:s.index(a) + len(a)] + "\n" + fn() + "\n" + s[s.index(b):]
    open(p, "w").write(s)


if __name__ == "__main__":
    main()
