#!/usr/bin/env python3
"""(Re)evaluate every kept seed with its own property's quick check and write meta.json."""
import json
import os
import subprocess
import sys

ROOT = "/verif/seeded"
only = sys.argv[1:]
for d in sorted(os.listdir(ROOT)):
    if only and not any(d.startswith(o) for o in only):
        continue
    sd = os.path.join(ROOT, d)
    if not os.path.exists(os.path.join(sd, "patch.diff")):
        continue
    prop = d.split("-")[0]
    mp0 = os.path.join(sd, "meta.json")
    if os.path.exists(mp0):
        with open(mp0) as f:
            if json.load(f).get("obsolete_after_fix"):
                print(d, "OBSOLETE (its mechanism was removed by a fix: commit)")
                continue
    r = subprocess.run([sys.executable, "/verif/tools/seedtest.py", "run", sd, prop], text=True, capture_output=True)
    try:
        res = json.loads(r.stdout)
    except ValueError:
        res = {"error": r.stdout[-300:] + r.stderr[-300:]}
    notes = ""
    np_ = os.path.join(sd, "notes.md")
    if os.path.exists(np_):
        with open(np_) as f:
            notes = f.read()
    meta_p = os.path.join(sd, "meta.json")
    meta = {}
    if os.path.exists(meta_p):
        with open(meta_p) as f:
            meta = json.load(f)
    meta.update({
        "property": prop,
        "origin": "written by an independent sub-agent that saw only the property text and its own scratch worktree",
        "needs_to_manifest": meta.get("needs_to_manifest") or notes.strip().split("\n\n")[0][:600],
        "confirmed": "tools/seedtest.py confirm: the pinned 104 tests pass with the patch; run_demo.sh fails with it and passes without it",
        "ran": f"tools/seedtest.py run seeded/{d} {prop}  (git apply in /repo, ./check {prop} --tier quick, git checkout)",
        "result": res.get(prop, res),
        "detected": bool(res.get(prop, {}).get("rc") == 1),
    })
    with open(meta_p, "w") as f:
        json.dump(meta, f, indent=1)
    v = res.get(prop, {})
    print(d, "DETECTED" if meta["detected"] else "MISSED", "|", str(v.get("what", ""))[:140])
