#!/bin/sh
# Build the framework from files on disk only (offline): generated constants, the Lean
# project (model, theorems, driver executable), the Rust harness and the real extension.
set -e
export CARGO_NET_OFFLINE=true
cd /verif
python3 tools/gen_consts.py
(cd lean && lake build GufoSnmp gsvmodel)
harness/rust/build.sh >/dev/null
python3 -c "import sys; sys.path.insert(0,'/verif/harness/py'); import build; print(build.build_ext())"
echo setup-ok
