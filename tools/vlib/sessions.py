"""Session-level histories through the real Python extension, recorded for the oracles and
rendered as `session` requests for the Lean model."""
import os
import socket
import sys

from vlib import e2e, values

sys.path.insert(0, "/verif/harness/py")
import agent as ag  # noqa: E402
import ber  # noqa: E402
import usm  # noqa: E402


def ag_make(env, kw):
    return ag.make_sock(env.fast, env.agent, 3, timeout_ns=0, **kw)


def hx(b):
    return b.hex() if b else "-"


def drain_client(sock):
    """datagrams left in the client's receive queue (read through a dup of its fd)"""
    if sock is None:
        return []
    s = socket.fromfd(sock.get_fd(), socket.AF_INET, socket.SOCK_DGRAM)
    s.setblocking(False)
    out = []
    try:
        while True:
            try:
                out.append(s.recv(65535))
            except (BlockingIOError, InterruptedError):
                break
    finally:
        s.close()
    return out


def render_result(r):
    """e2e result tuple -> the model's rendering"""
    if r[0] == "ok":
        return "pyok " + e2e_repr(r[1])
    if not r[2]:
        return "PANIC"
    return "pyerr " + r[1]


def e2e_repr(v):
    return repr(v)


import collections  # noqa: E402
_LIVE = collections.deque()


class Sess:
    """one client session under test + its recorded history"""

    def __init__(self, env, peer, rng, label=None, deferred=False):
        self.env, self.peer, self.rng = env, peer, rng
        label = label or (peer.label + (":deferred" if deferred else ""))
        self.deferred = deferred and peer.kind == "v3"
        if self.deferred:
            # what the Python clients do without an engine id: the default user (no name, no keys) until discovery
            import copy
            self.kw0 = dict(engine_id=b"", user_name="", auth_alg=0, auth_key=b"", priv_alg=0, priv_key=b"")
            self.conv = e2e.Conv(peer, env, sock=ag_make(env, self.kw0))
            self.final_state = peer.state
            self.peer = copy.copy(peer)
            self.peer.state = ag.V3AgentState(b"", boots=0, time=0, user="")
            self.peer.discover = False
            self.conv.peer = self.peer
            peer = self.peer
        else:
            self.conv = e2e.Conv(peer, env)
            self.kw0 = e2e.client_kwargs(peer.state, with_engine_id=not peer.discover) if peer.kind == "v3" else None
        # the checks keep every session (its recorded history is replayed on the model at the end); its socket is only
        # needed while the history is being recorded: the descriptors of sessions created long ago are given back
        _LIVE.append(self)
        while len(_LIVE) > 2000:
            old = _LIVE.popleft()
            old.conv.sock = None
            old.iters = []
        self.iters = []
        self.cursor = {}      # iterator index -> arcs the next request of that iterator must name (when tracked)
        self.base_len = {}    # iterator index -> number of arcs of its base
        self.events = []      # model event strings
        self.expect = []      # implementation observations in the model's rendering
        self.records = []     # dicts for the oracles
        self.installs = [{"seed": None, "failed": 0, "priv": peer.state.priv_alg if peer.kind == "v3" else 0}]
        self.pending_ok = False   # the last send succeeded (recv is meaningful)
        self.label = label or peer.label
        self.discovered = False
        # (boots, time) of the most recent message the session accepted; None = not tracked
        self.last_bt = (0, 0) if (peer.kind == "v3" and not peer.discover and not deferred) else None
        self.keys_installs = 0

    # -- model configuration ----------------------------------------------------
    def cfg(self):
        p = self.peer
        if p.kind == "v1":
            return "v1," + hx(p.community.encode())
        if p.kind == "v2c":
            return "v2c," + hx(p.community.encode())
        kw = self.kw0
        return ",".join(["v3", hx(kw["engine_id"]), hx(kw["user_name"].encode()), str(kw["auth_alg"]),
                         hx(kw["auth_key"]), str(kw["priv_alg"]), hx(kw["priv_key"]), str(self.installs[0]["seed"] or 0)])

    def line(self):
        evs = ";".join(self.events) if self.events else "-"
        for k, inst in enumerate(self.installs):
            evs = evs.replace("{SEED%d}" % k, str(inst["seed"] or 0))
        return f"session {self.cfg()} {evs}"

    def set_keys(self, state, raw_kw=None):
        """install another user / key set (a V3AgentState describes it); the agent side follows.
        raw_kw: hand these arguments to the socket as they are (key material user.py would never produce: an empty
        password, a localized key of the wrong size): the call is expected to fail and to leave the session as it was"""
        import copy
        kw = raw_kw or e2e.client_kwargs(state)
        r = e2e.ncall(lambda: self.conv.sock.set_keys(kw["user_name"], kw["auth_alg"], kw["auth_key"], kw["priv_alg"],
                                                      kw["priv_key"]))
        k = len(self.installs)
        self.records.append({"kind": "setkeys", "session": self.label, "result": r, "state": state})
        if r[0] == "ok":
            self.events.append(f"setkeys,{hx(kw['user_name'].encode())},{kw['auth_alg']},{hx(kw['auth_key'])},"
                               f"{kw['priv_alg']},{hx(kw['priv_key'])},{{SEED{k}}}")
            self.installs.append({"seed": None, "failed": 0, "priv": state.priv_alg})
            self.peer = copy.copy(self.peer)
            self.peer.state = state
            self.conv.peer = self.peer
            self.expect.append("ok")
        else:
            # a refused key set installs nothing: no new salt seed to learn, the installation in force goes on
            self.events.append(f"setkeys,{hx(kw['user_name'].encode())},{kw['auth_alg']},{hx(kw['auth_key'])},"
                               f"{kw['priv_alg']},{hx(kw['priv_key'])},0")
            self.expect.append(render_result(r))
        return r

    def expected(self):
        return "ok " + "|".join(self.expect)

    # -- actions ------------------------------------------------------------------
    def new_iter(self, oid, maxrep):
        r = e2e.ncall(lambda: self.conv.new_iter(oid, maxrep))
        self.events.append(f"iter,{hx(oid.encode())},{maxrep}")
        if r[0] == "ok":
            self.iters.append(r[1])
            self.expect.append("ok")
            try:
                self.base_len[len(self.iters) - 1] = len(values.arcs_norm(oid))
            except ValueError:
                pass
            return len(self.iters) - 1
        self.expect.append("pyerr " + r[1])
        return None

    def send(self, op, arg=None, it=None):
        """op: get (arg = oid text), getmany (list of texts), getnext / getbulk (it = iterator index), refresh"""
        if self.conv.sock is None:
            # the constructor failed: record the call with that outcome (no model event: there is no session)
            rec = {"kind": "send", "session": self.label, "op": op, "arg": arg, "iter": it, "result": self.conv.ctor_error,
                   "datagrams": [], "req": None, "expect_bt": None, "ctor_failed": True}
            self.records.append(rec)
            return rec
        bm = self.rng.choice([0, 0, 17, 4079, 100000])
        if op == "get":
            r = self.conv.send("get", arg)
            call = "get:" + hx(arg.encode())
        elif op == "getmany":
            r = self.conv.send("getmany", list(arg))
            call = "getmany:" + ":".join(hx(a.encode()) for a in arg) if arg else "getmany"
        elif op in ("getnext", "getbulk"):
            r = self.conv.send(op, self.iters[it])
            call = f"{op}:{it}"
        else:
            r = self.conv.send("refresh")
            call = "refresh"
        rec = {"kind": "send", "session": self.label, "op": op, "arg": arg, "iter": it, "result": r,
               "datagrams": list(self.conv.raw or []), "req": self.conv.req, "expect_bt": self.last_bt,
               "expect_oid": self.cursor.get(it) if it is not None else None}
        self.records.append(rec)
        # a failed send reveals no ids: assume the common 4-octet case (a shorter random id could
        # make a borderline request fit, see compare())
        rr = rm = 2 ** 31 - 1
        if r[0] == "ok" and self.conv.req and "request_id" in self.conv.req:
            rr = self.conv.req["request_id"]
            rm = self.conv.req.get("msg_id", 0)
            self._learn_seed(self.conv.req)
            self.pending_ok = True
        else:
            self.pending_ok = False
            if r[0] == "exc" and r[1] == "SnmpEncodeError" and self.peer.kind == "v3" and self.installs[-1]["priv"]:
                self.installs[-1]["failed"] += 1
        self.events.append(f"send,{call},{rr},{rm},{bm}")
        if r[0] == "ok":
            dg = self.conv.raw[-1] if self.conv.raw else b""
            self.expect.append("ok " + hx(dg))
        else:
            self.expect.append(render_result(r))
        return rec

    def _learn_seed(self, req):
        inst = self.installs[-1]
        if inst["seed"] is not None or not req.get("encrypted") or len(req["priv_params"]) != 8:
            return
        salt = req["priv_params"]
        inst["sent"] = inst.get("sent", 0)
        if inst["priv"] == 1:
            c = int.from_bytes(salt[4:8], "big")
            inst["seed"] = (c - inst["failed"]) % 2 ** 32
        else:
            c = int.from_bytes(salt, "big")
            inst["seed"] = (c - inst["failed"]) % 2 ** 64

    def recv(self, op, datagrams, it=None):
        if self.conv.sock is None:
            rec = {"kind": "recv", "session": self.label, "op": op, "iter": it, "datagrams": [], "result": self.conv.ctor_error,
                   "consumed": 0}
            self.records.append(rec)
            return rec
        self.conv.inject(datagrams)
        r = self.conv.recv(op, self.iters[it] if it is not None else None)
        left = drain_client(self.conv.sock)
        consumed = len(datagrams) - len(left)
        rec = {"kind": "recv", "session": self.label, "op": op, "iter": it, "datagrams": list(datagrams),
               "result": r, "consumed": consumed}
        self.records.append(rec)
        self.events.append(f"recv,{op},{'-' if it is None else it},{':'.join(hx(d) for d in datagrams) if datagrams else '.'}")
        self.expect.append(f"{render_result(r)}#{consumed}")
        return rec

    def engine_id(self):
        r = e2e.ncall(lambda: self.conv.sock.get_engine_id())
        self.events.append("state")
        self.expect.append(("STATE", r[1] if r[0] == "ok" else None))
        return r


def compare(expect, model_out):
    """expected observations vs the model's output line; returns None or (index, want, got)"""
    if not model_out.startswith("ok "):
        return (-1, "ok ...", model_out)
    parts = model_out[3:].split("|")
    if len(parts) != len(expect):
        return (-1, f"{len(expect)} results", f"{len(parts)} results: {model_out[:200]}")
    for k, (w, g) in enumerate(zip(expect, parts)):
        if isinstance(w, tuple) and w[0] == "STATE":
            if w[1] is not None and g.split(" ")[0] != hx(w[1]):
                return (k, hx(w[1]), g)
            continue
        if w != g:
            if w == "pyerr SnmpEncodeError" and g.startswith("ok ") and len(g) - 3 >= 2 * (4080 - 10):
                continue   # borderline size: fits only with shorter (unknown) random ids than assumed
            return (k, w, g)
    return None


# ---------------------------------------------------------------- history generator

def discovery_flow(s, lose_first=False):
    """what the Python clients' refresh() does with a deferred user: probe, Report, set_keys, then an
    authenticated probe for the time window (RFC 3414 sec. 4)"""
    rec = s.send("refresh")
    s.discovered = True
    if rec["result"][0] != "ok" or not s.conv.req or "request_id" not in s.conv.req:
        return False
    req = s.conv.req
    st = s.final_state if s.deferred else s.peer.state
    r = s.recv("refresh", [st.report(req["request_id"], req["msg_id"], user=req["user"])])
    if r["result"][0] != "ok":
        return False
    s.set_keys(st)
    rec = s.send("refresh")
    if rec["result"][0] != "ok" or not s.conv.req or "request_id" not in s.conv.req:
        return False
    req = s.conv.req
    s.recv("refresh", [st.report(req["request_id"], req["msg_id"], auth=bool(st.auth_alg))])
    return True


BIG_MAXREP = [1, 2, 20, 127, 128, 255, 256, 32767, 32768, 65535, 65536, 2 ** 24, 2 ** 31 - 1]


def rand_oid_text(rng, long=False):
    arcs = values.gen_arcs(rng, n=rng.randrange(0, 12) if not long else rng.randrange(100, 127))
    if long:
        arcs = arcs[:2] + tuple(2 ** 32 - 1 for _ in arcs[2:])
    return values.dotted(arcs)


def bad_oid_text(rng):
    return rng.choice(["", "1", "1.", ".1.3", "1..3", "3.1", "1.40", "1.3.4294967296", "1.3.-1", "a.b", "1.3.6.x",
                       "1 .3", "2.39.99999999999999999999"])


def default_peers():
    ps = [e2e.Peer("v1"), e2e.Peer("v2c"), e2e.Peer("v1", community="c" * 200), e2e.Peer("v2c", community="")]
    for auth in (0, 1, 2):
        for priv in (0, 1, 2):
            if priv and not auth:
                continue
            ps.append(e2e.Peer("v3", auth=auth, priv=priv))
    ps.append(e2e.Peer("v3", auth=1, priv=2, auth_kt="master", priv_kt="master"))
    ps.append(e2e.Peer("v3", auth=2, priv=1, auth_kt="localized", priv_kt="localized"))
    # key types given in different forms for the two keys
    ps.append(e2e.Peer("v3", auth=2, priv=2, auth_kt="password", priv_kt="master"))
    ps.append(e2e.Peer("v3", auth=1, priv=1, auth_kt="localized", priv_kt="password"))
    ps.append(e2e.Peer("v3", auth=2, priv=1, auth_kt="master", priv_kt="localized"))
    ps.append(e2e.Peer("v3", auth=2, priv=2, engine_id=bytes(range(1, 33)), user="u" * 32))
    # engine ids beyond the RFC 3411 bound of 32 octets (an agent may announce anything): long-form lengths everywhere
    ps.append(e2e.Peer("v3", auth=1, priv=0, engine_id=bytes(range(128)), auth_kt="localized"))
    ps.append(e2e.Peer("v3", auth=2, priv=2, engine_id=bytes(255) + b"\x01" * 45, auth_kt="localized", priv_kt="localized"))
    ps.append(e2e.Peer("v3", auth=0, priv=0, engine_id=b"\x80\x00\x00\x00\x01", user=""))
    return ps


def run_history(env, rng, peers, n_sessions, steps, oversize_bias=0.08, reply_bias=0.6):
    """interleaved calls on several sessions that share the process-wide buffer pool"""
    sess = [Sess(env, rng.choice(peers), rng) for _ in range(n_sessions)]
    for _ in range(steps):
        s = rng.choice(sess)
        if s.peer.kind == "v3" and s.peer.discover and not s.discovered:
            discovery_flow(s)
            continue
        v3 = s.peer.kind == "v3"
        k = rng.random()
        if k < oversize_bias:
            # a request that cannot fit the buffer
            s.send("getmany", [rand_oid_text(rng, long=True) for _ in range(rng.choice([7, 8, 9, 11, 16, 24, 40]))])   # just over .. far beyond
            continue
        if k < oversize_bias + 0.06:
            if rng.random() < 0.5:
                s.send("get", bad_oid_text(rng))
            else:
                lst = [rand_oid_text(rng) for _ in range(rng.randrange(1, 4))]
                lst.insert(rng.randrange(len(lst) + 1), bad_oid_text(rng))
                s.send("getmany", lst)
            continue
        op = rng.choice(["get", "get", "getmany", "getnext", "getbulk"] + (["refresh"] if v3 else []))
        if s.peer.kind == "v1" and op == "getbulk":
            op = "getnext"
        it = None
        if op == "get":
            rec = s.send("get", rand_oid_text(rng))
        elif op == "getmany":
            n = rng.choice([0, 1, 2, 3, 6, 20])
            rec = s.send("getmany", [rand_oid_text(rng) for _ in range(n)])
        elif op in ("getnext", "getbulk"):
            if not s.iters or rng.random() < 0.4:
                base = rand_oid_text(rng) if rng.random() < 0.9 else bad_oid_text(rng)
                it = s.new_iter(base, rng.choice(BIG_MAXREP))
                if it is None:
                    continue
            else:
                it = rng.randrange(len(s.iters))
            rec = s.send(op, it=it)
        else:
            rec = s.send("refresh")
        if rec["result"][0] != "ok" or not s.conv.req or "request_id" not in s.conv.req:
            continue
        if rng.random() < reply_bias:
            req = s.conv.req
            if v3 and rng.random() < 0.3:
                s.peer.state.boots = rng.choice([0, 1, 5, 2 ** 31 - 1])
                s.peer.state.time = rng.choice([0, 1000, 2 ** 31 - 1, rng.getrandbits(31)])
            if op in ("getnext", "getbulk"):
                cur = tuple(req["varbinds"][0][0])
                name = cur + (rng.randrange(1, 5),)
                base_len = s.base_len.get(it, len(cur))
                if len(cur) > base_len + 1 and rng.random() < 0.5:
                    # a later sibling higher up: greater, inside the subtree, but SHORTER than the cursor
                    name = cur[:base_len + 1][:-1] + (cur[base_len] + 1,)
                vbs = [ber.varbind(name, ber.INT(rng.randrange(100)))]
            elif op == "refresh":
                vbs = []
            else:
                vbs = [ber.varbind(a, ber.INT(rng.randrange(100))) for a, _, _ in req["varbinds"][:3]]
            dgs = [s.peer.response(req, vbs)]
            bt = (s.peer.state.boots, s.peer.state.time) if v3 else None
            if rng.random() < 0.25:
                # a well-formed datagram that does not answer this request arrives first; it announces another clock
                if v3 and rng.random() < 0.4:
                    # a Report from another engine behind the same address (right user and msgID): not for this session
                    other = bytes(rng.getrandbits(8) for _ in range(rng.choice([5, 12, 17])))
                    stray = s.peer.response(req, [], pdu_tag=8, engine_id=other, boots=4242, time=4343)
                elif v3:
                    stray = s.peer.response(req, vbs, msg_id=(req["msg_id"] + 1) % 2 ** 31, boots=77777, time=88888)
                else:
                    stray = s.peer.response(req, vbs, request_id=(req["request_id"] + 1) % 2 ** 31)
                dgs.insert(0, stray)
                if rng.random() < 0.3:
                    dgs = dgs[:1]          # ... and the real reply is lost
            r = s.recv(op, dgs, it=it)
            if v3 and s.last_bt is not None and len(dgs) == r["consumed"] and not (
                    r["result"][0] == "exc" and r["result"][1] == "BlockingIOError"):
                s.last_bt = bt
            if op in ("getnext", "getbulk") and it is not None:
                if r["result"][0] == "ok" and len(dgs) == r["consumed"]:
                    s.cursor[it] = name          # accepted: the iterator's next request must name exactly this OID
                else:
                    s.cursor.pop(it, None)
        elif rng.random() < 0.3:
            s.recv(op, [], it=it)
    return sess


def model_compare(chk, sess, model_ok=True, label="session"):
    """replay the recorded session histories on the Lean model (`session` requests) and report the first
    disagreement as a correspondence break. Returns (lines run, disagreements)."""
    from vlib import common
    todo = [s for s in sess if s.events]
    if not model_ok or not todo:
        return 0, 0
    lines = [s.line() for s in todo]
    out, rc, err = common.run_model(lines)
    nd = 0
    for s, ln, mo in zip(todo, lines, out + ["<missing>"] * (len(lines) - len(out))):
        d = compare(s.expect, mo)
        if d:
            nd += 1
            if nd == 1:
                chk.violation("correspondence",
                              f"session history of {s.label}: event {d[0]} implementation {str(d[1])[:120]} model {str(d[2])[:120]}",
                              {"kind": "correspondence", "stream": label, "lines": [ln[:400000]], "impl": [str(d[1])[:500]],
                               "model": [str(d[2])[:500]],
                               "broken": [f"correspondence {label} histories: Lean Session.send/recvLoop vs /repo"]},
                              no_input=True)
    return len(lines), nd


def rand_v3_peer(rng, auth=None, priv=None, discover=False, kt=None):
    """a v3 identity with boundary-biased field widths (they move the auth-parameter offset)"""
    auth = rng.choice([0, 1, 2]) if auth is None else auth
    priv = (rng.choice([0, 1, 2]) if auth else 0) if priv is None else priv
    eng = bytes(rng.getrandbits(8) for _ in range(rng.choice([5, 5, 9, 11, 12, 17, 31, 32, 32, 33, 40, 64])))
    r = rng.random()
    if r < 0.12:
        # engine ids as deployed: enterprise prefix + zero padding (runs of 11..20 zero octets), or all zeros
        eng = rng.choice([bytes.fromhex("80001f8805") + bytes(rng.choice([11, 12, 14, 20])) + b"\x17",
                          bytes(rng.choice([12, 13, 17, 24])), bytes.fromhex("8000000001") + bytes(12)])
    user = "".join(rng.choice("abcXYZ09_-") for _ in range(rng.choice([0, 1, 8, 16, 31, 32])))
    if rng.random() < 0.04:
        user = "\x00" * rng.choice([12, 13, 16])
    kts = ["password", "master", "localized"]
    akt = kt or rng.choice(kts)
    pkt = kt or rng.choice(kts)
    # secrets are often reused: by several users of one process, for both keys of a user, with different digests
    POOL = [b"authpassword", b"privpassword", b"maplesyrup", b"x", b"s3cr3t-s3cr3t-s3cr3t"]
    apw = rng.choice(POOL) if rng.random() < 0.5 else bytes(rng.getrandbits(8) for _ in range(rng.choice([1, 8, 13, 64, 100])))
    ppw = rng.choice(POOL) if rng.random() < 0.5 else bytes(rng.getrandbits(8) for _ in range(rng.choice([1, 8, 13, 64, 100])))
    boots = rng.choice([0, 1, 127, 128, 255, 256, 65535, 65536, 2 ** 24, 2 ** 31 - 1])
    time = rng.choice([0, 1, 127, 128, 32767, 32768, 2 ** 23, 2 ** 31 - 1, rng.getrandbits(31)])
    return e2e.Peer("v3", auth=auth, priv=priv, engine_id=eng, user=user, auth_pw=apw, priv_pw=ppw,
                    auth_kt=akt, priv_kt=pkt, boots=boots, time=time, discover=discover)
