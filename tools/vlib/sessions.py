"""Session-level histories through the real Python extension, recorded for the oracles and
rendered as `session` requests for the Lean model."""
import os
import socket
import sys

from vlib import e2e, values

sys.path.insert(0, "/verif/harness/py")
import ber  # noqa: E402
import usm  # noqa: E402


def hx(b):
    return b.hex() if b else "-"


def drain_client(sock):
    """datagrams left in the client's receive queue (read through a dup of its fd)"""
    s = socket.fromfd(sock.get_fd(), socket.AF_INET, socket.SOCK_DGRAM)
    s.setblocking(False)
    out = []
    try:
        while True:
            try:
                out.append(s.recv(65535))
            except (BlockingIOError, InterruptedError):
                break
    finally:
        s.close()
    return out


def render_result(r):
    """e2e result tuple -> the model's rendering"""
    if r[0] == "ok":
        return "pyok " + e2e_repr(r[1])
    if not r[2]:
        return "PANIC"
    return "pyerr " + r[1]


def e2e_repr(v):
    return repr(v)


class Sess:
    """one client session under test + its recorded history"""

    def __init__(self, env, peer, rng, label=None):
        self.env, self.peer, self.rng = env, peer, rng
        self.conv = e2e.Conv(peer, env)
        self.iters = []
        self.events = []      # model event strings
        self.expect = []      # implementation observations in the model's rendering
        self.records = []     # dicts for the oracles
        self.failed_priv_sends = 0
        self.seed = None
        self.pending_ok = False   # the last send succeeded (recv is meaningful)
        self.label = label or peer.label
        self.keys_installs = 0

    # -- model configuration ----------------------------------------------------
    def cfg(self):
        p = self.peer
        if p.kind == "v1":
            return "v1," + hx(p.community.encode())
        if p.kind == "v2c":
            return "v2c," + hx(p.community.encode())
        kw = p.state.client_kwargs(with_engine_id=not p.discover)
        return ",".join(["v3", hx(kw["engine_id"]), hx(kw["user_name"].encode()), str(kw["auth_alg"]),
                         hx(kw["auth_key"]), str(kw["priv_alg"]), hx(kw["priv_key"]), str(self.seed or 0)])

    def line(self):
        return f"session {self.cfg()} {';'.join(self.events) if self.events else '-'}"

    def expected(self):
        return "ok " + "|".join(self.expect)

    # -- actions ------------------------------------------------------------------
    def new_iter(self, oid, maxrep):
        r = e2e.ncall(lambda: self.conv.new_iter(oid, maxrep))
        self.events.append(f"iter,{hx(oid.encode())},{maxrep}")
        if r[0] == "ok":
            self.iters.append(r[1])
            self.expect.append("ok")
            return len(self.iters) - 1
        self.expect.append("pyerr " + r[1])
        return None

    def send(self, op, arg=None, it=None):
        """op: get (arg = oid text), getmany (list of texts), getnext / getbulk (it = iterator index), refresh"""
        bm = self.rng.choice([0, 0, 17, 4079, 100000])
        if op == "get":
            r = self.conv.send("get", arg)
            call = "get:" + hx(arg.encode())
        elif op == "getmany":
            r = self.conv.send("getmany", list(arg))
            call = "getmany:" + ":".join(hx(a.encode()) for a in arg) if arg else "getmany"
        elif op in ("getnext", "getbulk"):
            r = self.conv.send(op, self.iters[it])
            call = f"{op}:{it}"
        else:
            r = self.conv.send("refresh")
            call = "refresh"
        rec = {"kind": "send", "session": self.label, "op": op, "arg": arg, "iter": it, "result": r,
               "datagrams": list(self.conv.raw or []), "req": self.conv.req}
        self.records.append(rec)
        # a failed send reveals no ids: assume the common 4-octet case (a shorter random id could
        # make a borderline request fit, see compare())
        rr = rm = 2 ** 31 - 1
        if r[0] == "ok" and self.conv.req and "request_id" in self.conv.req:
            rr = self.conv.req["request_id"]
            rm = self.conv.req.get("msg_id", 0)
            self._learn_seed(self.conv.req)
            self.pending_ok = True
        else:
            self.pending_ok = False
            if r[0] == "exc" and r[1] == "SnmpEncodeError" and self.peer.kind == "v3" and self.peer.state.priv_alg:
                self.failed_priv_sends += 1
        self.events.append(f"send,{call},{rr},{rm},{bm}")
        if r[0] == "ok":
            dg = self.conv.raw[-1] if self.conv.raw else b""
            self.expect.append("ok " + hx(dg))
        else:
            self.expect.append(render_result(r))
        return rec

    def _learn_seed(self, req):
        if self.seed is not None or not req.get("encrypted"):
            return
        salt = req["priv_params"]
        if self.peer.state.priv_alg == 1:
            c = int.from_bytes(salt[4:8], "big")
            self.seed = (c - self.failed_priv_sends) % 2 ** 32
        else:
            c = int.from_bytes(salt, "big")
            self.seed = (c - self.failed_priv_sends) % 2 ** 64

    def recv(self, op, datagrams, it=None):
        self.conv.inject(datagrams)
        r = self.conv.recv(op, self.iters[it] if it is not None else None)
        left = drain_client(self.conv.sock)
        consumed = len(datagrams) - len(left)
        rec = {"kind": "recv", "session": self.label, "op": op, "iter": it, "datagrams": list(datagrams),
               "result": r, "consumed": consumed}
        self.records.append(rec)
        self.events.append(f"recv,{op},{'-' if it is None else it},{':'.join(hx(d) for d in datagrams) if datagrams else '-'}")
        self.expect.append(f"{render_result(r)}#{consumed}")
        return rec

    def engine_id(self):
        r = e2e.ncall(lambda: self.conv.sock.get_engine_id())
        self.events.append("state")
        self.expect.append(("STATE", r[1] if r[0] == "ok" else None))
        return r


def compare(expect, model_out):
    """expected observations vs the model's output line; returns None or (index, want, got)"""
    if not model_out.startswith("ok "):
        return (-1, "ok ...", model_out)
    parts = model_out[3:].split("|")
    if len(parts) != len(expect):
        return (-1, f"{len(expect)} results", f"{len(parts)} results: {model_out[:200]}")
    for k, (w, g) in enumerate(zip(expect, parts)):
        if isinstance(w, tuple) and w[0] == "STATE":
            if w[1] is not None and g.split(" ")[0] != hx(w[1]):
                return (k, hx(w[1]), g)
            continue
        if w != g:
            if w == "pyerr SnmpEncodeError" and g.startswith("ok ") and len(g) - 3 >= 2 * (4080 - 10):
                continue   # borderline size: fits only with shorter (unknown) random ids than assumed
            return (k, w, g)
    return None


# ---------------------------------------------------------------- history generator

BIG_MAXREP = [1, 2, 20, 127, 128, 255, 256, 32767, 32768, 65535, 65536, 2 ** 24, 2 ** 31 - 1]


def rand_oid_text(rng, long=False):
    arcs = values.gen_arcs(rng, n=rng.randrange(0, 12) if not long else rng.randrange(100, 127))
    if long:
        arcs = arcs[:2] + tuple(2 ** 32 - 1 for _ in arcs[2:])
    return values.dotted(arcs)


def bad_oid_text(rng):
    return rng.choice(["", "1", "1.", ".1.3", "1..3", "3.1", "1.40", "1.3.4294967296", "1.3.-1", "a.b", "1.3.6.x",
                       "1 .3", "2.39.99999999999999999999"])


def default_peers():
    ps = [e2e.Peer("v1"), e2e.Peer("v2c"), e2e.Peer("v1", community="c" * 200), e2e.Peer("v2c", community="")]
    for auth in (0, 1, 2):
        for priv in (0, 1, 2):
            if priv and not auth:
                continue
            ps.append(e2e.Peer("v3", auth=auth, priv=priv))
    ps.append(e2e.Peer("v3", auth=1, priv=2, auth_kt="master", priv_kt="master"))
    ps.append(e2e.Peer("v3", auth=2, priv=1, auth_kt="localized", priv_kt="localized"))
    ps.append(e2e.Peer("v3", auth=2, priv=2, engine_id=bytes(range(1, 33)), user="u" * 32))
    ps.append(e2e.Peer("v3", auth=0, priv=0, engine_id=b"\x80\x00\x00\x00\x01", user=""))
    return ps


def run_history(env, rng, peers, n_sessions, steps, oversize_bias=0.08, reply_bias=0.6):
    """interleaved calls on several sessions that share the process-wide buffer pool"""
    sess = [Sess(env, rng.choice(peers), rng) for _ in range(n_sessions)]
    for _ in range(steps):
        s = rng.choice(sess)
        v3 = s.peer.kind == "v3"
        k = rng.random()
        if k < oversize_bias:
            # a request that cannot fit the buffer
            s.send("getmany", [rand_oid_text(rng, long=True) for _ in range(rng.randrange(7, 12))])
            continue
        if k < oversize_bias + 0.06:
            if rng.random() < 0.5:
                s.send("get", bad_oid_text(rng))
            else:
                lst = [rand_oid_text(rng) for _ in range(rng.randrange(1, 4))]
                lst.insert(rng.randrange(len(lst) + 1), bad_oid_text(rng))
                s.send("getmany", lst)
            continue
        op = rng.choice(["get", "get", "getmany", "getnext", "getbulk"] + (["refresh"] if v3 else []))
        if s.peer.kind == "v1" and op == "getbulk":
            op = "getnext"
        it = None
        if op == "get":
            rec = s.send("get", rand_oid_text(rng))
        elif op == "getmany":
            n = rng.choice([0, 1, 2, 3, 6, 20])
            rec = s.send("getmany", [rand_oid_text(rng) for _ in range(n)])
        elif op in ("getnext", "getbulk"):
            if not s.iters or rng.random() < 0.4:
                base = rand_oid_text(rng) if rng.random() < 0.9 else bad_oid_text(rng)
                it = s.new_iter(base, rng.choice(BIG_MAXREP))
                if it is None:
                    continue
            else:
                it = rng.randrange(len(s.iters))
            rec = s.send(op, it=it)
        else:
            rec = s.send("refresh")
        if rec["result"][0] != "ok" or not s.conv.req or "request_id" not in s.conv.req:
            continue
        if rng.random() < reply_bias:
            req = s.conv.req
            if v3 and rng.random() < 0.3:
                s.peer.state.boots = rng.choice([0, 1, 5, 2 ** 31 - 1])
                s.peer.state.time = rng.choice([0, 1000, 2 ** 31 - 1, rng.getrandbits(31)])
            if op in ("getnext", "getbulk"):
                name = tuple(req["varbinds"][0][0]) + (rng.randrange(1, 5),)
                vbs = [ber.varbind(name, ber.INT(rng.randrange(100)))]
            elif op == "refresh":
                vbs = []
            else:
                vbs = [ber.varbind(a, ber.INT(rng.randrange(100))) for a, _, _ in req["varbinds"][:3]]
            s.recv(op, [s.peer.response(req, vbs)], it=it)
        elif rng.random() < 0.3:
            s.recv(op, [], it=it)
    return sess
