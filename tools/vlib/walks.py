"""Walk drivers (raw socket API, sync iterator classes, async client) and independent walk oracles."""
import sys

from vlib import e2e, values

sys.path.insert(0, "/verif/harness/py")
import ber  # noqa: E402

CAP = 400          # iteration cap: a walk that yields more than this is reported as not terminating

NULLV, EXC = values.NULLV, values.EXC
REPORT = ("report",)


def vb_bytes(rep):
    """rep: list of (arcs | raw name TLV bytes, value TLV bytes)"""
    out = []
    for name, val in rep:
        out.append(ber.varbind(name, val) if not isinstance(name, bytes) else ber.SEQ(name, val))
    return out



def relativize(rng, rows, p=0.5):
    """rows: list of (arcs, valueTLV). Returns the same rows with some names (never the first) written as
    RELATIVE-OID elements (tag 0x0d): the last k arcs of the *previous resolved name of that reply* are replaced by
    the k arcs given; legal when both names have the same number of arcs and at least three leading arcs are kept.
    The denoted names are unchanged: a client must deliver exactly the same OIDs as for absolute names."""
    out = []
    prev = None
    for name, val in rows:
        enc = name
        if (prev is not None and not isinstance(name, bytes) and len(name) == len(prev) and len(name) > 3
                and rng.random() < p):
            common = 0
            while common < len(name) and name[common] == prev[common]:
                common += 1
            kmin = max(1, len(name) - common)
            kmax = len(name) - 3
            if kmin <= kmax:
                k = rng.randrange(kmin, kmax + 1)
                enc = ber.tlv(0x0d, b"".join(ber.base128(a) for a in name[len(name) - k:]))
        out.append((enc, val))
        if not isinstance(name, bytes):
            prev = tuple(name)
    return out


class Outcome:
    def __init__(self):
        self.yields = []       # (dotted oid, python value)
        self.requests = []     # decoded request dicts
        self.ending = None     # 'stop' | ('exc', name, is_exception) | 'cap'


def _reply_dgs(peer, req, rep):
    if rep is None:
        return []
    if rep is REPORT:
        return [peer.response(req, [], pdu_tag=8)]
    return [peer.response(req, vb_bytes(rep))]


def run_raw(peer, kind, base, maxrep, replies, env=None):
    """drive the raw split API; replies: list of rep (list of (name, valueTLV)) | None | REPORT"""
    conv = e2e.Conv(peer, env)
    out = Outcome()
    r = e2e.ncall(lambda: conv.new_iter(base, maxrep if kind == "bulk" else None))
    if r[0] != "ok":
        out.ending = r
        return out
    it = r[1]
    op = "getnext" if kind == "next" else "getbulk"
    buf = []
    step = 0
    while len(out.yields) <= CAP:
        if kind == "bulk" and buf:
            v = buf.pop(0)
            if v is None:
                out.ending = "stop"
                return out
            out.yields.append(v)
            continue
        s = conv.send(op, it)
        if s[0] != "ok":
            out.ending = s
            return out
        out.requests.append(conv.req)
        rep = replies[step] if step < len(replies) else None
        step += 1
        conv.inject(_reply_dgs(peer, conv.req, rep))
        r = conv.recv(op, it)
        if r[0] == "exc":
            out.ending = "stop" if r[1] == "StopAsyncIteration" else r
            return out
        if kind == "next":
            out.yields.append(r[1])
        else:
            buf = list(r[1])
            if not buf:
                out.ending = "stop"
                return out
    out.ending = "cap"
    return out


def run_sync(peer, kind, base, maxrep, replies, env=None, use_fetch=False, allow_bulk=True, abandon_after=None, pre=False):
    """the sync iterator classes (GetNextIter / GetBulkIter / SnmpSession.fetch) over a socket shim"""
    env = env or e2e.env()
    conv = e2e.Conv(peer, env)
    out = Outcome()
    state = {"step": 0}

    def script(op, req):
        if state.get("pre"):
            # the walk the caller abandons before the walk under test: a full page below its own base
            names = [tuple(req["varbinds"][0][0]) + (i,) for i in range(1, 7)]
            return [peer.response(req, [ber.varbind(n, ber.INT(9000 + i)) for i, n in enumerate(names)])]
        out.requests.append(req)
        rep = replies[state["step"]] if state["step"] < len(replies) else None
        state["step"] += 1
        return _reply_dgs(peer, req, rep)
    shim = e2e.SockShim(conv, script)
    from gufo.snmp.sync_client.getbulk import GetBulkIter
    from gufo.snmp.sync_client.getnext import GetNextIter
    if pre and peer.kind != "v1":
        state["pre"] = True
        pit = GetBulkIter(shim, "1.3.6.1.4.1.99999.7", 6)
        e2e.ncall(lambda: (next(pit), next(pit)))      # two rows, then the caller `break`s
        state["pre"] = False

    def mk():
        if use_fetch:
            from gufo.snmp import SnmpVersion
            from gufo.snmp.sync_client import SnmpSession
            ver = {"v1": SnmpVersion.v1, "v2c": SnmpVersion.v2c}.get(peer.kind, SnmpVersion.v2c)
            sess = SnmpSession("127.0.0.1", port=env.agent.port, community="public", version=ver,
                               timeout=0.05, max_repetitions=maxrep or 20, allow_bulk=allow_bulk)
            sess._sock = shim
            return sess.fetch(base)
        if kind == "next":
            return GetNextIter(shim, base)
        return GetBulkIter(shim, base, maxrep)
    r = e2e.ncall(mk)
    if r[0] != "ok":
        out.ending = r
        return out
    itr = r[1]
    while len(out.yields) <= CAP:
        if abandon_after is not None and len(out.yields) >= abandon_after:
            out.ending = "abandoned"      # the caller leaves the loop early (`break`); rows may stay buffered
            return out
        # callers consume a walk in pieces (`itertools.islice`, a `for` left with `break` and resumed): each piece
        # starts with iter(it), which must hand back the same walk at the same position
        if len(out.yields) % 3 == 2:
            ri = e2e.ncall(lambda: iter(itr))
            if ri[0] == "ok":
                itr = ri[1]
        r = e2e.ncall(lambda: next(itr))
        if r[0] == "exc":
            out.ending = "stop" if r[1] == "StopIteration" else r
            return out
        out.yields.append(r[1])
    out.ending = "cap"
    return out


def run_async(peer, kind, base, maxrep, replies, use_fetch=False, allow_bulk=True, abandon_after=None, pre=None):
    """the async client against an agent living on the same event loop"""
    out = Outcome()
    state = {"step": 0}

    def script(dg):
        try:
            req = peer.decode(dg)
        except ber.BerError as ex:
            req = {"undecodable": str(ex)}
            out.requests.append(req)
            return []
        if state.get("pre"):
            # the abandoned walk: a full page of rows below its own base
            names = [tuple(req["varbinds"][0][0]) + (i,) for i in range(1, 7)]
            return [peer.response(req, [ber.varbind(n, ber.INT(9000 + i)) for i, n in enumerate(names)])]
        out.requests.append(req)
        rep = replies[state["step"]] if state["step"] < len(replies) else None
        state["step"] += 1
        return _reply_dgs(peer, req, rep)

    async def main(port):
        from gufo.snmp import SnmpVersion
        from gufo.snmp.async_client import SnmpSession
        from gufo.snmp.user import Aes128Key, DesKey, KeyType, Md5Key, Sha1Key, User
        kw = dict(timeout=0.3, max_repetitions=maxrep or 20, allow_bulk=allow_bulk)
        if peer.kind == "v3":
            s = peer.state
            kt = {"password": KeyType.Password, "master": KeyType.Master, "localized": KeyType.Localized}
            ak = pk = None
            if s.auth_alg:
                ak = (Md5Key if s.auth_alg == 1 else Sha1Key)(s.auth_secret, key_type=kt[s.auth_key_type])
            if s.priv_alg:
                pk = (DesKey if s.priv_alg == 1 else Aes128Key)(s.priv_secret, key_type=kt[s.priv_key_type])
            sess = SnmpSession("127.0.0.1", port=port, engine_id=s.engine_id,
                               user=User(s.user.decode(), auth_key=ak, priv_key=pk), **kw)
        else:
            ver = SnmpVersion.v1 if peer.kind == "v1" else SnmpVersion.v2c
            sess = SnmpSession("127.0.0.1", port=port, community=peer.community, version=ver, **kw)
        if pre is not None:
            # an earlier walk on the same session that the caller abandons after a few rows
            pbase, pmaxrep, pn = pre
            state["pre"] = True
            k = 0
            async for _ in sess.getbulk(pbase, pmaxrep):
                k += 1
                if k >= pn:
                    break
            state["pre"] = False
        if use_fetch:
            itr = sess.fetch(base)
        elif kind == "next":
            itr = sess.getnext(base)
        else:
            itr = sess.getbulk(base, maxrep)
        async for item in itr:
            out.yields.append(item)
            if abandon_after is not None and len(out.yields) >= abandon_after:
                return "abandoned"
            if len(out.yields) > CAP:
                return "cap"
        return "stop"
    r, _ = e2e.run_async(main, script)
    if r[0] == "ok":
        out.ending = r[1]
    else:
        name = r[1][2:] if r[1].startswith("PySnmp") or r[1] == "PyNoSuchInstance" else r[1]
        out.ending = ("exc", name, r[2])
    return out


# ---------------------------------------------------------------- oracles

LAST_REQS = []   # request OIDs (arcs) expected by the last expected_walk call

def arcs_of(dotted):
    return tuple(int(x) for x in dotted.split("."))


def expected_walk(kind, base, replies):
    """independent executable statement of the walk on arcs (canonical names only).
    replies: list of rep = list of (arcs, pyvalue|NULLV|EXC) | None | REPORT.
    Returns (yields [(dotted, value)], ending) with ending 'stop' | 'timeout' | ('exc', name)."""
    cur = tuple(base)
    out = []
    global LAST_REQS
    LAST_REQS = []
    for rep in replies:
        LAST_REQS.append(cur)
        if rep is None:
            return out, "timeout"
        if rep is REPORT:
            return out, ("exc", "SnmpAuthError")
        if kind == "next":
            if len(rep) == 0:
                return out, "stop"
            if len(rep) > 1:
                return out, ("exc", "SnmpDecodeError")
            arcs, val = rep[0]
            arcs = tuple(arcs)
            if arcs[:len(base)] != tuple(base) or not arcs > cur:
                return out, "stop"
            cur = arcs
            if val is NULLV or val is EXC:
                return out, "stop"
            out.append((values.dotted(arcs), val))
        else:
            if len(rep) == 0:
                return out, "stop"
            items, stopped = [], False
            for arcs, val in rep:
                arcs = tuple(arcs)
                if val is NULLV or val is EXC:
                    continue
                if arcs[:len(base)] != tuple(base) or not arcs > cur:
                    stopped = True
                    break
                cur = arcs
                items.append((values.dotted(arcs), val))
            out += items
            if stopped or not items:
                return out, "stop"
    LAST_REQS.append(cur)
    return out, "timeout"


def safety_clauses(base, out, received):
    """C06's clauses on what was observed; `received`: all (dotted name) the agent sent, in order.
    Returns a violation text or None."""
    b = tuple(base)
    prev = b
    for oid, _ in out.yields:
        a = arcs_of(oid)
        if a[:len(b)] != b or len(a) <= len(b) and a == b:
            return f"yielded {oid} outside the subtree {values.dotted(b)}"
        if not a > prev:
            return f"yielded {oid} after {values.dotted(prev)}: not strictly increasing"
        prev = a
    if out.ending == "cap":
        return f"walk did not end within {CAP} yields"
    # in the order received
    pos = 0
    for oid, _ in out.yields:
        try:
            pos = received.index(oid, pos) + 1
        except ValueError:
            return f"yielded {oid} which was not received at that point (order violated)"
    return None
