"""Ground-truth value generator: (BER encoding built by the independent encoder, expected Python value)."""
import sys

sys.path.insert(0, "/verif/harness/py")
import ber  # noqa: E402

NULLV = ("null",)          # marker: universal NULL
EXC = ("exc",)             # marker: noSuchObject / noSuchInstance / endOfMibView

INT_BOUNDS = sorted(set(
    [0, 1, -1, 127, 128, -128, -129, 255, 256, 32767, 32768, -32768, -32769, 2 ** 31 - 1, 2 ** 31, -2 ** 31,
     2 ** 32 - 1, 2 ** 32, 2 ** 63 - 1, -2 ** 63, -2 ** 63 + 1]
    + [s * (2 ** (8 * k - 1)) + d for k in range(1, 9) for s in (1, -1) for d in (-1, 0, 1)
       if -2 ** 63 <= s * (2 ** (8 * k - 1)) + d < 2 ** 63]))

ARC_BOUNDS = [0, 1, 39, 127, 128, 16383, 16384, 2 ** 21 - 1, 2 ** 21, 2 ** 28 - 1, 2 ** 28, 2 ** 32 - 1]


def gen_arcs(rng, first=None, n=None):
    a0 = rng.choice([0, 1, 1, 1, 2]) if first is None else first
    a1 = rng.randrange(40)
    # (now and then the longest names the SMI allows: 126 / 127 / 128 sub-identifiers; small arcs keep them short)
    if n is None and rng.random() < 0.03:
        k = rng.choice([124, 125, 126])
        return (a0, a1) + tuple(rng.randrange(128) for _ in range(k))
    k = rng.randrange(0, 10) if n is None else n
    return (a0, a1) + tuple(rng.choice(ARC_BOUNDS) if rng.random() < 0.4 else rng.getrandbits(rng.randrange(1, 33))
                            for _ in range(k))


def dotted(arcs):
    return ".".join(str(a) for a in arcs)


def lf(rng, n):
    """optionally a non-minimal long-form length"""
    if rng.random() < 0.12:
        need = 1 if n < 256 else (2 if n < 65536 else 3)
        return rng.randrange(need, need + 3)
    return None


def gen_value(rng, data_only=False, allow_real=True):
    """returns (encoded TLV, expected Python value | NULLV | EXC, kind)"""
    kinds = ["int", "int", "c32", "g32", "tt", "u32", "c64", "oct", "oct", "opaque", "objdesc", "ip", "oid", "bool"]
    if allow_real:
        kinds += ["real"]
    if not data_only:
        kinds += ["null", "nso", "nsi", "eomv"]
    k = rng.choice(kinds)
    if k == "int":
        v = rng.choice(INT_BOUNDS) if rng.random() < 0.5 else rng.randrange(-2 ** 63, 2 ** 63)
        if rng.random() < 0.3:
            nb = rng.randrange(1, 9)
            v = rng.randrange(-2 ** (8 * nb - 1), 2 ** (8 * nb - 1))
        c = ber.int_content(v)
        pad = 0
        if rng.random() < 0.15 and len(c) < 8:
            pad = rng.randrange(1, 9 - len(c))          # redundant sign octets, still <= 8 octets
            c = (b"\xff" if v < 0 else b"\x00") * pad + c
        return ber.tlv(0x02, c, lf(rng, len(c))), v, k
    if k in ("c32", "g32", "tt", "u32"):
        tag = {"c32": 0x41, "g32": 0x42, "tt": 0x43, "u32": 0x47}[k]
        v = rng.choice([0, 1, 127, 128, 255, 256, 2 ** 31 - 1, 2 ** 31, 2 ** 32 - 1]) if rng.random() < 0.5 else rng.getrandbits(32)
        c = ber.uint_content(v, pad=rng.choice([0, 0, 0, 1]) if v < 2 ** 31 else 0)
        return ber.tlv(tag, c, lf(rng, len(c))), v, k
    if k == "c64":
        v = rng.choice([0, 1, 2 ** 32, 2 ** 63 - 1, 2 ** 63, 2 ** 64 - 1]) if rng.random() < 0.5 else rng.getrandbits(64)
        c = ber.uint_content(v)
        return ber.tlv(0x46, c, lf(rng, len(c))), v, k
    if k in ("oct", "opaque", "objdesc"):
        tag = {"oct": 0x04, "opaque": 0x44, "objdesc": 0x07}[k]
        n = rng.choice([0, 1, 2, 5, 127, 128, 255, 256, 300]) if rng.random() < 0.4 else rng.randrange(0, 40)
        c = bytes(rng.getrandbits(8) for _ in range(n))
        return ber.tlv(tag, c, lf(rng, n)), c, k
    if k == "ip":
        c = bytes(rng.getrandbits(8) for _ in range(4))
        return ber.tlv(0x40, c), ".".join(str(x) for x in c), k
    if k == "oid":
        arcs = gen_arcs(rng)
        c = ber.oid_content(arcs)
        return ber.tlv(0x06, c, lf(rng, len(c))), dotted(arcs), k
    if k == "bool":
        b = rng.choice([0, 1, 0xff, 0x80])
        return ber.tlv(0x01, bytes([b])), b != 0, k
    if k == "real":
        m = rng.randrange(8)
        if m == 0:
            return ber.tlv(0x09, b""), 0.0, k
        if m == 1:
            which = rng.choice([(0x40, float("inf")), (0x41, float("-inf")), (0x43, -0.0), (0x42, float("nan"))])
            return ber.tlv(0x09, bytes([which[0]])), which[1], k
        if m in (2, 3):
            v = rng.choice([0, 1, -1, 2 ** 31 - 1, -2 ** 31, rng.randrange(-10 ** 6, 10 ** 6)])
            txt = ("+" if v >= 0 and rng.random() < 0.2 else "") + str(v)
            return ber.tlv(0x09, b"\x01" + txt.encode()), float(v), k
        if m in (4, 5):
            txt = rng.choice(["3.14", "-0.5", ".5", "5.", "0.1", "123456.789", "-0.000001", "1.7976931348623157",
                              "%d.%d" % (rng.randrange(10 ** 6), rng.randrange(10 ** 6))])
            return ber.tlv(0x09, b"\x02" + txt.encode()), float(txt), k
        txt = rng.choice(["1E3", "1.5e-3", "-2.5E+10", "1e308", "1e-320", "4.9e-324", "1e400", "-1e400",
                          "%d.%de%d" % (rng.randrange(10), rng.randrange(1000), rng.randrange(-300, 300))])
        return ber.tlv(0x09, b"\x03" + txt.encode()), float(txt), k
    if k == "null":
        return ber.NULL, NULLV, k
    return {"nso": ber.NOSUCHOBJECT, "nsi": ber.NOSUCHINSTANCE, "eomv": ber.ENDOFMIBVIEW}[k], EXC, k


def arcs_norm(text):
    """arcs denoted by an accepted OID text (`+` and leading zeros tolerated)"""
    return tuple(int(x) for x in text.split("."))
