"""Deterministic request-line generators for the gsv / gsvmodel line protocol (harness/PROTOCOL.md).

Every generator takes a `random.Random` and a size `n` and is a pure function of the rng state
(no global state, no hashing-order dependence).  Only the stdlib and the independent codec
/verif/harness/py/ber.py are used.

  gen_values(rng, n) -> list[bytes]      single SNMP values (BER), structurally valid, boundary biased
  mutate(rng, data) -> bytes             one random mutation (8 kinds)
  malformed(rng) -> bytes                hand-built grammar-malformed TLV shapes
  gen_pdus(rng, n) -> list[bytes]        PDUs (responses / requests / reports / unknown tags)
  lines_<stream>(rng, n) -> list[str]    request lines; the streams are listed in STREAMS
  exhaustive_small(alphabet, max_len)    iterator over all byte strings, ALPHABET is the default alphabet
  stats / stats_walk / format_stats      histograms request kind x response kind

The decoder streams mix 40% valid / 40% mutated / 20% malformed inputs; `mutate_inner` mutates an
inner element of an encoding tree and re-wraps it, so that the outer lengths stay consistent.
"""
import itertools
import re
import sys

sys.path.insert(0, "/verif/harness/py")
import ber  # noqa: E402

ALPHABET = [0x00, 0x01, 0x02, 0x04, 0x05, 0x06, 0x09, 0x0d, 0x1f, 0x30, 0x7f, 0x80, 0x81, 0x82, 0xa2, 0xff]

I64_MIN, I64_MAX = -(2 ** 63), 2 ** 63 - 1


# ---------------------------------------------------------------- small helpers

def hx(b):
    """protocol HEX: lowercase hex, `-` for the empty string"""
    return b.hex() if b else "-"


def _pick(rng, seq):
    return seq[int(rng.random() * len(seq))]


def _ri(rng, lo, hi):
    """uniform integer in [lo, hi]"""
    return lo + int(rng.random() * (hi - lo + 1))


def len_octets(n, lenform=None):
    """BER length octets; lenform k>0 forces the long form with k octets"""
    if lenform is None:
        if n < 128:
            return bytes((n,))
        if n < 256:
            return bytes((0x81, n))
        if n < 65536:
            return bytes((0x82, n >> 8, n & 255))
        b = n.to_bytes((n.bit_length() + 7) // 8, "big")
        return bytes((0x80 | len(b),)) + b
    while n >> (8 * lenform):
        lenform += 1
    return bytes((0x80 | lenform,)) + n.to_bytes(lenform, "big")


def tlv(tag, content, lenform=None):
    n = len(content)
    if lenform is None and n < 128:
        return bytes((tag, n)) + content
    return bytes((tag,)) + len_octets(n, lenform) + content


def _lenform(rng, n, p=0.15):
    """None (minimal) or a non-minimal long form 1..3 with probability p"""
    if rng.random() >= p:
        return None
    lf = 1 + int(rng.random() * 3)
    if lf == 1 and n > 255:
        lf = 2
    return lf


def int_tlv(v, pad=0):
    c = ber.int_content(v)
    if pad:
        c = (b"\xff" if v < 0 else b"\x00") * pad + c
    return tlv(0x02, c)


base128 = ber.base128


def oid_text_content(text):
    """reference text -> content conversion for well-formed dotted OIDs (first<=2, second<=39)"""
    a = [int(p) for p in text.split(".")]
    return bytes((40 * a[0] + a[1],)) + b"".join(base128(x) for x in a[2:])


# ---------------------------------------------------------------- 1. values

def _int_bounds():
    s = {0, 1, -1, 2, -2, I64_MAX, I64_MIN, 2 ** 63, -(2 ** 63) - 1, 2 ** 64, 2 ** 64 - 1, -(2 ** 64)}
    for k in range(1, 9):
        for b in (2 ** (8 * k - 1), 2 ** (8 * k)):
            for d in (-1, 0, 1):
                s.add(b + d)
                s.add(-b + d)
    return sorted(s)


INT_BOUNDS = _int_bounds()
I64_BOUNDS = [v for v in INT_BOUNDS if I64_MIN <= v <= I64_MAX]
U32_VALS = [0, 1, 127, 128, 255, 256, 32767, 32768, 65535, 65536, 2 ** 24 - 1, 2 ** 24,
            2 ** 31 - 1, 2 ** 31, 2 ** 31 + 1, 2 ** 32 - 1]
U64_VALS = U32_VALS + [2 ** 32, 2 ** 32 + 1, 2 ** 56, 2 ** 63 - 1, 2 ** 63, 2 ** 63 + 1, 2 ** 64 - 1]
STR_LENS = [0, 1, 127, 128, 255, 256]
ARC_BOUNDS = [0, 1, 127, 128, 16383, 16384, 2 ** 21 - 1, 2 ** 21, 2 ** 28 - 1, 2 ** 28, 2 ** 32 - 1]
ARC_ENC = [base128(a) for a in ARC_BOUNDS]
ARC_ODD = [base128(2 ** 32), base128(2 ** 35 + 5), base128(2 ** 42 - 1), b"\x80\x01", b"\x80\x80\x7f",
           b"\x80\x81\x00", b"\xff\xff\xff\xff\xff\x7f"]
TEXTY = b"ab'\"\\\t\n\r \x7f\x00\xffZ09{}"

REAL_NR1 = ["123", "-5", "+7", " 12", "2147483647", "2147483648", "-2147483648", "-2147483649", "",
            "1e3", "0", "-0", "007", "1_0", "12 ", "+", "-", "١٢", "99999999999"]
REAL_NR2 = ["3.14", "-0.5", ".5", "5.", ".", "1,5", "+1.5", "0.0", "-0.0", "1.5e3", "inf", "456.7", "-456.7",
            "", "1..2", "1.2.3", " 1.5", "00.50"]
REAL_NR3 = ["1E3", "1.5e-3", "1e", "e5", "inf", "nan", "-Infinity", "1e400", "1e-400", "0x10", "+Inf", "NaN",
            "-nan", "+nan", "infinity", "INFINITY", "infinit", "1e+3", "1E-0", "123456789012345678901234567890",
            "0.1", "1e308", "1.7976931348623157e308", "1.7976931348623159e308", "4.9e-324", "2.4e-324",
            "2.5e-324", "1e5 ", "1 e5", "1.e5", ".e5", "-.5e1", "+", "-", "", "4567e-1", "-4567e-1", "1E+0",
            "15E-1", "1e0001", "1e-0", "-0e0", "0e999999999999", "1e99999999999999999999", "1d3", "1f", "1e5f",
            "9007199254740993", "0.30000000000000004", "1e23", "8.5e-5", "½"]
REAL_RAW = [b"\x03\xff\xfe", b"\x031\xff", b"\x01\xc3", b"\x02\xe2\x82", b"\x00", b"\x00123", b"\x04", b"\x041e3",
            b"\x3f1", b"\x10", b"\x45", b"\x7f", b"\x50", b"\x400", b"\x40\x00", b"\x42\x42", b"\x44", b"\x44\x00"]


def _k_int(rng, clean=False):
    r = rng.random()
    if r < 0.04:
        return 0x02, b""
    if r < 0.70:
        v = _pick(rng, I64_BOUNDS if clean else INT_BOUNDS)
    else:
        k = 1 + int(rng.random() * 8)
        v = rng.getrandbits(8 * k) - (1 << (8 * k - 1))
    c = ber.int_content(v)
    if rng.random() < 0.3:
        room = (8 if clean else 10) - len(c)
        pad = min(1 + int(rng.random() * 3), room)
        if pad > 0:
            c = (b"\xff" if v < 0 else b"\x00") * pad + c
    return 0x02, c


def _k_u32(rng, tag, clean=False):
    r = rng.random()
    if r < 0.04:
        return tag, b""
    if r < 0.14:
        return tag, rng.randbytes(5 + (rng.random() < 0.5))
    v = _pick(rng, U32_VALS) if r < 0.75 else rng.getrandbits(32)
    c = v.to_bytes(max(1, (v.bit_length() + 7) // 8), "big")
    return tag, b"\x00" * _pick(rng, (0, 0, 0, 1, 1, 2)) + c


def _k_c64(rng, clean=False):
    r = rng.random()
    if r < 0.04:
        return 0x46, b""
    if r < 0.14:
        return 0x46, rng.randbytes(9 + (rng.random() < 0.5))
    v = _pick(rng, U64_VALS) if r < 0.75 else rng.getrandbits(64)
    c = v.to_bytes(max(1, (v.bit_length() + 7) // 8), "big")
    return 0x46, b"\x00" * _pick(rng, (0, 0, 0, 1, 1, 2)) + c


def _k_bytes(rng, tag, clean=False):
    r = rng.random()
    if r < 0.22:
        n = _pick(rng, STR_LENS)
    elif r < 0.27:
        n = int(rng.random() * 301)
    else:
        n = int(rng.random() * 12)
    if rng.random() < 0.4:
        return tag, bytes([_pick(rng, TEXTY) for _ in range(min(n, 16))])
    return tag, rng.randbytes(n)


def oid_content(rng):
    """arbitrary OID content octets, boundary biased"""
    r = rng.random()
    if r < 0.05:
        return b""
    if r < 0.55:
        out = [b"\x2b\x06\x01"]
    else:
        out = [bytes((int(rng.random() * 256),)) if r < 0.85 else bytes((_pick(rng, (0, 39, 40, 79, 80, 119, 120, 255)),))]
    for _ in range(int(rng.random() * 13)):
        q = rng.random()
        if q < 0.6:
            out.append(bytes((int(rng.random() * 128),)))
        elif q < 0.95:
            out.append(_pick(rng, ARC_ENC))
        else:
            out.append(_pick(rng, ARC_ODD))
    if rng.random() < 0.03:
        out.append(b"\x81")
    return b"".join(out)


def _k_oid(rng, clean=False):
    return 0x06, oid_content(rng)


def _k_reloid(rng, clean=False):
    if rng.random() < 0.1:
        return 0x0d, b""
    return 0x0d, oid_content(rng)[1:]


def _k_ipaddr(rng, clean=False):
    r = rng.random()
    if clean or r < 0.8:
        return 0x40, _pick(rng, (b"\x7f\x00\x00\x01", b"\x00\x00\x00\x00", b"\xff\xff\xff\xff", rng.randbytes(4)))
    return 0x40, rng.randbytes(_pick(rng, (3, 5, 0, 1, 8)))


def _k_bool(rng, clean=False):
    r = rng.random()
    if clean or r < 0.8:
        return 0x01, _pick(rng, (b"\x00", b"\x01", b"\xff", b"\x80", rng.randbytes(1)))
    return 0x01, rng.randbytes(_pick(rng, (0, 2, 2, 3)))


def _k_null(rng, clean=False):
    if clean or rng.random() < 0.75:
        return 0x05, b""
    return 0x05, rng.randbytes(_pick(rng, (1, 1, 2)))


def _k_real(rng, clean=False):
    r = rng.random()
    if r < 0.06:
        return 0x09, b""
    if r < 0.18:
        return 0x09, bytes((_pick(rng, (0x40, 0x41, 0x42, 0x43, 0x44)),))
    if r < 0.30:
        return 0x09, b"\x01" + _pick(rng, REAL_NR1).encode()
    if r < 0.42:
        return 0x09, b"\x02" + _pick(rng, REAL_NR2).encode()
    if r < 0.62:
        return 0x09, b"\x03" + _pick(rng, REAL_NR3).encode()
    if r < 0.67:
        # random decimal text
        t = "%s%d.%de%d" % (_pick(rng, ("", "-", "+")), rng.getrandbits(20), rng.getrandbits(10), _ri(rng, -330, 330))
        return 0x09, bytes((_pick(rng, (1, 2, 3)),)) + t.encode()
    if r < 0.74:
        return 0x09, _pick(rng, REAL_RAW)
    first = 0x80 | int(rng.random() * 128)
    if rng.random() < 0.7:
        # plausible binary form: scale != 0 and base != 3 most of the time
        first = 0x80 | (int(rng.random() * 2) << 6) | (_pick(rng, (0, 1, 2, 2, 0, 3)) << 4) | \
            (_pick(rng, (1, 2, 3, 1, 2, 3, 0)) << 2) | int(rng.random() * 4)
    elen = (first & 3) + 1          # the decoder reads (first & 3) + 1 exponent octets
    q = rng.random()
    if q < 0.75:
        e = _pick(rng, _REAL_EXPS) if rng.random() < 0.5 else _ri(rng, -70, 70)
        if not -(1 << (8 * elen - 1)) <= e < (1 << (8 * elen - 1)):
            e = _ri(rng, -128, 127)
        eb = e.to_bytes(elen, "big", signed=True)
        mant = _pick(rng, _REAL_MANTS) if rng.random() < 0.4 else rng.randbytes(_ri(rng, 0, 4))
        return 0x09, bytes((first,)) + eb + mant
    if q < 0.85:
        return 0x09, bytes((first,)) + rng.randbytes(int(rng.random() * elen))       # too short for the exponent
    return 0x09, bytes((first,)) + rng.randbytes(int(rng.random() * 9))


_REAL_EXPS = (0, 1, -1, 2, 10, -10, 52, 53, -52, 127, -128, 128, -129, 255, 256, 1023, 1024, -1022, -1023, -1074, -1075,
              -1100, 2000, 32767, -32768, 2 ** 31 - 1, -(2 ** 31))
_REAL_MANTS = (b"", b"\x00", b"\x01", b"\x03", b"\xff", b"\x01\x00", b"\xff\xff\xff\xff", b"\x80\x00\x00\x00",
               b"\x01\x00\x00\x00\x00", b"\x01\x00\x00\x00\x01", b"\x00\x00\x00\x00\x05", b"\x1f\xff\xff")


def _k_exc(rng, clean=False):
    tag = _pick(rng, (0x80, 0x81, 0x82))
    if clean or rng.random() < 0.75:
        return tag, b""
    return tag, rng.randbytes(_ri(rng, 1, 4))


_UNK_PRIM = (0x03, 0x0a, 0x0c, 0x45, 0x48, 0x83, 0xc0, 0x00, 0x0d, 0x08, 0x1e, 0x5e, 0x9e, 0xde)
_UNK_CONS = (0x30, 0xa0, 0x24, 0x22, 0xa2, 0x60, 0xe0, 0x21)


def _k_unknown(rng, clean=False):
    if rng.random() < 0.65:
        return _pick(rng, _UNK_PRIM), rng.randbytes(int(rng.random() * 5))
    return _pick(rng, _UNK_CONS), _pick(rng, (b"", b"\x05\x00", b"\x02\x01\x01", rng.randbytes(int(rng.random() * 6))))


def _mk(tag):
    return lambda rng, clean=False: _k_bytes(rng, tag, clean)


def _mku(tag):
    return lambda rng, clean=False: _k_u32(rng, tag, clean)


_K_OCTETS, _K_OPAQUE, _K_OBJDESC = _mk(0x04), _mk(0x44), _mk(0x07)
_K_C32, _K_G32, _K_TT, _K_U32 = _mku(0x41), _mku(0x42), _mku(0x43), _mku(0x47)

_KIND_W = [(_k_int, 14), (_K_C32, 4), (_K_G32, 4), (_K_TT, 3), (_K_U32, 3), (_k_c64, 6), (_K_OCTETS, 10),
           (_K_OPAQUE, 4), (_K_OBJDESC, 4), (_k_ipaddr, 5), (_k_oid, 12), (_k_bool, 5), (_k_null, 5),
           (_k_real, 10), (_k_exc, 6), (_k_unknown, 5)]
_KINDS = [k for k, w in _KIND_W for _ in range(w)]
_KINDS_CLEAN = [k for k, w in _KIND_W if k is not _k_unknown for _ in range(w)]


def _value(rng, clean=False):
    tag, c = _pick(rng, _KINDS_CLEAN if clean else _KINDS)(rng, clean)
    return tlv(tag, c, _lenform(rng, len(c)))


def gen_values(rng, n):
    """n raw BER encodings of single SNMP values, structurally valid, boundary biased"""
    return [_value(rng) for _ in range(n)]


# ---------------------------------------------------------------- 2. mutation

def tlv_starts(data, limit=48):
    """best-effort list of (tag_off, len_off, content_off, content_end) of the TLVs found in data,
    descending into constructed elements and OCTET STRINGs that wrap a SEQUENCE"""
    out = []
    stack = [(0, len(data))]
    while stack and len(out) < limit:
        pos, end = stack.pop()
        while pos < end and len(out) < limit:
            t = data[pos]
            p = pos + 1
            if t & 0x1f == 0x1f:
                while p < end and data[p] & 0x80:
                    p += 1
                p += 1
            if p >= end:
                break
            l0 = data[p]
            lp = p
            p += 1
            if l0 & 0x80:
                k = l0 & 0x7f
                if k > 4 or p + k > end:
                    out.append((pos, lp, min(p, end), end))
                    break
                ln = int.from_bytes(data[p:p + k], "big")
                p += k
            else:
                ln = l0
            ce = p + ln
            out.append((pos, lp, p, min(ce, end)))
            if ce > end:
                break
            if t & 0x20 or (t == 0x04 and ln >= 2 and data[p] == 0x30):
                stack.append((p, ce))
            pos = ce
    return out


_LEN_REPL = (0, 0x80, 0x81, 0x84, 0xff)


def mutate(rng, data):
    """one random mutation of data (bytes)"""
    n = len(data)
    if n == 0:
        return rng.randbytes(_ri(rng, 1, 4))
    k = int(rng.random() * 8)
    if k == 0:  # truncate
        return data[:int(rng.random() * n)]
    if k == 1:  # flip one bit
        i = int(rng.random() * n)
        return data[:i] + bytes((data[i] ^ (1 << int(rng.random() * 8)),)) + data[i + 1:]
    if k == 2:  # change a length octet
        st = tlv_starts(data)
        i = _pick(rng, st)[1] if st else min(1, n - 1)
        r = int(rng.random() * 7)
        v = (data[i] + 1) & 255 if r == 0 else (data[i] - 1) & 255 if r == 1 else _LEN_REPL[r - 2]
        return data[:i] + bytes((v,)) + data[i + 1:]
    if k == 3:  # tag / class / constructed bits of a TLV start
        st = tlv_starts(data)
        i = _pick(rng, st)[0] if st else 0
        r = int(rng.random() * 4)
        t = data[i]
        if r == 0:
            t ^= 0x20
        elif r == 1:
            t = (t & 0x3f) | (int(rng.random() * 4) << 6)
        elif r == 2:
            t = (t & 0xe0) | int(rng.random() * 32)
        else:
            t = int(rng.random() * 256)
        return data[:i] + bytes((t,)) + data[i + 1:]
    if k == 4:  # delete a slice
        i = int(rng.random() * n)
        j = min(n, i + 1 + int(rng.random() * 4))
        return data[:i] + data[j:]
    if k == 5:  # duplicate a slice
        i = int(rng.random() * n)
        j = min(n, i + 1 + int(rng.random() * 6))
        return data[:j] + data[i:j] + data[j:]
    if k == 6:  # trailing bytes
        return data + rng.randbytes(_ri(rng, 1, 4))
    # high-tag-number identifier in place of a tag octet
    st = tlv_starts(data)
    i = _pick(rng, st)[0] if st else 0
    ident = bytes(((data[i] & 0xe0) | 0x1f,)) + b"\x80" * int(rng.random() * 3) + bytes((int(rng.random() * 128),))
    return data[:i] + ident + data[i + 1:]


# ---------------------------------------------------------------- 3. grammar-malformed shapes, hdr / ber / value

_MAL_FIXED = [bytes.fromhex(h) for h in (
    "1f80", "1f", "3081", "308201", "0482ffff", "3080", "0500ff", "06008000", "048900000000000000000141",
    "0480", "0481", "02810100", "30", "00", "0000", "ff", "ffff", "1f00", "1f8100", "1f7f00", "1fff7f00",
    "1f8080800500", "3f8110020500", "bf0200", "9f1f00", "0284000000010a", "02850000000001aa", "0288000000000000000141",
    "0488ffffffffffffffff", "0488800000000000000000", "0484ffffffff", "04847fffffff", "3084000000020500",
    "0201", "020100", "0202ff", "30800500 0000".replace(" ", ""), "a280", "a2800000", "0480410000", "8000", "80",
)]


def malformed(rng):
    """hand-built grammar-malformed / edge-of-grammar TLV shapes"""
    r = rng.random()
    if r < 0.45:
        return _pick(rng, _MAL_FIXED)
    tag = _pick(rng, (0x02, 0x04, 0x05, 0x06, 0x30, 0xa2, 0x41, 0x09, 0x01, 0x0d))
    if r < 0.75:
        # long form with k = 0..9 length octets (k = 0 is the indefinite form 0x80)
        k = int(rng.random() * 10)
        ln = int(rng.random() * 4)
        body = rng.randbytes(max(0, ln + _pick(rng, (0, 0, 0, -1, 1))))
        if k == 0:
            return bytes((tag, 0x80)) + body + (b"\x00\x00" if rng.random() < 0.5 else b"")
        return bytes((tag, 0x80 | k)) + ln.to_bytes(k, "big") + body
    if r < 0.85:
        # 127 length octets (0xff), or 126
        k = _pick(rng, (127, 127, 126, 100))
        ln = int(rng.random() * 3)
        hi = b"\x00" if rng.random() < 0.7 else b"\x01"
        return bytes((tag, 0x80 | k)) + hi * (k - 1) + bytes((ln,)) + rng.randbytes(ln)
    if r < 0.93:
        # declared length beyond / short of the data
        body = rng.randbytes(int(rng.random() * 6))
        return bytes((tag, (len(body) + _pick(rng, (1, 2, 100, -1))) & 0x7f)) + body
    return rng.randbytes(int(rng.random() * 5))


def lines_hdr(rng, n):
    vals = gen_values(rng, max(32, n // 3))
    out = []
    for _ in range(n):
        r = rng.random()
        if r < 0.4:
            d = _pick(rng, vals)
            if rng.random() < 0.25:
                d = d + rng.randbytes(_ri(rng, 1, 3))
        elif r < 0.8:
            d = _pick(rng, vals)
            if rng.random() < 0.3:
                d = d[:int(rng.random() * len(d))]        # the header decoder only fails on short input
            else:
                d = mutate(rng, d)
                if rng.random() < 0.5:
                    d = mutate(rng, d)
        else:
            d = malformed(rng)
        out.append("hdr " + hx(d))
    return out


def _k_seq(rng, clean=False):
    r = rng.random()
    if r < 0.2:
        return 0x30, b""
    if r < 0.7:
        return 0x30, b"".join(_value(rng, True) for _ in range(_ri(rng, 1, 3)))
    return 0x30, rng.randbytes(int(rng.random() * 8))


_OPT_TAGS = (0xa0, 0xa1, 0xa2, 0xa5, 0xa8, 0xa3, 0xa4, 0xa6, 0xa7, 0xbe, 0x30, 0x22, 0x20, 0x3e)
_OPT_BAD = (0x60, 0xe0, 0x80, 0x82, 0x02, 0x10, 0x62)


def _k_option(rng, clean=False):
    tag = _pick(rng, _OPT_TAGS) if clean or rng.random() < 0.85 else _pick(rng, _OPT_BAD)
    r = rng.random()
    if r < 0.2:
        return tag, b""
    if r < 0.6:
        return tag, b"".join(_value(rng, True) for _ in range(_ri(rng, 1, 3)))
    return tag, rng.randbytes(_ri(rng, 1, 8))


BER_TYPES = {
    "int": _k_int, "bool": _k_bool, "null": _k_null, "octets": _K_OCTETS, "objdesc": _K_OBJDESC,
    "opaque": _K_OPAQUE, "oid": _k_oid, "reloid": _k_reloid, "sequence": _k_seq, "option": _k_option,
    "ipaddr": _k_ipaddr, "counter32": _K_C32, "gauge32": _K_G32, "timeticks": _K_TT, "uinteger32": _K_U32,
    "counter64": _k_c64, "real": _k_real,
}
_BER_NAMES = list(BER_TYPES)


def lines_ber(rng, n):
    vals = gen_values(rng, max(32, n // 4))
    out = []
    for _ in range(n):
        ty = _pick(rng, _BER_NAMES)
        kind = BER_TYPES[ty]
        r = rng.random()
        if r < 0.50:
            tag, c = kind(rng)
            d = tlv(tag, c, _lenform(rng, len(c)))
        elif r < 0.62:
            d = _pick(rng, vals)
        elif r < 0.67:
            tag, c = BER_TYPES[_pick(rng, _BER_NAMES)](rng)
            d = tlv(tag, c)
        elif r < 0.88:
            tag, c = kind(rng)
            d = mutate(rng, tlv(tag, c, _lenform(rng, len(c))))
        else:
            d = malformed(rng)
        if rng.random() < 0.25:
            d = d + rng.randbytes(_ri(rng, 1, 3))
        out.append("ber %s %s" % (ty, hx(d)))
    return out


def lines_real(rng, n):
    """REAL only (`ber real` / `value`): the float paths get a stream of their own"""
    out = []
    for _ in range(n):
        tag, c = _k_real(rng)
        r = rng.random()
        d = tlv(tag, c, _lenform(rng, len(c), 0.05))
        if r < 0.2:
            d = mutate(rng, d)
        elif r < 0.3:
            d = d + rng.randbytes(_ri(rng, 1, 3))
        out.append(("ber real " if rng.random() < 0.5 else "value ") + hx(d))
    return out


def lines_value(rng, n):
    vals = gen_values(rng, max(32, n // 2))
    out = []
    for _ in range(n):
        r = rng.random()
        if r < 0.4:
            d = _pick(rng, vals)
            if rng.random() < 0.25:
                d = d + rng.randbytes(_ri(rng, 1, 3))
        elif r < 0.8:
            d = mutate(rng, _pick(rng, vals))
        else:
            d = malformed(rng)
        out.append("value " + hx(d))
    return out


# ---------------------------------------------------------------- 9. exhaustive enumeration

def exhaustive_small(alphabet, max_len):
    """all byte strings of length 0..max_len over the alphabet (shortest first)"""
    for k in range(max_len + 1):
        for t in itertools.product(alphabet, repeat=k):
            yield bytes(t)


# ---------------------------------------------------------------- trees (re-wrappable encodings)
#
# node = bytes (already encoded)  |  [tag, kids]  |  [tag, kids, lenform];  tag None = plain concatenation

def enc(node):
    if node.__class__ is bytes:
        return node
    c = b"".join([enc(k) for k in node[1]])
    if node[0] is None:
        return c
    return tlv(node[0], c, node[2] if len(node) > 2 else None)


def _slots(node, out):
    """all (kids_list, index) positions below node"""
    if node.__class__ is bytes:
        return out
    kids = node[1]
    for i, k in enumerate(kids):
        out.append((kids, i))
        if k.__class__ is not bytes:
            _slots(k, out)
    return out


def mutate_inner(rng, tree):
    """encode one inner element, mutate it, put it back as raw bytes: outer lengths stay consistent"""
    sl = _slots(tree, [])
    if not sl:
        return mutate(rng, enc(tree))
    kids, i = _pick(rng, sl)
    kids[i] = mutate(rng, enc(kids[i]))
    return enc(tree)


def break_tree(rng, tree):
    """structure-level malformation: drop / swap / duplicate a child, or retag a constructed node"""
    if tree.__class__ is bytes:
        return tree[:int(rng.random() * len(tree))]
    nodes = [tree] + [k[i] for k, i in _slots(tree, []) if k[i].__class__ is not bytes]
    nodes = [x for x in nodes if x[1]]
    if not nodes:
        return enc(tree)[:-1]
    node = _pick(rng, nodes)
    kids = node[1]
    r = int(rng.random() * 5)
    i = int(rng.random() * len(kids))
    if r == 0:
        del kids[i]
    elif r == 1 and len(kids) > 1:
        j = (i + 1) % len(kids)
        kids[i], kids[j] = kids[j], kids[i]
    elif r == 2:
        kids.insert(i, kids[i])
    elif r == 3 and node[0] is not None:
        node[0] = _pick(rng, (0x31, 0x10, 0x04, 0x24, 0xa2, 0x30, 0x70, 0xb0))
    else:
        del kids[i:]
    return enc(tree)


# ---------------------------------------------------------------- 4. PDUs

REQ_IDS = [0, 1, -1, 127, 128, 255, 256, 2 ** 31 - 1, -(2 ** 31), 2 ** 31, 2 ** 32 - 1, 2 ** 32, I64_MAX, I64_MIN,
           0x5ebdd9ac, 37320]
PDU_TAGS_KNOWN = (0xa0, 0xa1, 0xa2, 0xa5, 0xa8)
PDU_TAGS_UNKNOWN = (0xa3, 0xa4, 0xa6, 0xa7, 0x30, 0x22, 0x20, 0x25, 0x28, 0xbe)
NULL = b"\x05\x00"
EXC = (b"\x80\x00", b"\x81\x00", b"\x82\x00")

_NAME_POOL = [oid_text_content(t) for t in (
    "1.3.6.1.2.1.1.1.0", "1.3.6.1.2.1.1.3.0", "1.3.6.1.2.1.1.5.0", "1.3.6.1.2.1.2.2.1.10.11", "1.3.6.1.2.1.2.2.1.2.1",
    "1.3.6.1.4.1.9.9.46.1.3.1.1.4.1.1002", "1.3.6.1.2.1.31.1.1.1.6.16383", "1.3.6.1.2.1.31.1.1.1.6.16384",
    "1.3.6", "1.3", "0.0", "2.39.4294967295", "1.3.6.128", "1.3.6.1.2.1.4.20.1.1.127.0.0.1", "2.5.4.3",
    "1.3.6.1.6.3.15.1.1.4.0", "1.3.6.1.6.3.15.1.1.2.0")] + [b"", b"\x2b", b"\x2b\x06\x80\x01", b"\x2b\x81", b"\xff\x7f"]


def _int_field(rng, zero_p=0.0):
    """INTEGER TLV for request-id like fields"""
    if rng.random() < zero_p:
        return b"\x02\x01\x00"
    r = rng.random()
    if r < 0.55:
        v = _pick(rng, REQ_IDS)
    elif r < 0.93:
        v = rng.getrandbits(31)
    elif r < 0.96:
        v = _pick(rng, (2 ** 63, -(2 ** 63) - 1, 2 ** 64))      # 9-octet content
    else:
        return enc_value_int(rng)
    return int_tlv(v, 1 if rng.random() < 0.05 and abs(v) < 2 ** 55 else 0)


def enc_value_int(rng):
    tag, c = _k_int(rng, rng.random() < 0.7)
    return tlv(tag, c, _lenform(rng, len(c), 0.1))


def _next_name(rng, prev):
    r = rng.random()
    if prev and r < 0.5:
        if prev[-1] < 0x7f and rng.random() < 0.8:
            return prev[:-1] + bytes((prev[-1] + 1,))
        return prev + bytes((int(rng.random() * 128),))
    if r < 0.85:
        return _pick(rng, _NAME_POOL)
    return oid_content(rng)


def _rel_content(rng, base):
    """RELATIVE-OID content: shorter / equal / longer than the base in sub-identifiers"""
    cnt = sum(1 for b in base[1:] if b < 0x80)
    r = rng.random()
    if r < 0.08:
        return b""
    if r < 0.5:
        k = _ri(rng, 1, max(1, cnt - 1))          # shorter: suffix replacement
    elif r < 0.7:
        k = cnt                                   # equal: full replacement branch
    elif r < 0.9:
        k = cnt + _ri(rng, 1, 3)
    else:
        k = _ri(rng, 0, 14)
    out = []
    for j in range(k):
        q = rng.random()
        if j == 0 and q < 0.85:
            out.append(bytes((_pick(rng, (1, 1, 1, 1, 0, 2, 2, int(rng.random() * 8))),)))
        elif j == 1 and q < 0.7:
            out.append(bytes((_pick(rng, (3, 3, 3, 0, 6, 39, 40, 47, 79, 127, 128, 255)),)))
        elif q < 0.8:
            out.append(bytes((int(rng.random() * 128),)))
        else:
            out.append(_pick(rng, ARC_ENC))
    return b"".join(out)


def _varbinds(rng, nvars, pool, request=False, messy=True):
    """list of varbind nodes"""
    out = []
    prev = b""
    for i in range(nvars):
        q = rng.random() if messy else 1.0
        if q < 0.02:
            out.append(b"\x30\x00")
            continue
        r = rng.random()
        if not request and r < 0.22 and (i > 0 or rng.random() < 0.1):
            rel = _rel_content(rng, prev)
            name = tlv(0x0d, rel)
            # approximate the resolved name for the next "previous"
            if rel and sum(1 for b in rel if b < 0x80) < sum(1 for b in prev[1:] if b < 0x80):
                prev = prev[:max(1, len(prev) - len(rel))] + rel
        else:
            prev = _next_name(rng, prev)
            name = tlv(0x06, prev, _lenform(rng, len(prev), 0.03))
        if q < 0.04:
            out.append([0x30, [name]])
            continue
        if request:
            val = NULL if rng.random() < 0.92 else _pick(rng, pool)
        else:
            val = _pick(rng, pool)
        kids = [name, val]
        if q < 0.06:
            kids.append(_pick(rng, (NULL, b"\x00", b"\xff\xff")))
        elif q < 0.07:
            kids[0] = tlv(_pick(rng, (0x04, 0x07, 0x86, 0x26)), prev)
        out.append([0x30, kids] if rng.random() > 0.03 else [0x30, kids, _ri(rng, 1, 3)])
    return out


def _pdu_tree(rng, pool, tag=None, nvars=None, messy=True):
    if tag is None:
        r = rng.random()
        if r < 0.55:
            tag = 0xa2
        elif r < 0.80:
            tag = _pick(rng, (0xa0, 0xa1, 0xa5))
        elif r < 0.88:
            tag = 0xa8
        else:
            tag = _pick(rng, PDU_TAGS_UNKNOWN)
    if tag == 0xa8 and rng.random() < 0.6:
        return [tag, [rng.randbytes(int(rng.random() * 12))]]
    if tag in PDU_TAGS_UNKNOWN and rng.random() < 0.3:
        return [tag, [rng.randbytes(int(rng.random() * 8))]]
    request = tag in (0xa0, 0xa1, 0xa5, 0x20, 0x21, 0x25)
    if nvars is None:
        nvars = _pick(rng, (0, 1, 1, 1, 2, 2, 3, 4, 5, 8)) if rng.random() < 0.9 else _ri(rng, 0, 8)
    vbl = [0x30, _varbinds(rng, nvars, pool, request, messy)]
    if tag in (0xa5, 0x25):
        f1, f2 = _int_field(rng, 0.5), _int_field(rng, 0.3)
    else:
        zp = 0.93 if request else 0.7
        f1 = _int_field(rng, zp) if rng.random() < 0.9 else int_tlv(_ri(rng, 0, 18))
        f2 = _int_field(rng, zp) if rng.random() < 0.9 else int_tlv(_ri(rng, 0, 9))
    kids = [_int_field(rng), f1, f2, vbl]
    node = [tag, kids]
    if messy:
        q = rng.random()
        if q < 0.03:
            vbl[1].append(_pick(rng, (b"\x00", b"\x30", b"\x05\x00", rng.randbytes(_ri(rng, 1, 3)))))  # inside the list
        elif q < 0.06:
            kids.append(_pick(rng, (b"\x00", NULL, rng.randbytes(_ri(rng, 1, 3)))))                     # after the list
        elif q < 0.10:
            node = [None, [node, _pick(rng, (b"\x00", NULL, rng.randbytes(_ri(rng, 1, 4))))]]           # after the PDU
        elif q < 0.12:
            node.append(_ri(rng, 1, 3))                                                              # long-form PDU length
    return node


def _pools(rng, k=192):
    clean = [_value(rng, True) for _ in range(k)]
    return clean, gen_values(rng, k)


def gen_pdus(rng, n):
    """n encoded PDUs (responses, requests, reports, unknown tags), mostly well-formed"""
    clean, anyv = _pools(rng, min(192, max(16, n)))
    return [enc(_pdu_tree(rng, clean if rng.random() < 0.7 else anyv)) for _ in range(n)]


def _mixed(rng, tree_fn):
    """40% valid / 40% mutated (whole or inner) / 20% malformed"""
    r = rng.random()
    if r < 0.4:
        return enc(tree_fn())
    if r < 0.6:
        return mutate(rng, enc(tree_fn()))
    if r < 0.8:
        return mutate_inner(rng, tree_fn())
    if r < 0.92:
        return break_tree(rng, tree_fn())
    return malformed(rng)


def lines_pdu(rng, n):
    clean, anyv = _pools(rng)
    fn = lambda: _pdu_tree(rng, clean if rng.random() < 0.85 else anyv)  # noqa: E731
    return ["pdu " + hx(_mixed(rng, fn)) for _ in range(n)]


# ---------------------------------------------------------------- 5a. topy

_TOPY_OPS = ("get", "get", "getmany", "getmany", "refresh")
_NODATA = (NULL,) + EXC


def _topy_tree(rng, clean):
    nvars = _pick(rng, (0, 1, 1, 1, 1, 2, 2, 3, 4, 6))
    vbs = []
    prev = b""
    for i in range(nvars):
        r = rng.random()
        if vbs and r < 0.3:
            name = prev                           # duplicate name, different value
        elif r < 0.36:
            name = b""                            # `06 00`
        else:
            name = _next_name(rng, prev)
        prev = name
        q = rng.random()
        if q < 0.25:
            val = _pick(rng, _NODATA)
        elif q < 0.40:
            val = tlv(0x06, oid_content(rng))
        elif q < 0.48:
            val = tlv(0x40, rng.randbytes(4))
        else:
            val = _pick(rng, clean)
        vbs.append([0x30, [tlv(0x06, name), val]])
    es = b"\x02\x01\x00" if rng.random() < 0.8 else int_tlv(_ri(rng, 1, 18))
    return [0xa2, [_int_field(rng), es, b"\x02\x01\x00" if rng.random() < 0.8 else int_tlv(_ri(rng, 1, 5)), [0x30, vbs]]]


def lines_topy(rng, n):
    clean, anyv = _pools(rng, 384)
    out = []
    for _ in range(n):
        r = rng.random()
        if r < 0.70:
            d = enc(_topy_tree(rng, clean))
        elif r < 0.82:
            d = enc(_pdu_tree(rng, clean if rng.random() < 0.7 else anyv))
        elif r < 0.90:
            d = mutate(rng, enc(_topy_tree(rng, clean)))
        elif r < 0.97:
            d = mutate_inner(rng, _topy_tree(rng, clean))
        else:
            d = malformed(rng)
        out.append("topy %s %s" % (_pick(rng, _TOPY_OPS), hx(d)))
    return out


# ---------------------------------------------------------------- 5b. messages

VERSIONS = (0, 1, 3, 2, 257, 256, -1, 2 ** 32 + 1)
_COMMUNITIES = (b"", b"public", b"public", b"private", b"x" * 200, b"\x00\xff", b"c" * 127, b"c" * 128)
_ENGINE_IDS = (b"", b"\x80\x00\x1f\x88\x04", bytes(range(32)), b"\x80\x00\x1f\x88\x80\x5b\x4e\x2f\x63\x00\x00\x00\x00")
_USERS = (b"", b"admin", b"user20", b"u" * 32, b"\xd0\xb0\xd0\xb4\xd0\xbc", b"n" * 130)
_BOOTS = (0, 1, 2 ** 31 - 1, 2 ** 31, 2 ** 32 - 1, 2 ** 32, -1, -(2 ** 31), 12345, I64_MAX, I64_MIN)
_MSG_IDS = (0, 1, 2 ** 31 - 1, 2 ** 31, -1, 37320, 2 ** 32, I64_MAX, I64_MIN)
_MAX_SIZES = (0, 484, 1472, 2048, 65507, 2 ** 31 - 1, -1, 2 ** 40)


def _ver_tlv(rng, want):
    if want == 0 and rng.random() < 0.03:
        return b"\x02\x00"                       # zero-length INTEGER decodes as 0
    v = want if rng.random() < 0.88 else _pick(rng, VERSIONS)
    return int_tlv(v, 1 if rng.random() < 0.03 else 0)


def _oct(b):
    return tlv(0x04, b)


def _community_tree(rng, ver, pdu):
    return [0x30, [_ver_tlv(rng, ver), _oct(_pick(rng, _COMMUNITIES)), pdu]]


def _usm_tree(rng):
    r = rng.random()
    auth = b"" if r < 0.4 else rng.randbytes(12) if r < 0.85 else rng.randbytes(_pick(rng, (11, 13, 1, 24)))
    r = rng.random()
    priv = b"" if r < 0.5 else rng.randbytes(8) if r < 0.88 else rng.randbytes(_pick(rng, (7, 9, 1, 16)))
    kids = [_oct(_pick(rng, _ENGINE_IDS)),
            int_tlv(_pick(rng, _BOOTS) if rng.random() < 0.6 else rng.getrandbits(20)),
            int_tlv(_pick(rng, _BOOTS) if rng.random() < 0.6 else rng.getrandbits(24)),
            _oct(_pick(rng, _USERS)), _oct(auth), _oct(priv)]
    if rng.random() < 0.04:
        kids.append(_pick(rng, (NULL, b"\x00", b"\x04\x00")))
    return [0x30, kids]


def _scoped_tree(rng, pdu):
    kids = [_oct(_pick(rng, _ENGINE_IDS)), _oct(_pick(rng, (b"", b"", b"ctx", b"n" * 40))), pdu]
    if rng.random() < 0.08:
        kids.append(_pick(rng, (b"\x00", NULL, b"\x00\x00\x00", rng.randbytes(_ri(rng, 1, 6)))))  # e.g. cipher padding
    return [0x30, kids]


def _msgdata_tree(rng, pdu):
    if rng.random() < 0.3:
        return _oct(rng.randbytes(_pick(rng, (0, 1, 8, 16, 24, 40, 130))))
    return _scoped_tree(rng, pdu)


def _v3_tree(rng, pdu):
    r = rng.random()
    flags = bytes((int(rng.random() * 8),)) if r < 0.9 else b"" if r < 0.94 else rng.randbytes(2) if r < 0.97 \
        else rng.randbytes(1)
    sm = 3 if rng.random() < 0.9 else _pick(rng, (259, 0, 1, 2, -1, 3 + 2 ** 32))
    hdr = [0x30, [int_tlv(_pick(rng, _MSG_IDS) if rng.random() < 0.5 else rng.getrandbits(31)),
                  int_tlv(_pick(rng, _MAX_SIZES)), _oct(flags), int_tlv(sm)]]
    if rng.random() < 0.03:
        hdr[1].append(NULL)
    usm = [0x04, [_usm_tree(rng)]]
    if rng.random() < 0.03:
        usm[1].append(b"\x00")          # trailing byte inside msgSecurityParameters
    kids = [_ver_tlv(rng, 3), hdr, usm, _msgdata_tree(rng, pdu)]
    if rng.random() < 0.04:
        kids.append(_pick(rng, (b"\x00", NULL)))
    return [0x30, kids]


_MSG_KINDS = ("v1", "v2c", "v3")


def lines_msg(rng, n):
    clean, anyv = _pools(rng)

    def pdu():
        return _pdu_tree(rng, clean if rng.random() < 0.9 else anyv, messy=rng.random() < 0.3)

    out = []
    for _ in range(n):
        r = rng.random()
        if r < 0.30:
            kind, fn = "v1", lambda: _community_tree(rng, 0, pdu())
        elif r < 0.55:
            kind, fn = "v2c", lambda: _community_tree(rng, 1, pdu())
        elif r < 0.82:
            kind, fn = "v3", lambda: _v3_tree(rng, pdu())
        elif r < 0.88:
            out.append("usm " + hx(_mixed(rng, lambda: _usm_tree(rng))))
            continue
        elif r < 0.94:
            out.append("scoped " + hx(_mixed(rng, lambda: _scoped_tree(rng, pdu()))))
            continue
        else:
            out.append("msgdata " + hx(_mixed(rng, lambda: _msgdata_tree(rng, pdu()))))
            continue
        d = _mixed(rng, fn)
        if rng.random() < 0.12:
            kind = _pick(rng, _MSG_KINDS)
        out.append("msg %s %s" % (kind, hx(d)))
    return out


# ---------------------------------------------------------------- 6. walks

WALK_BASES = ("1.3.6", "1.3.6.1.2.1", "0.0", "2.39.4294967295", "1.3.6.128", "1.3.6.1.2.1.2.2.1.10", "1.3.6.1.16383",
              "2.5", "1.3.6.1.2.1.1", "1.3.6", "1.3.6.1.2.1", "+1.3.6", "01.3.06.1")
WALK_BAD_BASES = ("1", "1.3.", "3.1", "1.40", "a.b", "", ".1.3.6", "1.3.6.4294967296", "1..3")
_WALK_BASE_CONTENT = {t: oid_text_content(t) for t in WALK_BASES}
_WALK_MAXREP = (0, 1, 10, 25, -1, I64_MAX, I64_MIN)
_ARC_ORDER = (b"\x7f", b"\x81\x00", b"\xff\x7f", b"\x81\x80\x00", b"\xff\xff\x7f", b"\x81\x80\x80\x00")  # increasing arcs
_WALK_VALUES = (b"\x02\x01\x2a", b"\x04\x03abc", b"\x41\x01\x07", b"\x43\x02\x01\x00", b"\x40\x04\x7f\x00\x00\x01",
                b"\x06\x03\x2b\x06\x01", b"\x46\x01\x09", b"\x04\x00", b"\x02\x00", b"\x09\x00", b"\x01\x01\xff",
                b"\x06\x00")


def _walk_names(rng, base, k):
    """k names relative to the base content: inside/increasing, repeats, decreasing, outside, padded ..."""
    names = []
    cur = base
    ctr = int(rng.random() * 3)
    for _ in range(k):
        r = rng.random()
        if cur and cur[-1] & 0x80 and r < 0.6:    # the previous name ended inside a sub-identifier: same again / longer
            nm = cur if r < 0.3 else cur + bytes((0x80 | int(rng.random() * 128),))
        elif r < 0.05:                            # a name whose last sub-identifier is not terminated
            ctr += 1
            nm = base + bytes((ctr & 0x7f,)) + bytes((0x80 | int(rng.random() * 128),)) * _ri(rng, 1, 3)
        elif r < 0.45:                            # inside the subtree, increasing
            ctr += 1 + int(rng.random() * 2)
            nm = base + (bytes((ctr,)) if ctr < 128 else base128(ctr))
            if rng.random() < 0.3:
                nm += bytes((int(rng.random() * 128),))
        elif r < 0.52:
            nm = cur                              # equal to the previous one
        elif r < 0.59:                            # smaller than the previous one (still inside)
            nm = base + bytes((max(0, ctr - 1 - int(rng.random() * 2)),))
        elif r < 0.64:
            nm = base                             # the base itself
        elif r < 0.70 and base:                   # sibling / parent / unrelated
            q = rng.random()
            if q < 0.4 and base[-1] < 0x7f:
                nm = base[:-1] + bytes((base[-1] + 1,)) + b"\x01"
            elif q < 0.7:
                cut = len(base) - 1
                while cut > 1 and base[cut - 1] & 0x80:
                    cut -= 1
                nm = base[:cut]
            else:
                nm = _pick(rng, _NAME_POOL)
        elif r < 0.78:                            # non-minimal padding of an arc
            ctr += 1
            nm = base + b"\x80" * _ri(rng, 1, 2) + bytes((ctr & 0x7f,))
        elif r < 0.92:                            # multi-octet arcs: byte order != arc order
            nm = base + _pick(rng, _ARC_ORDER) + (b"" if rng.random() < 0.6 else bytes((int(rng.random() * 128),)))
        elif r < 0.96 and base:                   # shares bytes with the base but is no arc-wise extension
            last = base[-1]
            nm = base[:-1] + bytes((0x80 | (last & 0x7f), 0x00)) if rng.random() < 0.5 else base[:-1] + b"\x81" + base[-1:]
        else:
            nm = oid_content(rng)
        names.append(nm)
        cur = nm
    return names


def _walk_reply(rng, base, clean, bulk=True):
    r = rng.random()
    if r < 0.06:
        return b"\xa8" + len_octets(4) + rng.randbytes(4)                       # Report
    if r < 0.12:
        return enc(_pdu_tree(rng, clean, tag=_pick(rng, (0xa0, 0xa1, 0xa5)), messy=False))   # a request
    if r < 0.20:
        return malformed(rng) if rng.random() < 0.5 else enc(_pdu_tree(rng, clean, tag=0xa2, messy=False))[:-2]
    k = _pick(rng, (0, 1, 1, 1, 1, 2, 3, 4, 5) if bulk else (0, 1, 1, 1, 1, 1, 1, 1, 1, 2, 3))
    vbs = []
    for nm in _walk_names(rng, base, k):
        q = rng.random()
        if q < 0.55:
            val = _pick(rng, _WALK_VALUES)
        elif q < 0.80:
            val = _pick(rng, _NODATA)
        else:
            val = _pick(rng, clean)
        vbs.append(tlv(0x30, tlv(0x06, nm) + val))
    body = b"\x02\x02\x12\x34\x02\x01\x00\x02\x01\x00" + tlv(0x30, b"".join(vbs))
    return tlv(0xa2, body)


def lines_walk(rng, n):
    clean, _ = _pools(rng, 96)
    out = []
    for _ in range(n):
        if rng.random() < 0.9:
            text = _pick(rng, WALK_BASES)
            base = _WALK_BASE_CONTENT[text]
        else:
            text = _pick(rng, WALK_BAD_BASES)
            base = b"\x2b\x06"
        k = _ri(rng, 1, 6) if rng.random() < 0.97 else 0
        bulk = rng.random() < 0.5
        pdus = ",".join([hx(_walk_reply(rng, base, clean, bulk)) for _ in range(k)]) if k else "-"
        out.append("walk %s %s %d %s" % ("getbulk" if bulk else "getnext", hx(text.encode()),
                                         _pick(rng, _WALK_MAXREP), pdus))
    return out


# ---------------------------------------------------------------- 7. encoders

def _enc_ints():
    s = set(I64_BOUNDS)
    for k in range(1, 9):
        for b in (2 ** (8 * k - 1), 2 ** (8 * k)):
            for d in (-2, -1, 0, 1, 2):
                for v in (b + d, -b + d):
                    if I64_MIN <= v <= I64_MAX:
                        s.add(v)
    return sorted(s)


ENC_INTS = _enc_ints()


def _i64(rng):
    if rng.random() < 0.6:
        return _pick(rng, ENC_INTS)
    k = 1 + int(rng.random() * 8)
    return rng.getrandbits(8 * k) - (1 << (8 * k - 1))


def lines_encint(rng, n):
    return ["encint %d" % _i64(rng) for _ in range(n)]


_SWEEP = list(range(108, 136)) + list(range(236, 264))
_OID_BIG = (126, 127, 128, 129, 254, 255, 256, 257, 600, 4070, 4074, 4075, 4076, 4077, 4078, 4080, 4081, 5000)


def _oid_of_len(rng, ln):
    if ln == 0:
        return b""
    if ln <= 40 or rng.random() < 0.3:
        return b"\x2b" + rng.randbytes(ln - 1)
    return b"\x2b" + bytes((int(rng.random() * 128),)) * (ln - 1)


def lines_encoid(rng, n):
    out = []
    for _ in range(n):
        r = rng.random()
        if r < 0.55:
            c = oid_content(rng)
        elif r < 0.85:
            c = _oid_of_len(rng, _pick(rng, _SWEEP) if rng.random() < 0.7 else _ri(rng, 0, 300))
        else:
            c = _oid_of_len(rng, _pick(rng, _OID_BIG))
        out.append("encoid " + hx(c))
    return out


class _Req:
    """a request PDU for the encoders: kind, the three integers, OID contents"""
    __slots__ = ("kind", "ints", "oids")

    def __init__(self, kind, ints, oids):
        self.kind, self.ints, self.oids = kind, ints, oids

    def text(self):
        oids = self.oids
        # a single empty OID would read as the empty list `-`: it is the empty list then
        ol = ",".join([hx(o) for o in oids]) if oids and not (len(oids) == 1 and not oids[0]) else "-"
        if self.kind == "getbulk":
            return "getbulk %d %d %d %s" % (self.ints + (ol,))
        return "%s %d %s" % (self.kind, self.ints[0], ol)

    def size(self):
        """exact encoded size of the PDU (minimal INTEGERs, lengths as push_tag_len writes them)"""
        oids = self.oids if not (len(self.oids) == 1 and not self.oids[0]) else []
        vbl = sum(_sz(_sz(len(o)) + 2) for o in oids)
        ints = self.ints if self.kind == "getbulk" else (self.ints[0], 0, 0)
        return _sz(sum(_isz(v) for v in ints) + _sz(vbl))


def _sz(n):
    """size of a TLV with n content octets"""
    return n + (2 if n < 128 else 3 if n < 256 else 4)


def _isz(v):
    return 2 + len(ber.int_content(v))


def _req(rng, many=False):
    r = rng.random()
    if many:
        k = _pick(rng, (1, 7, 8, 20, 40, 130, 400))
        ln = min(600, max(0, 4000 // k - (6 if 4000 // k < 120 else 8)))
        one = _oid_of_len(rng, ln)
        oids = [one] * k
    elif r < 0.6:
        oids = [oid_content(rng) for _ in range(_pick(rng, (0, 1, 1, 2, 3, 5)))]
    elif r < 0.9:
        oids = [_oid_of_len(rng, _pick(rng, _SWEEP)) for _ in range(_pick(rng, (1, 1, 2)))]
    else:
        oids = [_oid_of_len(rng, _pick(rng, (0, 1, 127, 128, 255, 256, 600)))]
    q = rng.random()
    if q < 0.4:
        return _Req("get", (_i64(rng),), oids)
    if q < 0.7:
        return _Req("getnext", (_i64(rng),), oids)
    return _Req("getbulk", (_i64(rng), _i64(rng) if rng.random() < 0.5 else 0, _i64(rng)), oids)


_TARGET_DELTAS = (-3, -2, -1, 0, 0, 0, 1, 2, 3, 4, 5, -4, -17, 23, -130, 140)


def _fit(rng, size_of, ln0, target):
    """length L of the adjustable blob such that size_of(L) is as close as possible to target"""
    ln = ln0
    for _ in range(5):
        d = target - size_of(ln)
        if d == 0:
            break
        ln = max(0, ln + d)
    return ln


def _fit_req(rng, req, wrap, target):
    """resize the last OID of req so that wrap(req.size()) hits the target total"""
    if not req.oids:
        req.oids = [b""]
    last = len(req.oids) - 1

    def size_of(ln):
        req.oids[last] = b"\x2b" * ln
        return wrap(req.size())
    ln = _fit(rng, size_of, len(req.oids[last]), target)
    req.oids[last] = _oid_of_len(rng, ln)


def _target(rng):
    return BUF_CAP + _pick(rng, _TARGET_DELTAS)


def lines_encpdu(rng, n):
    out = []
    for _ in range(n):
        r = rng.random()
        if r < 0.02:
            out.append("encnull")
        elif r < 0.78:
            out.append("encpdu " + _req(rng).text())
        elif r < 0.90:
            req = _req(rng, True)
            _fit_req(rng, req, lambda p: p, _target(rng))
            out.append("encpdu " + req.text())
        elif r < 0.96:
            out.append("encscoped %s %s" % (hx(_blob(rng)), _req(rng).text()))
        else:
            req = _req(rng, True)
            eng = _blob(rng)
            fixed = 2 + (_sz(len(eng)) if eng else 2)
            _fit_req(rng, req, lambda p: _sz(fixed + p), _target(rng))
            out.append("encscoped %s %s" % (hx(eng), req.text()))
    return out


_BLOB_LENS = (0, 0, 0, 5, 5, 12, 32, 126, 127, 128, 129, 200, 255, 256)


def _blob(rng, ln=None):
    if ln is None:
        ln = _pick(rng, _BLOB_LENS)
    if ln <= 32:
        return rng.randbytes(ln)
    return bytes((int(rng.random() * 256),)) * ln


def lines_encmsg(rng, n):
    out = []
    for _ in range(n):
        r = rng.random()
        big = rng.random() < 0.14
        if r < 0.45:
            ver = "v1" if r < 0.22 else "v2c"
            c = _pick(rng, _COMMUNITIES) if rng.random() < 0.6 else _blob(rng)
            req = _req(rng, big and rng.random() < 0.5)
            if big:
                target = _target(rng)
                if req.oids and len(req.oids) > 1 or rng.random() < 0.5:
                    _fit_req(rng, req, lambda p: _sz(3 + _sz(len(c)) + p), target)
                else:
                    p = req.size()
                    c = _blob(rng, _fit(rng, lambda ln: _sz(3 + _sz(ln) + p), 3900, target))
            out.append("encmsg %s %s %s" % (ver, hx(c), req.text()))
            continue
        q = rng.random()
        auth = b"" if q < 0.4 else bytes(12) if q < 0.8 else rng.randbytes(_pick(rng, (11, 12, 24, 1)))
        q = rng.random()
        priv = b"" if q < 0.5 else rng.randbytes(8) if q < 0.9 else rng.randbytes(_pick(rng, (7, 16, 1)))
        eng = _blob(rng) if rng.random() < 0.5 else _pick(rng, _ENGINE_IDS)
        user = _blob(rng) if rng.random() < 0.3 else _pick(rng, _USERS)
        msg_id = _i64(rng) if rng.random() < 0.5 else rng.getrandbits(31)
        boots = _i64(rng) if rng.random() < 0.5 else rng.getrandbits(16)
        etime = _i64(rng) if rng.random() < 0.5 else rng.getrandbits(24)
        encrypted = rng.random() < 0.3
        if encrypted:
            data = _blob(rng) if rng.random() < 0.5 else rng.randbytes(_pick(rng, (0, 8, 16, 40)))
            ctx, req = b"", None
        else:
            ctx = _blob(rng) if rng.random() < 0.4 else _pick(rng, _ENGINE_IDS)
            req = _req(rng, big and rng.random() < 0.4)
            data = b""
        if big:
            # exact size model of SnmpV3Message::push_ber; one blob is resized to land on the buffer limit
            which = _pick(rng, ("eng", "user", "data") if encrypted else ("eng", "user", "ctx", "req", "req"))
            hdr = _sz(_isz(msg_id) + 4 + 3 + 3)

            def total(eng_l, user_l, data_sz):
                usm = _sz(_sz(eng_l) + _isz(boots) + _isz(etime) + _sz(user_l) + _sz(len(auth)) + _sz(len(priv)))
                return _sz(3 + hdr + _sz(usm) + data_sz)
            target = _target(rng)
            if which == "eng":
                dsz = _sz(len(data)) if encrypted else _sz(_sz(len(ctx)) + 2 + req.size())
                eng = _blob(rng, _fit(rng, lambda ln: total(ln, len(user), dsz), 3800, target))
            elif which == "user":
                dsz = _sz(len(data)) if encrypted else _sz(_sz(len(ctx)) + 2 + req.size())
                user = _blob(rng, _fit(rng, lambda ln: total(len(eng), ln, dsz), 3800, target))
            elif which == "data":
                data = _blob(rng, _fit(rng, lambda ln: total(len(eng), len(user), _sz(ln)), 3800, target))
            elif which == "ctx":
                p = req.size()
                ctx = _blob(rng, _fit(rng, lambda ln: total(len(eng), len(user), _sz(_sz(ln) + 2 + p)), 3800, target))
            else:
                _fit_req(rng, req, lambda p: total(len(eng), len(user), _sz(_sz(len(ctx)) + 2 + p)), target)
        head = "encmsg v3 %d %d %d %d %s %d %d %s %s %s" % (
            msg_id, rng.random() < 0.5, rng.random() < 0.4, rng.random() < 0.3, hx(eng), boots, etime, hx(user),
            hx(auth), hx(priv))
        if encrypted:
            out.append("%s enc %s" % (head, hx(data)))
        else:
            out.append("%s plain %s %s" % (head, hx(ctx), req.text()))
    return out


# ---------------------------------------------------------------- 7b. buffer op sequences

_PUSH_SIZES = (0, 1, 1, 2, 3, 5, 127, 128, 255, 256, 1000, 4079, 4080, 4081)
_TAGLEN_VALS = (0, 1, 127, 128, 255, 256, 65535, 65536, 2 ** 32, 2 ** 64 - 1)
BUF_CAP = 4080


def _payload(rng, ln):
    if ln <= 8:
        return rng.randbytes(ln)
    return bytes((int(rng.random() * 256),)) * ln


def lines_buf(rng, n):
    out = []
    for _ in range(n):
        k = _ri(rng, 1, 30) if rng.random() < 0.7 else _ri(rng, 1, 6)
        ops = []
        dirty = False          # a bare skip exposed unwritten cells: no `data` until reset
        fill = rng.random() < 0.35     # try to run into the end of the buffer
        used = 0               # estimate of len(), used to aim at the capacity
        bigs = 0
        for _ in range(k):
            r = rng.random()
            if r < 0.30:
                if fill and bigs < 3 and rng.random() < 0.6:
                    ln = max(0, BUF_CAP - used + _pick(rng, (-4, -3, -2, -1, 0, 1, 2, -130, -300)))
                    if ln > 300:
                        bigs += 1
                elif bigs < 3:
                    ln = _pick(rng, _PUSH_SIZES)
                    if ln >= 1000:
                        bigs += 1
                else:
                    ln = _ri(rng, 0, 6)
                if rng.random() < 0.75:
                    ops.append("push:" + hx(_payload(rng, ln)))
                    if used + ln <= BUF_CAP:
                        used += ln
                else:
                    ops.append("skipfill:" + hx(_payload(rng, ln)))
                    used = min(BUF_CAP, used + ln)
            elif r < 0.42:
                ops.append("u8:%d" % int(rng.random() * 256))
                used = min(BUF_CAP, used + 1)
            elif r < 0.54:
                v = _pick(rng, _TAGLEN_VALS) if rng.random() < 0.8 else _ri(rng, 0, 70000)
                ops.append("taglen:%d:%d" % (int(rng.random() * 256), v))
                used = min(BUF_CAP, used + (2 if v < 128 else 3 if v < 256 else 4))
            elif r < 0.64:
                ln = _pick(rng, (0, 1, 2, 127, 128, 255, 256)) if bigs < 3 else 2
                ops.append("tagged:%d:%s" % (int(rng.random() * 256), hx(_payload(rng, ln))))
                used = min(BUF_CAP, used + ln + 4)
            elif r < 0.67:
                v = _pick(rng, (0, 1, 5, 4079, 4080, 4081, 2 ** 64 - 1)) if rng.random() < 0.7 else _ri(rng, 0, 300)
                ops.append("skip:%d" % v)
                used = min(BUF_CAP, used + v)
                dirty = True
            elif r < 0.72:
                ops.append("reset")
                used, dirty = 0, False
            elif r < 0.80:
                q = rng.random()
                v = _ri(rng, 0, 4) if q < 0.8 else _pick(rng, (16, 4080, 4081, 2 ** 63, 2 ** 64 - 4081, 2 ** 64 - 4080,
                                                                 2 ** 64 - 1)) if q < 0.9 else _ri(rng, 0, 5000)
                ops.append("bm:%d" % v)
            elif r < 0.90:
                ops.append("getbm")
            elif not dirty and (used < 600 or rng.random() < 0.3):
                ops.append("data")
            else:
                ops.append("getbm")
        if not dirty and rng.random() < 0.6:
            ops.append("data")
        out.append("buf " + ";".join(ops))
    return out


# ---------------------------------------------------------------- 8. OID text, comparisons, relative OIDs

_ARC_TEXT = ("0", "1", "127", "128", "16383", "16384", "2097151", "2097152", "268435455", "268435456", "4294967295",
             "2", "3", "6", "39", "40", "255")
_OIDSTR_BAD = ("", "1", "1..3", ".1.3.6", "1.3.6.", ".", "..", "+1.3", "1.-3", "1.+3.06", "1. 3", " 1.3", "1.3 ", "1.3.a",
               "a.b", "1.3.4294967296", "1.3.99999999999999999999", "1.3.٣", "1.3.6.1é", "1.3,6", "1.3.0x10",
               "1.3.6.-0", "1.3.1e3", "iso.3.6", "1.3.+", "1.3.++1", "+1.+3.+6", "01.03.006", "1.3.6.00000000000000000001",
               "1.3.6.1\t", "1.3.6.1 ", "1.3.6.１", "1.3.6.1_0", "-1.3", "4294967296.1", "1.4294967295",
               "3.1", "2.40", "1.40", "0.40", "256.1", "2.295", "6.6", "7.0", "4294967295.4294967295")


def _oid_text(rng):
    k = _ri(rng, 0, 10) if rng.random() < 0.93 else _pick(rng, (126, 127, 128, 129, 200))
    first = _pick(rng, ("0", "1", "1", "1", "2")) if rng.random() < 0.85 else str(_ri(rng, 0, 7))
    second = _pick(rng, ("0", "3", "3", "39", "40", "255", "6")) if rng.random() < 0.8 else str(_ri(rng, 0, 45))
    arcs = [first, second]
    for _ in range(k):
        arcs.append(_pick(rng, _ARC_TEXT) if rng.random() < 0.5 else str(rng.getrandbits(_pick(rng, (4, 7, 8, 14, 21, 32)))))
    return ".".join(arcs)


def lines_oidstr(rng, n):
    out = []
    for _ in range(n):
        r = rng.random()
        if r < 0.55:
            t = _oid_text(rng)
        elif r < 0.75:
            t = _pick(rng, _OIDSTR_BAD)
        else:
            # textual mutation of a valid OID
            t = _oid_text(rng)
            i = int(rng.random() * (len(t) + 1))
            q = rng.random()
            if q < 0.4:
                t = t[:i] + _pick(rng, (".", "+", "-", " ", "a", "..", "٣", "0", "99999999999")) + t[i:]
            elif q < 0.7:
                t = t[:i] + t[i + 1:]
            else:
                t = t[:i]
        out.append("oidstr " + hx(t.encode("utf-8")))
    return out


def lines_oidtxt(rng, n):
    out = []
    for _ in range(n):
        r = rng.random()
        if r < 0.6:
            c = oid_content(rng)
        elif r < 0.75:
            c = bytes((int(rng.random() * 256),)) + b"".join(
                _pick(rng, ARC_ENC + ARC_ODD) for _ in range(_ri(rng, 0, 6))) + (b"\x81" if rng.random() < 0.3 else b"")
        elif r < 0.9:
            c = rng.randbytes(_ri(rng, 0, 12))
        else:
            c = bytes(_pick(rng, ALPHABET) for _ in range(_ri(rng, 0, 6)))
        out.append("oidtxt " + hx(c))
    return out


def _related_pair(rng):
    a = oid_content(rng) if rng.random() < 0.7 else b"\x2b\x06" + _pick(rng, _ARC_ORDER)
    r = rng.random()
    if r < 0.12:
        b = a
    elif r < 0.30:
        b = a + (bytes((int(rng.random() * 128),)) if rng.random() < 0.6 else _pick(rng, ARC_ENC))      # a is a prefix
    elif r < 0.40:
        b = a[:int(rng.random() * (len(a) + 1))]                                                        # b is a byte prefix
    elif r < 0.55 and a:
        # differ in padding only
        i = 1 + int(rng.random() * len(a))
        while i < len(a) and i > 1 and a[i - 1] & 0x80:
            i += 1
        b = a[:i] + b"\x80" * _ri(rng, 1, 2) + a[i:] if i < len(a) else a + b"\x80\x00"
    elif r < 0.75:
        # arc order vs byte order: same prefix, different multi-octet arcs
        p = a[:1 + int(rng.random() * len(a))] if a else b"\x2b"
        while p and p[-1] & 0x80:
            p = p[:-1]
        p = p or b"\x2b"
        a, b = p + _pick(rng, _ARC_ORDER + tuple(ARC_ENC)), p + _pick(rng, _ARC_ORDER + tuple(ARC_ENC))
    elif r < 0.85 and a:
        i = int(rng.random() * len(a))
        b = a[:i] + bytes((a[i] ^ (1 << int(rng.random() * 8)),)) + a[i + 1:]
    else:
        b = oid_content(rng)
    if rng.random() < 0.5:
        a, b = b, a
    return a, b


def lines_cmp(rng, n, cmparcs=True):
    out = []
    for _ in range(n):
        a, b = _related_pair(rng)
        op = "cmparcs" if cmparcs and rng.random() < 0.5 else "startswith"
        out.append("%s %s %s" % (op, hx(a), hx(b)))
    return out


def lines_normalize(rng, n):
    """`normalize <rel> <oid>`: relative OID content (< 128 octets) applied to a base OID content"""
    out = []
    for _ in range(n):
        base = _pick(rng, _NAME_POOL) if rng.random() < 0.6 else oid_content(rng)
        r = rng.random()
        if r < 0.7:
            rel = _rel_content(rng, base)
        elif r < 0.9:
            rel = oid_content(rng)
        else:
            rel = rng.randbytes(_pick(rng, (0, 1, 2, 3, 126, 127)))
        out.append("normalize %s %s" % (hx(rel[:127]), hx(base)))
    return out


STREAMS = ["lines_hdr", "lines_ber", "lines_value", "lines_real", "lines_normalize", "lines_pdu", "lines_topy", "lines_msg",
           "lines_walk", "lines_encint", "lines_encoid", "lines_encpdu", "lines_encmsg", "lines_buf", "lines_oidstr",
           "lines_oidtxt", "lines_cmp"]


# ---------------------------------------------------------------- 10. statistics

_TWO_WORD = {"ber", "msg", "topy", "walk", "encmsg"}


def req_kind(line):
    p = line.split(" ", 2)
    if p[0] in _TWO_WORD and len(p) > 1:
        return p[0] + " " + p[1]
    return p[0]


def resp_kind(out):
    """`ok` / `err <Variant>` / `PANIC` / `pyok` / `pyerr X` / `bad-op` / `#`"""
    p = out.split(" ", 2)
    if p[0] in ("err", "pyerr") and len(p) > 1:
        return p[0] + " " + p[1]
    return p[0]


def stats(lines, outputs):
    """histogram {(request kind, response kind): count}"""
    h = {}
    for k, line in enumerate(lines):
        key = (req_kind(line), resp_kind(outputs[k]) if k < len(outputs) else "<missing>")
        h[key] = h.get(key, 0) + 1
    return h


_WALK_SPLIT = re.compile(r";(?=pyok |pyerr |err )")


def stats_walk(lines, outputs):
    """per-reply histogram of the `walk` lines: {("walk <op> reply", kind of ri): count}"""
    h = {}
    for k, line in enumerate(lines):
        if not line.startswith("walk ") or k >= len(outputs) or not outputs[k].startswith("ok "):
            continue
        rk = req_kind(line) + " reply"
        body = outputs[k][3:]
        if body == "-":
            continue
        for ri in _WALK_SPLIT.split(body):
            key = (rk, resp_kind(ri.rsplit("@", 1)[0]))
            h[key] = h.get(key, 0) + 1
    return h


def format_stats(h, indent=""):
    by_req = {}
    for (rk, ok), c in h.items():
        by_req.setdefault(rk, []).append((c, ok))
    rows = []
    for rk in sorted(by_req):
        tot = sum(c for c, _ in by_req[rk])
        cells = ", ".join("%s %d" % (ok, c) for c, ok in sorted(by_req[rk], key=lambda x: (-x[0], x[1])))
        rows.append("%s%-16s %6d: %s" % (indent, rk, tot, cells))
    return "\n".join(rows)
