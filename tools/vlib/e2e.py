"""End-to-end driver: the real Python package + freshly built extension against a scripted agent.

Single-threaded by default: the client socket is non-blocking (timeout_ns = 0) and used through
the split send_* / recv_* API, so after send_* the request is already queued at the agent
socket, the script builds the replies, and recv_* consumes them (or raises BlockingIOError).
"""
import asyncio
import os
import socket
import sys
import threading

sys.path.insert(0, "/verif/harness/py")
import agent as ag  # noqa: E402
import ber  # noqa: E402
import build  # noqa: E402
import usm  # noqa: E402

_ENV = None


def ncall(f):
    """ag.call with the crate's exception class names normalised (`PySnmpDecodeError` -> `SnmpDecodeError`:
    create_exception! names the Python class after the Rust identifier)"""
    r = ag.call(f)
    if r[0] == "exc" and r[1].startswith("PySnmp") or r[0] == "exc" and r[1] == "PyNoSuchInstance":
        return ("exc", r[1][2:], r[2])
    return r


class Env:
    def __init__(self):
        self.fast = build.load()
        self.agent = ag.Agent()
        import gufo.snmp as pkg
        self.pkg = pkg

    def close(self):
        self.agent.close()


def env():
    global _ENV
    if _ENV is None:
        _ENV = Env()
    return _ENV


ENGINE = bytes.fromhex("80001f8880a1b2c3d4e5f6")


def client_user(st):
    """the `gufo.snmp.user.User` a caller would build for the agent-side user description `st`"""
    from gufo.snmp.user import Aes128Key, DesKey, KeyType, Md5Key, Sha1Key, User
    kt = {"password": KeyType.Password, "master": KeyType.Master, "localized": KeyType.Localized}
    ak = pk = None
    if st.auth_alg:
        ak = (Md5Key if st.auth_alg == 1 else Sha1Key)(st.auth_secret, key_type=kt[st.auth_key_type])
    if st.priv_alg:
        pk = (DesKey if st.priv_alg == 1 else Aes128Key)(st.priv_secret, key_type=kt[st.priv_key_type])
    return User(st.user.decode(), auth_key=ak, priv_key=pk)


def client_kwargs(st, with_engine_id=True):
    """constructor / set_keys arguments for the raw v3 socket, obtained the way the clients obtain them:
    through the key classes of user.py (so that layer is exercised by every v3 session of the checks)"""
    u = client_user(st)
    return dict(engine_id=st.engine_id if with_engine_id else b"", user_name=u.name, auth_alg=u.get_auth_alg(),
                auth_key=u.get_auth_key(), priv_alg=u.get_priv_alg(), priv_key=u.get_priv_key())


class Peer:
    """one side-by-side description of a session configuration and of the agent that serves it"""

    def __init__(self, kind, community="public", auth=0, priv=0, engine_id=ENGINE, user="verifuser",
                 auth_pw=b"authpassword", priv_pw=b"privpassword", auth_kt="password", priv_kt="password",
                 boots=5, time=1000, discover=False, raw_secrets=False):
        # raw_secrets: auth_pw / priv_pw ARE the key material of the given type (a master or localized key of the
        # digest's size), not a password the material is derived from: two keys can then share their octets
        self.raw_secrets = raw_secrets
        if raw_secrets and kind == "v3" and auth:
            # user.py aligns master / localized keys to the digest's key size: shorter ones are filled with zero octets
            # BEHIND the key, longer ones cut (documented in user.py); the agent holds the aligned key
            self._aligned = True
        self.kind = kind
        self.community = community
        self.discover = discover
        self.state = None
        if kind == "v3":
            self.state = ag.V3AgentState(engine_id, boots=boots, time=time, user=user, auth_alg=auth,
                                         auth_password=auth_pw if raw_secrets else self._secret(auth, auth_pw, auth_kt, engine_id, auth),
                                         priv_alg=priv,
                                         priv_password=priv_pw if raw_secrets else self._secret(auth, priv_pw, priv_kt, engine_id, priv),
                                         auth_key_type=auth_kt, priv_key_type=priv_kt)
            if priv == 1:
                # the content of the DES padding octets is the sender's choice (RFC 3414 8.1.1.2): agents differ, so do ours
                self.state.pad_style = ("zero", "count", "ff", "random")[(sum(bytes(engine_id)) + len(user) + boots) % 4]
            if getattr(self, "_aligned", False):
                # (the client is handed the key as typed — possibly short —, the agent works with the aligned one)
                ks = 16 if auth == 1 else 20
                st_ = self.state
                if auth_kt in ("master", "localized"):
                    st_.auth_key = usm.local_key(st_.auth_alg, bytes(auth_pw).ljust(ks, b"\x00")[:ks], engine_id, auth_kt)
                if priv and priv_kt in ("master", "localized"):
                    st_.priv_key = usm.priv_key(st_.auth_alg, bytes(priv_pw).ljust(ks, b"\x00")[:ks], engine_id, priv_kt)
            if discover:
                # what the client can do before it knows the engine id: keys localized to the empty engine id
                st = self.state
                self.state0 = ag.V3AgentState(b"", boots=0, time=0, user=user, auth_alg=auth,
                                              auth_password=st.auth_secret, priv_alg=priv, priv_password=st.priv_secret,
                                              auth_key_type=auth_kt, priv_key_type=priv_kt)

    @staticmethod
    def _secret(auth, pw, kt, engine_id, enabled):
        """the key material handed to the client for the key type: password, master key or localized key"""
        if not enabled or not auth:
            return pw
        if kt == "password":
            return pw
        master = usm.password_to_key(auth, pw)
        if kt == "master":
            return master
        return usm.localize(auth, master, engine_id)

    @property
    def label(self):
        if self.kind != "v3":
            return self.kind
        s = self.state
        return f"v3:{['noauth', 'md5', 'sha1'][s.auth_alg]}:{['nopriv', 'des', 'aes'][s.priv_alg]}:{s.auth_key_type}"

    def make_sock(self, e, timeout_ns=0):
        if self.kind == "v1":
            return ag.make_sock(e.fast, e.agent, 1, community=self.community, timeout_ns=timeout_ns)
        if self.kind == "v2c":
            return ag.make_sock(e.fast, e.agent, 2, community=self.community, timeout_ns=timeout_ns)
        kw = client_kwargs(self.state, with_engine_id=not self.discover)
        return ag.make_sock(e.fast, e.agent, 3, timeout_ns=timeout_ns, **kw)

    def decode(self, dg):
        if self.kind == "v3":
            if self.discover:
                try:
                    if ber.decode_message(dg).get("engine_id") == b"":
                        return self.state0.parse_request(dg)
                except ber.BerError:
                    pass
            return self.state.parse_request(dg)
        return ber.decode_message(dg)

    def response(self, req, varbinds, pdu_tag=2, request_id=None, error_status=0, error_index=0, **kw):
        """reply to the decoded request `req` (varbinds: list of encoded varbind TLVs)"""
        rid = req["request_id"] if request_id is None else request_id
        if self.kind == "v3":
            return self.state.build(pdu_tag, rid, kw.pop("msg_id", req["msg_id"]), varbinds,
                                    error_status=error_status, error_index=error_index, **kw)
        p = ber.pdu(pdu_tag, rid, error_status, error_index, varbinds)
        comm = kw.get("community", self.community)
        comm = comm.encode() if isinstance(comm, str) else comm
        ver = kw.get("version")
        if ver is not None:
            return ber.SEQ(ber.INT(ver), ber.OCT(comm), p)
        return ber.msg_v1(comm, p) if self.kind == "v1" else ber.msg_v2c(comm, p)


def all_peers(discover=False):
    out = [Peer("v1"), Peer("v2c")]
    for auth in (0, 1, 2):
        for priv in (0, 1, 2):
            if priv and not auth:
                continue
            out.append(Peer("v3", auth=auth, priv=priv, discover=discover))
    return out


class Conv:
    """a raw client socket and its agent; remembers the last decoded request"""

    SEND = {"get": "send_get", "getmany": "send_get_many", "getnext": "send_get_next", "getbulk": "send_get_bulk",
            "refresh": "send_refresh"}
    RECV = {"get": "recv_get", "getmany": "recv_get_many", "getnext": "recv_get_next", "getbulk": "recv_get_bulk",
            "refresh": "recv_refresh"}

    def __init__(self, peer, e=None, sock=None):
        self.e = e or env()
        self.peer = peer
        self.e.agent.recv_all()          # drop leftovers of earlier conversations
        self.ctor_error = None
        if sock is None:
            r = ncall(lambda: peer.make_sock(self.e))
            if r[0] == "ok":
                sock = r[1]
            else:
                self.ctor_error = r      # a session that cannot even be created: every call reports it
        self.sock = sock
        self.req = None
        self.raw = None

    def new_iter(self, oid, maxrep=None):
        return self.e.fast.GetIter(oid) if maxrep is None else self.e.fast.GetIter(oid, maxrep)

    def send(self, op, arg=None):
        if self.sock is None:
            self.raw, self.req = [], None
            return self.ctor_error
        f = getattr(self.sock, self.SEND[op])
        r = ncall((lambda: f()) if op == "refresh" else (lambda: f(arg)))
        dgs = self.e.agent.recv_all(expect=1 if r[0] == "ok" else 0, wait=0.05 if r[0] == "ok" else 0.0)
        self.raw = dgs
        self.req = None
        if dgs:
            try:
                self.req = self.peer.decode(dgs[-1])
            except ber.BerError as ex:
                self.req = {"undecodable": str(ex)}
        return r

    def inject(self, datagrams):
        for d in datagrams:
            self.e.agent.send(d)

    def recv(self, op, it=None):
        if self.sock is None:
            return self.ctor_error
        f = getattr(self.sock, self.RECV[op])
        if op in ("getnext", "getbulk"):
            return ncall(lambda: f(it))
        return ncall(lambda: f())

    def exchange(self, op, arg, replies, it=None):
        """send, let `replies(req)` build datagrams, recv"""
        s = self.send(op, arg if it is None else it)
        if s[0] != "ok":
            return s
        self.inject(replies(self.req) if callable(replies) else replies)
        return self.recv(op, it)


class SockShim:
    """duck-typed replacement for a _fast client socket, for the Python iterator / session wrappers:
    each blocking call = send_*, scripted replies, recv_* on a real non-blocking socket"""

    def __init__(self, conv, script):
        self.conv = conv
        self.script = script     # script(op, req) -> list of datagrams
        self.requests = []

    def _do(self, op, arg, it=None):
        s = self.conv.send(op, arg if it is None else it)
        if s[0] != "ok":
            raise _reraise(s, self.conv)
        self.requests.append((op, self.conv.req))
        self.conv.inject(self.script(op, self.conv.req))
        f = getattr(self.conv.sock, Conv.RECV[op])
        return f(it) if it is not None else f()

    def get(self, oid):
        return self._do("get", oid)

    def get_many(self, oids):
        return self._do("getmany", oids)

    def get_next(self, ctx):
        return self._do("getnext", None, ctx)

    def get_bulk(self, ctx):
        return self._do("getbulk", None, ctx)

    def refresh(self):
        return self._do("refresh", None)

    def get_fd(self):
        return self.conv.sock.get_fd()


def _reraise(s, conv):
    import builtins
    name = s[1]
    cls = getattr(conv.e.fast, name, None) or getattr(builtins, name, RuntimeError)
    return cls("send failed")


class ThreadAgent:
    """agent in a thread for the blocking sync API: script(datagram) -> list of (delay_s, datagram)"""

    def __init__(self, script):
        self.sock = socket.socket(socket.AF_INET, socket.SOCK_DGRAM)
        self.sock.bind(("127.0.0.1", 0))
        self.sock.settimeout(0.05)
        self.port = self.sock.getsockname()[1]
        self.script = script
        self.log = []
        self.sent = []          # time.monotonic() of every datagram actually handed to the kernel
        self.stop = False
        self.t = threading.Thread(target=self._run, daemon=True)
        self.t.start()

    def _run(self):
        try:
            self._loop()
        finally:
            # whoever stops the agent (`stop = True` or close()) gets the descriptor back: thousands of agents are
            # created in a thorough run
            try:
                self.sock.close()
            except OSError:
                pass

    def _loop(self):
        import time
        while not self.stop:
            try:
                d, a = self.sock.recvfrom(65535)
            except socket.timeout:
                continue
            except OSError:
                return
            self.log.append(d)
            try:
                for delay, r in self.script(d):
                    if delay:
                        time.sleep(delay)
                    self.sent.append(time.monotonic())      # (before the send: the receiver may be faster than this thread)
                    self.sock.sendto(r, a)
            except Exception as ex:  # noqa: BLE001
                self.log.append(("script-error", repr(ex)))

    def close(self):
        self.stop = True
        self.t.join(0.5)
        self.sock.close()


HUNG = []      # threads whose event loop never came back


def run_coro(coro, watchdog):
    """asyncio.run(coro) in a thread; None when the loop is still running after `watchdog` seconds (frozen)"""
    box = {}

    def target():
        try:
            box["r"] = asyncio.run(coro)
        except BaseException as ex:  # noqa: BLE001
            box["e"] = ex
    th = threading.Thread(target=target, daemon=True)
    th.start()
    th.join(watchdog)
    if th.is_alive():
        HUNG.append(th)
        return None
    if "e" in box:
        raise box["e"]
    return box["r"]


def run_async(main, script, watchdog=15.0):
    """run `await main(port)` with a scripted agent living on the same event loop:
    script(datagram) -> list of datagrams. Returns (result-or-exception tuple, log of requests)."""
    log = []

    class Proto(asyncio.DatagramProtocol):
        def connection_made(self, transport):
            self.t = transport

        def datagram_received(self, data, addr):
            log.append(data)
            for r in script(data):
                self.t.sendto(r, addr)

    async def runner():
        loop = asyncio.get_running_loop()
        # the async client's add_reader(fd, fut.set_result, None) can fire twice when two datagrams are queued;
        # asyncio then logs an InvalidStateError for the second call: noise, not an outcome
        loop.set_exception_handler(lambda lp, ctx: None)
        transport, _ = await loop.create_datagram_endpoint(Proto, local_addr=("127.0.0.1", 0))
        port = transport.get_extra_info("sockname")[1]
        try:
            return ("ok", await main(port))
        except BaseException as ex:  # noqa: BLE001
            return ("exc", type(ex).__name__, isinstance(ex, Exception))
        finally:
            transport.close()

    # the client under test may freeze its event loop (a coroutine that spins without yielding): run the loop
    # in a thread of its own and give up after `watchdog` seconds, reporting the hang as the outcome
    box = {}

    def target():
        try:
            box["r"] = asyncio.run(runner())
        except BaseException as ex:  # noqa: BLE001
            box["r"] = ("exc", type(ex).__name__, isinstance(ex, Exception))
    th = threading.Thread(target=target, daemon=True)
    th.start()
    th.join(watchdog)
    if th.is_alive():
        HUNG.append(th)
        return ("exc", "Hang", True), log
    return box["r"], log


def canon(v):
    """canonical text of a Python result for comparisons"""
    if isinstance(v, float):
        import struct
        return "float:nan" if v != v else "float:%016x" % struct.unpack(">Q", struct.pack(">d", v))[0]
    if isinstance(v, dict):
        return "{" + ", ".join(f"{k!r}: {canon(x)}" for k, x in v.items()) + "}"
    if isinstance(v, (list, tuple)):
        o, c = ("[", "]") if isinstance(v, list) else ("(", ")")
        return o + ", ".join(canon(x) for x in v) + c
    return repr(v)


def run_guarded(f, watchdog, hung_value):
    """run f() in a thread; if it does not come back within `watchdog` seconds return `hung_value` (the thread is left
    behind as a daemon: a blocking call that never returns cannot be interrupted)"""
    import threading
    box = {}

    def body():
        try:
            box["r"] = f()
        except BaseException as e:  # noqa: BLE001
            box["e"] = e
    th = threading.Thread(target=body, daemon=True)
    th.start()
    th.join(watchdog)
    if th.is_alive():
        HUNG.append(th)
        return hung_value
    if "e" in box:
        raise box["e"]
    return box["r"]
