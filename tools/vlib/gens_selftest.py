#!/usr/bin/env python3
"""Self-test of vlib/gens.py: every `lines_*` stream (n=3000, seed 1) through BOTH programs.

Prints per stream: generation speed, determinism, bad-op counts, the implementation-side histogram
(request kind x response kind), the fraction of ok results and up to 10 disagreements.

usage: gens_selftest.py [-n N] [-s SEED] [stream ...]
"""
import argparse
import random
import sys
import time

sys.path.insert(0, "/verif/tools")
from vlib import common, gens  # noqa: E402

DECODER_STREAMS = {"lines_hdr", "lines_ber", "lines_value", "lines_pdu", "lines_topy", "lines_msg", "lines_walk",
                   "lines_oidstr", "lines_normalize", "lines_real"}


def short(s, k=260):
    return s if len(s) <= k else s[:k // 2] + "...[%d]..." % len(s) + s[-k // 2:]


def canon(line):
    try:
        return common.canon_model_line(line)
    except Exception as e:  # a symbolic float the canonicaliser cannot evaluate
        return "<canon failed: %r> %s" % (e, line)


def run_stream(name, fn, n, seed, gsv, maxdiff=10):
    t0 = time.time()
    lines = fn(random.Random(seed), n)
    dt = max(time.time() - t0, 1e-9)
    again = fn(random.Random(seed), n)
    problems = []
    if lines != again:
        problems.append("NOT deterministic")
    if len(lines) != n:
        problems.append("returned %d lines, wanted %d" % (len(lines), n))
    if any("\n" in x or x != x.strip() or not x for x in lines):
        problems.append("line with newline / outer blank / empty")
    impl, rc1, err1 = common.run_gsv(gsv, lines)
    model, rc2, err2 = common.run_model(lines)
    if rc1 != 0 or len(impl) != len(lines):
        problems.append("gsv rc=%s lines=%d stderr=%s" % (rc1, len(impl), err1[-300:]))
    if rc2 != 0 or len(model) != len(lines):
        problems.append("gsvmodel rc=%s lines=%d stderr=%s" % (rc2, len(model), err2[-300:]))
    st = gens.stats(lines, impl)
    if name == "lines_walk":
        st = gens.stats_walk(lines, impl)     # the line itself is always `ok`: look at the replies
    tot = max(1, sum(st.values()))
    okc = sum(c for (rk, ok), c in st.items() if ok in ("ok", "pyok"))
    bad_i = [lines[i] for i, x in enumerate(impl) if x == "bad-op"]
    bad_m = [lines[i] for i, x in enumerate(model) if x == "bad-op"]
    print("=" * 100)
    print("%s: n=%d  gen %.0f lines/s  ok-fraction %.3f%s  bad-op impl=%d model=%d" % (
        name, len(lines), len(lines) / dt, okc / tot,
        "" if name not in DECODER_STREAMS or 0.25 <= okc / tot <= 0.75 else "  (OUTSIDE 25..75%)",
        len(bad_i), len(bad_m)))
    for p in problems:
        print("  PROBLEM: " + p)
    for b in bad_i[:3]:
        print("  bad-op(impl): " + short(b))
    for b in bad_m[:3]:
        print("  bad-op(model): " + short(b))
    print(gens.format_stats(st, indent="  "))
    diffs = []
    for k, req in enumerate(lines):
        a = impl[k] if k < len(impl) else "<missing>"
        b = canon(model[k]) if k < len(model) else "<missing>"
        if a != b:
            diffs.append((k, req, a, b))
    print("  disagreements: %d" % len(diffs))
    # show distinct (impl-kind, model-kind) classes first
    classes, first, rest = {}, [], []
    for d in diffs:
        key = (gens.req_kind(d[1]), gens.resp_kind(d[2]), gens.resp_kind(d[3]))
        classes[key] = classes.get(key, 0) + 1
        (first if classes[key] == 1 else rest).append(d)
    for key, c in sorted(classes.items(), key=lambda kv: -kv[1]):
        print("    class %-12s impl=%-22s model=%-22s x%d" % (key + (c,)))
    for k, req, a, b in (first + rest)[:maxdiff]:
        print("   #%d %s\n        impl : %s\n        model: %s" % (k, short(req), short(a), short(b)))
    return len(diffs), len(bad_i) + len(bad_m), problems


def lines_exhaustive(_rng, _n):
    """all byte strings over gens.ALPHABET up to length 3, as hdr / value / pdu requests (ignores rng, n)"""
    strs = list(gens.exhaustive_small(gens.ALPHABET, 3))
    return ["%s %s" % (k, gens.hx(s)) for k in ("hdr", "value", "pdu") for s in strs]


def main():
    ap = argparse.ArgumentParser()
    ap.add_argument("-n", type=int, default=3000)
    ap.add_argument("-s", "--seed", type=int, default=1)
    ap.add_argument("streams", nargs="*")
    a = ap.parse_args()
    gsv, err = common.build_gsv()
    if gsv is None:
        print("cannot build gsv:\n" + err)
        return 2
    names = [x for x in dir(gens) if x.startswith("lines_") and callable(getattr(gens, x))]
    order = getattr(gens, "STREAMS", names)
    names = [x for x in order if x in names] + [x for x in names if x not in order]
    if a.streams:
        names = [x for x in names if x in a.streams or x[6:] in a.streams]
    total = {}
    for name in names:
        total[name] = run_stream(name, getattr(gens, name), a.n, a.seed, gsv)
    if not a.streams or "exhaustive" in a.streams:
        total["exhaustive<=3"] = run_stream("exhaustive<=3", lines_exhaustive, 3 * sum(16 ** k for k in range(4)),
                                            a.seed, gsv)
    print("=" * 100)
    print("summary (stream: disagreements, bad-ops, problems)")
    for name, (d, b, p) in total.items():
        print("  %-16s %6d %6d %s" % (name, d, b, "; ".join(p)))
    return 1 if any(b or p for _, b, p in total.values()) else 0


if __name__ == "__main__":
    sys.exit(main())
