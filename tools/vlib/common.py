"""Shared machinery of the checks: builds, Lean audit, drivers, evidence, verdicts."""
import fcntl
import hashlib
import json
import os
import re
import struct
import subprocess
import sys
import time

ROOT = "/verif"
REPO = os.environ.get("VERIF_REPO", "/repo")
LEAN = os.path.join(ROOT, "lean")
BUILD = os.path.join(ROOT, ".build")
PYLIB = "/root/.pyenv/versions/3.11.7/lib"
ALLOWED_AXIOMS = {"propext", "Classical.choice", "Quot.sound"}
FORBIDDEN = re.compile(r"\b(sorry|admit|native_decide|bv_decide|implemented_by|unsafe)\b|^\s*axiom\s|maxHeartbeats\s+0")

sys.path.insert(0, os.path.join(ROOT, "harness", "py"))


class Lock:
    def __init__(self, name):
        os.makedirs(BUILD, exist_ok=True)
        self.path = os.path.join(BUILD, name + ".lock")

    def __enter__(self):
        self.f = open(self.path, "w")
        fcntl.flock(self.f, fcntl.LOCK_EX)
        return self

    def __exit__(self, *a):
        fcntl.flock(self.f, fcntl.LOCK_UN)
        self.f.close()


def sh(cmd, **kw):
    return subprocess.run(cmd, text=True, capture_output=True, **kw)


# ---------------------------------------------------------------- Lean side

def gen_consts():
    r = sh([sys.executable, os.path.join(ROOT, "tools", "gen_consts.py")])
    if r.returncode != 0:
        return False, (r.stdout + r.stderr).strip()
    return True, r.stdout.strip()


def lake_build(targets):
    with Lock("lake"):
        r = sh(["lake", "build"] + targets, cwd=LEAN)
    return r.returncode == 0, (r.stdout + r.stderr)


def obligations(pid):
    with open(os.path.join(LEAN, "GufoSnmp", "Props", "obligations.json")) as f:
        return json.load(f)[pid]


def strip_comments(text):
    text = re.sub(r"/-.*?-/", "", text, flags=re.S)
    return re.sub(r"--.*", "", text)


def forbidden_tokens():
    hits = []
    for d, _, fs in os.walk(os.path.join(LEAN, "GufoSnmp")):
        for fn in fs:
            if not fn.endswith(".lean"):
                continue
            p = os.path.join(d, fn)
            with open(p) as f:
                body = strip_comments(f.read())
            for n, line in enumerate(body.splitlines(), 1):
                if FORBIDDEN.search(line):
                    hits.append(f"{os.path.relpath(p, LEAN)}: {line.strip()[:100]}")
    return hits


AUDIT_TMPL = """import Lean
import {module}
open Lean Elab Command Meta in
run_cmd do
  let env ← getEnv
  for n in [{names}] do
    match env.find? n with
    | some ci =>
      let ax ← Lean.collectAxioms n
      let ty ← liftTermElabM (do let f ← ppExpr ci.type; pure f.pretty)
      let kind := match ci with
        | .thmInfo _ => "theorem"
        | .axiomInfo _ => "axiom"
        | .defnInfo _ => "def"
        | _ => "other"
      IO.println (Json.compress (Json.mkObj [("name", toString n), ("kind", kind),
        ("axioms", Json.arr (ax.map (fun a => Json.str (toString a)))), ("type", ty)]))
    | none => IO.println (Json.compress (Json.mkObj [("name", toString n), ("kind", "missing")]))
"""


def audit(pid):
    """Run the axiom audit of the property's obligations. Returns (results, problems)."""
    ob = obligations(pid)
    names = ", ".join("`" + n for n in ob["theorems"])
    src = AUDIT_TMPL.format(module=ob["module"], names=names)
    os.makedirs(os.path.join(BUILD, "audit"), exist_ok=True)
    path = os.path.join(BUILD, "audit", f"Audit_{pid}.lean")
    with open(path, "w") as f:
        f.write(src)
    with Lock("lake"):
        r = sh(["lake", "env", "lean", path], cwd=LEAN)
    results, problems = [], []
    for line in r.stdout.splitlines():
        line = line.strip()
        if line.startswith("{"):
            try:
                results.append(json.loads(line))
            except ValueError:
                pass
    if r.returncode != 0:
        problems.append("audit file failed to elaborate: " + (r.stdout + r.stderr)[-400:])
    seen = {x["name"] for x in results}
    lock = statements_lock()
    for n in ob["theorems"]:
        if n not in seen:
            problems.append(f"{n}: no audit result")
    for x in results:
        if x["kind"] != "theorem":
            problems.append(f"{x['name']}: is {x['kind']}, not a theorem")
            continue
        bad = [a for a in x["axioms"] if a not in ALLOWED_AXIOMS]
        if bad:
            problems.append(f"{x['name']}: depends on axioms {bad}")
        want = lock.get(x["name"])
        got = norm_stmt(x["type"])
        if want is None:
            problems.append(f"{x['name']}: statement not in Props/statements.lock")
        elif want != got:
            problems.append(f"{x['name']}: statement differs from Props/statements.lock")
    return results, problems


def norm_stmt(t):
    return " ".join(t.split())


def statements_lock():
    p = os.path.join(LEAN, "GufoSnmp", "Props", "statements.lock")
    if not os.path.exists(p):
        return {}
    with open(p) as f:
        return json.load(f)


def lean_stage(pid, tier):
    """gen consts, build the property's module and the driver, audit. Returns dict."""
    out = {"problems": [], "audit": [], "build_log": ""}
    ok, msg = gen_consts()
    if not ok:
        out["problems"].append("translator failed: " + msg)
        return out
    ob = obligations(pid)
    ok, log = lake_build([ob["module"], "gsvmodel"])
    out["build_log"] = log[-3000:]
    if not ok:
        errs = [l for l in log.splitlines() if "error" in l][:10]
        out["problems"].append("lake build failed: " + " | ".join(errs))
        return out
    hits = forbidden_tokens()
    if hits:
        out["problems"].append("forbidden tokens in Lean sources: " + "; ".join(hits[:5]))
    res, probs = audit(pid)
    out["audit"] = res
    out["problems"] += probs
    if tier == "thorough":
        mods = sorted(set([ob["module"]] + ob.get("model_modules", [])))
        for m in mods:
            with Lock("lake"):
                r = sh(["lake", "env", "leanchecker", m], cwd=LEAN)
            if r.returncode != 0:
                out["problems"].append(f"leanchecker {m} failed: " + (r.stdout + r.stderr)[-300:])
        out["leanchecker"] = mods
    return out


# ---------------------------------------------------------------- implementation side

def build_gsv():
    with Lock("cargo-gsv"):
        r = sh([os.path.join(ROOT, "harness", "rust", "build.sh")])
    if r.returncode != 0:
        return None, (r.stdout + r.stderr)[-3000:]
    return r.stdout.strip().splitlines()[-1], ""


def _run_chunk(binary, lines, env, timeout):
    """a request that never returns is an answer too: the process is killed once it has been silent for longer than
    any request legitimately takes (budget: 60 s + 20 ms per line, far above the 1 MB password expansions), and the
    caller sees a short output with rc -9 and "hang" in the error text, exactly like a process that died"""
    data = "\n".join(lines) + "\n"
    budget = min(timeout, 60 + 0.02 * len(lines) + len(data) / 2e5)
    try:
        r = subprocess.run([binary], input=data, text=True, capture_output=True, env=env, timeout=budget)
    except subprocess.TimeoutExpired as e:
        so = e.stdout or ""
        if isinstance(so, bytes):
            so = so.decode("utf-8", "replace")
        out = so.splitlines()
        if so and not so.endswith("\n"):
            out = out[:-1]
        return out, -9, f"hang: no answer within {budget:.0f} s"
    return r.stdout.splitlines(), r.returncode, r.stderr[-2000:]


def run_lines(binary, lines, env_extra=None, timeout=3600):
    """one request per line, one response per line; large batches are sharded over the cores (requests are
    independent of each other, the order of the responses is preserved)"""
    env = dict(os.environ)
    if env_extra:
        env.update(env_extra)
    weight = sum(len(l) for l in lines)
    n = min(14, max(1, len(lines) // 400, weight // 400000))
    if n <= 1 or len(lines) < 2:
        return _run_chunk(binary, lines, env, timeout)
    import concurrent.futures
    size = -(-len(lines) // n)
    chunks = [lines[i:i + size] for i in range(0, len(lines), size)]
    with concurrent.futures.ThreadPoolExecutor(max_workers=len(chunks)) as ex:
        res = list(ex.map(lambda c: _run_chunk(binary, c, env, timeout), chunks))
    out, rc, err = [], 0, ""
    for c, (o, r, e) in zip(chunks, res):
        if len(o) != len(c):
            # a shard died: keep what it produced, then stop (the caller locates the line)
            out += o
            return out, r or 1, e
        out += o
        rc = rc or r
        err = err or e
    return out, rc, err


def run_gsv(binary, lines):
    env = {"LD_LIBRARY_PATH": PYLIB + ":" + os.environ.get("LD_LIBRARY_PATH", ""),
           "PYTHONHOME": "/root/.pyenv/versions/3.11.7", "RUST_BACKTRACE": "0"}
    return run_lines(binary, lines, env)


def run_model(lines):
    return run_lines(os.path.join(LEAN, ".lake", "build", "bin", "gsvmodel"), lines)


# ---------------------------------------------------------------- canonicalisation

def powi(a, b):
    """compiler-rt __powidf2 (what f64::powi lowers to)."""
    recip = b < 0
    b = abs(b)
    r = 1.0
    while True:
        if b & 1:
            r = fmul(r, a)
        b //= 2
        if b == 0:
            break
        a = fmul(a, a)
    if recip:
        return float("inf") if r == 0.0 else (0.0 if r == float("inf") else 1.0 / r)
    return r


def fmul(x, y):
    try:
        return x * y
    except OverflowError:
        return float("inf")


def fsym_to_float(sym):
    """symbolic FloatVal printed by the model -> Python float (IEEE binary64)."""
    parts = sym.split(":")
    k = parts[1]
    if k == "zero":
        return 0.0
    if k == "negzero":
        return -0.0
    if k == "inf":
        return float("inf")
    if k == "neginf":
        return float("-inf")
    if k == "nan":
        return float("nan")
    if k == "int":
        return float(int(parts[2]))
    if k == "dec":
        text = b"" if parts[2] == "-" else bytes.fromhex(parts[2])
        return float(text.decode("ascii"))
    if k == "bin":
        # ± n * 2^e rounded once (exact rational arithmetic; the exponent is clamped far outside the f64 range)
        from fractions import Fraction
        neg, n, e = (int(x) for x in parts[2:5])
        if n == 0:
            v = 0.0
        elif e > 2200:
            v = float("inf")
        elif e < -2200:
            v = 0.0
        else:
            try:
                v = float(Fraction(n) * Fraction(2) ** e)
            except OverflowError:
                v = float("inf")
        return -v if neg else v
    raise ValueError(sym)


def float_bits(x):
    if x != x:
        return "nan"
    return "%016x" % struct.unpack(">Q", struct.pack(">d", x))[0]


FSYM = re.compile(r"<?fsym:[a-z]+(?::[-0-9a-f]+)*>?")


def canon_model_line(line):
    """rewrite the model's symbolic floats into the implementation's rendering."""
    def rep(m):
        s = m.group(0)
        inrepr = s.startswith("<")
        x = fsym_to_float(s.strip("<>"))
        if inrepr:
            return repr(x)
        return float_bits(x)
    if "fsym:" in line:
        return FSYM.sub(rep, line)
    return line


def diff_streams(lines, impl, model):
    """returns list of (index, request, impl, model) disagreements"""
    out = []
    n = max(len(impl), len(model))
    for k in range(len(lines)):
        a = impl[k] if k < len(impl) else "<missing>"
        b = canon_model_line(model[k]) if k < len(model) else "<missing>"
        if a != b:
            out.append((k, lines[k], a, b))
    return out


# ---------------------------------------------------------------- verdict / evidence

class Check:
    def __init__(self, pid, tier, seed):
        self.pid, self.tier, self.seed = pid, tier, seed
        self.t0 = time.time()
        self.violations = []      # (kind, what, replay dict)
        self.known = []           # strings
        self.coverage = {"evaluations": 0, "distinct_nontrivial": 0, "samples": [], "rule": ""}
        self.assumptions = []
        self.notes = []
        with open(os.path.join(ROOT, "known_findings.json")) as f:
            self.kf = json.load(f)

    def progress(self, text):
        """note the step about to be made with the in-process extension: if the process dies in it, tools/crash_report.py
        names this step as the failing input"""
        try:
            os.makedirs(os.path.join(ROOT, ".build"), exist_ok=True)
            with open(os.path.join(ROOT, ".build", f"progress-{self.pid}.txt"), "w") as f:
                f.write(text)
        except OSError:
            pass

    def findings(self):
        return [k for k in self.kf.get("findings", []) if k["property"] == self.pid]

    def violation(self, kind, what, replay, no_input=False):
        self.violations.append((kind, what, replay, no_input))

    def known_finding(self, what):
        if what not in self.known:
            self.known.append(what)

    def lean(self, stage):
        """record the Lean stage; a broken obligation is a violation without failing input
        unless an oracle violation is also found (decided in finish())."""
        ob = obligations(self.pid)
        res = stage["audit"]
        good = [x["name"] for x in res if x.get("kind") == "theorem"
                and all(a in ALLOWED_AXIOMS for a in x.get("axioms", []))]
        self.coverage["obligations"] = len(ob["theorems"])
        self.coverage["discharged"] = 0 if stage["problems"] else len(good)
        self.coverage["checker_cmd"] = (
            f"python3 tools/gen_consts.py && cd lean && lake build {ob['module']} gsvmodel && "
            f"lake env lean .build/audit/Audit_{self.pid}.lean  # #print-axioms-style audit"
            + (" && lake env leanchecker <modules>" if self.tier == "thorough" else ""))
        axs = sorted({a for x in res for a in x.get("axioms", [])})
        self.coverage["axioms_seen"] = axs
        self.coverage["theorems"] = ob["theorems"]
        self.coverage["trusted_base"] = [
            "Lean 4.33 kernel" + (" + leanchecker re-check" if self.tier == "thorough" else ""),
            "axioms: " + (", ".join(axs) if axs else "none"),
            "tools/gen_consts.py (constants, error table regenerated from /repo on this run)",
            "correspondence check (generators, canonicalisation) tying the hand-written model to /repo",
        ] + ob.get("trusted", [])
        self.lean_problems = stage["problems"]

    def finish(self):
        wall = time.time() - self.t0
        lp = getattr(self, "lean_problems", [])
        if lp:
            concrete = [v for v in self.violations if not v[3]]
            if not concrete:
                self.violation("proof", "; ".join(lp)[:500],
                               {"kind": "proof", "broken": lp}, no_input=True)
        os.makedirs(os.path.join(ROOT, "evidence"), exist_ok=True)
        ev = {
            "property_id": self.pid, "tier": self.tier, "seed": self.seed, "level": "proof",
            "coverage": self.coverage, "assumptions": self.assumptions,
            "wall_s": round(wall, 2), "violations": len(self.violations),
            "known_findings_reproduced": self.known, "notes": self.notes,
        }
        with open(os.path.join(ROOT, "evidence", f"{self.pid}.json"), "w") as f:
            json.dump(ev, f, indent=1, default=str)
        for k in self.known:
            print(f"KNOWN-FINDING: property={self.pid} {k}")
        if not self.violations:
            print(f"OK property={self.pid} tier={self.tier} obligations={self.coverage.get('discharged')}/"
                  f"{self.coverage.get('obligations')} evaluations={self.coverage['evaluations']} wall={wall:.1f}s")
            return 0
        # prefer a violation with a concrete input
        self.violations.sort(key=lambda v: v[3])
        kind, what, replay, no_input = self.violations[0]
        replay = dict(replay)
        replay.update({"property": self.pid, "tier": self.tier, "seed": self.seed, "what": what,
                       "all": [{"kind": v[0], "what": v[1]} for v in self.violations[:20]]})
        h = hashlib.sha1(json.dumps(replay, sort_keys=True, default=str).encode()).hexdigest()[:10]
        os.makedirs(os.path.join(ROOT, "replays"), exist_ok=True)
        path = os.path.join(ROOT, "replays", f"{self.pid}-{h}.json")
        with open(path, "w") as f:
            json.dump(replay, f, indent=1, default=str)
        print(f"  {kind}: {what[:300]}")
        print(f"VIOLATION property={self.pid} replay={path}" + (" no-failing-input-found" if no_input else ""))
        return 1
