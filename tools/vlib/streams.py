"""Run request streams through the implementation harness and the model driver; diff; stats."""
import collections
import random

from vlib import common, gens


def resp_kind(out):
    if out.startswith("ok"):
        return "ok"
    if out.startswith("err "):
        return out.split(" ")[1] if " " in out else "err"
    if out.startswith("pyok"):
        return "pyok"
    if out.startswith("pyerr "):
        return out
    return out.split(" ")[0]


def model_request(line, impl_out):
    """the request sent to the model for an implementation request: identical, except that random
    draws of the implementation (salt seeds) are read off its output and passed to the model as inputs"""
    if line.startswith("privenc "):
        p = [x for x in line.split(" ") if not x.startswith("seed=")]
        seed = 0
        if impl_out.startswith("ok ") and "/" in impl_out:
            salt = impl_out[3:].split(";")[0].split("/")[1]
            alg = p[1]
            if alg == "1" and len(salt) == 16:
                seed = int(salt[8:], 16)
            elif alg == "2" and len(salt) == 16:
                seed = int(salt, 16)
        return " ".join(p[:7] + [f"seed={seed}"] + p[7:])
    return line


class Streams:
    """collects named streams of request lines, runs both sides once, exposes outputs"""

    def __init__(self, chk, model_ok=True):
        self.chk = chk
        self.model_ok = model_ok
        self.names = []
        self.lines = []
        self.origin = []
        self.gsv, err = common.build_gsv()
        if self.gsv is None:
            # the in-crate harness does not compile against the current tree: the correspondence cannot be
            # run. That is a broken tie, not by itself a violation; the e2e oracles still search for an input.
            errs = [l for l in err.splitlines() if l.startswith("error")][:3]
            chk.violation("correspondence", "the Rust harness does not build against /repo's current tree: "
                          + " | ".join(errs)[:300],
                          {"kind": "correspondence", "broken": ["build of harness/rust against /repo"],
                           "build_errors": err[-1500:]}, no_input=True)

    def add(self, name, lines):
        self.names.append(name)
        self.lines += lines
        self.origin += [name] * len(lines)

    def run(self):
        if self.gsv is None:
            self.impl = ["<nobuild>"] * len(self.lines)
            self.model = None
            return self
        self.impl, rc, err = common.run_gsv(self.gsv, self.lines)
        if len(self.impl) != len(self.lines):
            # the harness process died (abort / stack overflow): find the line
            k = len(self.impl)
            what = ("the implementation never returned (killed after the time budget)" if "hang" in (err or "")
                    else f"implementation harness died (rc={rc})")
            self.chk.violation("oracle", f"{what} while processing: {self.lines[k][:200]}",
                               {"kind": "oracle", "lines": [self.lines[k]], "stderr": err[-500:]})
            self.impl += ["<died>"] * (len(self.lines) - len(self.impl))
        if self.model_ok:
            mlines = [model_request(l, o) for l, o in zip(self.lines, self.impl)]
            self.model, rc2, err2 = common.run_model(mlines)
            self.model = [common.canon_model_line(x) for x in self.model]
            if len(self.model) != len(self.lines):
                self.model += ["<missing>"] * (len(self.lines) - len(self.model))
        else:
            self.model = None
        return self

    def diff(self, stream_label, known=None):
        """report model/implementation disagreements as a correspondence break"""
        if self.model is None:
            return []
        diffs = [(k, self.lines[k], self.impl[k], self.model[k]) for k in range(len(self.lines))
                 if self.impl[k] != self.model[k] and self.impl[k] != "<died>"]
        if known:
            diffs = [d for d in diffs if not known(d)]
        if diffs:
            k, req, a, b = min(diffs, key=lambda d: len(d[1]))
            self.chk.violation(
                "correspondence",
                f"model and implementation disagree on {len(diffs)} of {len(self.lines)} requests "
                f"(streams {sorted(set(self.origin[d[0]] for d in diffs))}); shortest: {req[:160]} impl={a[:80]} model={b[:80]}",
                {"kind": "correspondence", "stream": stream_label, "lines": [d[1] for d in diffs[:20]],
                 "impl": [d[2] for d in diffs[:20]], "model": [d[3] for d in diffs[:20]],
                 "broken": [f"correspondence {stream_label}: Lean model vs /repo"]},
                no_input=True)
        return diffs

    def histogram(self):
        h = collections.Counter()
        for ln, out in zip(self.lines, self.impl):
            parts = ln.split(" ")
            kind = parts[0] + (":" + parts[1] if parts[0] in ("ber", "msg", "topy", "walk", "encmsg") and len(parts) > 1 else "")
            h[f"{kind} -> {resp_kind(out)}"] += 1
        return dict(sorted(h.items()))

    def coverage(self, rule, nontrivial):
        """fill the evidence: nontrivial(line, impl_out) -> bool"""
        distinct = set()
        for ln, out in zip(self.lines, self.impl):
            if nontrivial(ln, out):
                distinct.add(ln)
        per = collections.Counter(self.origin)
        samples = []
        seen = set()
        for ln, o, out in zip(self.lines, self.origin, self.impl):
            if o not in seen:
                seen.add(o)
                samples.append({"stream": o, "request": ln[:240], "impl": out[:160]})
        self.chk.coverage.update({
            "evaluations": len(self.lines),
            "distinct_nontrivial": len(distinct),
            "rule": rule,
            "samples": samples[:12],
            "per_stream": dict(per),
            "response_histogram": self.histogram(),
            "traces_validated_against_impl": len(self.lines) if self.model is not None else 0,
        })


def corpus_lines(pid):
    import os
    p = os.path.join(common.ROOT, "corpus", pid + ".txt")
    if not os.path.exists(p):
        return []
    with open(p) as f:
        return [l.rstrip("\n") for l in f if l.strip() and not l.startswith("#")]
