"""C14 — privacy salts never repeat and nothing confidential goes in clear."""
import json
import random
import sys

from vlib import common, e2e, gens, sessions, streams

sys.path.insert(0, "/verif/harness/py")
import agent as ag  # noqa: E402
import ber  # noqa: E402


def clone_state(rng, st, priv=None):
    """another key installation for the same engine (new passwords, maybe another cipher)"""
    priv = st.priv_alg if priv is None else priv
    return ag.V3AgentState(st.engine_id, boots=st.boots, time=st.time, user=st.user.decode(),
                           auth_alg=st.auth_alg, auth_password=bytes(rng.getrandbits(8) for _ in range(12)),
                           priv_alg=priv, priv_password=bytes(rng.getrandbits(8) for _ in range(12)))


ALL_SALTS = set()     # (installation, msgPrivacyParameters) pairs seen in this run


class SaltOracle:
    """per key installation: 8 octets, DES = boots || counter, AES = 64-bit counter, +1 per message"""

    def __init__(self):
        self.seen = set()
        self.last = None
        self.slack = 0      # failed encrypting sends since the last message (each may advance the counter)
        self.n = 0

    def failed(self):
        self.slack += 1

    def message(self, priv_alg, d):
        pp = d["priv_params"]
        if not d["flags"] & 2:
            return "priv flag clear on a session that holds a privacy key"
        if not d.get("encrypted"):
            return "msgData sent in clear by a session that holds a privacy key"
        if len(pp) != 8:
            return f"msgPrivacyParameters has {len(pp)} octets"
        if pp in self.seen:
            return f"msgPrivacyParameters {pp.hex()} repeated within one key installation (message {self.n})"
        self.seen.add(pp)
        ALL_SALTS.add((id(self), pp))
        if priv_alg == 1:
            if pp[:4] != (d["boots"] & 0xFFFFFFFF).to_bytes(4, "big"):
                return f"DES salt {pp.hex()} does not start with engine boots {d['boots']}"
            c, mod = int.from_bytes(pp[4:], "big"), 2 ** 32
        else:
            c, mod = int.from_bytes(pp, "big"), 2 ** 64
        why = None
        if self.last is not None:
            step = (c - self.last) % mod
            if not 1 <= step <= 1 + self.slack:
                why = f"salt counter moved by {step} between consecutive messages ({self.slack} failed sends in between)"
        self.last, self.slack = c, 0
        self.n += 1
        return why


def leak(d, dg):
    """an 8-octet run of the PDU inside the scoped PDU that also appears outside the ciphertext"""
    pt = d.get("plaintext")
    if not pt:
        return None
    ct = d["msgdata"]
    at = dg.find(ct)
    outside = dg[:at] + b"|" + dg[at + len(ct):] if at >= 0 else dg
    # msgAuthoritativeEngineID / Boots / Time are public session state, not PDU content: a run of the PDU that happens
    # to spell those three elements (a random request id ending 04 00 followed by error-status 0 and error-index 0 reads
    # like "empty engine id, boots 0, time 0" of an undiscovered session) is no leak
    pub = ber.tlv(0x04, d.get("engine_id", b"")) + ber.INT(d.get("boots", 0)) + ber.INT(d.get("time", 0))
    outside = outside.replace(pub, b"|")
    try:
        _, _, _, hdr = ber.parse_tlv(pt, 0)
    except ber.BerError:
        return None
    # skip contextEngineID / contextName (the engine id is public in the USM header)
    pos = pt.find(b"\x04", 2)
    body = pt[2 + 2 + len(d.get("ctx_engine_id", b"")):]
    for k in range(0, max(0, len(body) - 8)):
        w = body[k:k + 8]
        if len(set(w)) > 2 and w in outside:
            return f"octets {w.hex()} of the scoped PDU appear in clear outside msgData"
    for name in d.get("varbinds", []):
        oc = ber.oid_content(name[0])
        if len(oc) >= 6 and len(set(oc)) > 2 and oc in outside:
            return f"requested OID {ber.dotted(name[0])} appears in clear outside msgData"
    if len(ct) >= 8 and ct[:len(pt)] == pt[:len(ct)]:
        return "msgData equals the plaintext scoped PDU"
    return None


def lines_privenc_long(rng, n, count, wrap=False):
    out = []
    for _ in range(n):
        alg = rng.choice([1, 2])
        # wrap: start the counter just below 2^32 / 2^64 (hook PrivKey::set_salt_value, cfg gufo_snmp_verif)
        seed = f"seed={(2 ** 32 if alg == 1 else 2 ** 64) - rng.randrange(1, max(2, count))} " if wrap else ""
        key = bytes(rng.getrandbits(8) for _ in range(16))
        eng = bytes(rng.getrandbits(8) for _ in range(rng.choice([5, 12, 32])))
        oids = [bytes([43, 6] + [rng.getrandbits(7) for _ in range(rng.randrange(0, 12))]) for _ in range(rng.randrange(0, 3))]
        req = f"get {rng.getrandbits(31)} " + (",".join(o.hex() for o in oids) if oids else "-")
        out.append(f"privenc {alg} {key.hex()} {rng.getrandbits(32)} {rng.getrandbits(32)} {count} {gens.hx(eng)} {seed}{req}")
    return out


def run(chk, model_ok=True):
    rng = random.Random(chk.seed)
    quick = chk.tier == "quick"
    env = e2e.env()
    bad = 0

    def fail(what, line):
        nonlocal bad
        bad += 1
        if bad <= 5:
            chk.violation("oracle", what, {"kind": "oracle", "lines": [line[:400000]], "expected": what})

    # 1. the cipher objects alone: long encrypt sequences (model = same counter from the same seed)
    st = streams.Streams(chk, model_ok)
    st.add("privenc-long", lines_privenc_long(rng, 4 if quick else 12, 1500 if quick else 30000))
    st.add("privenc-short", lines_privenc_long(rng, 180 if quick else 2000, 3))
    st.add("privenc-wrap", lines_privenc_long(rng, 36 if quick else 200, 40, wrap=True))
    st.run()
    n_pairs = 0
    for ln, out in zip(st.lines, st.impl):
        if not out.startswith("ok "):
            if out not in ("<nobuild>", "<died>"):
                fail(f"encrypt sequence failed: {out}", ln)
            continue
        p = ln.split(" ")
        alg, boots = int(p[1]), int(p[3])
        orc = SaltOracle()
        seeds = [x for x in p if x.startswith("seed=")]
        for pair in out[3:].split(";"):
            ct, salt = pair.split("/")
            n_pairs += 1
            why = orc.message(alg, {"priv_params": bytes.fromhex(salt), "flags": 3, "encrypted": True, "boots": boots})
            if why:
                fail(why, ln)
                break
        if seeds and orc.n:
            first = bytes.fromhex(out[3:].split(";")[0].split("/")[1])
            c0 = int.from_bytes(first[4:] if alg == 1 else first, "big")
            if c0 != int(seeds[0][5:]) % (2 ** 32 if alg == 1 else 2 ** 64):
                chk.notes.append("the salt hook is not active (the wrap-around stream ran with random seeds)")
    st.diff("privenc")
    # 2. sessions: mixed requests, receives, timeouts, failing sends, re-keying
    n_hist = 30 if quick else 120
    steps = 360 if quick else 1500
    all_sess = []
    n_msg = 0
    installs = 0
    longest = 0
    for h in range(n_hist):
        priv = 1 + h % 2
        # every fourth session: keys installed but the engine id still unknown (raw socket before discovery);
        # such a session is never answered here, so it keeps sending with the empty engine id
        undiscovered = h % 4 == 3
        peer = sessions.rand_v3_peer(rng, auth=rng.choice([1, 2]), priv=priv, kt="password", discover=undiscovered)
        s = sessions.Sess(env, peer, rng)
        all_sess.append(s)
        orc = SaltOracle()
        installs += 1
        for k in range(steps):
            r = rng.random()
            if r < 0.02 and not undiscovered:
                newst = clone_state(rng, s.peer.state, priv=rng.choice([1, 2]))
                if s.set_keys(newst)[0] == "ok":
                    longest = max(longest, orc.n)
                    orc = SaltOracle()
                    installs += 1
                continue
            if r < 0.06 and not undiscovered:
                # a re-keying attempt that is refused (empty privacy password): the installation in force — key, salt
                # counter — must go on as if nothing had happened
                bad_kw = dict(e2e.client_kwargs(s.peer.state))
                bad_kw.update(priv_key=b"", priv_alg=s.peer.state.priv_alg)
                if s.set_keys(s.peer.state, raw_kw=bad_kw)[0] == "ok":
                    fail(f"{s.label}: set_keys accepted an empty privacy password", s.line())
                continue
            if r < 0.08:
                rec = s.send("getmany", [sessions.rand_oid_text(rng, long=True) for _ in range(rng.randrange(7, 12))])
            elif r < 0.3:
                rec = s.send("getmany", [sessions.rand_oid_text(rng) for _ in range(rng.randrange(0, 5))])
            elif r < 0.4:
                rec = s.send("refresh")
            else:
                rec = s.send("get", sessions.rand_oid_text(rng))
            if rec["result"][0] != "ok":
                if rec["result"][1] == "SnmpEncodeError":
                    orc.failed()
                continue
            d = rec["req"]
            if not d or "undecodable" in d:
                fail(f"{s.label}: emitted datagram is not readable by the agent ({d})", s.line())
                continue
            n_msg += 1
            why = orc.message(s.peer.state.priv_alg, d) or leak(d, rec["datagrams"][-1])
            if why:
                fail(f"{s.label} message {orc.n}: {why}", s.line())
            if undiscovered:
                if rng.random() < 0.2:
                    s.recv(rec["op"], [])
                continue
            if rng.random() < 0.5:
                st_ = s.peer.state
                if rng.random() < 0.3:
                    st_.boots = rng.choice([0, 1, 5, 2 ** 31 - 1, rng.getrandbits(31)])
                    st_.time = rng.getrandbits(31)
                vbs = [ber.varbind(a, ber.INT(rng.randrange(100))) for a, _, _ in d["varbinds"][:3]]
                s.recv(rec["op"], [s.peer.response(d, vbs)])
            elif rng.random() < 0.2:
                s.recv(rec["op"], [])
        longest = max(longest, orc.n)
    # the real sync and async clients, incl. discovery with lost probes and retries: a user with a privacy key
    # never sends a request in clear
    from props import c13
    n_cli = 0
    for key, script, r, why in c13.client_cases(rng, 24 if quick else 480):
        n_cli += 1
        if why and any(w in why for w in ("not encrypted", "priv flag", "carries user", "failed with")):
            fail(f"{key}: {why}", f"# client {key}")
    # a privacy key whose value is empty is still a privacy key (user.py zero-pads master / localized keys):
    # the session must encrypt, not silently fall back to clear text
    import agent as ag
    from gufo.snmp.user import Aes128Key, DesKey, KeyType, Md5Key, Sha1Key, User
    for auth, pcls, palg in ((1, DesKey, 1), (2, Aes128Key, 2), (2, DesKey, 1)):
        for kt, ktn in ((KeyType.Master, "master"), (KeyType.Localized, "localized")):
            klen = 16 if auth == 1 else 20
            eng = bytes(rng.getrandbits(8) for _ in range(11))
            akey = bytes(rng.getrandbits(8) for _ in range(klen))
            stz = ag.V3AgentState(eng, boots=3, time=4, user="empty-priv", auth_alg=auth, auth_password=akey, priv_alg=palg,
                                  priv_password=bytes(klen), auth_key_type="localized", priv_key_type=ktn)
            user = User("empty-priv", auth_key=(Md5Key if auth == 1 else Sha1Key)(akey, key_type=KeyType.Localized),
                        priv_key=pcls(b"", key_type=kt))
            kw = dict(engine_id=eng, user_name=user.name, auth_alg=user.get_auth_alg(), auth_key=user.get_auth_key(),
                      priv_alg=user.get_priv_alg(), priv_key=user.get_priv_key())
            r = e2e.ncall(lambda: ag.make_sock(env.fast, env.agent, 3, **kw))
            n_cli += 1
            line = f"# empty {ktn} privacy key, auth {auth}, cipher {palg}"
            if r[0] != "ok":
                if not r[2]:
                    fail(f"empty {ktn} privacy key: constructor crashed ({r[1]})", line)
                continue            # refusing the key is fine; silently dropping privacy is not
            env.agent.recv_all()
            s1 = e2e.ncall(lambda: r[1].send_get("1.3.6.1.2.1.1.1.0"))
            dgs = env.agent.recv_all(expect=1, wait=0.05)
            if s1[0] == "ok" and dgs:
                dd = ber.decode_message(dgs[-1])
                if not dd["flags"] & 2 or not dd.get("encrypted"):
                    fail(f"a user with an (empty, {ktn}) privacy key sends in clear: flags {dd['flags']}, msgData "
                         f"{'encrypted' if dd.get('encrypted') else 'plaintext'}", line)
                else:
                    try:
                        stz.parse_request(dgs[-1])
                    except ber.BerError as ex:
                        fail(f"empty {ktn} privacy key (zero-padded by user.py): the request does not decrypt under that key: {ex}", line)
    # a privacy algorithm the library does not implement must be refused, not taken for "no privacy"
    for code in (3, 4, 17, 63, 3 | 64, 3 | 128):
        eng = bytes(rng.getrandbits(8) for _ in range(11))
        rr = e2e.ncall(lambda: ag.make_sock(env.fast, env.agent, 3, engine_id=eng, user_name="u", auth_alg=2 | 128, auth_key=bytes(range(20)),
                                            priv_alg=code, priv_key=bytes(range(16))))
        n_cli += 1
        if rr[0] == "ok":
            env.agent.recv_all()
            s1 = e2e.ncall(lambda: rr[1].send_get("1.3.6.1.2.1.1.1.0"))
            dgs = env.agent.recv_all(expect=1, wait=0.05)
            clear = bool(dgs) and not (ber.decode_message(dgs[-1]).get("flags", 0) & 2)
            fail(f"a session was created for the unimplemented privacy algorithm code {code}"
                 + (": its requests go out in clear (priv flag 0)" if clear else ""), f"# priv alg code {code}")
    nl, nd = sessions.model_compare(chk, all_sess, model_ok)
    chk.coverage.update({
        "evaluations": n_msg + n_pairs,
        "distinct_nontrivial": len(ALL_SALTS),
        "rule": "every message of a key installation is compared with all earlier ones (set of salts) and with its "
                "predecessor (counter + 1, failed encrypting sends accounted for); DES salts must start with the engine boots "
                "in the message; priv flag and encrypted msgData required; 8-octet windows of the PDU and the requested OIDs "
                "are searched outside the ciphertext. Sequences: cipher objects alone (privenc, up to "
                f"{1500 if quick else 30000} consecutive encrypts) and sessions with mixed get / get_many / refresh, replies with "
                "changing boots/time, timeouts, oversized requests and set_keys re-installations; every history replayed on "
                "the Lean model with the seed read off the first salt. distinct = distinct (key installation, msgPrivacyParameters) pairs actually observed (equals the number of messages iff no salt repeated).",
        "samples": [{"stream": "privenc", "request": st.lines[0][:200], "impl": st.impl[0][:120]}] if st.lines else [],
        "session_messages": n_msg, "client_runs": n_cli, "cipher_level_encrypts": n_pairs, "key_installations": installs,
        "longest_installation_messages": longest,
        "session_lines": nl, "session_lines_disagreeing": nd,
        "traces_validated_against_impl": nl + len(st.lines) if model_ok else 0,
    })
    chk.assumptions += ["the random seed of the counter is read off the first salt of each installation",
                        "wrap-around of the 32/64-bit counter: theorems (no_repeat, params_differ) + the privenc-wrap stream, which "
                        "starts the counter just below 2^32 / 2^64 through the cfg(gufo_snmp_verif) hook PrivKey::set_salt_value"]


def replay(chk, path):
    with open(path) as f:
        rp = json.load(f)
    out, _, _ = common.run_model(rp.get("lines", []))
    for o in out:
        print(o[:400])
    return 0
