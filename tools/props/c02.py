"""C02 — response values reach the caller exactly as the agent encoded them."""
import json
import math
import random
import sys

from vlib import common, e2e, gens, streams, values

sys.path.insert(0, "/verif/harness/py")
import ber  # noqa: E402

NULLV, EXC = values.NULLV, values.EXC


def gen_real_binary(rng):
    """X.690 8.5.7 binary REAL of a known value: (encoding, expected float)"""
    sign = rng.randrange(2)
    base = rng.choice([2, 2, 2, 8, 16])
    scale = rng.choice([0, 0, 0, 1, 2, 3])
    mant = rng.choice([0, 1, 3, 5, 255, 256, 2 ** 24 - 1, 2 ** 32 - 1, 2 ** 32 + 1, 2 ** 52 + 1, 2 ** 53 - 1, 2 ** 53 + 1,
                       2 ** 64 - 1, 2 ** 64 + 1, 2 ** 80 + 1, (2 ** 53 + 1) << 20, ((2 ** 53 + 1) << 20) + 1,
                       rng.getrandbits(rng.randrange(1, 54)) | 1, rng.getrandbits(rng.randrange(54, 100)) | 1])
    exp = rng.choice([0, 1, -1, 2, -2, 10, -10, 127, -128, 128, -129, 300, -300, 1023, 1024, -1022, -1074, -1075, -1080,
                      -1130, 2 ** 20, -2 ** 20, rng.randrange(-60, 60), rng.randrange(-1150, 1100)])
    need = len(ber.int_content(exp))
    explen = rng.choice([None, None, None] + [k for k in (1, 2, 3, 4, 5) if k >= need])
    enc = ber.REAL_binary(sign, base, scale, exp, mant, explen)
    e2 = scale + exp * {2: 1, 8: 3, 16: 4}[base]
    from fractions import Fraction
    if mant == 0:
        v = 0.0
    elif e2 > 2200:
        v = float("inf")
    elif e2 < -2200:
        v = 0.0
    else:
        try:
            v = float(Fraction(mant) * Fraction(2) ** e2)      # exact, rounded once
        except OverflowError:
            v = float("inf")
    return enc, (-v if sign else v)


def gen_val(rng, data_only=False):
    """ground truth value incl. binary REALs: (TLV, expected | NULLV | EXC, kind)"""
    if rng.random() < 0.06:
        enc, v = gen_real_binary(rng)
        return enc, v, "real-binary"
    return values.gen_value(rng, data_only=data_only)


def vb(rng, name, val_tlv):
    """one varbind; sometimes with non-minimal long-form lengths on the SEQUENCE and the name"""
    oid_c = ber.oid_content(name)
    oid = ber.tlv(0x06, oid_c, values.lf(rng, len(oid_c)))
    body = oid + val_tlv
    return ber.tlv(0x30, body, values.lf(rng, len(body)))


def render_v(val, kind, tlv):
    """the harness' rendering `V` of the expected value"""
    if kind == "int":
        return f"int:{val}"
    if kind in ("c32", "g32", "tt", "u32", "c64"):
        return {"c32": "counter32", "g32": "gauge32", "tt": "timeticks", "u32": "uinteger32", "c64": "counter64"}[kind] + f":{val}"
    if kind in ("oct", "opaque", "objdesc"):
        return {"oct": "octets", "opaque": "opaque", "objdesc": "objdesc"}[kind] + ":" + gens.hx(val)
    if kind == "ip":
        return "ipaddr:" + val
    if kind == "oid":
        return "oid:" + gens.hx(ber.oid_content(tuple(int(x) for x in val.split("."))))
    if kind == "bool":
        return "bool:" + ("true" if val else "false")
    if kind in ("real", "real-binary"):
        return "real:" + common.float_bits(val)
    return {"null": "null", "nso": "nosuchobject", "nsi": "nosuchinstance", "eomv": "endofmibview"}[kind]


def same(a, b):
    return e2e.canon(a) == e2e.canon(b)


def run(chk, model_ok=True):
    rng = random.Random(chk.seed)
    quick = chk.tier == "quick"
    env = e2e.env()
    known = {}
    for f in chk.findings():
        for c in f.get("classes", []):
            known[c] = f
    reproduced = {}
    bad = 0

    def fail(what, detail, kinds=()):
        """a wrong value; listed classes (binary REAL) are known findings"""
        nonlocal bad
        ks = set(kinds)
        if ks and ks <= set(known):
            for k in ks:
                reproduced.setdefault(known[k]["id"], []).append(what)
            return
        bad += 1
        if bad <= 5:
            chk.violation("oracle", what, {"kind": "oracle", "lines": [detail], "expected": what})

    # 1. single values through SnmpValue::from_ber (implementation vs ground truth vs model)
    n_val = 12000 if quick else 640000
    truth = []
    lines = []
    for _ in range(n_val):
        tlv, val, kind = gen_val(rng)
        follower = bytes(rng.getrandbits(8) for _ in range(rng.choice([0, 0, 1, 5])))
        truth.append((val, kind, tlv, follower))
        lines.append(f"value {(tlv + follower).hex()}")
    st = streams.Streams(chk, model_ok)
    st.add("corpus", streams.corpus_lines("C02"))
    n_corpus = len(st.lines)
    st.add("value-ground-truth", lines)
    st.add("value", gens.lines_value(rng, 6000 if quick else 320000))
    st.add("real", gens.lines_real(rng, 1600 if quick else 80000))
    st.run()
    kinds_seen = {}
    for (val, kind, tlv, follower), ln, out in zip(truth, lines, st.impl[n_corpus:n_corpus + len(lines)]):
        if out in ("<nobuild>", "<died>"):
            continue
        want = f"ok {render_v(val, kind, tlv)} {gens.hx(follower)}"
        kinds_seen[kind] = kinds_seen.get(kind, 0) + 1
        if out != want:
            fail(f"value {tlv.hex()[:60]} ({kind}) decoded as {out[:80]}, it denotes {want[:80]}", ln, [kind])

    def known_diff(d):
        return False
    st.diff("C02 values", known=known_diff)
    # 2. end to end: every API, every session kind, any position in the list
    peers = e2e.all_peers()
    n_per = 160 if quick else 9600
    n_e2e = 0
    hist = {}
    distinct = set()
    samples = []
    topy = []
    for peer in peers:
        conv = e2e.Conv(peer, env)
        for it_no in range(n_per):
            op = rng.choice(["get", "getmany", "getmany", "getnext", "getbulk"])
            if peer.kind == "v1" and op == "getbulk":
                op = "getnext"
            base = values.gen_arcs(rng, n=rng.randrange(0, 6))
            if op == "get":
                k = 1
            elif op == "getnext":
                k = 1
            else:
                k = rng.choice([0, 1, 2, 3, 5, 8, 13, 21, 40])
            data_only = op in ("getnext", "getbulk")
            tl = [gen_val(rng, data_only=data_only) for _ in range(k)]
            if op in ("getnext", "getbulk"):
                names = [base + (i + 1,) for i in range(k)]
            else:
                names = []
                while len(names) < k:
                    n_ = values.gen_arcs(rng)
                    if n_ not in names:
                        names.append(n_)
            vbs = [vb(rng, n_, t[0]) for n_, t in zip(names, tl)]
            kinds = [t[2] for t in tl]
            if op == "get":
                want = ("ok", None) if tl[0][1] is NULLV else (("exc", "NoSuchInstance") if tl[0][1] is EXC else ("ok", tl[0][1]))
                arg = values.dotted(names[0])
            elif op == "getmany":
                want = ("ok", {values.dotted(n_): t[1] for n_, t in zip(names, tl) if t[1] is not NULLV and t[1] is not EXC})
                arg = [values.dotted(n_) for n_ in names] or ["1.3.6"]
            elif op == "getnext":
                want = ("ok", (values.dotted(names[0]), tl[0][1]))
                arg = None
            else:
                want = ("ok", [(values.dotted(n_), t[1]) for n_, t in zip(names, tl)]) if k else ("exc", "StopAsyncIteration")
                arg = None
            it = None
            if op in ("getnext", "getbulk"):
                it = conv.new_iter(values.dotted(base), 50)
            r = conv.exchange(op, arg, lambda req: [peer.response(req, vbs)], it=it)
            n_e2e += 1
            pdu_hex = ber.pdu(2, 1, 0, 0, vbs).hex()
            if op in ("get", "getmany"):
                topy.append(f"topy {op} {pdu_hex}")
            hk = f"{op}:{min(k, 3)}+vb->{r[0] if r[0] == 'ok' else r[1]}"
            hist[hk] = hist.get(hk, 0) + 1
            distinct.add((peer.label, op, tuple(kinds)))
            if len(samples) < 5 and k:
                samples.append({"session": peer.label, "op": op, "reply_pdu": pdu_hex[:160], "result": repr(r)[:100]})
            okk = (r[0] == "exc" and want[0] == "exc" and r[1] == want[1]) or (r[0] == "ok" and want[0] == "ok" and same(r[1], want[1]))
            if not okk:
                # which values are wrong?
                wrong = set(kinds) if r[0] != "ok" or want[0] != "ok" else set()
                if r[0] == "exc" and "real-binary" in kinds and (
                        r[1] == "SnmpDecodeError" or (r[1] == "BlockingIOError" and peer.kind == "v3" and peer.state.priv_alg)):
                    # one undecodable value fails the whole response (inside an encrypted message the failure
                    # surfaces as a skipped datagram, i.e. a timeout)
                    wrong = {"real-binary"}
                if r[0] == "ok" and want[0] == "ok":
                    if op == "get":
                        wrong = set(kinds)
                    elif op == "getmany" and isinstance(r[1], dict):
                        for n_, t in zip(names, tl):
                            if t[1] is NULLV or t[1] is EXC:
                                continue
                            if values.dotted(n_) not in r[1] or not same(r[1][values.dotted(n_)], t[1]):
                                wrong.add(t[2])
                        wrong = wrong or set(kinds)
                    else:
                        got = r[1] if isinstance(r[1], list) else [r[1]]
                        for (n_, t), g in zip(zip(names, tl), got):
                            if not same(g, (values.dotted(n_), t[1])):
                                wrong.add(t[2])
                        wrong = wrong or set(kinds)
                fail(f"{peer.label} {op}: got {(e2e.canon(r[1]) if r[0] == 'ok' else repr(r))[:110]}, the reply denotes "
                     f"{(e2e.canon(want[1]) if want[0] == 'ok' else want[1])[:110]} (kinds {sorted(wrong)})",
                     f"topy {'get' if op == 'get' else 'getmany'} {pdu_hex}", wrong)
    # 3. the real sync and async clients (blocking socket / event loop) on a sample
    from props import c18
    n_cli = 0
    for peer in [e2e.Peer("v2c"), e2e.Peer("v3", auth=2, priv=2, auth_kt="localized", priv_kt="localized")]:
        for mode in ("sync", "async"):
            for _ in range(24 if quick else 1200):
                tlv, val, kind = gen_val(rng, data_only=True)
                name = values.gen_arcs(rng)
                r = client_get(mode, peer, values.dotted(name), vb(rng, name, tlv))
                n_cli += 1
                if not (r[0] == "ok" and same(r[1], val)):
                    fail(f"{mode} SnmpSession.get on {peer.label}: got {repr(r)[:100]}, the reply denotes {e2e.canon(val)[:80]} ({kind})",
                         f"value {tlv.hex()}", [kind])
    # values of a GetBulk walk that follows a walk the caller abandoned (rows left in that iterator's buffer)
    from props import c05
    for mode in ("sync", "async"):
        for k_ in range(40 if quick else 400):
            # (the first walks of each client are the fixed corner: a table below the base, few rows asked for, an agent
            #  that sends many more in one reply)
            corner = k_ < 4
            mib, base = c05.gen_mib(rng, corner or rng.random() < 0.3)
            maxrep, cap = (rng.choice([2, 5]), 50) if corner else (rng.choice([2, 5, 20]), rng.choice([2, 5, 50, 50]))
            peer = rng.choice([e2e.Peer("v2c"), e2e.Peer("v3", auth=1, priv=1, auth_kt="localized", priv_kt="localized")])
            # (half of the agents answer with `cap` rows however few were asked for: every row sent must arrive)
            over = corner or rng.random() < 0.5
            out = c05.run_mode(mode, peer, "bulk", values.dotted(base), maxrep,
                               c05.agent_replies(mib, base, "bulk", maxrep, cap, False, over), env, False, True, rng.random() < 0.5)
            n_cli += 1
            if any(not (isinstance(y, tuple) and len(y) == 2) for y in out.yields):
                fail(f"{mode} getbulk walk of {values.dotted(base)} yielded a non-(oid, value) item", f"# {mode} {peer.label}")
                continue
            got = [(o, e2e.canon(v)) for o, v in out.yields]
            exp = [(o, e2e.canon(v)) for o, v in c05.subtree(mib, base)]
            if got != exp:
                fail(f"{mode} getbulk walk of {values.dotted(base)} (max_repetitions {maxrep}, agent sends {cap if over else min(maxrep, cap)} rows "
                     f"per reply) returned {len(got)} rows {got[:3]}.. instead of the agent's {len(exp)} rows {exp[:3]}..",
                     f"# {mode} {peer.label} base={values.dotted(base)}")
    st2 = streams.Streams(chk, model_ok)
    st2.add("topy-e2e-replies", topy)
    st2.run()
    st2.diff("C02 op layer")
    for fid, whats in sorted(reproduced.items()):
        f = [x for x in chk.findings() if x["id"] == fid][0]
        chk.known_finding(f"{fid}: {f['what']} [{len(whats)} cases, e.g. {whats[0][:140]}]")
    st.coverage(
        "ground truth: values drawn from a model (INTEGER over i64 with boundary bias and redundant sign octets, "
        "Counter32/Gauge32/TimeTicks/UInteger32 incl. leading zero octet, Counter64 up to 2^64-1, OCTET STRING / Opaque / "
        "ObjectDescriptor of 0..300 octets, IpAddress, OIDs with arcs up to 2^32-1, BOOLEAN, NULL, exception values, REAL in "
        "special, NR1/NR2/NR3 and binary forms), encoded by the independent Python encoder with minimal or long-form "
        "lengths on value, name and varbind; (a) each value alone and followed by other octets through SnmpValue::from_ber; "
        "(b) in responses with 0..40 varbinds at every position read through get, get_many, getnext, getbulk of the raw "
        "API for v1, v2c and v3 (plain, auth, DES, AES); (c) the real blocking and asyncio SnmpSession.get. Expected = the "
        "model's value; floats compared by bit pattern. All requests also go through the Lean model.",
        lambda ln, out: out.startswith("ok"))
    chk.coverage["evaluations"] = len(st.lines) + n_e2e + n_cli + len(topy)
    chk.coverage["distinct_nontrivial"] = len(distinct) + len(set(lines))
    chk.coverage["e2e_exchanges"] = n_e2e
    chk.coverage["client_gets"] = n_cli
    chk.coverage["ground_truth_values_by_kind"] = dict(sorted(kinds_seen.items()))
    chk.coverage["e2e_outcome_histogram"] = dict(sorted(hist.items()))
    chk.coverage["samples"] = samples
    chk.coverage["traces_validated_against_impl"] = (len(st.lines) + len(topy)) if model_ok else 0
    chk.assumptions += ["Python's float() / math.ldexp are the reference for decimal and binary REALs (correctly rounded)",
                        "the independent encoder harness/py/ber.py"]


def client_get(mode, peer, oid, varbind):
    """one get through the real SnmpSession (sync: blocking socket + agent thread; async: agent on the loop)"""
    from props import c18

    def plan(dg):
        req = peer.decode(dg)
        if req["pdu_type"] == 0 and not req["varbinds"]:
            return [peer.state.report(req["request_id"], req["msg_id"], auth=bool(peer.state.auth_alg))]
        return [peer.response(req, [varbind])]
    if mode == "sync":
        from gufo.snmp.sync_client import SnmpSession
        agent = e2e.ThreadAgent(lambda dg: [(0, x) for x in plan(dg)])
        try:
            with SnmpSession("127.0.0.1", port=agent.port, timeout=2.0, **c18.session_kwargs(peer)) as s:
                return e2e.ncall(lambda: s.get(oid))
        finally:
            agent.stop = True

    async def main(port):
        from gufo.snmp.async_client import SnmpSession
        async with SnmpSession("127.0.0.1", port=port, timeout=2.0, **c18.session_kwargs(peer)) as s:
            return await s.get(oid)
    r, _ = e2e.run_async(main, plan)
    if r[0] == "exc" and r[1].startswith("PySnmp"):
        return ("exc", r[1][2:], r[2])
    return r


def replay(chk, path):
    with open(path) as f:
        rp = json.load(f)
    gsv, _ = common.build_gsv()
    out, _, _ = common.run_gsv(gsv, rp.get("lines", []))
    for o in out:
        print(o[:200])
    return 0
