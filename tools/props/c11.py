"""C11 — encrypted payloads are exactly the scoped PDU under RFC 3414 / RFC 3826."""
import json
import random
import sys

from props import c09
from vlib import common, e2e, gens, sessions, streams

sys.path.insert(0, "/verif/harness/py")
import ber  # noqa: E402
import ossl  # noqa: E402

PDU_OF = {"get": 0, "getmany": 0, "getnext": 1, "getbulk": 5, "refresh": 0}


def decrypt(priv_alg, kul, boots, time_, salt, ct):
    """RFC 3414 8.1.1.1 / RFC 3826 3.1.2.1 from the transmitted parameters (OpenSSL block ciphers)"""
    if priv_alg == 1:
        if len(ct) % 8:
            raise ValueError("DES ciphertext is not a multiple of 8 octets")
        key, pre = kul[:8], kul[8:16]
        iv = bytes(a ^ b for a, b in zip(pre, salt))
        return ossl.des_cbc_decrypt(key, iv, ct)
    iv = (boots & 0xFFFFFFFF).to_bytes(4, "big") + (time_ & 0xFFFFFFFF).to_bytes(4, "big") + salt
    return ossl.aes128_cfb_decrypt(kul[:16], iv, ct)


def encrypt(priv_alg, kul, boots, time_, salt, pt, pad=None):
    if priv_alg == 1:
        key, pre = kul[:8], kul[8:16]
        iv = bytes(a ^ b for a, b in zip(pre, salt))
        n = -len(pt) % 8
        return ossl.des_cbc_encrypt(key, iv, pt + (bytes(n) if pad is None else pad[:n]))
    iv = (boots & 0xFFFFFFFF).to_bytes(4, "big") + (time_ & 0xFFFFFFFF).to_bytes(4, "big") + salt
    return ossl.aes128_cfb_encrypt(kul[:16], iv, pt)


def check_payload(state, rec, dg, texts):
    """returns None or the reason the msgData of `dg` is not the encrypted scoped PDU of the call"""
    try:
        d = ber.decode_message(dg)
    except ber.BerError as ex:
        return f"datagram does not decode: {ex}"
    if not d.get("encrypted"):
        return "msgData is not an encrypted OCTET STRING although the session holds a privacy key"
    salt = d["priv_params"]
    if len(salt) != 8:
        return f"msgPrivacyParameters has {len(salt)} octets"
    kul = c09.user_key(state.auth_alg, state.priv_secret, state.priv_key_type, d["engine_id"])
    try:
        pt = decrypt(state.priv_alg, kul, d["boots"], d["time"], salt, d["msgdata"])
    except (ValueError, ossl.OsslError) as ex:
        return f"msgData cannot be decrypted: {ex}"
    try:
        tag, content, end, _ = ber.parse_tlv(pt, 0)
    except ber.BerError as ex:
        return f"decrypted msgData is not a scoped PDU ({ex}): {pt[:24].hex()}"
    block = 8 if state.priv_alg == 1 else 16
    pad = pt[end:]
    if len(pad) >= block:
        return f"{len(pad)} octets follow the scoped PDU inside the ciphertext (a block is {block}): stale data re-encrypted"
    try:
        sp = ber.decode_scoped(pt[:end], allow_padding=False)
    except ber.BerError as ex:
        return f"decrypted scoped PDU malformed: {ex}"
    if sp["ctx_engine_id"] != d["engine_id"]:
        return "contextEngineID differs from the engine id of the message"
    # the expected scoped PDU, rebuilt from the call with the ids seen inside
    if rec["op"] in ("getnext", "getbulk"):
        names = [tuple(v[0]) for v in sp["varbinds"]]
    else:
        names = [tuple(c03_arcs(t)) for t in texts]
    if rec["op"] == "getbulk":
        body = ber.tlv(0xA5, ber.INT(sp["request_id"]) + ber.INT(0) + ber.INT(sp["max_repetitions"])
                       + ber.SEQ(*[ber.varbind(n) for n in names]))
    else:
        body = ber.pdu(PDU_OF[rec["op"]], sp["request_id"], 0, 0, [ber.varbind(n) for n in names])
    want = ber.scoped_pdu(d["engine_id"], b"", body)
    if want != pt[:end]:
        return f"decrypted scoped PDU {pt[:end].hex()[:80]}.. is not the request's {want.hex()[:80]}.."
    return None


def c03_arcs(t):
    from vlib import values
    return values.arcs_norm(t)


def lines_privdec(rng, n):
    """agent-side encryption (OpenSSL) of random responses -> the library's decrypt"""
    out, want = [], []
    for _ in range(n):
        alg = rng.choice([1, 2])
        key = bytes(rng.getrandbits(8) for _ in range(16))
        boots, time_ = rng.getrandbits(31), rng.getrandbits(31)
        salt = bytes(rng.getrandbits(8) for _ in range(8))
        eng = bytes(rng.getrandbits(8) for _ in range(rng.choice([0, 5, 12, 32])))
        rid = rng.getrandbits(31)
        nv = rng.randrange(0, 5)
        names = [(1, 3, 6, 1) + tuple(rng.randrange(0, 300) for _ in range(rng.randrange(1, 8))) for _ in range(nv)]
        vals = [rng.randrange(-2 ** 31, 2 ** 31) for _ in range(nv)]
        pt = ber.scoped_pdu(eng, b"", ber.pdu(2, rid, 0, 0, [ber.varbind(a, ber.INT(v)) for a, v in zip(names, vals)]))
        mode = rng.random()
        if mode < 0.1:
            pt = pt[:rng.randrange(0, len(pt))]          # truncated plaintext: must be refused, not crash
        # (the padding octets are the sender's business: zeros, the pad count, 0xff, anything)
        ct = encrypt(alg, key, boots, time_, salt, pt, rng.choice([None, bytes([(-len(pt)) % 8]) * 8, b"\xff" * 8,
                                                                   bytes(rng.getrandbits(8) | 1 for _ in range(8))]))
        if mode > 0.9:
            ct = ct[:rng.randrange(0, len(ct) + 1)]
        out.append(f"privdec {alg} {key.hex()} {boots} {time_} {salt.hex()} {gens.hx(ct)}")
        vs = ",".join(f"{ber.oid_content(a).hex()}=int:{v}" for a, v in zip(names, vals)) or "-"
        want.append(None if mode < 0.1 or mode > 0.9 else f"ok {gens.hx(eng)} response {rid} 0 0 {vs}")
    return out, want


def run(chk, model_ok=True):
    from props.c17 import lines_privenc
    rng = random.Random(chk.seed)
    quick = chk.tier == "quick"
    env = e2e.env()
    bad = 0

    def fail(what, line):
        nonlocal bad
        bad += 1
        if bad <= 5:
            chk.violation("oracle", what, {"kind": "oracle", "lines": [line[:400000]], "expected": what})

    # 1. cipher objects alone
    st = streams.Streams(chk, model_ok)
    pe = lines_privenc(rng, 600 if quick else 12000)
    pd, want = lines_privdec(rng, 1200 if quick else 24000)
    st.add("privenc", pe)
    st.add("privdec", pd)
    st.run()
    for ln, out in zip(st.lines[:len(pe)], st.impl[:len(pe)]):
        if not out.startswith("ok "):
            continue
        p = ln.split(" ")
        alg, key, boots, time_ = int(p[1]), bytes.fromhex(p[2]), int(p[3]), int(p[4])
        eng = b"" if p[6] == "-" else bytes.fromhex(p[6])
        rid = int(p[8])
        oids = [] if p[9] == "-" else [bytes.fromhex(x) for x in p[9].split(",")]
        body = ber.tlv(0xA0, ber.INT(rid) + ber.INT(0) + ber.INT(0)
                       + ber.SEQ(*[ber.SEQ(ber.tlv(6, o), ber.NULL) for o in oids]))
        wantpt = ber.scoped_pdu(eng, b"", body)
        for pair in out[3:].split(";"):
            ct, salt = (bytes.fromhex(x) for x in pair.split("/"))
            try:
                pt = decrypt(alg, key, boots, time_, salt, ct)
            except (ValueError, ossl.OsslError) as ex:
                fail(f"ciphertext cannot be decrypted: {ex}", ln)
                break
            block = 8 if alg == 1 else 16
            if pt[:len(wantpt)] != wantpt or len(pt) - len(wantpt) >= block:
                fail(f"ciphertext decrypts to {pt.hex()[:80]}.. ({len(pt)} octets), expected the scoped PDU "
                     f"{wantpt.hex()[:80]}.. ({len(wantpt)} octets) and less than {block} octets of padding", ln)
                break
    for ln, out, w in zip(pd, st.impl[len(pe):], want):
        if out == "PANIC":
            fail("decrypt panicked", ln)
        elif w is not None and out != w:
            fail(f"agent-encrypted response decrypted to {out[:120]} instead of {w[:120]}", ln)
    st.diff("privenc/privdec")
    # 2. sessions: whatever was sent or received before, incl. long runs of unanswered requests
    n_hist = 96 if quick else 1200
    all_sess = []
    n_req = n_resp = 0
    hist = {}
    distinct = set()
    for h in range(n_hist):
        peer = sessions.rand_v3_peer(rng, auth=rng.choice([1, 2]), priv=1 + h % 2, discover=(h % 6 == 5))
        s = sessions.Sess(env, peer, rng)
        all_sess.append(s)
        if peer.discover:
            sessions.discovery_flow(s)
        its = []
        answer_p = rng.choice([0.0, 0.3, 0.9])
        for k in range(rng.choice([10, 30, 90]) if quick else rng.choice([20, 100, 300])):
            r = rng.random()
            it = None
            if r < 0.5:
                texts = [sessions.rand_oid_text(rng)]
                rec = s.send("get", texts[0])
            elif r < 0.7:
                texts = [sessions.rand_oid_text(rng) for _ in range(rng.choice([0, 1, 2, 5, 12]))]
                rec = s.send("getmany", texts)
            elif r < 0.75:
                texts = []
                rec = s.send("refresh")
            elif r < 0.8:
                texts = None
                rec = s.send("getmany", [sessions.rand_oid_text(rng, long=True) for _ in range(9)])
            else:
                texts = None
                if not its or rng.random() < 0.3:
                    i = s.new_iter(sessions.rand_oid_text(rng), rng.choice([1, 10, 200, 70000]))
                    if i is None:
                        continue
                    its.append(i)
                it = rng.choice(its)
                rec = s.send(rng.choice(["getnext", "getbulk"]), it=it)
            if rec["result"][0] != "ok":
                continue
            n_req += 1
            k_ = f"{s.label.split(':')[1]}:{s.label.split(':')[2]}:{s.peer.state.priv_key_type}"
            hist[k_] = hist.get(k_, 0) + 1
            distinct.add((k_, rec["op"], len(rec["datagrams"][-1])))
            why = check_payload(s.peer.state, rec, rec["datagrams"][-1], texts)
            if why:
                fail(f"{s.label} request {k} ({rec['op']}): {why}", s.line())
                continue
            if rng.random() < answer_p:
                d = rec["req"]
                st_ = s.peer.state
                if rng.random() < 0.3:
                    st_.boots, st_.time = rng.getrandbits(31), rng.getrandbits(31)
                st_.pad_style = rng.choice(["zero", "count", "ff", "random"])
                if rec["op"] in ("get", "getmany") and d["varbinds"]:
                    vals = [rng.randrange(-2 ** 40, 2 ** 40) for _ in d["varbinds"]]
                    vbs = [ber.varbind(v[0], ber.INT(x)) for v, x in zip(d["varbinds"], vals)]
                    rr = s.recv(rec["op"], [s.peer.response(d, vbs)])
                    n_resp += 1
                    if rec["op"] == "get":
                        exp = ("ok", vals[0]) if len(vals) == 1 else None
                    else:
                        exp = ("ok", {ber.dotted(v[0]): x for v, x in zip(d["varbinds"], vals)})
                    if exp is not None and rr["result"][:2] != exp:
                        fail(f"{s.label}: agent-encrypted response delivered as {str(rr['result'])[:100]} instead of {str(exp)[:100]}",
                             s.line())
                elif rec["op"] in ("getnext", "getbulk"):
                    name = tuple(d["varbinds"][0][0]) + (1,)
                    x = rng.randrange(100)
                    rr = s.recv(rec["op"], [s.peer.response(d, [ber.varbind(name, ber.INT(x))])], it=it)
                    n_resp += 1
                else:
                    s.recv(rec["op"], [s.peer.response(d, [])])
    # the real clients (engine id given / None / b"", lost discovery probes and retries): a user with a privacy key
    # never emits a request whose msgData is not the encrypted scoped PDU
    from props import c13
    n_cli = 0
    for key_, script_, r_, why_ in c13.client_cases(rng, 24 if quick else 480):
        n_cli += 1
        if why_ and any(w in why_ for w in ("not encrypted", "not readable", "carries user", "failed with")):
            fail(f"{key_}: {why_}", f"# client {key_}")
    nl, nd = sessions.model_compare(chk, all_sess, model_ok)
    chk.coverage.update({
        "evaluations": n_req + n_resp + len(st.lines),
        "distinct_nontrivial": len(distinct) + len(set(st.lines)),
        "rule": "every encrypted request of session histories of 10..300 calls (get, get_many with 0..12 OIDs, getnext, "
                "getbulk, refresh, oversized requests; answered with probability 0 / 0.3 / 0.9, boots/time changing) is decrypted "
                "with OpenSSL DES-CBC / AES-128-CFB under a key derived independently (RFC 3414 A.2 with the auth digest, "
                "localized to the engine id in the message; DES key/pre-IV split, IV from the transmitted salt and boots/time) "
                "and compared octet for octet with the scoped PDU of the call plus < 1 block of padding; agent-encrypted replies "
                "must be delivered with their exact values. Cipher objects alone: privenc sequences on one key object and "
                "privdec of OpenSSL-encrypted responses (also truncated ones). All of it replayed on the Lean model (Lean DES/AES). distinct = distinct (digest, cipher, key type, operation, datagram length) of the session requests + distinct cipher-level request lines.",
        "samples": [{"stream": "privdec", "request": pd[0][:200], "impl": st.impl[len(pe)][:160]}] if pd else [],
        "requests_decrypted": n_req, "client_runs": n_cli, "responses_delivered": n_resp, "per_configuration": dict(sorted(hist.items())),
        "session_lines": nl, "session_lines_disagreeing": nd, "cipher_level_requests": len(st.lines),
        "traces_validated_against_impl": nl + len(st.lines) if model_ok else 0,
    })
    chk.assumptions += ["OpenSSL's DES and AES (libcrypto via ctypes) are the reference block ciphers",
                        "hashlib digests are the reference for the key derivation"]


def replay(chk, path):
    with open(path) as f:
        rp = json.load(f)
    out, _, _ = common.run_model(rp.get("lines", []))
    for o in out:
        print(o[:400])
    return 0
