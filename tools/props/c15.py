"""C15 — everything the library encodes, it decodes back unchanged and minimally."""
import json
import random
import sys

from vlib import common, gens, streams

sys.path.insert(0, "/verif/harness/py")
import ber  # noqa: E402


def walk_minimal(buf):
    """every TLV (recursively through constructed ones) uses the minimal definite length; INTEGER contents
    are minimal two's complement. Returns None or a reason."""
    off = 0
    while off < len(buf):
        try:
            tag, content, end, minimal = ber.parse_tlv(buf, off)
        except ber.BerError as e:
            return f"not a TLV sequence: {e}"
        if not minimal:
            return f"non-minimal length at offset {off}"
        if tag == 0x02:
            if len(content) == 0:
                return "empty INTEGER"
            if len(content) > 1 and ((content[0] == 0 and content[1] < 128) or (content[0] == 0xff and content[1] >= 128)):
                return "INTEGER with a redundant leading octet"
        if tag & 0x20:
            r = walk_minimal(content)
            if r:
                return r
        off = end
    return None


def oid_text_lines(rng, n):
    """valid dotted OIDs whose arcs sit on and around every base-128 length boundary"""
    bounds = []
    for k in (7, 14, 21, 28):
        bounds += [2 ** k - 2, 2 ** k - 1, 2 ** k, 2 ** k + 1]
    bounds += [0, 1, 2 ** 32 - 2, 2 ** 32 - 1]
    out = []
    for b in bounds:
        out.append("oidstr " + f"1.3.{b}".encode().hex())
        out.append("oidstr " + f"2.39.{b}.{b}".encode().hex())
    for _ in range(n):
        arcs = [rng.choice([0, 1, 2]), rng.randrange(40)]
        arcs += [rng.choice(bounds) if rng.random() < 0.5 else rng.getrandbits(rng.randrange(1, 33))
                 for _ in range(rng.randrange(0, 12))]
        out.append("oidstr " + ".".join(str(a) for a in arcs).encode().hex())
    return out


def int_lines(rng, quick):
    vals = set()
    # exhaustive: every value of 1..2 content octets (quick) / 1..3 (thorough)
    lim = 2 ** 15 if quick else 2 ** 23
    step = 1 if quick else 1
    vals.update(range(-2 ** 15, 2 ** 15))
    if not quick:
        vals.update(range(-2 ** 23, 2 ** 23, 1))
    width = 2 ** 8 if quick else 2 ** 16
    for k in range(1, 9):
        for b in (2 ** (8 * k - 1), 2 ** (8 * k)):
            for sgn in (1, -1):
                c = sgn * b
                for d in range(-width, width + 1):
                    v = c + d
                    if -2 ** 63 <= v < 2 ** 63:
                        vals.add(v)
    for _ in range(4000 if quick else 200000):
        nb = rng.randrange(1, 9)
        vals.add(rng.randrange(-2 ** (8 * nb - 1), 2 ** (8 * nb - 1)))
    return sorted(vals)


def req_pdu(parts):
    """independent encoding of REQ = get INT OIDS | getnext INT OIDS | getbulk INT INT INT OIDS (OIDS: `-` or HEX,HEX..)"""
    kind = parts[0]
    if kind == "getbulk":
        rid, a, b, oids = int(parts[1]), int(parts[2]), int(parts[3]), parts[4]
        tag = 0xA5
    else:
        rid, a, b, oids = int(parts[1]), 0, 0, parts[2]
        tag = 0xA0 if kind == "get" else 0xA1
    names = [] if oids == "-" else [bytes.fromhex(x) for x in oids.split(",")]
    return ber.tlv(tag, ber.INT(rid) + ber.INT(a) + ber.INT(b) + ber.SEQ(*[ber.SEQ(ber.tlv(6, o), ber.NULL) for o in names]))


def fits(ln):
    """size of the minimal encoding of what the line asks for, or None when this oracle does not model the line"""
    p = ln.split(" ")
    try:
        if p[0] == "encoid":
            return len(ber.tlv(6, b"" if p[1] == "-" else bytes.fromhex(p[1])))
        if p[0] == "encpdu":
            return len(req_pdu(p[1:]))
        if p[0] == "encscoped":
            return len(ber.scoped_pdu(b"" if p[1] == "-" else bytes.fromhex(p[1]), b"", req_pdu(p[2:])))
        if p[0] == "encmsg" and p[1] in ("v1", "v2c"):
            comm = b"" if p[2] == "-" else bytes.fromhex(p[2])
            return len(ber.SEQ(ber.INT(0 if p[1] == "v1" else 1), ber.tlv(4, comm), req_pdu(p[3:])))
    except (ValueError, IndexError):
        return None
    return None


def run(chk, model_ok=True):
    rng = random.Random(chk.seed)
    quick = chk.tier == "quick"
    ints = int_lines(rng, quick)
    st = streams.Streams(chk, model_ok)
    st.add("corpus", streams.corpus_lines("C15") + ["encint -32767", "encint -8388607", "encint -9223372036854775808",
                                                   "encint -127", "encint 255", "encint -129"])
    st.add("encint", [f"encint {v}" for v in ints])
    n = 6000 if quick else 60000
    st.add("encoid", gens.lines_encoid(rng, n))
    st.add("oidstr", oid_text_lines(rng, n))
    st.add("encpdu", gens.lines_encpdu(rng, n))
    st.add("encmsg", gens.lines_encmsg(rng, n))
    st.run()
    # oracle 1: independent minimal encoder agrees; oracle 2: the library's own decoder inverts
    back, back_expect = [], []
    bad = 0

    def fail(ln, out, why):
        nonlocal bad
        bad += 1
        if bad <= 5:
            chk.violation("oracle", f"{why}: {ln[:160]} -> {out[:120]}",
                          {"kind": "oracle", "lines": [ln], "impl": [out], "expected": why})

    CAP = 4080
    for ln, out in zip(st.lines, st.impl):
        parts = ln.split(" ")
        if out == "err OutOfBuffer" or out.startswith("ok "):
            need = fits(ln)
            if need is not None and (need <= CAP) != out.startswith("ok "):
                fail(ln, out, f"the minimal encoding takes {need} octets, the buffer holds {CAP}: the request must "
                              f"{'be encoded' if need <= CAP else 'be refused with OutOfBuffer'}")
                continue
        if parts[0] == "encint":
            v = int(parts[1])
            want = ber.INT(v).hex()
            if out != f"ok {want}":
                fail(ln, out, f"INTEGER {v} is not encoded in minimal two's complement form ({want})")
            elif out.startswith("ok "):
                back.append(f"ber int {out[3:]}")
                back_expect.append(f"ok {v} -")
        elif parts[0] == "encoid" and out.startswith("ok "):
            c = b"" if parts[1] == "-" else bytes.fromhex(parts[1])
            want = ber.tlv(0x06, c).hex()
            if out != f"ok {want}":
                fail(ln, out, "OID element is not tag + minimal length + content")
            back.append(f"ber oid {out[3:]}")
            back_expect.append(f"ok {parts[1]} -")
        elif parts[0] == "oidstr":
            text = bytes.fromhex(parts[1]).decode()
            arcs = [int(x) for x in text.split(".")]
            want = ber.oid_content(arcs).hex()
            if out != f"ok {want}":
                fail(ln, out, f"OID {text} is not encoded in the minimal X.690 form ({want})")
            else:
                back.append(f"oidtxt {want}")
                back_expect.append(f"ok {text}")
        elif parts[0] == "encpdu" and out.startswith("ok "):
            back.append(f"pdu {out[3:]}")
            back_expect.append("ok " + " ".join(parts[1:]))
        elif parts[0] == "encmsg" and out.startswith("ok ") and parts[1] in ("v1", "v2c"):
            dg = bytes.fromhex(out[3:])
            r = walk_minimal(dg)
            if r:
                fail(ln, out, "message is not a minimally encoded TLV tree: " + r)
            try:
                tag, content, end, _ = ber.parse_tlv(dg, 0)
                items = ber.parse_all(content)
                want_ver = 0 if parts[1] == "v1" else 1
                comm = b"" if parts[2] == "-" else bytes.fromhex(parts[2])
                if tag != 0x30 or end != len(dg) or items[0][1] != bytes([want_ver]) or items[1][1] != comm:
                    fail(ln, out, "version / community differ from what was asked")
            except (ber.BerError, IndexError) as e:
                fail(ln, out, f"independent decoder rejects the message: {e}")
            back.append(f"msg {parts[1]} {out[3:]}")
            back_expect.append("ok " + " ".join(parts[2:]))
        elif parts[0] == "encmsg" and out.startswith("ok ") and parts[1] == "v3":
            f = out.split(" ")
            dg = bytes.fromhex(f[2])
            r = walk_minimal(dg)
            if r:
                fail(ln, out, "v3 message is not a minimally encoded TLV tree: " + r)
            # independent reading of the header fields (TLV walk only: the PDU may hold arbitrary name octets)
            try:
                tag, content, end, _ = ber.parse_tlv(dg, 0)
                top = ber.parse_all(content)
                hdr = ber.parse_all(top[1][1])
                usm = ber.parse_all(ber.parse_all(top[2][1])[0][1])
                got_f = (ber.int_value(hdr[0][1])[0], ber.int_value(usm[1][1])[0], ber.int_value(usm[2][1])[0])
                want_f = (int(parts[2]), int(parts[7]), int(parts[8]))
                if got_f != want_f:
                    fail(ln, out, f"msgID / engine boots / engine time read back as {got_f}, asked for {want_f}")
                elif (usm[0][1], usm[3][1]) != tuple(b"" if x == "-" else bytes.fromhex(x) for x in (parts[6], parts[9])):
                    fail(ln, out, "engine id / user name differ from what was asked")
            except (ber.BerError, IndexError) as e:
                fail(ln, out, f"independent TLV walk rejects the v3 message: {e}")
            back.append(f"msg v3 {f[2]}")
            back_expect.append("ok " + " ".join(parts[2:]))
    st2 = streams.Streams(chk, model_ok)
    st2.add("decode-back", back)
    st2.run()
    for ln, out, want in zip(st2.lines, st2.impl, back_expect):
        if want is None:
            if not out.startswith("ok "):
                fail(ln, out, "library cannot decode the v3 message it encoded")
            continue
        if out != want:
            fail(ln, out, f"decode(encode(x)) != x (expected {want[:80]})")
    # what the library encrypts it must be able to decrypt and decode back: encrypt requests (the scoped PDU is serialised
    # behind pre-pushed padding in a private buffer), decrypt every ciphertext with the same key, compare with the decoding
    # of an independently encoded scoped PDU
    from props.c17 import lines_privenc
    st3 = streams.Streams(chk, model_ok)
    st3.add("privenc", lines_privenc(rng, 400 if quick else 8000))
    st3.run()
    dec, ref = [], []
    for ln, out in zip(st3.lines, st3.impl):
        if not out.startswith("ok "):
            continue
        p = ln.split(" ")
        eng = b"" if p[6] == "-" else bytes.fromhex(p[6])
        q = [x for x in p[7:] if not x.startswith("seed=")]
        rid = int(q[1])
        oids = [] if q[2] == "-" else [bytes.fromhex(x) for x in q[2].split(",")]
        body = ber.tlv(0xA0, ber.INT(rid) + ber.INT(0) + ber.INT(0) + ber.SEQ(*[ber.SEQ(ber.tlv(6, o), ber.NULL) for o in oids]))
        wantpt = ber.scoped_pdu(eng, b"", body)
        for pair in out[3:].split(";")[:3]:
            ct, salt = pair.split("/")
            dec.append(f"privdec {p[1]} {p[2]} {p[3]} {p[4]} {salt} {ct}")
            ref.append("scoped " + wantpt.hex())
    st4 = streams.Streams(chk, model_ok)
    st4.add("privdec-of-own-ciphertext", dec)
    st4.add("scoped-reference", ref)
    st4.run()
    nd = len(dec)
    for ln, out, refout in zip(dec, st4.impl[:nd], st4.impl[nd:]):
        if out != refout:
            fail(ln, out, f"the library cannot read back what it encrypted: decrypt gives {out[:100]}, the request was {refout[:100]}")
    # end to end: what the Python clients encode for a call decodes back (independent decoder) to that call's arguments,
    # call after call on one session (per-call overrides must not leak into later calls)
    from props import c03
    from vlib import e2e
    for desc, why in c03.maxrep_histories(rng, e2e.env(), 6 if quick else 200):
        if why:
            fail(f"# {desc}", "-", f"{desc}: {why}")
    # a request that could not be encoded (too large for the buffer) must leave nothing behind: the next message of the
    # process — same or another session, the buffers are pooled — is encoded as if it were the first
    from vlib import sessions
    for _ in range(6 if quick else 100):
        pa, pb = rng.choice([e2e.Peer("v2c"), e2e.Peer("v3", auth=1, priv=2, auth_kt="localized", priv_kt="localized")]), e2e.Peer("v2c", community="other")
        sa, sb = sessions.Sess(e2e.env(), pa, rng), sessions.Sess(e2e.env(), pb, rng)
        big = sa.send("getmany", [sessions.rand_oid_text(rng, long=True) for _ in range(rng.choice([9, 16, 40]))])
        for sx in (sb, sa):
            rec = sx.send("get", "1.3.6.1.2.1.1.1.0")
            why = None
            if rec["result"][0] != "ok":
                why = f"after an oversized request ({big['result'][1] if big['result'][0] != 'ok' else 'sent'}) a plain get() failed with {rec['result'][1]}"
            else:
                why = c03.check_request(sx, rec, {(0, 0)})
                if not why and len(rec["datagrams"][-1]) > 200:
                    why = f"a plain get() produced a datagram of {len(rec['datagrams'][-1])} octets"
            if why:
                fail(sx.line()[:3000], str(rec["result"])[:80], f"{sx.label}: {why}")
                break
    # engine boots / time are INTEGERs: an agent may announce values outside 0..2^31-1 (negative, 2^32 and more); the
    # cipher IV uses their low 32 bits on both sides, so what the session encrypts next still decrypts and decodes back
    from props import c11
    for bt in ((2 ** 32 + 5, 77), (3, 2 ** 32 + 9), (-1, -2), (2 ** 31, 2 ** 33 - 1), (0, 0)):
        for priv in (1, 2):
            pv = e2e.Peer("v3", auth=2, priv=priv, auth_kt="localized", priv_kt="localized")
            sv = sessions.Sess(e2e.env(), pv, rng)
            r0 = sv.send("get", "1.3.6.1.2.1.1.1.0")
            if r0["result"][0] != "ok" or not sv.conv.req or "request_id" not in sv.conv.req:
                continue
            pv.state.boots, pv.state.time = bt
            sv.recv("get", [pv.response(sv.conv.req, [ber.varbind((1, 3, 6, 1, 2, 1, 1, 1, 0), ber.INT(1))])])
            rec = sv.send("get", "1.3.6.1.2.1.1.3.0")
            if rec["result"][0] != "ok":
                fail(sv.line()[:3000], str(rec["result"])[:80], f"{sv.label}: after the agent announced boots/time {bt} the next request failed: {rec['result'][1]}")
                continue
            why = c11.check_payload(pv.state, rec, rec["datagrams"][-1], [rec["arg"]])
            if why:
                fail(sv.line()[:3000], "-", f"{sv.label}: after the agent announced boots/time {bt}: {why}")
    # walks: the name each follow-up request encodes decodes back to the name the walk is at (the last row received),
    # whether the names get longer or shorter from row to row
    import bisect
    from props import c05
    from vlib import values
    for _ in range(40 if quick else 1500):
        peer = rng.choice([e2e.Peer("v2c"), e2e.Peer("v1"), e2e.Peer("v3", auth=1, priv=2, auth_kt="localized", priv_kt="localized")])
        v1 = peer.kind == "v1"
        mib, base = c05.gen_mib(rng)
        kind = "next" if v1 else rng.choice(["next", "bulk"])
        maxrep, cap_ = rng.choice([1, 2, 3, 7, 20]), rng.choice([1, 2, 5, 50])
        inner = c05.agent_replies(mib, base, kind, maxrep, cap_, v1)
        log = []

        def reply_fn(req, inner=inner, log=log):
            rep = inner(req)
            log.append((tuple(req["varbinds"][0][0]) if req.get("varbinds") else None, rep[1] if isinstance(rep, tuple) else rep))
            return rep
        c05.run_mode("raw", peer, kind, values.dotted(base), maxrep, reply_fn, e2e.env())
        keys = [m[0] for m in mib]
        for i in range(1, len(log)):
            cur, last = log[i - 1][0], None
            for _row in log[i - 1][1]:
                j = bisect.bisect_right(keys, tuple(cur))
                if j >= len(keys):
                    break
                cur = last = keys[j]
            if last is not None and log[i][0] != tuple(last):
                fail(f"# walk {peer.label} {kind} base={values.dotted(base)}", str(log[i][0])[:100],
                     f"{peer.label}/{kind} walk of {values.dotted(base)}: the request after row {values.dotted(last)} decodes back as "
                     f"{values.dotted(log[i][0]) if log[i][0] else log[i][0]}")
                break
    st.diff("C15 encoders")
    st2.diff("C15 decode-back")
    st3.diff("C15 privenc")
    st4.diff("C15 decrypt-back")
    st.coverage(
        "encint: every i64 with 1..2 content octets (thorough: 1..3), +-2^8 (thorough +-2^16) neighbourhoods of every "
        "+-2^(8k-1), +-2^(8k) boundary, random values of every byte length; encoid / encpdu / encmsg: generated "
        "requests incl. sizes around 127/128, 255/256 and the 4080-octet capacity. Each encoding is compared with an "
        "independent minimal encoder, checked by an independent strict decoder, and decoded back with the library's "
        "own decoder. non-trivial = the encoder returned bytes (not OutOfBuffer); distinct request lines.",
        lambda ln, out: out.startswith("ok"))
    chk.coverage["evaluations"] = len(st.lines) + len(st2.lines) + len(st3.lines) + len(st4.lines)
    chk.coverage["integers"] = len(ints)
    chk.coverage["exhaustive"] = False


def replay(chk, path):
    with open(path) as f:
        rp = json.load(f)
    gsv, _ = common.build_gsv()
    out, _, _ = common.run_gsv(gsv, rp.get("lines", []))
    for ln, o in zip(rp.get("lines", []), out):
        print(ln[:120], "->", o[:120], "| expected:", rp.get("expected"))
    return 0
