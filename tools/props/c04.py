"""C04 — only the reply to the outstanding request is ever delivered."""
import json
import random
import sys

from vlib import common, e2e, sessions

sys.path.insert(0, "/verif/harness/py")
import ber  # noqa: E402

FAULTS = ["deliver", "drop", "duplicate", "delay", "reorder", "reqid", "cred", "version", "msgid", "user", "engine",
          "truncate", "foreign"]


class Dg:
    """a datagram the agent sends + what an observer knows about it"""

    def __init__(self, data, kind, fields=None, result=None, tag=""):
        self.data, self.kind, self.fields, self.result, self.tag = data, kind, fields or {}, result, tag


def build_reply(peer, req, op, value, **over):
    """the genuine reply to `req` (or one with rewritten fields): returns Dg"""
    rid = over.get("request_id", req["request_id"])
    names = [tuple(v[0]) for v in req["varbinds"]]
    if op in ("getnext", "getbulk"):
        names = [names[0] + (1,)]
    vbs = [ber.varbind(n, ber.INT(value + k)) for k, n in enumerate(names)]
    if op == "get":
        result = value if len(names) == 1 else None
    elif op == "getmany":
        result = {ber.dotted(n): value + k for k, n in enumerate(names)}
    elif op == "getnext":
        result = (ber.dotted(names[0]), value)
    else:
        result = [(ber.dotted(names[0]), value)]
    fields = {"request_id": rid}
    if peer.kind == "v3":
        st = peer.state
        kw = {}
        fields.update(user=over.get("user", st.user), engine_id=over.get("engine_id", st.engine_id),
                      msg_id=over.get("msg_id", req["msg_id"]))
        data = st.build(2, rid, fields["msg_id"], vbs, user=fields["user"], engine_id=fields["engine_id"])
        ver = 3
    else:
        comm = over.get("community", peer.community)
        fields["community"] = comm.encode() if isinstance(comm, str) else comm
        ver = over.get("version", 0 if peer.kind == "v1" else 1)
        data = ber.SEQ(ber.INT(ver), ber.OCT(fields["community"]), ber.pdu(2, rid, 0, 0, vbs))
    fields["version"] = ver
    return Dg(data, "message", fields, result)


def matches(peer, cur, dg):
    """the property's acceptance test, on the fields actually put on the wire"""
    f = dg.fields
    if f["request_id"] != cur["request_id"]:
        return False
    if peer.kind == "v3":
        return f["user"] == peer.state.user and f["engine_id"] == peer.state.engine_id and f["msg_id"] == cur["msg_id"]
    return f["community"] == peer.community.encode()


def expected(peer, cur, queue):
    """(outcome, consumed): first datagram that ends the wait"""
    want_ver = {"v1": 0, "v2c": 1, "v3": 3}[peer.kind]
    for k, dg in enumerate(queue):
        if dg.kind == "garbage" or dg.fields.get("version") != want_ver:
            return ("exc", "SnmpDecodeError"), k + 1
        if matches(peer, cur, dg):
            return ("ok", dg.result), k + 1
    return ("exc", "BlockingIOError"), len(queue)


def other_version(rng, peer, req, value):
    """a well-formed message of another SNMP version"""
    vbs = [ber.varbind((1, 3, 6, 1), ber.INT(value))]
    if peer.kind == "v3":
        data = ber.SEQ(ber.INT(rng.choice([0, 1])), ber.OCT(b"public"), ber.pdu(2, req["request_id"], 0, 0, vbs))
    elif rng.random() < 0.5:
        data = ber.SEQ(ber.INT(1 if peer.kind == "v1" else 0), ber.OCT(peer.community.encode()),
                       ber.pdu(2, req["request_id"], 0, 0, vbs))
    else:
        st = e2e.Peer("v3").state
        data = st.build(2, req["request_id"], 1, vbs)
    return Dg(data, "garbage", tag="version")


def run(chk, model_ok=True):
    rng = random.Random(chk.seed)
    quick = chk.tier == "quick"
    env = e2e.env()
    bad = 0

    def fail(what, line):
        nonlocal bad
        bad += 1
        if bad <= 5:
            chk.violation("oracle", what, {"kind": "oracle", "lines": [line[:400000]], "expected": what})

    peers = sessions.default_peers()
    n_scripts = 150 if quick else 5000
    all_sess = []
    fault_hist = {}
    outcome_hist = {}
    n_recv = 0
    distinct = set()
    for h in range(n_scripts):
        peer = rng.choice(peers)
        s = sessions.Sess(env, peer, rng)
        all_sess.append(s)
        carry = []          # datagrams still queued at the client
        late = []           # replies the network still holds
        prev = []           # earlier requests of this script (decoded)
        n_req = rng.randrange(1, 5)
        for i in range(n_req):
            op = rng.choice(["get", "get", "getmany", "getnext", "getbulk"])
            if peer.kind == "v1" and op == "getbulk":
                op = "getnext"
            it = None
            if op == "get":
                rec = s.send("get", sessions.rand_oid_text(rng))
            elif op == "getmany":
                rec = s.send("getmany", list({sessions.rand_oid_text(rng) for _ in range(rng.randrange(1, 4))}))
            else:
                it = s.new_iter(sessions.rand_oid_text(rng), 10)
                if it is None:
                    continue
                rec = s.send(op, it=it)
            req = s.conv.req
            if rec["result"][0] != "ok" or not req or "request_id" not in req:
                continue
            value = (h * 10 + i) * 1000 + 7
            genuine = build_reply(peer, req, op, value)
            new = []
            faults = [rng.choice(FAULTS) for _ in range(rng.choice([1, 1, 2, 3]))]
            for f in faults:
                fault_hist[f] = fault_hist.get(f, 0) + 1
                if f == "deliver":
                    new.append(genuine)
                elif f == "duplicate":
                    new += [genuine, genuine]
                elif f == "delay":
                    late.append(genuine)
                elif f == "reorder":
                    new = late + new if rng.random() < 0.5 else new + late
                    late = []
                    new.append(genuine) if rng.random() < 0.5 else new.insert(0, genuine)
                elif f == "reqid":
                    rid = prev[-1]["request_id"] if prev and rng.random() < 0.5 else (req["request_id"] + rng.choice([1, -1, 256, 2 ** 30])) % 2 ** 31
                    new.append(build_reply(peer, req, op, value + 100, request_id=rid))
                elif f == "cred" and peer.kind != "v3":
                    new.append(build_reply(peer, req, op, value + 200, community=rng.choice(["", "Public", peer.community + "x", "private"])))
                elif f == "version":
                    new.append(other_version(rng, peer, req, value + 300))
                elif f == "msgid" and peer.kind == "v3":
                    mid = prev[-1]["msg_id"] if prev and rng.random() < 0.5 else (req["msg_id"] + 1) % 2 ** 31
                    new.append(build_reply(peer, req, op, value + 400, msg_id=mid))
                elif f == "user" and peer.kind == "v3":
                    new.append(build_reply(peer, req, op, value + 500, user=rng.choice([b"", b"other", peer.state.user + b"x"])))
                elif f == "engine" and peer.kind == "v3":
                    new.append(build_reply(peer, req, op, value + 600, engine_id=rng.choice([b"\x80\x00\x00\x00\x09", peer.state.engine_id[:-1]])))
                elif f == "truncate":
                    cut = rng.randrange(0, len(genuine.data))
                    new.append(Dg(genuine.data[:cut], "garbage", tag="truncate"))
                elif f == "foreign":
                    # a well-formed reply to somebody else's request
                    new.append(build_reply(peer, dict(req, request_id=rng.getrandbits(31), msg_id=rng.getrandbits(31)), op, value + 700))
            if rng.random() < 0.3 and late and "delay" not in faults:
                new = late + new
                late = []
            queue = carry + new
            want, used = expected(peer, req, queue)
            r = s.recv(op, [d.data for d in queue], it=it)
            n_recv += 1
            got = r["result"]
            key = want[1] if want[0] == "exc" else "delivered"
            outcome_hist[key] = outcome_hist.get(key, 0) + 1
            distinct.add((peer.label, op, tuple(faults), key))
            gotn = (got[0], got[1])
            ok = gotn == (want[0], want[1]) if not (want[0] == "ok" and want[1] is None) else True
            if not ok:
                fail(f"{s.label} request {i} ({op}) faults {faults}: the call returned {str(gotn)[:120]}, the datagram "
                     f"sequence [{', '.join((d.tag or d.kind) + ('*' if d.kind == 'message' and matches(peer, req, d) else '') for d in queue)}] "
                     f"determines {str(want)[:120]}", s.line())
                break
            if r["consumed"] != used:
                fail(f"{s.label} request {i} ({op}) faults {faults}: {r['consumed']} datagrams were consumed, expected {used}", s.line())
                break
            carry = queue[used:]
            prev.append(req)
    nl, nd = sessions.model_compare(chk, all_sess, model_ok)
    chk.coverage.update({
        "evaluations": n_recv,
        "distinct_nontrivial": len(distinct),
        "rule": "scripts of 1..4 consecutive requests (get, get_many, getnext, getbulk) per session (v1, v2c, v3 with every "
                "digest x cipher), each reply subjected to 1..3 faults from {deliver, drop, duplicate, delay past the next request, "
                "reorder, rewritten request-id (incl. the previous request's), community, version, msgID (incl. the previous), "
                "user, engine id, truncation at a random octet, reply to a foreign request}; every reply carries a value unique "
                "to its request. Expected outcome = first datagram of the queue that ends the wait under the property's rule, "
                "computed from the ids seen on the wire; also the number of datagrams consumed. Every script is replayed on the "
                "Lean model (Session.recvLoop). distinct = distinct (session kind, op, fault tuple, outcome).",
        "samples": [{"session": s.label, "request": s.line()[:300]} for s in all_sess[:3]],
        "fault_histogram": dict(sorted(fault_hist.items())), "outcome_histogram": dict(sorted(outcome_hist.items())),
        "scripts": n_scripts, "session_lines": nl, "session_lines_disagreeing": nd,
        "traces_validated_against_impl": nl if model_ok else 0,
    })
    chk.assumptions += ["loopback UDP preserves the order in which the scripted agent sends",
                        "wall-clock timeouts are C18's subject: the socket is non-blocking, 'nothing matching arrived' = BlockingIOError"]


def replay(chk, path):
    with open(path) as f:
        rp = json.load(f)
    out, _, _ = common.run_model(rp.get("lines", []))
    for o in out:
        print(o[:400])
    return 0
