"""C04 — only the reply to the outstanding request is ever delivered."""
import json
import random
import sys

from vlib import common, e2e, sessions

sys.path.insert(0, "/verif/harness/py")
import ber  # noqa: E402

FAULTS = ["deliver", "drop", "duplicate", "delay", "reorder", "reqid", "cred", "version", "msgid", "user", "engine",
          "truncate", "foreign", "report", "echo", "empty"]


class Dg:
    """a datagram the agent sends + what an observer knows about it"""

    def __init__(self, data, kind, fields=None, result=None, tag=""):
        self.data, self.kind, self.fields, self.result, self.tag = data, kind, fields or {}, result, tag


def near_ints(rng, v, prev=None):
    """values an id check must tell apart from v: neighbours, the previous id, the same low 31 / 32 bits"""
    c = [v + 1, v - 1, v ^ 1, v - 2 ** 31, v + 2 ** 31, v + 2 ** 32, v - 2 ** 32, -v, 0, v ^ (1 << 30), (v + 256) % 2 ** 31,
         rng.getrandbits(31)]
    if prev is not None:
        c += [prev, prev]
    c = [x for x in c if x != v and -2 ** 63 <= x < 2 ** 63]
    return rng.choice(c)


def near_bytes(rng, b):
    """byte strings a comparison must tell apart from b: extensions, truncations, prefixes, one bit off, empty"""
    b = bytes(b)
    c = [b + b"\x00", b + b"x", b[:-1], b[1:], b"", b.swapcase(), b + b, b"\x00" + b]
    if b:
        c.append(b[:-1] + bytes([b[-1] ^ 1]))
        c.append(bytes([b[0] ^ 0x80]) + b[1:])
    c = [x for x in c if x != b]
    return rng.choice(c)


class View:
    """what an observer knows about the session: its credentials and (v3) the engine id it has learned"""

    def __init__(self, s):
        p = s.peer
        self.kind = p.kind
        self.community = p.community.encode() if p.kind != "v3" else None
        self.user = p.state.user if p.kind == "v3" else None
        self.engine = (b"" if s.deferred else p.state.engine_id) if p.kind == "v3" else None
        self.agent_engine = (s.final_state.engine_id if s.deferred else p.state.engine_id) if p.kind == "v3" else None


def build_reply(peer, req, op, value, view=None, **over):
    """the genuine reply to `req` (or one with rewritten fields): returns Dg"""
    rid = over.get("request_id", req["request_id"])
    names = [tuple(v[0]) for v in req["varbinds"]]
    if op in ("getnext", "getbulk"):
        names = [names[0] + (1,)]
    vbs = [ber.varbind(n, ber.INT(value + k)) for k, n in enumerate(names)]
    report = op == "refresh" or over.get("report", False)
    if report:
        result = ("ok", None) if op == "refresh" else ("exc", "SnmpAuthError")
    elif op == "get":
        result = ("ok", value) if len(names) == 1 else None
    elif op == "getmany":
        result = ("ok", {ber.dotted(n): value + k for k, n in enumerate(names)})
    elif op == "getnext":
        result = ("ok", (ber.dotted(names[0]), value))
    else:
        result = ("ok", [(ber.dotted(names[0]), value)])
    fields = {"request_id": rid, "report": report}
    if peer.kind == "v3":
        st = peer.state
        kw = {}
        fields.update(user=over.get("user", st.user),
                      engine_id=over.get("engine_id", view.agent_engine if view else st.engine_id),
                      msg_id=over.get("msg_id", req["msg_id"]))
        data = st.build(8 if report else 2, rid, fields["msg_id"], vbs, user=fields["user"], engine_id=fields["engine_id"],
                        reportable=over.get("reportable", False))
        ver = 3
    else:
        comm = over.get("community", peer.community)
        fields["community"] = comm.encode() if isinstance(comm, str) else comm
        ver = over.get("version", 0 if peer.kind == "v1" else 1)
        data = ber.SEQ(ber.INT(ver), ber.OCT(fields["community"]), ber.pdu(2, rid, 0, 0, vbs))
    fields["version"] = ver
    return Dg(data, "message", fields, result)


def matches(view, cur, dg):
    """the property's acceptance test, on the fields actually put on the wire (a Report is exempt from the
    request-id comparison: src/snmp/pdu.rs:68-76)"""
    f = dg.fields
    if f["request_id"] != cur["request_id"] and not f["report"]:
        return False
    if view.kind == "v3":
        return (f["user"] == view.user and (view.engine == b"" or f["engine_id"] == view.engine)
                and f["msg_id"] == cur["msg_id"])
    return f["community"] == view.community


def expected(view, cur, queue):
    """(outcome, consumed, matching datagram): first datagram that ends the wait"""
    want_ver = {"v1": 0, "v2c": 1, "v3": 3}[view.kind]
    for k, dg in enumerate(queue):
        if dg.kind == "garbage" or dg.fields.get("version") != want_ver:
            return ("exc", "SnmpDecodeError"), k + 1, None
        if matches(view, cur, dg):
            return dg.result, k + 1, dg
    return ("exc", "BlockingIOError"), len(queue), None


def other_version(rng, peer, req, value):
    """a well-formed message of another SNMP version"""
    vbs = [ber.varbind((1, 3, 6, 1), ber.INT(value))]
    if peer.kind != "v3" and rng.random() < 0.4:
        # version numbers that agree with the session's only in their low octet(s)
        mine = 0 if peer.kind == "v1" else 1
        ver = mine + rng.choice([256, 65536, 2 ** 24, -256, 2 ** 31 - 256 + 0 * mine])
        names = [tuple(v[0]) for v in req["varbinds"]] or [(1, 3, 6, 1)]
        data = ber.SEQ(ber.INT(ver), ber.OCT(peer.community.encode()),
                       ber.pdu(2, req["request_id"], 0, 0, [ber.varbind(n, ber.INT(value)) for n in names]))
        return Dg(data, "garbage", tag=f"version{ver}")
    if peer.kind == "v3":
        data = ber.SEQ(ber.INT(rng.choice([0, 1])), ber.OCT(b"public"), ber.pdu(2, req["request_id"], 0, 0, vbs))
    elif rng.random() < 0.5:
        data = ber.SEQ(ber.INT(1 if peer.kind == "v1" else 0), ber.OCT(peer.community.encode()),
                       ber.pdu(2, req["request_id"], 0, 0, vbs))
    else:
        st = e2e.Peer("v3").state
        data = st.build(2, req["request_id"], 1, vbs)
    return Dg(data, "garbage", tag="version")


def successive_async_sessions():
    """one event loop: a call on session A times out (its reply is lost), A is released, session B is opened (the OS hands
    out the lowest free descriptor: B's socket reuses A's) and its request is answered at once. Returns B's outcome."""
    import asyncio
    from gufo.snmp import SnmpVersion
    peer = e2e.Peer("v2c")

    async def main():
        from gufo.snmp.async_client import SnmpSession
        loop = asyncio.get_running_loop()
        loop.set_exception_handler(lambda lp, ctx: None)

        class Silent(asyncio.DatagramProtocol):
            pass

        class Answering(asyncio.DatagramProtocol):
            def connection_made(self, transport):
                self.t = transport

            def datagram_received(self, data, addr):
                req = peer.decode(data)
                self.t.sendto(peer.response(req, [ber.varbind(tuple(req["varbinds"][0][0]), ber.INT(4711))]), addr)
        t1, _ = await loop.create_datagram_endpoint(Silent, local_addr=("127.0.0.1", 0))
        t2, _ = await loop.create_datagram_endpoint(Answering, local_addr=("127.0.0.1", 0))
        try:
            a = SnmpSession("127.0.0.1", port=t1.get_extra_info("sockname")[1], community="public", version=SnmpVersion.v2c, timeout=0.2)
            try:
                await a.get("1.3.6.1.2.1.1.3.0")
            except TimeoutError:
                pass
            del a
            import gc
            gc.collect()
            b = SnmpSession("127.0.0.1", port=t2.get_extra_info("sockname")[1], community="public", version=SnmpVersion.v2c, timeout=1.0)
            try:
                return ("ok", await b.get("1.3.6.1.2.1.1.3.0"))
            except BaseException as ex:  # noqa: BLE001
                return ("exc", type(ex).__name__, isinstance(ex, Exception))
        finally:
            t1.close()
            t2.close()
    r = e2e.run_coro(main(), 10.0)
    return r if r is not None else ("exc", "Hang", True)


def run(chk, model_ok=True):
    rng = random.Random(chk.seed)
    quick = chk.tier == "quick"
    env = e2e.env()
    bad = 0

    def fail(what, line):
        nonlocal bad
        bad += 1
        if bad <= 5:
            chk.violation("oracle", what, {"kind": "oracle", "lines": [line[:400000]], "expected": what})

    peers = sessions.default_peers()
    n_scripts = 375 if quick else 20000
    all_sess = []
    fault_hist = {}
    outcome_hist = {}
    n_recv = 0
    distinct = set()
    for h in range(n_scripts):
        peer = rng.choice(peers)
        s = sessions.Sess(env, peer, rng, deferred=peer.kind == "v3" and rng.random() < 0.3)
        view = View(s)
        peer = s.peer
        all_sess.append(s)
        carry = []          # datagrams still queued at the client
        late = []           # replies the network still holds
        prev = []           # earlier requests of this script (decoded)
        n_req = rng.randrange(1, 5)
        for i in range(n_req):
            op = rng.choice(["get", "get", "getmany", "getnext", "getbulk"] + (["refresh"] * 2 if peer.kind == "v3" else []))
            if peer.kind == "v1" and op == "getbulk":
                op = "getnext"
            if s.deferred and view.engine == b"" and rng.random() < 0.8:
                op = "refresh"
            it = None
            if op == "refresh":
                rec = s.send("refresh")
            elif op == "get":
                rec = s.send("get", sessions.rand_oid_text(rng))
            elif op == "getmany":
                rec = s.send("getmany", list({sessions.rand_oid_text(rng) for _ in range(rng.randrange(1, 4))}))
            else:
                it = s.new_iter(sessions.rand_oid_text(rng), 10)
                if it is None:
                    continue
                rec = s.send(op, it=it)
            req = s.conv.req
            if rec["result"][0] != "ok" or not req or "request_id" not in req:
                continue
            value = (h * 10 + i) * 1000 + 7
            genuine = build_reply(peer, req, op, value, view)
            new = []
            faults = [rng.choice(FAULTS) for _ in range(rng.choice([1, 1, 2, 3]))]
            for f in faults:
                fault_hist[f] = fault_hist.get(f, 0) + 1
                if f == "deliver":
                    new.append(genuine if rng.random() < 0.7 else build_reply(peer, req, op, value, view, reportable=True))
                elif f == "duplicate":
                    new += [genuine, genuine]
                elif f == "delay":
                    late.append(genuine)
                elif f == "reorder":
                    new = late + new if rng.random() < 0.5 else new + late
                    late = []
                    new.append(genuine) if rng.random() < 0.5 else new.insert(0, genuine)
                elif f == "reqid":
                    rid = near_ints(rng, req["request_id"], prev[-1]["request_id"] if prev else None)
                    new.append(build_reply(peer, req, op, value + 100, view, request_id=rid, reportable=rng.random() < 0.4))
                elif f == "cred" and peer.kind != "v3":
                    new.append(build_reply(peer, req, op, value + 200, view, community=near_bytes(rng, peer.community.encode())))
                elif f == "version":
                    new.append(other_version(rng, peer, req, value + 300))
                elif f == "msgid" and peer.kind == "v3":
                    mid = near_ints(rng, req["msg_id"], prev[-1]["msg_id"] if prev else None)
                    new.append(build_reply(peer, req, op, value + 400, view, msg_id=mid, reportable=rng.random() < 0.4))
                elif f == "user" and peer.kind == "v3":
                    new.append(build_reply(peer, req, op, value + 500, view, user=near_bytes(rng, view.user)))
                elif f == "engine" and peer.kind == "v3":
                    new.append(build_reply(peer, req, op, value + 600, view, engine_id=near_bytes(rng, view.agent_engine)))
                elif f == "report" and peer.kind == "v3":
                    # a Report: exempt from the request-id comparison, but user, engine id and msgID must still match
                    kind = rng.choice(["match", "engine", "msgid", "user"])
                    over = {"report": True, "request_id": rng.choice([0, req["request_id"], rng.getrandbits(31)])}
                    if kind == "engine":
                        over["engine_id"] = near_bytes(rng, view.agent_engine)
                    elif kind == "msgid":
                        over["msg_id"] = near_ints(rng, req["msg_id"], prev[-1]["msg_id"] if prev else None)
                    elif kind == "user":
                        over["user"] = near_bytes(rng, view.user)
                    new.append(build_reply(peer, req, op, value + 800, view, **over))
                elif f == "echo":
                    # a request-type PDU (an echo, a misdirected request of somebody else) with another request id:
                    # well-formed, not an answer to this request -> skipped
                    rid = near_ints(rng, req["request_id"], prev[-1]["request_id"] if prev else None)
                    names = [tuple(v[0]) for v in req["varbinds"]] or [(1, 3, 6, 1)]
                    tagno = rng.choice([0, 1]) if peer.kind == "v1" else rng.choice([0, 1, 5])
                    body = ber.pdu(tagno, rid, 0, 5 if tagno == 5 else 0, [ber.varbind(n) for n in names])
                    if peer.kind == "v3":
                        st_ = peer.state
                        sc = ber.scoped_pdu(view.agent_engine, b"", body)
                        if st_.priv_alg:
                            ct, salt = st_.encrypt(sc, st_.boots, st_.time)
                            data = ber.msg_v3(req["msg_id"], 3, view.agent_engine, st_.boots, st_.time, st_.user, bytes(12), salt, ber.OCT(ct))
                        else:
                            data = ber.msg_v3(req["msg_id"], 1 if st_.auth_alg else 0, view.agent_engine, st_.boots, st_.time, st_.user,
                                              bytes(12) if st_.auth_alg else b"", b"", sc)
                        flds = {"request_id": rid, "report": False, "user": st_.user, "engine_id": view.agent_engine,
                                "msg_id": req["msg_id"], "version": 3}
                    else:
                        data = ber.SEQ(ber.INT(0 if peer.kind == "v1" else 1), ber.OCT(peer.community.encode()), body)
                        flds = {"request_id": rid, "report": False, "community": peer.community.encode(),
                                "version": 0 if peer.kind == "v1" else 1}
                    new.append(Dg(data, "message", flds, ("exc", "SnmpDecodeError"), tag="echo"))
                elif f == "empty":
                    # a datagram of zero octets is a datagram: it is not a message of any version
                    new.append(Dg(b"", "garbage", tag="empty"))
                elif f == "truncate":
                    cut = rng.randrange(0, len(genuine.data))
                    new.append(Dg(genuine.data[:cut], "garbage", tag="truncate"))
                elif f == "foreign":
                    # a well-formed reply to somebody else's request
                    new.append(build_reply(peer, dict(req, request_id=rng.getrandbits(31), msg_id=rng.getrandbits(31)), op, value + 700, view))
            if rng.random() < 0.3 and late and "delay" not in faults:
                new = late + new
                late = []
            queue = carry + new
            want, used, hit = expected(view, req, queue)
            r = s.recv(op, [d.data for d in queue], it=it)
            n_recv += 1
            got = r["result"]
            key = want[1] if want[0] == "exc" else "delivered"
            outcome_hist[key] = outcome_hist.get(key, 0) + 1
            distinct.add((peer.label, op, tuple(faults), key))
            gotn = (got[0], got[1])
            ok = gotn == (want[0], want[1]) if want is not None else True
            if want is None:
                want = ("ok", "?")
            if not ok:
                fail(f"{s.label} request {i} ({op}) faults {faults}: the call returned {str(gotn)[:120]}, the datagram "
                     f"sequence [{', '.join((d.tag or d.kind) + ('*' if d.kind == 'message' and matches(view, req, d) else '') for d in queue)}] "
                     f"determines {str(want)[:120]}", s.line())
                break
            if r["consumed"] != used:
                fail(f"{s.label} request {i} ({op}) faults {faults}: {r['consumed']} datagrams were consumed, expected {used}", s.line())
                break
            carry = queue[used:]
            prev.append(req)
            if hit is not None and view.kind == "v3" and view.engine == b"":
                view.engine = hit.fields["engine_id"]
    # the real clients (their own receive loops around the socket): datagrams that do not answer the pending
    # request arrive one by one BEFORE the reply; the reply must still be delivered, and only the reply
    from props import c18
    n_cli = 0
    orig_build = c18.build

    def build2(peer, req, kind, value):
        # replies to somebody else's / an earlier request carry another value than the genuine reply
        return orig_build(peer, req, kind, 4242 if kind == "r" else 666)
    c18.build = build2
    try:
        cli_peers = [e2e.Peer("v1"), e2e.Peer("v2c"), e2e.Peer("v3", auth=2, priv=2, auth_kt="localized", priv_kt="localized")]
        cases = []
        for k in range(12 if quick else 240):
            ticks = sorted(rng.sample(range(0, c18.T_TICKS - 2), rng.randrange(1, 4)))
            sched = [(t, "s") for t in ticks] + [(rng.randrange(ticks[-1], c18.T_TICKS - 1), "r")]
            cases.append({"mode": "sync" if k % 2 == 0 else "async", "peer": cli_peers[k % 3], "sched": sched})
        import asyncio
        import concurrent.futures
        with concurrent.futures.ThreadPoolExecutor(max_workers=6) as ex:
            futs = [(c, ex.submit(c18.run_sync, c["peer"], c["sched"])) for c in cases if c["mode"] == "sync"]

            async def all_async():
                asyncio.get_running_loop().set_exception_handler(lambda lp, ctx: None)
                out = []
                ac = [c for c in cases if c["mode"] == "async"]
                for i in range(0, len(ac), 6):
                    out += await asyncio.gather(*[c18.run_async_one(c["peer"], c["sched"]) for c in ac[i:i + 6]])
                return out
            ares = e2e.run_coro(all_async(), watchdog=10 + len(cases) * 1.0)
            if ares is None:
                ares = [(("exc", "Hang", True), 99.0, [])] * len([c for c in cases if c["mode"] == "async"])
            for c, f in futs:
                c["result"], c["elapsed"], c["actual"] = f.result()
        for c, (r, el, actual) in zip([c for c in cases if c["mode"] == "async"], ares):
            c["result"], c["elapsed"], c["actual"] = r, el, actual
        for c in cases:
            n_cli += 1
            r = c["result"]
            # (judged on the times the agent really sent at: a reply that left the agent too close to the deadline,
            # because the machine is loaded, proves nothing)
            if c["actual"] and c["actual"][-1] > c18.T_TICKS - 1.2:
                continue
            if r[:2] != ("ok", 4242):
                fail(f"{c['mode']} SnmpSession.get on {c['peer'].label}: non-matching datagrams at ticks {[t for t, k in c['sched'] if k == 's']} "
                     f"then the reply at tick {c['sched'][-1][0]} (timeout {c18.T_TICKS} ticks of {c18.TICK}s) gave {r!r:.80} "
                     f"after {c['elapsed']:.3f}s instead of the reply's value 4242",
                     "# client-level: " + c["mode"] + " " + c["peer"].label + " " + str(c["sched"]))
    finally:
        c18.build = orig_build
    # a walk step whose reply never arrives is a timeout, not the end of the walk (sync iterator classes)
    from gufo.snmp.sync_client.getbulk import GetBulkIter
    from gufo.snmp.sync_client.getnext import GetNextIter
    for cls in (GetNextIter, GetBulkIter):
        peer_w = e2e.Peer("v2c")
        conv_w = e2e.Conv(peer_w, env)
        step = {"n": 0}

        def script_w(op, req):
            step["n"] += 1
            if step["n"] == 2:
                return []                                   # the reply to the second step is lost
            name = tuple(req["varbinds"][0][0]) + (step["n"],)
            return [peer_w.response(req, [ber.varbind(name, ber.INT(step["n"]))])]
        shim_w = e2e.SockShim(conv_w, script_w)
        itw = cls(shim_w, "1.3.6.1") if cls is GetNextIter else cls(shim_w, "1.3.6.1", 1)
        got_w = []
        rw = None
        for _ in range(4):
            rw = e2e.ncall(lambda: next(itw))
            if rw[0] != "ok":
                break
            got_w.append(rw[1])
        n_cli += 1
        if rw is None or rw[:2] != ("exc", "TimeoutError"):
            fail(f"sync {cls.__name__}: the reply to the second step was lost; the walk ended as {rw!r:.60} after {len(got_w)} rows "
                 "instead of raising TimeoutError", f"# sync {cls.__name__} lost reply")
    # histories across sessions of one event loop: the reply to B's request must reach B although A, whose socket had the
    # same descriptor number, ended with a timeout
    for _ in range(2 if quick else 10):
        rb = successive_async_sessions()
        n_cli += 1
        if rb[:2] != ("ok", 4711):
            fail(f"async: after a session whose call timed out was released, the next session's matching reply was not delivered: {rb!r:.80}",
                 "# async successive sessions, descriptor reuse")
            break
    nl, nd = sessions.model_compare(chk, all_sess, model_ok)
    chk.coverage.update({
        "evaluations": n_recv + n_cli, "client_level_cases": n_cli,
        "distinct_nontrivial": len(distinct),
        "rule": "scripts of 1..4 consecutive requests (get, get_many, getnext, getbulk) per session (v1, v2c, v3 with every "
                "digest x cipher), each reply subjected to 1..3 faults from {deliver, drop, duplicate, delay past the next request, "
                "reorder, rewritten request-id (incl. the previous request's), community, version, msgID (incl. the previous), "
                "user, engine id, truncation at a random octet, reply to a foreign request}; every reply carries a value unique "
                "to its request. Expected outcome = first datagram of the queue that ends the wait under the property's rule, "
                "computed from the ids seen on the wire; also the number of datagrams consumed. Every script is replayed on the "
                "Lean model (Session.recvLoop). distinct = distinct (session kind, op, fault tuple, outcome).",
        "samples": [{"session": s.label, "request": s.line()[:300]} for s in all_sess[:3]],
        "fault_histogram": dict(sorted(fault_hist.items())), "outcome_histogram": dict(sorted(outcome_hist.items())),
        "scripts": n_scripts, "session_lines": nl, "session_lines_disagreeing": nd,
        "traces_validated_against_impl": nl if model_ok else 0,
    })
    chk.assumptions += ["loopback UDP preserves the order in which the scripted agent sends",
                        "wall-clock timeouts are C18's subject: the socket is non-blocking, 'nothing matching arrived' = BlockingIOError"]


def replay(chk, path):
    with open(path) as f:
        rp = json.load(f)
    out, _, _ = common.run_model(rp.get("lines", []))
    for o in out:
        print(o[:400])
    return 0
