"""C18 — a request never outlives its timeout."""
import asyncio
import concurrent.futures
import json
import random
import sys
import time

from vlib import common, e2e, sessions

sys.path.insert(0, "/verif/harness/py")
import agent as ag  # noqa: E402
import ber  # noqa: E402

TICK = 0.05          # seconds per model tick
T_TICKS = 8          # session timeout = 0.4 s
SLACK = 0.9          # ticks of tolerance for scheduling noise
KINDS = {"r": "reply", "s": "stray", "g": "garbage"}


def gen_schedule(rng):
    """arrival ticks (relative to the request) and kinds; never within one tick of the deadline"""
    shape = rng.choice(["silent", "reply", "late", "strays", "strays+reply", "strays+late", "drip", "garbage", "mixed"])
    ok_t = [t for t in range(0, 3 * T_TICKS) if abs(t - T_TICKS) >= 2]
    early = [t for t in ok_t if t < T_TICKS]
    late = [t for t in ok_t if t > T_TICKS]
    if shape == "silent":
        return shape, []
    if shape == "reply":
        return shape, [(rng.choice(early), "r")]
    if shape == "late":
        return shape, [(rng.choice(late), "r")]
    if shape == "drip":
        # non-matching datagrams spaced closer than the timeout, well past it, then the reply
        step = rng.choice([1, 2, 3, 5])
        ts = [t for t in range(step, 3 * T_TICKS, step) if abs(t - T_TICKS) >= 2]
        return shape, [(t, "s") for t in ts] + [(3 * T_TICKS, "r")]
    n = rng.randrange(1, 6)
    ts = sorted(rng.sample(ok_t, n))
    sched = [(t, "s") for t in ts]
    if shape == "strays+reply":
        sched = [(t, "s") for t in ts if t < T_TICKS - 2] + [(rng.choice([t for t in early if t >= (max([x for x in ts if x < T_TICKS - 2] or [0]))]), "r")]
    elif shape == "strays+late":
        sched.append((rng.choice([t for t in late if t >= ts[-1]] or [3 * T_TICKS]), "r"))
    elif shape == "garbage":
        sched = [(t, "s") for t in ts[:-1]] + [(ts[-1], "g")]
    elif shape == "mixed":
        sched = [(t, rng.choice("ssssrg")) for t in ts]
    return shape, sorted(sched, key=lambda x: x[0])


def property_verdict(sched):
    """what the property itself determines: ('delivered' | 'timeout' | 'decodeerror' | None, latest end in ticks)"""
    for t, k in sched:
        if t >= T_TICKS:
            break
        if k == "r":
            return "delivered", t
        if k == "g":
            return "decodeerror", t
    return "timeout", T_TICKS


def build(peer, req, kind, value):
    vbs = [ber.varbind(tuple(req["varbinds"][0][0]), ber.INT(value))]
    if kind == "r":
        return peer.response(req, vbs)
    if kind == "s":
        # non-matching datagrams come in flavours: a reply to another request, a request PDU that was reflected or
        # misdirected (names bound to NULL), a reply for another community
        other = (req["request_id"] + 1) % 2 ** 31
        flavour = (req["request_id"] + value) % 4
        if flavour == 1:
            return peer.response(req, [ber.varbind(tuple(req["varbinds"][0][0]), ber.NULL)], request_id=other,
                                 pdu_tag=(0, 1, 5)[req["request_id"] % 3] if peer.kind != "v1" else 0)
        if flavour == 2 and peer.kind != "v3":
            return e2e.Peer(peer.kind, community=peer.community + "x").response(req, vbs)
        return peer.response(req, vbs, request_id=other)
    if kind == "n":
        # the matching reply, but it says noSuchInstance (the call ends with an exception, not a value)
        return peer.response(req, [ber.varbind(tuple(req["varbinds"][0][0]), ber.NOSUCHINSTANCE)])
    return peer.response(req, vbs)[:7]


def agent_plan(peer, sched, dg):
    """[(delay seconds, datagram)] for a request datagram; probes are answered at once"""
    req = peer.decode(dg)
    if req["pdu_type"] == 0 and not req["varbinds"]:
        return [(0, peer.state.report(req["request_id"], req["msg_id"], auth=bool(peer.state.auth_alg)))]
    out, prev = [], 0
    for t, k in sched:
        out.append(((t - prev) * TICK, build(peer, req, k, 4242)))
        prev = t
    return out


def session_kwargs(peer):
    from gufo.snmp import SnmpVersion
    if peer.kind == "v3":
        from props.c13 import client_user
        return dict(engine_id=peer.state.engine_id, user=client_user(peer.state))
    return dict(community=peer.community, version=SnmpVersion.v1 if peer.kind == "v1" else SnmpVersion.v2c)


def run_sync(peer, sched, before=()):
    """one get on a fresh blocking session; `before`: schedules of earlier gets on the SAME session (each must
    end before its deadline's last arrival, so that the single-threaded agent is free again)"""
    from gufo.snmp.sync_client import SnmpSession
    plans = list(before) + [sched]
    state = {"k": 0, "mark": None}

    def script(dg):
        req = peer.decode(dg)
        if req["pdu_type"] == 0 and not req["varbinds"]:
            return agent_plan(peer, [], dg)
        k = min(state["k"], len(plans) - 1)
        state["k"] += 1
        if k == len(plans) - 1:
            state["mark"] = len(agent.sent)      # datagrams sent from here on belong to the measured request
        return agent_plan(peer, plans[k], dg)
    agent = e2e.ThreadAgent(script)
    try:
        t0 = time.monotonic()
        s = SnmpSession("127.0.0.1", port=agent.port, timeout=T_TICKS * TICK, **session_kwargs(peer))
        r = e2e.ncall(s.refresh) if peer.kind == "v3" else ("ok", None)
        el = time.monotonic() - t0
        if r[0] == "ok":
            for _ in before:
                e2e.ncall(lambda: s.get("1.3.6.1.2.1.1.3.0"))
                time.sleep(TICK)
            t0 = time.monotonic()
            r = e2e.ncall(lambda: s.get("1.3.6.1.2.1.1.3.0"))
            el = time.monotonic() - t0
        # (a refresh() that fails although the agent answers every probe at once is the outcome of the case)
    finally:
        agent.stop = True
    mark = state["mark"] if state["mark"] is not None else len(agent.sent)
    actual = [(ts - t0) / TICK for ts in agent.sent[mark:mark + len(sched)]]
    return r, el, actual


async def run_async_one(peer, sched):
    from gufo.snmp.async_client import SnmpSession
    loop = asyncio.get_running_loop()
    sent = []

    class Proto(asyncio.DatagramProtocol):
        def connection_made(self, transport):
            self.t = transport

        def datagram_received(self, data, addr):
            acc = 0.0
            plan = agent_plan(peer, sched, data)
            rq = peer.decode(data)
            measured = not (rq["pdu_type"] == 0 and not rq["varbinds"])
            for delay, dg in plan:
                acc += delay
                loop.call_later(acc, self._send, dg, addr, measured)

        def _send(self, dg, addr, measured):
            if not self.t.is_closing():
                if measured:
                    sent.append(time.monotonic())
                self.t.sendto(dg, addr)

    transport, _ = await loop.create_datagram_endpoint(Proto, local_addr=("127.0.0.1", 0))
    port = transport.get_extra_info("sockname")[1]
    try:
        t0 = time.monotonic()
        try:
            s = SnmpSession("127.0.0.1", port=port, timeout=T_TICKS * TICK, **session_kwargs(peer))
            await s.refresh()          # (what `async with` does on entry; probes are answered at once)
            t0 = time.monotonic()
            r = ("ok", await s.get("1.3.6.1.2.1.1.3.0"))
        except BaseException as ex:  # noqa: BLE001
            r = ("exc", type(ex).__name__, isinstance(ex, Exception))
        el = time.monotonic() - t0
    finally:
        transport.close()
    return r, el, [(ts - t0) / TICK for ts in sent]


def run_tiny(mode, peer, timeout_s, stray):
    """a call with a very small session timeout against a silent agent (optionally one stray datagram at once);
    returns (result, elapsed) or (None, None) when the call is still blocked after 2 s"""
    import threading
    box = {}

    def plan(dg):
        req = peer.decode(dg)
        if req["pdu_type"] == 0 and not req["varbinds"]:
            return [peer.state.report(req["request_id"], req["msg_id"], auth=bool(peer.state.auth_alg))]
        return [build(peer, req, "s", 1)] if stray else []

    def sync_body():
        from gufo.snmp.sync_client import SnmpSession
        agent = e2e.ThreadAgent(lambda dg: [(0, x) for x in plan(dg)])
        try:
            s = SnmpSession("127.0.0.1", port=agent.port, timeout=timeout_s, **session_kwargs(peer))
            t0 = time.monotonic()
            box["r"] = e2e.ncall(lambda: s.get("1.3.6.1.2.1.1.3.0"))
            box["el"] = time.monotonic() - t0
        finally:
            agent.stop = True

    def async_body():
        async def main(port):
            from gufo.snmp.async_client import SnmpSession
            s = SnmpSession("127.0.0.1", port=port, timeout=timeout_s, **session_kwargs(peer))
            t0 = time.monotonic()
            try:
                r = ("ok", await s.get("1.3.6.1.2.1.1.3.0"))
            except BaseException as ex:  # noqa: BLE001
                r = ("exc", type(ex).__name__, isinstance(ex, Exception))
            box["r"], box["el"] = r, time.monotonic() - t0
        e2e.run_async(main, plan)
    t = threading.Thread(target=sync_body if mode == "sync" else async_body, daemon=True)
    t.start()
    t.join(2.0)
    if t.is_alive() or "r" not in box:
        return None, None
    return box["r"], box["el"]


def run_entry(mode, peer, op, stray_first):
    """another entry point than get(): a walk step, get_many, or the discovery a session without engine id performs;
    the agent stays silent for the measured request (optionally after one non-matching datagram). Returns
    (outcome tuple, elapsed seconds) of the measured call, or (None, None) when it is still blocked after 3 s."""
    import threading
    box = {}
    T = T_TICKS * TICK
    discover = op == "discover"

    def plan(dg):
        outer = ber.decode_message(dg)
        if discover:
            if outer.get("version") == 3 and outer.get("engine_id") == b"":
                # the first probe: a datagram of a foreign engine (another msgID) and then the genuine Report
                st = peer.state
                foreign = ag.V3AgentState(bytes(reversed(st.engine_id)) + b"\x01", boots=9, time=9, user="")
                genuine = st.report(outer["request_id"] if "request_id" in outer else 0, outer["msg_id"], user=outer.get("user", b""))
                return ([foreign.report(1, (outer["msg_id"] + 7) % 2 ** 31, user=b"")] if stray_first else []) + [genuine]
            req = peer.decode(dg)
            if req["pdu_type"] == 0 and not req["varbinds"]:
                return [peer.state.report(req["request_id"], req["msg_id"], auth=bool(peer.state.auth_alg))]
            return [peer.response(req, [ber.varbind(tuple(req["varbinds"][0][0]), ber.INT(4242))])]
        req = peer.decode(dg)
        if req["pdu_type"] == 0 and not req["varbinds"]:
            return [peer.state.report(req["request_id"], req["msg_id"], auth=bool(peer.state.auth_alg))]
        return [build(peer, req, "s", 1)] if stray_first else []

    def kwargs():
        kw = session_kwargs(peer)
        if discover:
            kw["engine_id"] = None
        return kw

    def do_sync(s):
        if op == "getnext":
            return next(iter(s.getnext("1.3.6.1.2.1")))
        if op == "getbulk":
            return next(iter(s.getbulk("1.3.6.1.2.1")))
        if op == "fetch":
            return next(iter(s.fetch("1.3.6.1.2.1")))
        if op == "get_many":
            return s.get_many(["1.3.6.1.2.1.1.3.0", "1.3.6.1.2.1.1.5.0"])
        s.refresh()
        return s.get("1.3.6.1.2.1.1.3.0")

    async def do_async(s):
        if op in ("getnext", "getbulk", "fetch"):
            it = s.getnext("1.3.6.1.2.1") if op == "getnext" else (s.getbulk("1.3.6.1.2.1") if op == "getbulk" else s.fetch("1.3.6.1.2.1"))
            async for item in it:
                return item
            raise StopAsyncIteration
        if op == "get_many":
            return await s.get_many(["1.3.6.1.2.1.1.3.0", "1.3.6.1.2.1.1.5.0"])
        await s.refresh()
        return await s.get("1.3.6.1.2.1.1.3.0")

    def sync_body():
        from gufo.snmp.sync_client import SnmpSession
        agent = e2e.ThreadAgent(lambda dg: [(0, x) for x in plan(dg)])
        try:
            s = SnmpSession("127.0.0.1", port=agent.port, timeout=T, **kwargs())
            if not discover and peer.kind == "v3":
                s.refresh()
            t0 = time.monotonic()
            box["r"] = e2e.ncall(lambda: do_sync(s))
            box["el"] = time.monotonic() - t0
        finally:
            agent.stop = True

    def async_body():
        async def main(port):
            from gufo.snmp.async_client import SnmpSession
            s = SnmpSession("127.0.0.1", port=port, timeout=T, **kwargs())
            if not discover and peer.kind == "v3":
                await s.refresh()
            t0 = time.monotonic()
            try:
                r = ("ok", await do_async(s))
            except BaseException as ex:  # noqa: BLE001
                r = ("exc", type(ex).__name__, isinstance(ex, Exception))
            box["r"], box["el"] = r, time.monotonic() - t0
        e2e.run_async(main, plan)
    t = threading.Thread(target=sync_body if mode == "sync" else async_body, daemon=True)
    t.start()
    t.join(3.0 + T)
    if t.is_alive() or "r" not in box:
        return None, None
    return box["r"], box["el"]



def interference_case(kind):
    """a timed get() (timeout 0.4 s, silent agent) while something else goes on in the process; returns (outcome tuple,
    elapsed) or (None, None) when it is still blocked after 6 s.
    kind: 'signals' (a Python-level signal handler fires every 150 ms), 'other-thread-refresh' (another thread sits in
    refresh() of a sync v3 session towards a silent agent with a 3 s timeout), 'policed-neighbour' (async: another session
    of the same loop, rate-limited to one request per 2 s, has its second request pending)"""
    import signal
    import threading
    T = T_TICKS * TICK
    peer = e2e.Peer("v2c")
    silent = e2e.ThreadAgent(lambda dg: [])
    box = {}
    try:
        if kind == "signals":
            from gufo.snmp.sync_client import SnmpSession
            # the call is made on the main thread; a helper thread sends SIGALRM to exactly that thread every 150 ms,
            # 20 times (3 s): a call that is kept alive by the signals still comes back when they stop
            old = signal.signal(signal.SIGALRM, lambda *a: None)
            main_id = threading.get_ident()
            stop = {"v": False}

            def pinger():
                for _ in range(20):
                    time.sleep(0.15)
                    if stop["v"]:
                        return
                    try:
                        signal.pthread_kill(main_id, signal.SIGALRM)
                    except (OSError, ValueError):
                        return
            threading.Thread(target=pinger, daemon=True).start()
            try:
                s = SnmpSession("127.0.0.1", port=silent.port, timeout=T, **session_kwargs(peer))
                t0 = time.monotonic()
                r = e2e.ncall(lambda: s.get("1.3.6.1.2.1.1.3.0"))
                el = time.monotonic() - t0
            finally:
                stop["v"] = True
                signal.signal(signal.SIGALRM, old)
            return (r, el) if r is not None else (None, None)
        if kind == "other-thread-refresh":
            from gufo.snmp.sync_client import SnmpSession
            v3 = e2e.Peer("v3", auth=1, priv=0, auth_kt="localized")
            silent3 = e2e.ThreadAgent(lambda dg: [])

            def other():
                try:
                    s3 = SnmpSession("127.0.0.1", port=silent3.port, timeout=3.0, **session_kwargs(v3))
                    e2e.ncall(s3.refresh)
                finally:
                    silent3.stop = True
            th = threading.Thread(target=other, daemon=True)
            th.start()
            time.sleep(0.3)            # the other thread is inside refresh() now
            s = SnmpSession("127.0.0.1", port=silent.port, timeout=T, **session_kwargs(peer))
            t0 = time.monotonic()
            r = e2e.run_guarded(lambda: e2e.ncall(lambda: s.get("1.3.6.1.2.1.1.3.0")), 6.0, None)
            el = time.monotonic() - t0
            return (r, el) if r is not None else (None, None)
        # policed-neighbour
        answering = e2e.ThreadAgent(lambda dg: [(0, peer.response(peer.decode(dg), [ber.varbind((1, 3, 6, 1, 2, 1, 1, 3, 0), ber.INT(1))]))])

        async def main():
            import asyncio
            from gufo.snmp.async_client import SnmpSession
            a = SnmpSession("127.0.0.1", port=answering.port, timeout=3.0, limit_rps=0.5, **session_kwargs(peer))
            b = SnmpSession("127.0.0.1", port=silent.port, timeout=T, **session_kwargs(peer))
            await a.get("1.3.6.1.2.1.1.3.0")              # uses A's first slot
            t0 = time.monotonic()
            mine = asyncio.ensure_future(b.get("1.3.6.1.2.1.1.3.0"))      # B's request is in flight ...
            await asyncio.sleep(0.05)
            pending = asyncio.ensure_future(a.get("1.3.6.1.2.1.1.3.0"))   # ... when A's second request has to wait ~2 s for its slot
            try:
                r = ("ok", await mine)
            except BaseException as ex:  # noqa: BLE001
                r = ("exc", type(ex).__name__, isinstance(ex, Exception))
            el = time.monotonic() - t0
            pending.cancel()
            return r, el
        try:
            got = e2e.run_coro(main(), 8.0)
        finally:
            answering.stop = True
        return got if got is not None else (None, None)
    finally:
        silent.stop = True


def outcome(r):
    if r[0] == "exc" and r[1] == "Hang":
        return "Hang"
    if r[0] == "ok":
        return "delivered" if r[1] == 4242 else f"wrong value {r[1]!r}"
    name = r[1][2:] if r[1].startswith("PySnmp") else r[1]
    return {"TimeoutError": "timeout", "SnmpDecodeError": "decodeerror"}.get(name, name)


def run(chk, model_ok=True):
    rng = random.Random(chk.seed)
    quick = chk.tier == "quick"
    e2e.env()
    # localized keys: the 1 MiB password expansion of a debug build would hold the GIL for longer than a tick
    loc = dict(auth_kt="localized", priv_kt="localized")
    peers = [e2e.Peer("v1"), e2e.Peer("v2c"), e2e.Peer("v3", auth=0, priv=0), e2e.Peer("v3", auth=2, priv=2, **loc),
             e2e.Peer("v3", auth=1, priv=1, **loc)]
    n = 120 if quick else 4800
    cases = []
    for k in range(n):
        shape, sched = gen_schedule(rng)
        cases.append({"mode": "sync" if k % 2 == 0 else "async", "peer": peers[k % len(peers)], "shape": shape, "sched": sched})
    # histories on one blocking session: earlier calls that skipped datagrams and then timed out (or were
    # answered) must leave the session's timeout as configured for the next call
    for k in range(20 if quick else 800):
        before = []
        for _ in range(rng.randrange(1, 3)):
            ts = sorted(rng.sample(range(0, T_TICKS - 1), rng.randrange(1, 4)))
            b = [(t, "s") for t in ts]
            if rng.random() < 0.3:
                b.append((ts[-1], "r"))
            before.append(b)
        _, sched = gen_schedule(rng)
        if k % 2 == 0:
            sched = [(rng.choice([T_TICKS - 4, T_TICKS - 3, T_TICKS - 2]), "r")]     # a reply late in the window
        cases.append({"mode": "sync", "peer": peers[k % len(peers)], "shape": "history", "sched": sched, "before": before})
    # a drip for every session kind in both modes, always
    for m in ("sync", "async"):
        for p in peers[:3]:
            cases.append({"mode": m, "peer": p, "shape": "drip", "sched": [(t, "s") for t in range(2, 24, 2) if abs(t - T_TICKS) >= 2] + [(24, "r")]})

    def execute(batch):
        sync_cases = [c for c in batch if c["mode"] == "sync"]
        async_cases = [c for c in batch if c["mode"] == "async"]
        with concurrent.futures.ThreadPoolExecutor(max_workers=6) as ex:
            futs = [(c, ex.submit(run_sync, c["peer"], c["sched"], c.get("before", ()))) for c in sync_cases]

            async def all_async():
                # (the async client's add_reader callback may fire twice when two datagrams are queued: asyncio logs
                # an InvalidStateError for the second set_result; harmless for the property, silenced here)
                asyncio.get_running_loop().set_exception_handler(lambda loop, ctx: None)
                res = []
                for i in range(0, len(async_cases), 6):
                    res += await asyncio.gather(*[run_async_one(c["peer"], c["sched"]) for c in async_cases[i:i + 6]])
                return res
            ares = []
            if async_cases:
                ares = e2e.run_coro(all_async(), watchdog=10 + len(async_cases) * 1.0)
                if ares is None:
                    # the event loop never came back: a call that neither returned nor timed out
                    ares = [(("exc", "Hang", True), 99.0, [])] * len(async_cases)
            for c, f in futs:
                c["result"], c["elapsed"], c["actual"] = f.result()
        for c, (r, el, actual) in zip(async_cases, ares):
            c["result"], c["elapsed"], c["actual"] = r, el, actual

    def actual_schedule(c):
        """(arrival in ticks as measured at the agent, kind) of the datagrams that were really sent, in order"""
        return [(a, k) for a, (_, k) in zip(c.get("actual", []), c["sched"])]

    def verdict_on(c):
        """what the property determines from the ACTUAL arrival times (the agent may run late under load):
        (outcome | None when an arrival is too close to the deadline to call, time of the deciding arrival)"""
        for a, k in actual_schedule(c):
            if a >= T_TICKS + 0.6:
                break
            if abs(a - T_TICKS) < 0.6:
                return None, a
            if k == "r":
                return "delivered", a
            if k == "g":
                return "decodeerror", a
        return "timeout", T_TICKS

    def judge(c):
        """None or a reason"""
        got = outcome(c["result"])
        ticks = c["elapsed"] / TICK
        if ticks > T_TICKS + SLACK + 1:
            return (f"the call took {c['elapsed']:.3f}s with a timeout of {T_TICKS * TICK:.2f}s (ended as {got}); "
                    f"datagrams were sent at {[round(a * TICK, 3) for a, _ in actual_schedule(c)]} s, kinds {[k for _, k in c['sched']]}")
        want, t_end = verdict_on(c)
        if want is None:
            return None          # an arrival within 30 ms of the deadline: either outcome is legitimate
        if got != want:
            return (f"the call ended as {got} after {c['elapsed']:.3f}s; datagrams {[(round(a * TICK, 3), k) for a, k in actual_schedule(c)]} "
                    f"(seconds after the request, kind) determine {want}"
                    + (f" (earlier calls on this session: {c['before']})" if c.get("before") else ""))
        if want == "delivered" and ticks - t_end > SLACK + 1:
            return f"the reply sent {t_end * TICK:.3f}s after the request was delivered only after {c['elapsed']:.3f}s"
        return None

    execute(cases)
    bad = 0
    # very small session timeouts (the socket option has microsecond resolution and 0 means "no timeout")
    n_tiny = 0
    for mode in ("sync", "async"):
        for T_s in (5e-7, 3e-6, 2e-4, 0.002, 0.02):
            for stray in (False, True):
                peer = peers[n_tiny % 2]
                n_tiny += 1
                if e2e.HUNG and mode == "async":
                    continue           # a frozen event loop was already reported
                r, el = run_tiny(mode, peer, T_s, stray)
                line = f"# tiny timeout {T_s} s, {mode}, {peer.label}, stray={stray}"
                if r is None:
                    chk.violation("oracle", f"{mode} {peer.label}: get() with timeout={T_s} s against a silent agent is still blocked after 2 s",
                                  {"kind": "oracle", "lines": [line], "timeout_s": T_s, "mode": mode, "stray": stray})
                    bad += 1
                elif outcome(r) != "timeout" or el > T_s + 0.25:
                    chk.violation("oracle", f"{mode} {peer.label}: get() with timeout={T_s} s ended as {outcome(r)} after {el:.3f}s",
                                  {"kind": "oracle", "lines": [line], "timeout_s": T_s, "mode": mode, "stray": stray})
                    bad += 1
    # the other entry points: a walk step, get_many, the discovery of a session that was given no engine id. Silent agent
    # (optionally one non-matching datagram first): TimeoutError at the deadline — not an early error, not a silent
    # end of the walk; discovery: a datagram of a foreign engine ahead of the genuine Report must not cost the reply
    n_entry = 0
    T_s = T_TICKS * TICK
    for op in ("getnext", "getbulk", "fetch", "get_many", "discover"):
        for mode in ("sync", "async"):
            for stray in (False, True):
                pool = [p for p in peers if (op not in ("getbulk",) or p.kind != "v1") and (op != "discover" or p.kind == "v3")]
                if not pool:
                    continue
                peer = pool[n_entry % len(pool)]
                n_entry += 1
                if e2e.HUNG and mode == "async":
                    continue
                line = f"# entry point {op}, {mode}, {peer.label}, non-matching datagram first={stray}"

                def problem():
                    r, el = run_entry(mode, peer, op, stray)
                    if r is None:
                        return (f"{mode} {peer.label}: {op} against a silent agent is still blocked {3 + T_s:.1f} s after the call "
                                f"(timeout {T_s} s)")
                    got = outcome(r)
                    if op == "discover":
                        if got != "delivered":
                            return (f"{mode} {peer.label}: discovery + get with the genuine Report sent at once"
                                    f"{' after a datagram of a foreign engine' if stray else ''} ended as {got} after {el:.3f}s "
                                    "(a matching reply before the deadline must be delivered)")
                        return None
                    if got != "timeout" or el > T_s + 0.3 or el < T_s - 0.05:
                        return (f"{mode} {peer.label}: {op} against a silent agent"
                                f"{' (one non-matching datagram first)' if stray else ''} ended as {got} after {el:.3f}s; "
                                f"TimeoutError at {T_s} s is what the property determines")
                    return None
                # (timing on a shared machine: a verdict is reported only when it repeats three times in a row)
                why = problem()
                for _ in range(2):
                    if not why:
                        break
                    why = problem()
                if why:
                    chk.violation("oracle", why, {"kind": "oracle", "lines": [line], "timeout_s": T_s, "mode": mode})
                    bad += 1
    chk.coverage["entry_point_cases"] = n_entry
    # what else goes on in the process must not stretch a call beyond its timeout: signal handlers firing during the wait,
    # another thread blocked in its own session, a rate-limited neighbour session on the same event loop
    for kind in ("signals", "other-thread-refresh", "policed-neighbour"):
        def problem(kind=kind):
            r, el = interference_case(kind)
            if r is None:
                return f"get() with timeout {T_s} s against a silent agent ({kind}) is still blocked after 6 s"
            got = outcome(r)
            if el > T_s + 0.35:
                return (f"get() with timeout {T_s} s against a silent agent ended as {got} only after {el:.2f} s while: {kind} "
                        "(the call outlived its timeout)")
            if got not in ("timeout", "OSError"):
                return f"get() with timeout {T_s} s against a silent agent ({kind}) ended as {got}"
            return None
        why = problem()
        for _ in range(2):
            if not why:
                break
            why = problem()
        n_entry += 1
        if why:
            chk.violation("oracle", why, {"kind": "oracle", "lines": [f"# interference {kind}"], "timeout_s": T_s})
            bad += 1
    hist = {}
    distinct = set()
    lines = []
    for c in cases:
        key = f"{c['mode']}:{c['peer'].label}:{c['shape']} -> {outcome(c['result'])}"
        hist[key] = hist.get(key, 0) + 1
        distinct.add((c["mode"], c["peer"].label, tuple(c["sched"])))
        why = judge(c)
        line = f"recvsched {c['mode']} {T_TICKS} 0 " + (",".join(f"{t}:{k}" for t, k in c["sched"]) or "-")
        lines.append(line)
        if why and outcome(c["result"]) == "Hang":
            # the event loop froze (the call neither returned nor timed out): no re-run, frozen loops keep spinning
            if not any("froze" in v[1] for v in chk.violations):
                chk.violation("oracle", f"{c['mode']} {c['peer'].label}: the call never returned and froze the event loop; schedule {c['sched']}",
                              {"kind": "oracle", "lines": [line], "schedule_ticks": c["sched"], "tick_s": TICK, "timeout_ticks": T_TICKS,
                               "mode": c["mode"], "session": c["peer"].label})
            bad += 1
            continue
        if why:
            # timing: re-confirm twice before reporting
            confirmed = 0
            for _ in range(2):
                c2 = dict(c)
                execute([c2])
                if judge(c2):
                    confirmed += 1
            if confirmed == 2:
                bad += 1
                if bad <= 5:
                    chk.violation("oracle", f"{c['mode']} {c['peer'].label}: {why} (confirmed on 3 runs)",
                                  {"kind": "oracle", "lines": [line], "schedule_ticks": c["sched"], "tick_s": TICK,
                                   "timeout_ticks": T_TICKS, "mode": c["mode"], "session": c["peer"].label, "expected": why})
            else:
                chk.notes.append(f"timing noise (not confirmed): {why[:160]}")
    # correspondence: the model's end (kind, time) for the arrivals as they really happened (millisecond ticks)
    nd = 0

    def model_line(c):
        arr = ",".join(f"{max(0, int(round(a * TICK * 1000)))}:{k}" for a, k in actual_schedule(c)) or "-"
        return f"recvsched {c['mode']} {int(T_TICKS * TICK * 1000)} 0 {arr}"

    def disagrees(c, mo):
        p = mo.split(" ")
        got = outcome(c["result"])
        want, _ = verdict_on(c)
        if want is None:
            return False
        return not (len(p) == 3 and p[1] == got and abs(c["elapsed"] * 1000 - int(p[2])) <= (SLACK + 1) * TICK * 1000)
    if model_ok:
        mlines = [model_line(c) for c in cases]
        out, _, _ = common.run_model(mlines)
        for c, ln, mo in zip(cases, mlines, out + ["<missing>"] * (len(mlines) - len(out))):
            if outcome(c["result"]) == "Hang" or not disagrees(c, mo):
                continue
            # timing: confirm on two fresh runs of the same schedule before calling it a disagreement
            again = 0
            for _ in range(2):
                c2 = dict(c)
                execute([c2])
                mo2, _, _ = common.run_model([model_line(c2)])
                if mo2 and disagrees(c2, mo2[0]):
                    again += 1
            if again < 2:
                chk.notes.append(f"timing noise (model comparison not confirmed): {ln[:100]} -> {mo}")
                continue
            nd += 1
            if nd == 1 and not chk.violations:
                chk.violation("correspondence", f"timing model: {ln} -> model {mo}, implementation {outcome(c['result'])} after "
                              f"{c['elapsed'] * 1000:.0f} ms (confirmed on 3 runs)",
                              {"kind": "correspondence", "stream": "recvsched", "lines": [ln], "impl": [f"{outcome(c['result'])} {c['elapsed'] * 1000:.0f}ms"],
                               "model": [mo], "broken": ["correspondence recvsched: Lean Timing.syncRecv / asyncRecv vs /repo"]},
                              no_input=True)
    chk.coverage.update({
        "evaluations": len(cases) + n_tiny, "tiny_timeout_cases": n_tiny,
        "distinct_nontrivial": len(distinct),
        "rule": f"arrival schedules on a {int(TICK * 1000)} ms grid against a session timeout of {T_TICKS} ticks: silence, reply before / after "
                "the deadline, 1..5 non-matching datagrams at random ticks with and without a reply before / after the deadline, "
                "drips of non-matching datagrams every 1..5 ticks for three timeouts followed by the reply, garbage, mixtures; "
                "sync SnmpSession (agent in a thread, 6 in parallel) and async SnmpSession (agent on the loop) x v1, v2c, v3 "
                "(plain, SHA+AES, MD5+DES). No arrival is placed within one tick of the deadline. Oracle from the property: "
                "duration <= timeout + 1.9 ticks, outcome determined by the first reply / garbage that was REALLY sent before the "
                "deadline (send times are recorded at the agent, so a late agent under load cannot cause an alarm; arrivals within "
                "30 ms of the deadline are not judged); a failure is re-run twice and reported only if it fails all three times. "
                "The arrivals as they happened (ms) run on the Lean timing model, disagreements are re-confirmed the same way.",
        "samples": [{"request": l, "impl": f"{outcome(c['result'])} {c['elapsed']:.3f}s"} for c, l in list(zip(cases, lines))[:5]],
        "outcome_histogram": dict(sorted(hist.items())),
        "max_elapsed_s": round(max(c["elapsed"] for c in cases), 3),
        "model_disagreements": nd,
        "traces_validated_against_impl": len(cases) if model_ok else 0,
    })
    chk.assumptions += ["wall-clock scheduling noise below one tick (50 ms); failures are re-confirmed before being reported",
                        "the model's processing time d is taken as 0 ticks in the comparison"]


def replay(chk, path):
    with open(path) as f:
        rp = json.load(f)
    out, _, _ = common.run_model(rp.get("lines", []))
    for o in out:
        print(o[:400])
    return 0
