"""C06 — a walk never leaves its subtree, never goes backwards, always ends."""
import json
import random
import sys

from vlib import common, e2e, gens, streams, values, walks

sys.path.insert(0, "/verif/harness/py")
import ber  # noqa: E402

NULLV, EXC = values.NULLV, values.EXC


def hostile_walk(rng):
    """base + replies with names around the base: inside / equal / parent / sibling / decreasing / repeated"""
    # (enterprise numbers and other arcs on both sides of every base-128 length boundary: the base is parsed from text)
    base = rng.choice([(1, 3, 6), (1, 3, 6, 1, 2, 1), (1, 3, 6, 128), (0, 0), (2, 39, 4294967295), (1, 3, 6, 1, 4, 1, 16383),
                       (1, 3, 6, 1, 4, 1, 16384), (1, 3, 6, 1, 4, 1, 25506), (1, 3, 6, 1, 4, 1, 32767), (1, 3, 6, 1, 4, 1, 32768),
                       (1, 3, 6, 1, 4, 1, 2097151), (1, 3, 6, 1, 4, 1, 2097152), (1, 3, 6, 1, 4, 1, 268435455), (1, 3, 6, 1, 4, 1, 268435456)])
    pool = []
    for _ in range(8):
        k = rng.randrange(8)
        if k <= 3:
            pool.append(base + tuple(rng.choice([0, 1, 2, 127, 128, 16383, 16384, 2 ** 32 - 1]) for _ in range(rng.randrange(1, 4))))
        elif k == 4:
            pool.append(base)
        elif k == 5:
            pool.append(base[:-1] + (base[-1] + 1,) if base[-1] < 2 ** 32 - 1 else base[:-1])
        elif k == 6:
            pool.append(base[:-1] if len(base) > 2 else (base[0], 0))
        else:
            pool.append(base[:-1] + (max(base[-1] - 1, 0), 5))
    pool.sort()
    replies = []
    for _ in range(rng.randrange(1, 7)):
        m = rng.randrange(12)
        if m == 0:
            replies.append([])
        elif m == 1:
            replies.append(walks.REPORT)
        elif m == 2:
            replies.append(None)
        else:
            n = rng.choice([1, 1, 1, 2, 3, 5])
            rep = []
            for _ in range(n):
                name = rng.choice(pool) if rng.random() < 0.85 else values.gen_arcs(rng)
                vk = rng.randrange(10)
                if vk == 0:
                    val = (ber.NULL, NULLV)
                elif vk == 1:
                    val = (rng.choice([ber.NOSUCHOBJECT, ber.NOSUCHINSTANCE, ber.ENDOFMIBVIEW]), EXC)
                else:
                    t = values.gen_value(rng, data_only=True, allow_real=False)
                    val = (t[0], t[1])
                rep.append((name, val))
            if rng.random() < 0.6:
                rep.sort(key=lambda x: x[0])
            replies.append(rep)
    return base, replies


def to_wire(rep):
    if rep is None or rep is walks.REPORT:
        return rep
    return [(n, v[0]) for n, v in rep]


def to_oracle(rep):
    if rep is None or rep is walks.REPORT:
        return rep
    return [(n, v[1]) for n, v in rep]


def walk_line(kind, base, maxrep, replies):
    """the same walk as a `walk` request for the Rust harness / the Lean model (replies until the first gap)"""
    pdus = []
    for rep in replies:
        if rep is None:
            break
        if rep is walks.REPORT:
            pdus.append(ber.pdu(8, 1, 0, 0, []).hex())
        else:
            pdus.append(ber.pdu(2, 1, 0, 0, walks.vb_bytes(to_wire(rep))).hex())
    if not pdus:
        return None
    op = "getnext" if kind == "next" else "getbulk"
    return f"walk {op} {values.dotted(base).encode().hex()} {maxrep} {','.join(pdus)}"


def bulkiter_trace(mode, ncalls, outs):
    """drive the real GetBulkIter classes (sync_client/getbulk.py, async_client/client.py) over a scripted socket:
    outs = [("L", [int | None, ...]) | ("E", class name)]; returns the per-call outcomes as the model prints them"""
    import asyncio
    import gufo.snmp as pkg
    EXC = {"BlockingIOError": BlockingIOError, "StopAsyncIteration": StopAsyncIteration, "TimeoutError": TimeoutError,
           "SnmpDecodeError": pkg.SnmpDecodeError, "SnmpAuthError": pkg.SnmpAuthError}
    script = list(outs)

    def socket_call():
        if not script:
            raise RuntimeError("script exhausted")
        kind, arg = script.pop(0)
        if kind == "L":
            return [None if x is None else ("1.3.%d" % x, x) for x in arg]
        raise EXC[arg]()

    def show(f):
        try:
            v = f()
        except (StopIteration, StopAsyncIteration):
            return "S"
        except RuntimeError as e:
            return "X:Other" if "script exhausted" in str(e) else "X:RuntimeError"
        except BaseException as e:  # noqa: BLE001
            n = type(e).__name__
            return "X:" + (n[2:] if n.startswith("PySnmp") else n)
        if not (isinstance(v, tuple) and len(v) == 2):
            return f"?{v!r}"
        return f"i{v[1]}"
    res = []
    if mode == "sync":
        from gufo.snmp.sync_client.getbulk import GetBulkIter

        class Sock:
            def get_bulk(self, ctx):
                return socket_call()
        it = GetBulkIter(Sock(), "1.3.6", 10)
        for _ in range(ncalls):
            res.append(show(lambda: next(it)))
        return res
    from gufo.snmp.async_client.client import GetBulkIter as AIter

    class ASock:
        def send_get_bulk(self, ctx):
            pass

        def recv_get_bulk(self, ctx):
            return socket_call()

    class Sess:
        _sock = ASock()

        async def _send(self, f):
            f()

        async def _recv(self, f):
            return f()
    it = AIter(Sess(), "1.3.6", 10)
    loop = asyncio.new_event_loop()
    try:
        for _ in range(ncalls):
            res.append(show(lambda: loop.run_until_complete(it.__anext__())))
    finally:
        loop.close()
    return res


def nextiter_trace(mode, outs):
    """the real GetNextIter classes over a scripted socket; outs = [("V", int) | ("E", class name)]"""
    import asyncio
    import gufo.snmp as pkg
    EXC = {"BlockingIOError": BlockingIOError, "StopAsyncIteration": StopAsyncIteration, "TimeoutError": TimeoutError,
           "SnmpDecodeError": pkg.SnmpDecodeError, "SnmpAuthError": pkg.SnmpAuthError, "ValueError": ValueError}
    script = list(outs)

    def socket_call():
        kind, arg = script.pop(0)
        if kind == "V":
            return arg
        raise EXC[arg]()

    def show(f):
        try:
            return f"pyok {f()}"
        except BaseException as e:  # noqa: BLE001
            n = type(e).__name__
            return "pyerr " + (n[2:] if n.startswith("PySnmp") else n)
    res = []
    if mode == "sync":
        from gufo.snmp.sync_client.getnext import GetNextIter

        class Sock:
            def get_next(self, ctx):
                return socket_call()
        it = GetNextIter(Sock(), "1.3.6")
        return [show(lambda: next(it)) for _ in outs]
    from gufo.snmp.async_client.client import GetNextIter as AIter

    class ASock:
        def send_get_next(self, ctx):
            pass

        def recv_get_next(self, ctx):
            return socket_call()

    class Sess:
        _sock = ASock()

        async def _send(self, f):
            f()

        async def _recv(self, f):
            return f()
    it = AIter(Sess(), "1.3.6")
    loop = asyncio.new_event_loop()
    try:
        return [show(lambda: loop.run_until_complete(it.__anext__())) for _ in outs]
    finally:
        loop.close()


def bulkiter_expected(mode, ncalls, outs):
    """what the calls must give, written down from the documented behaviour of the iterator (independent of the Lean
    model): buffered rows are served in order without a socket call; the stop marker ends the iteration; an empty
    reply or StopAsyncIteration from the socket ends it; a socket timeout is TimeoutError; other errors propagate"""
    script = list(outs)
    buf = []
    res = []
    for _ in range(ncalls):
        if buf:
            v = buf.pop(0)
            res.append("S" if v is None else f"i{v}")
            continue
        if not script:
            res.append("X:Other")
            continue
        kind, arg = script.pop(0)
        if kind == "E":
            res.append("S" if arg == "StopAsyncIteration" else ("X:TimeoutError" if arg == "BlockingIOError" else f"X:{arg}"))
            continue
        buf = list(arg)
        if not buf:
            res.append("S")
            continue
        v = buf.pop(0)
        res.append("S" if v is None else f"i{v}")
    return res


def run(chk, model_ok=True):
    rng = random.Random(chk.seed)
    quick = chk.tier == "quick"
    env = e2e.env()
    peers = [e2e.Peer("v1"), e2e.Peer("v2c"), e2e.Peer("v3"), e2e.Peer("v3", auth=2, priv=2)]
    plan = [("raw", 1050 if quick else 30000), ("sync", 750 if quick else 22500), ("async", 90 if quick else 2250)]
    bad = 0
    n_walks = 0
    n_exch = 0
    hist = {}
    distinct = set()
    samples = []
    lines = []

    def fail(what, detail):
        nonlocal bad
        bad += 1
        if bad <= 5:
            chk.violation("oracle", what, {"kind": "oracle", "lines": [detail], "expected": what})

    for mode, n in plan:
        for _ in range(n):
            peer = rng.choice(peers)
            kind = rng.choice(["next", "bulk"]) if peer.kind != "v1" else "next"
            base, replies = hostile_walk(rng)
            maxrep = rng.choice([1, 2, 5, 20])
            wire = [to_wire(r) for r in replies]
            if mode == "raw":
                out = walks.run_raw(peer, kind, values.dotted(base), maxrep, wire, env)
            elif mode == "sync":
                # (sometimes the caller has just abandoned another GetBulk walk: its rows must not leak into this one)
                out = walks.run_sync(peer, kind, values.dotted(base), maxrep, wire, env, pre=rng.random() < 0.15)
            else:
                out = walks.run_async(peer, kind, values.dotted(base), maxrep, wire,
                                      pre=("1.3.6.1.4.1.99999.7", 6, 2) if peer.kind != "v1" and rng.random() < 0.2 else None)
            n_walks += 1
            n_exch += len(out.requests)
            exp, ending = walks.expected_walk(kind, base, [to_oracle(r) for r in replies])
            received = [values.dotted(n) for r in replies if r not in (None, walks.REPORT) for n, _ in r]
            detail = walk_line(kind, base, maxrep, replies) or f"{mode} {kind} base={values.dotted(base)}"
            desc = f"{mode}/{peer.label}/{kind} base={values.dotted(base)}"
            why = walks.safety_clauses(base, out, received)
            if why:
                fail(f"{desc}: {why}", detail)
                continue
            got = [(o, e2e.canon(v)) for o, v in out.yields]
            want = [(o, e2e.canon(v)) for o, v in exp]
            if got != want:
                fail(f"{desc}: yields {got[:4]}... differ from the walk specification {want[:4]}...", detail)
                continue
            if isinstance(out.ending, tuple) and not out.ending[2]:
                fail(f"{desc}: walk ended with {out.ending[1]} (not an Exception)", detail)
                continue
            e_got = out.ending if not isinstance(out.ending, tuple) else ("exc", out.ending[1])
            e_want = ending
            if e_want == "timeout":
                ok = e_got in (("exc", "TimeoutError"), ("exc", "BlockingIOError"))
            else:
                ok = e_got == e_want
            if not ok:
                fail(f"{desc}: walk ended with {e_got}, specification says {e_want}", detail)
                continue
            # follow-up requests name the last accepted OID
            req_oids = [tuple(r["varbinds"][0][0]) for r in out.requests if "varbinds" in r and r["varbinds"]]
            if req_oids != [tuple(x) for x in walks.LAST_REQS[:len(req_oids)]] or len(req_oids) != len(walks.LAST_REQS):
                fail(f"{desc}: request OIDs {req_oids[:5]} differ from the expected follow-ups {walks.LAST_REQS[:5]}", detail)
                continue
            hist[f"{mode}:{kind}:{e_got if isinstance(e_got, str) else e_got[1]}"] = hist.get(f"{mode}:{kind}:{e_got if isinstance(e_got, str) else e_got[1]}", 0) + 1
            distinct.add((mode, kind, base, len(exp), str(e_want)))
            ln = walk_line(kind, base, maxrep, replies)
            if ln:
                lines.append(ln)
            if len(samples) < 5 and exp:
                samples.append({"mode": mode, "session": peer.label, "kind": kind, "base": values.dotted(base),
                                "yields": [o for o, _ in exp][:5], "ending": str(e_want)})
    st = streams.Streams(chk, model_ok)
    st.add("walk-e2e-scripts", lines)
    st.add("walk", gens.lines_walk(rng, 4500 if quick else 90000))
    st.add("cmp", gens.lines_cmp(rng, 3000 if quick else 60000))
    st.run()
    for ln, out in zip(st.lines, st.impl):
        if out == "PANIC":
            fail("walk conversion panicked: " + ln[:160], ln)
    st.diff("C06 walk")
    st.coverage(
        "hostile agent scripts: 1..6 replies of 0..5 varbinds whose names are inside / equal to / parent of / sibling "
        "of / before the base, repeated and decreasing, with data, NULL and exception values at any position, Reports, "
        "missing replies; driven through the raw socket API, the sync iterator classes and the async client for v1, "
        "v2c, v3 (noAuth, SHA1+AES), GetNext and GetBulk. Oracle: the five clauses on observed yields and request "
        "OIDs plus an independent arc-level walk specification; iteration cap 400. The same scripts and a generated "
        "stream (incl. non-canonical OIDs) go through the Rust harness and the Lean model. distinct = distinct "
        "(mode, kind, base, yields, ending).",
        lambda ln, out: True)
    # the Python GetBulkIter wrappers on their own (buffer, stop marker, exception translation) against Py.bulkRun
    blines, bimpl = [], []
    for k in range(300 if quick else 12000):
        mode = "sync" if k % 2 == 0 else "async"
        ncalls = rng.randrange(1, 14)
        outs = []
        for _ in range(ncalls):
            r = rng.random()
            if r < 0.6:
                n_items = rng.choice([0, 1, 1, 2, 3, 5, 8, 25])
                items = [None if rng.random() < 0.15 else rng.randrange(1000) for _ in range(n_items)]
                outs.append(("L", items))
            else:
                names = ["StopAsyncIteration", "SnmpDecodeError", "SnmpAuthError", "TimeoutError"] + (["BlockingIOError"] if mode == "sync" else [])
                outs.append(("E", rng.choice(names)))
        enc = ";".join(("L:" + (".".join("N" if x is None else str(x) for x in o[1]) or "-")) if o[0] == "L" else f"E:{o[1]}" for o in outs)
        blines.append(f"bulkiter {ncalls} {enc}")
        got_tr = bulkiter_trace(mode, ncalls, outs)
        bimpl.append("ok " + ",".join(got_tr))
        want_tr = bulkiter_expected(mode, ncalls, outs)
        if got_tr != want_tr and bad < 5:
            bad += 1
            k0 = next(i for i, (a, b) in enumerate(zip(got_tr, want_tr)) if a != b)
            chk.violation("oracle", f"{mode} GetBulkIter over socket outcomes {enc[:120]}: call {k0 + 1} gave {got_tr[k0]}, the rows and "
                          f"markers received determine {want_tr[k0]} (all calls: {','.join(got_tr)[:120]} vs {','.join(want_tr)[:120]})",
                          {"kind": "oracle", "lines": [blines[-1]], "impl": [",".join(got_tr)], "expected": ",".join(want_tr)})
    if model_ok:
        mo, _, _ = common.run_model(blines)
        diffs = [(l, a, b) for l, a, b in zip(blines, bimpl, mo + ["<missing>"] * (len(blines) - len(mo))) if a != b]
        if diffs:
            # which side is right? the specification of the wrapper: rows before the marker in order, then stop; a
            # socket timeout is TimeoutError; nothing is dropped, nothing invented
            chk.violation("correspondence", f"GetBulkIter wrapper vs Py.bulkRun: {len(diffs)} of {len(blines)} traces differ; first: "
                          f"{diffs[0][0][:140]} python={diffs[0][1][:90]} model={diffs[0][2][:90]}",
                          {"kind": "correspondence", "stream": "bulkiter", "lines": [d[0] for d in diffs[:10]], "impl": [d[1] for d in diffs[:10]],
                           "model": [d[2] for d in diffs[:10]],
                           "broken": ["correspondence bulkiter: Lean Py.bulkRun vs sync_client/getbulk.py and async_client/client.py GetBulkIter"]})
    # the GetNextIter wrappers: what they hand on for each outcome of the socket step
    nlines, nimpl = [], []
    NAMES = ["StopAsyncIteration", "SnmpDecodeError", "SnmpAuthError", "TimeoutError", "ValueError"]
    for k in range(100 if quick else 4000):
        mode = "sync" if k % 2 == 0 else "async"
        outs = [("V", rng.randrange(-5, 1000)) if rng.random() < 0.5 else ("E", rng.choice(NAMES + (["BlockingIOError"] * 2 if mode == "sync" else [])))
                for _ in range(rng.randrange(1, 8))]
        nlines.append(f"nextiter {mode} " + ",".join(f"{a}:{b}" for a, b in outs))
        got = nextiter_trace(mode, outs)
        nimpl.append(";".join(got))
        want = [f"pyok {b}" if a == "V" else "pyerr " + ({"BlockingIOError": "TimeoutError", "StopAsyncIteration": "StopIteration"}.get(b, b) if mode == "sync" else b)
                for a, b in outs]
        if got != want and bad < 5:
            bad += 1
            chk.violation("oracle", f"{mode} GetNextIter over socket outcomes {nlines[-1][9:][:120]}: handed on {got}, documented: {want}",
                          {"kind": "oracle", "lines": [nlines[-1]], "impl": [";".join(got)], "expected": ";".join(want)})
    if model_ok:
        mo, _, _ = common.run_model(nlines)
        nd = [(l, a, b) for l, a, b in zip(nlines, nimpl, mo + ["<missing>"] * (len(nlines) - len(mo))) if a != b]
        if nd:
            chk.violation("correspondence", f"GetNextIter wrapper vs Py.syncNextMap / asyncNextMap: {len(nd)} of {len(nlines)} differ; first: "
                          f"{nd[0][0][:120]} python={nd[0][1][:80]} model={nd[0][2][:80]}",
                          {"kind": "correspondence", "stream": "nextiter", "lines": [d[0] for d in nd[:10]], "impl": [d[1] for d in nd[:10]],
                           "model": [d[2] for d in nd[:10]], "broken": ["correspondence nextiter: Lean Py.syncNextMap vs sync_client/getnext.py"]})
    chk.coverage["nextiter_traces"] = len(nlines)
    chk.coverage["bulkiter_traces"] = len(blines)
    chk.coverage["evaluations"] = n_walks + len(st.lines) + len(blines) + len(nlines)
    chk.coverage["distinct_nontrivial"] = len(distinct)
    chk.coverage["e2e_walks"] = n_walks
    chk.coverage["e2e_exchanges"] = n_exch
    chk.coverage["e2e_outcome_histogram"] = dict(sorted(hist.items()))
    chk.coverage["samples"] = samples or chk.coverage["samples"]


def replay(chk, path):
    with open(path) as f:
        rp = json.load(f)
    gsv, _ = common.build_gsv()
    out, _, _ = common.run_gsv(gsv, [l for l in rp.get("lines", []) if l.startswith("walk")])
    for o in out:
        print(o[:300])
    return 0
