"""C06 — a walk never leaves its subtree, never goes backwards, always ends."""
import json
import random
import sys

from vlib import common, e2e, gens, streams, values, walks

sys.path.insert(0, "/verif/harness/py")
import ber  # noqa: E402

NULLV, EXC = values.NULLV, values.EXC


def hostile_walk(rng):
    """base + replies with names around the base: inside / equal / parent / sibling / decreasing / repeated"""
    base = rng.choice([(1, 3, 6), (1, 3, 6, 1, 2, 1), (1, 3, 6, 128), (0, 0), (2, 39, 4294967295), (1, 3, 6, 1, 4, 1, 16383)])
    pool = []
    for _ in range(8):
        k = rng.randrange(8)
        if k <= 3:
            pool.append(base + tuple(rng.choice([0, 1, 2, 127, 128, 16383, 16384, 2 ** 32 - 1]) for _ in range(rng.randrange(1, 4))))
        elif k == 4:
            pool.append(base)
        elif k == 5:
            pool.append(base[:-1] + (base[-1] + 1,) if base[-1] < 2 ** 32 - 1 else base[:-1])
        elif k == 6:
            pool.append(base[:-1] if len(base) > 2 else (base[0], 0))
        else:
            pool.append(base[:-1] + (max(base[-1] - 1, 0), 5))
    pool.sort()
    replies = []
    for _ in range(rng.randrange(1, 7)):
        m = rng.randrange(12)
        if m == 0:
            replies.append([])
        elif m == 1:
            replies.append(walks.REPORT)
        elif m == 2:
            replies.append(None)
        else:
            n = rng.choice([1, 1, 1, 2, 3, 5])
            rep = []
            for _ in range(n):
                name = rng.choice(pool) if rng.random() < 0.85 else values.gen_arcs(rng)
                vk = rng.randrange(10)
                if vk == 0:
                    val = (ber.NULL, NULLV)
                elif vk == 1:
                    val = (rng.choice([ber.NOSUCHOBJECT, ber.NOSUCHINSTANCE, ber.ENDOFMIBVIEW]), EXC)
                else:
                    t = values.gen_value(rng, data_only=True, allow_real=False)
                    val = (t[0], t[1])
                rep.append((name, val))
            if rng.random() < 0.6:
                rep.sort(key=lambda x: x[0])
            replies.append(rep)
    return base, replies


def to_wire(rep):
    if rep is None or rep is walks.REPORT:
        return rep
    return [(n, v[0]) for n, v in rep]


def to_oracle(rep):
    if rep is None or rep is walks.REPORT:
        return rep
    return [(n, v[1]) for n, v in rep]


def walk_line(kind, base, maxrep, replies):
    """the same walk as a `walk` request for the Rust harness / the Lean model (replies until the first gap)"""
    pdus = []
    for rep in replies:
        if rep is None:
            break
        if rep is walks.REPORT:
            pdus.append(ber.pdu(8, 1, 0, 0, []).hex())
        else:
            pdus.append(ber.pdu(2, 1, 0, 0, walks.vb_bytes(to_wire(rep))).hex())
    if not pdus:
        return None
    op = "getnext" if kind == "next" else "getbulk"
    return f"walk {op} {values.dotted(base).encode().hex()} {maxrep} {','.join(pdus)}"


def run(chk, model_ok=True):
    rng = random.Random(chk.seed)
    quick = chk.tier == "quick"
    env = e2e.env()
    peers = [e2e.Peer("v1"), e2e.Peer("v2c"), e2e.Peer("v3"), e2e.Peer("v3", auth=2, priv=2)]
    plan = [("raw", 1050 if quick else 30000), ("sync", 750 if quick else 22500), ("async", 90 if quick else 2250)]
    bad = 0
    n_walks = 0
    n_exch = 0
    hist = {}
    distinct = set()
    samples = []
    lines = []

    def fail(what, detail):
        nonlocal bad
        bad += 1
        if bad <= 5:
            chk.violation("oracle", what, {"kind": "oracle", "lines": [detail], "expected": what})

    for mode, n in plan:
        for _ in range(n):
            peer = rng.choice(peers)
            kind = rng.choice(["next", "bulk"]) if peer.kind != "v1" else "next"
            base, replies = hostile_walk(rng)
            maxrep = rng.choice([1, 2, 5, 20])
            wire = [to_wire(r) for r in replies]
            if mode == "raw":
                out = walks.run_raw(peer, kind, values.dotted(base), maxrep, wire, env)
            elif mode == "sync":
                # (sometimes the caller has just abandoned another GetBulk walk: its rows must not leak into this one)
                out = walks.run_sync(peer, kind, values.dotted(base), maxrep, wire, env, pre=rng.random() < 0.15)
            else:
                out = walks.run_async(peer, kind, values.dotted(base), maxrep, wire,
                                      pre=("1.3.6.1.4.1.99999.7", 6, 2) if peer.kind != "v1" and rng.random() < 0.2 else None)
            n_walks += 1
            n_exch += len(out.requests)
            exp, ending = walks.expected_walk(kind, base, [to_oracle(r) for r in replies])
            received = [values.dotted(n) for r in replies if r not in (None, walks.REPORT) for n, _ in r]
            detail = walk_line(kind, base, maxrep, replies) or f"{mode} {kind} base={values.dotted(base)}"
            desc = f"{mode}/{peer.label}/{kind} base={values.dotted(base)}"
            why = walks.safety_clauses(base, out, received)
            if why:
                fail(f"{desc}: {why}", detail)
                continue
            got = [(o, e2e.canon(v)) for o, v in out.yields]
            want = [(o, e2e.canon(v)) for o, v in exp]
            if got != want:
                fail(f"{desc}: yields {got[:4]}... differ from the walk specification {want[:4]}...", detail)
                continue
            if isinstance(out.ending, tuple) and not out.ending[2]:
                fail(f"{desc}: walk ended with {out.ending[1]} (not an Exception)", detail)
                continue
            e_got = out.ending if not isinstance(out.ending, tuple) else ("exc", out.ending[1])
            e_want = ending
            if e_want == "timeout":
                ok = e_got in (("exc", "TimeoutError"), ("exc", "BlockingIOError"))
            else:
                ok = e_got == e_want
            if not ok:
                fail(f"{desc}: walk ended with {e_got}, specification says {e_want}", detail)
                continue
            # follow-up requests name the last accepted OID
            req_oids = [tuple(r["varbinds"][0][0]) for r in out.requests if "varbinds" in r and r["varbinds"]]
            if req_oids != [tuple(x) for x in walks.LAST_REQS[:len(req_oids)]] or len(req_oids) != len(walks.LAST_REQS):
                fail(f"{desc}: request OIDs {req_oids[:5]} differ from the expected follow-ups {walks.LAST_REQS[:5]}", detail)
                continue
            hist[f"{mode}:{kind}:{e_got if isinstance(e_got, str) else e_got[1]}"] = hist.get(f"{mode}:{kind}:{e_got if isinstance(e_got, str) else e_got[1]}", 0) + 1
            distinct.add((mode, kind, base, len(exp), str(e_want)))
            ln = walk_line(kind, base, maxrep, replies)
            if ln:
                lines.append(ln)
            if len(samples) < 5 and exp:
                samples.append({"mode": mode, "session": peer.label, "kind": kind, "base": values.dotted(base),
                                "yields": [o for o, _ in exp][:5], "ending": str(e_want)})
    st = streams.Streams(chk, model_ok)
    st.add("walk-e2e-scripts", lines)
    st.add("walk", gens.lines_walk(rng, 4500 if quick else 90000))
    st.add("cmp", gens.lines_cmp(rng, 3000 if quick else 60000))
    st.run()
    for ln, out in zip(st.lines, st.impl):
        if out == "PANIC":
            fail("walk conversion panicked: " + ln[:160], ln)
    st.diff("C06 walk")
    st.coverage(
        "hostile agent scripts: 1..6 replies of 0..5 varbinds whose names are inside / equal to / parent of / sibling "
        "of / before the base, repeated and decreasing, with data, NULL and exception values at any position, Reports, "
        "missing replies; driven through the raw socket API, the sync iterator classes and the async client for v1, "
        "v2c, v3 (noAuth, SHA1+AES), GetNext and GetBulk. Oracle: the five clauses on observed yields and request "
        "OIDs plus an independent arc-level walk specification; iteration cap 400. The same scripts and a generated "
        "stream (incl. non-canonical OIDs) go through the Rust harness and the Lean model. distinct = distinct "
        "(mode, kind, base, yields, ending).",
        lambda ln, out: True)
    chk.coverage["evaluations"] = n_walks + len(st.lines)
    chk.coverage["distinct_nontrivial"] = len(distinct)
    chk.coverage["e2e_walks"] = n_walks
    chk.coverage["e2e_exchanges"] = n_exch
    chk.coverage["e2e_outcome_histogram"] = dict(sorted(hist.items()))
    chk.coverage["samples"] = samples or chk.coverage["samples"]


def replay(chk, path):
    with open(path) as f:
        rp = json.load(f)
    gsv, _ = common.build_gsv()
    out, _, _ = common.run_gsv(gsv, [l for l in rp.get("lines", []) if l.startswith("walk")])
    for o in out:
        print(o[:300])
    return 0
