"""C09 — every outgoing authenticated message carries a correct HMAC-96."""
import hashlib
import hmac
import json
import random
import sys

from vlib import common, e2e, sessions, streams

sys.path.insert(0, "/verif/harness/py")
import ber  # noqa: E402
import usm  # noqa: E402

HASH = {1: hashlib.md5, 2: hashlib.sha1}


def a2_password_to_key(alg, pw):
    """RFC 3414 A.2.1 / A.2.2, written from the RFC text"""
    h = HASH[alg]()
    n = len(pw)
    count = 0
    idx = 0
    while count < 1048576:
        buf = bytes(pw[(idx + i) % n] for i in range(64))
        idx = (idx + 64) % n
        h.update(buf)
        count += 64
    return h.digest()


_P2K = {}
_CHECKED = [0]


def p2k_fast(alg, pw):
    """closed form of A.2 (digest of the first 2^20 octets of the repeated password); the first few
    results of every run are cross-checked against the RFC's own loop above"""
    n = -(-1048576 // len(pw))
    v = HASH[alg]((pw * n)[:1048576]).digest()
    if _CHECKED[0] < 3:
        _CHECKED[0] += 1
        if a2_password_to_key(alg, pw) != v:
            raise RuntimeError("oracle self-check failed: closed form != RFC 3414 A.2 loop")
    return v


def user_key(alg, secret, kt, engine_id):
    """the user's key localized to `engine_id`, from the secret the client was configured with"""
    ks = 16 if alg == 1 else 20
    if kt in ("localized", "master"):
        # user.py aligns master and localized keys to the digest's key size: zero octets are added BEHIND a short key,
        # a long one is cut (its documented behaviour)
        secret = bytes(secret).ljust(ks, b"\x00")[:ks]
    if kt == "localized":
        return secret
    if kt == "master":
        ku = secret
    else:
        k = (alg, secret)
        if k not in _P2K:
            _P2K[k] = p2k_fast(alg, secret)
        ku = _P2K[k]
    return HASH[alg](ku + engine_id + ku).digest()


def check_mac(state, dg):
    """independent reading of one emitted v3 datagram; returns None or a reason"""
    try:
        d = ber.decode_message(dg)
    except ber.BerError as ex:
        return f"datagram does not decode: {ex}"
    if d["version"] != 3:
        return "not a v3 message"
    ap = d["auth_params"]
    if not state.auth_alg:
        if d["flags"] & 1:
            return "auth flag set by a session that holds no authentication key"
        if ap != b"":
            return f"msgAuthenticationParameters {ap.hex()} not empty without a key"
        return None
    if not d["flags"] & 1:
        return "auth flag clear although the session holds an authentication key"
    if len(ap) != 12:
        return f"msgAuthenticationParameters has {len(ap)} octets, not 12"
    off = d["auth_params_offset"]
    if dg[off:off + 12] != ap:
        return "decoder offset inconsistent"
    zeroed = dg[:off] + bytes(12) + dg[off + 12:]
    key = user_key(state.auth_alg, state.auth_secret, state.auth_key_type, d["engine_id"])
    want = hmac.new(key, zeroed, HASH[state.auth_alg]).digest()[:12]
    if want != ap:
        return (f"MAC {ap.hex()} is not HMAC-{'MD5' if state.auth_alg == 1 else 'SHA'}-96 of the message "
                f"({want.hex()}) under the key localized to engine id {d['engine_id'].hex()} (field at offset {off})")
    return None


def lines_sign(rng, n):
    out = []
    for _ in range(n):
        alg = rng.choice(["md5", "sha1"])
        kl = 16 if alg == "md5" else 20
        if rng.random() < 0.1:
            kl = rng.choice([0, 1, 15, 17, 19, 21, 32, 64, 65])
        key = bytes(rng.getrandbits(8) for _ in range(kl))
        ln = rng.choice([0, 5, 11, 12, 13, 40, 64, 100, 127, 128, 200, 300, 1500])
        data = bytes(rng.getrandbits(8) for _ in range(ln))
        off = rng.choice([0, 1, max(0, ln - 12), max(0, ln - 11), ln, ln + 5, rng.randrange(0, ln + 1)])
        out.append(f"sign {alg} {key.hex() or '-'} {off} {data.hex() or '-'}")
    return out


def sign_oracle(ln, out):
    p = ln.split(" ")
    alg = 1 if p[1] == "md5" else 2
    key = b"" if p[2] == "-" else bytes.fromhex(p[2])
    off = int(p[3])
    data = b"" if p[4] == "-" else bytes.fromhex(p[4])
    if out == "PANIC":
        # the pub fn indexes data[offset..offset+12]; the session always passes the bookmark (theorem
        # v3_bookmark_offset: inside the datagram), so only an in-range panic is a finding
        # (likewise the raw SnmpAuth::as_localized copies a key of exactly the digest size; callers reach it
        # through as_key_type, which checks the size - C12)
        ok_key = len(key) == (16 if alg == 1 else 20)
        return "sign panicked on a valid key and in-range offset" if ok_key and off + 12 <= len(data) else None
    if not out.startswith("ok "):
        if len(key) == (16 if alg == 1 else 20) and off + 12 <= len(data):
            return f"valid sign request refused: {out}"
        return None
    got = bytes.fromhex(out[3:]) if out[3:] != "-" else b""
    if off + 12 > len(data):
        return "sign succeeded although the 12 octets do not fit"
    zeroed = data[:off] + bytes(12) + data[off + 12:]
    # the library signs whatever is in the buffer (the caller zeroes the field): recompute over the given data
    want = hmac.new(key, data, HASH[alg]).digest()[:12]
    if got != data[:off] + want + data[off + 12:]:
        return "sign() did not splice HMAC-96 of the buffer at the offset"
    return None


def run(chk, model_ok=True):
    rng = random.Random(chk.seed)
    quick = chk.tier == "quick"
    env = e2e.env()
    bad = 0

    def fail(what, line):
        nonlocal bad
        bad += 1
        if bad <= 5:
            chk.violation("oracle", what, {"kind": "oracle", "lines": [line[:400000]], "expected": what})

    # 1. sign() on arbitrary buffers and offsets: implementation vs model vs hashlib
    st = streams.Streams(chk, model_ok)
    st.add("sign", lines_sign(rng, 900 if quick else 18000))
    st.run()
    for ln, out in zip(st.lines, st.impl):
        if out in ("<nobuild>", "<died>"):
            continue
        why = sign_oracle(ln, out)
        if why:
            fail(why, ln)
    st.diff("sign")
    # 2. session histories: every digest x cipher x key type, identities that move the offset
    n_hist = 120 if quick else 2700
    all_sess = []
    n_msg = 0
    hist = {}
    distinct = set()
    samples = []
    for h in range(n_hist):
        peers = [sessions.rand_v3_peer(rng) for _ in range(3)] + [e2e.Peer("v2c")]
        if h % 3 == 0:
            # a master / localized key shorter than the digest's key size, as a user may type it in: user.py fills it up
            a_ = rng.choice([1, 2])
            peers.append(e2e.Peer("v3", auth=a_, priv=rng.choice([0, 1, 2]), engine_id=bytes(rng.getrandbits(8) for _ in range(12)),
                                  user="shortkey", auth_pw=bytes(rng.getrandbits(8) | 1 for _ in range(rng.choice([1, 9, 15]))),
                                  priv_pw=bytes(rng.getrandbits(8) | 1 for _ in range(rng.choice([1, 9, 15]))),
                                  auth_kt=rng.choice(["master", "localized"]), priv_kt=rng.choice(["master", "localized"]), raw_secrets=True))
        if h % 5 == 0:
            peers.append(sessions.rand_v3_peer(rng, discover=True))
        ss = sessions.run_history(env, rng, peers, rng.randrange(1, 4), rng.randrange(5, 30), oversize_bias=0.04)
        for s in ss:
            all_sess.append(s)
            if s.peer.kind != "v3":
                continue
            for rec in s.records:
                if rec["kind"] != "send":
                    continue
                for dg in rec["datagrams"]:
                    n_msg += 1
                    why = check_mac(s.peer.state, dg)
                    d = rec["req"] or {}
                    k = f"{s.label.split(':')[1]}:{s.label.split(':')[2]}:{s.peer.state.auth_key_type}"
                    hist[k] = hist.get(k, 0) + 1
                    distinct.add((k, len(dg), d.get("auth_params_offset")))
                    if why:
                        fail(f"{s.label} {rec['op']}: {why}", s.line())
                    elif len(samples) < 4 and s.peer.state.auth_alg:
                        samples.append({"session": s.label, "datagram_len": len(dg), "mac_offset": d.get("auth_params_offset")})
    # the real sync and async clients (engine id given, None or b"", lost discovery probes): every request they emit
    from props import c13
    n_cli = 0
    for key, script, r, why in c13.client_cases(rng, 24 if quick else 480):
        n_cli += 1
        if why and any(w in why for w in ("MAC", "auth flag", "msgAuthenticationParameters", "security flags", "failed with")):
            fail(f"{key}: {why}", f"# client {key}")
        n_msg += len(script.requests)
    nl, nd = sessions.model_compare(chk, all_sess, model_ok)
    offs = sorted({d[2] for d in distinct if d[2] is not None})
    chk.coverage.update({
        "evaluations": n_msg + len(st.lines),
        "distinct_nontrivial": len(distinct),
        "rule": "every datagram emitted in random session histories (1..3 sessions sharing the buffer pool, 5..30 calls, "
                "replies / timeouts / oversized requests in between) by v3 sessions with random identities: engine id "
                "5..32 octets, user name 0..32, boots/time at 1..4-octet widths, {none, MD5, SHA-1} x {none, DES, AES} x "
                "{password, master, localized}; the MAC is recomputed with Python hmac/hashlib under a key derived from the "
                "RFC 3414 A.2 text and localized to the engine id in the message; plus sign() on random buffers/offsets/keys. "
                "distinct = distinct (digest, cipher, key type, datagram length, MAC offset).",
        "samples": samples,
        "messages_checked": n_msg, "client_runs": n_cli, "per_configuration": dict(sorted(hist.items())),
        "mac_offsets_seen": [offs[0], offs[-1], len(offs)] if offs else [],
        "session_lines": nl, "session_lines_disagreeing": nd,
        "sign_requests": len(st.lines),
        "traces_validated_against_impl": nl + len(st.lines) if model_ok else 0,
    })
    chk.assumptions += ["hashlib MD5 / SHA-1 and Python's hmac are the reference",
                        "random ids and salt seeds are read off the wire and fed to the model as inputs"]


def replay(chk, path):
    with open(path) as f:
        rp = json.load(f)
    out, _, _ = common.run_model(rp.get("lines", []))
    for o in out:
        print(o[:400])
    return 0
