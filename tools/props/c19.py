"""C19 — the rate limiter never lets the request rate exceed rps."""
import importlib.util
import json
import math
import os
import random

from vlib import common


def load_policer():
    path = os.path.join(common.REPO, "src", "gufo", "snmp", "policer.py")
    spec = importlib.util.spec_from_file_location("verif_policer_impl", path)
    m = importlib.util.module_from_spec(spec)
    spec.loader.exec_module(m)
    return m


def gen_history(rng, delta, n, admissible=True):
    """call times; admissible: each call at or after the previous release"""
    kinds = ["short", "exact", "long", "zero", "huge", "just_under", "just_over", "multi"]
    ts = rng.choice([0, 1, rng.randrange(10 ** 6), rng.randrange(10 ** 15)])
    out = [ts]
    return kinds, out


def run_impl(mod, delta_or_rps, tss, by_delta=True):
    p = mod.RPSPolicer(1.0)
    p._delta = delta_or_rps
    p._prev = None
    outs = []
    for ts in tss:
        outs.append(p.get_timeout(ts))
    return outs


def release(ts, t):
    return ts + t if (t and t > 0) else ts


def histories(rng, n_hist, max_len):
    """yield (delta, [ts...], admissible) driving the real get_timeout as transition function"""
    deltas = [1, 2, 3, 7, 10, 100, 1000, 10 ** 6, 10 ** 9, 333333333, 2 ** 31, 2 ** 63 + 5]
    for h in range(n_hist):
        delta = rng.choice(deltas) if rng.random() < 0.7 else rng.randrange(1, 10 ** rng.randrange(1, 12))
        admissible = rng.random() < 0.85
        yield delta, admissible, rng.randrange(1, max_len + 1), rng.getrandbits(64)


def build_history(mod, delta, admissible, n, hseed):
    rng = random.Random(hseed)
    p = mod.RPSPolicer(1.0)
    p._delta = delta
    p._prev = None
    ts = rng.choice([0, 1, rng.randrange(10 ** 6), rng.randrange(10 ** 15), 2 ** 62])
    tss, outs = [], []
    for _ in range(n):
        tss.append(ts)
        t = p.get_timeout(ts)
        outs.append(t)
        rel = release(ts, t)
        k = rng.randrange(9)
        if k == 0:
            gap = 0
        elif k == 1:
            gap = rng.randrange(0, delta)            # shorter than the interval
        elif k == 2:
            gap = delta                               # exactly one interval
        elif k == 3:
            gap = delta - 1 if delta > 1 else 0
        elif k == 4:
            gap = delta + 1
        elif k == 5:
            gap = delta * rng.randrange(2, 50) + rng.randrange(0, delta)   # many intervals
        elif k == 6:
            gap = delta * rng.randrange(2, 50)                             # whole intervals
        elif k == 7:
            gap = rng.randrange(0, 3 * delta + 1)
        else:
            gap = rng.randrange(10 ** 12)
        ts = rel + gap
        if not admissible and rng.random() < 0.3:
            ts = rel - rng.randrange(1, 2 * delta + 2)   # clock step-back / overlapping use
    return tss, outs


def oracle(delta, tss, outs):
    """the two inequalities of the property on the observed releases"""
    rels = [release(ts, t) for ts, t in zip(tss, outs)]
    for i, (ts, r) in enumerate(zip(tss, rels)):
        if r < ts or r - ts > delta:
            return f"call {i}: delayed by {r - ts} > interval {delta}"
    # window: r[j] - r[i] > (j - i - 1) * delta for all i < j  (checked via running minimum)
    # equivalent: (r[j] - j*delta) > (r[i] - (i+1)*delta) for all i<j
    best = None
    for j, r in enumerate(rels):
        if best is not None and not (r - j * delta > best[0]):
            i = best[1]
            return (f"releases {i}..{j}: span {r - rels[i]} <= {(j - i - 1)} intervals of {delta} "
                    f"({j - i + 1} releases)")
        cand = r - (j + 1) * delta
        if best is None or cand > best[0]:
            best = (cand, j)
    return None


CTOR_RPS = [0, -1, -0.0, 0.0, -1e-9, 1e-300, 1e-9, 0.001, 0.5, 1, 3, 7.5, 1000, 10 ** 9, 10 ** 9 + 1,
            999999999.9, 2e9, 1e10, 1e300, float("inf"), float("-inf"), float("nan")]


def run(chk, model_ok=True):
    rng = random.Random(chk.seed)
    mod = load_policer()
    n_hist = 8000 if chk.tier == "quick" else 400000
    max_len = 40 if chk.tier == "quick" else 120
    lines, expected, metas = [], [], []
    gap_hist = {}
    distinct = set()
    n_adm = 0
    for delta, admissible, n, hseed in histories(rng, n_hist, max_len):
        tss, outs = build_history(mod, delta, admissible, n, hseed)
        line = f"policer {delta} {','.join(str(t) for t in tss)}"
        lines.append(line)
        expected.append("ok " + ",".join("n" if t is None else str(t) for t in outs))
        metas.append((delta, tss, outs, admissible))
        kinds = tuple(("n" if t is None else ("d" if t == delta else "s")) for t in outs)
        distinct.add((delta, kinds))
        for t in outs:
            k = "none" if t is None else ("full" if t == delta else "partial")
            gap_hist[k] = gap_hist.get(k, 0) + 1
        if admissible:
            n_adm += 1
            bad = oracle(delta, tss, outs)
            if bad:
                chk.violation("oracle", f"RPSPolicer(delta={delta}) {bad}",
                              {"kind": "oracle", "lines": [line], "impl": [expected[-1]], "expected": bad})
    # constructor
    ctor_lines, ctor_expected = [], []
    for rps in CTOR_RPS:
        try:
            p = mod.RPSPolicer(rps)
            got = f"ok {p._delta}"
            if not (rps > 0) or p._delta < 1:
                chk.violation("oracle", f"RPSPolicer({rps!r}) accepted with interval {p._delta}",
                              {"kind": "oracle", "lines": [f"RPSPolicer({rps!r})"], "impl": [got]})
        except ValueError:
            got = "pyerr ValueError"
            if rps > 0 and not math.isinf(rps) and int(1e9 / rps) >= 1:
                chk.violation("oracle", f"RPSPolicer({rps!r}) refused although the rate is representable",
                              {"kind": "oracle", "lines": [f"RPSPolicer({rps!r})"], "impl": [got]})
        except Exception as e:  # noqa: BLE001
            got = f"pyerr {type(e).__name__}"
            # the property speaks about non-positive and too-high rates only; a vanishing positive
            # rate (interval beyond float range) raising OverflowError is outside its statement
            if not (rps > 0) or (not math.isinf(rps) and rps >= 1 and int(1e9 / rps) == 0) or math.isinf(rps):
                chk.violation("oracle", f"RPSPolicer({rps!r}) raised {type(e).__name__}, not ValueError",
                              {"kind": "oracle", "lines": [f"RPSPolicer({rps!r})"], "impl": [got]})
        pos = 0 if (rps <= 0) else 1
        if rps != rps:
            q = None
        else:
            try:
                q = int(mod.NS / rps) if rps != 0 else 0
            except (OverflowError, ValueError):
                q = None
        if q is not None:
            ctor_lines.append(f"policerctor {pos} {q}")
            ctor_expected.append(got)
    lines += ctor_lines
    expected += ctor_expected
    # wait() / wait_sync() on a fake clock, compared with the model's release times
    wlines, wrels, n_wait = fake_clock_waits(chk, mod, rng, 1000 if chk.tier == "quick" else 40000)
    if model_ok and wlines:
        mout, _, _ = common.run_model(wlines)
        for ln, rels, mo in zip(wlines, wrels, mout):
            calls = [int(x) for x in ln.split(" ")[2].split(",")]
            ts = [None if x == "n" else int(x) for x in mo[3:].split(",")]
            mrel = [release(c, t) for c, t in zip(calls, ts)]
            if mrel != rels:
                chk.violation("correspondence", f"release times of wait()/wait_sync() differ from the model: {ln[:120]}",
                              {"kind": "correspondence", "lines": [ln], "impl": [str(rels)], "model": [str(mrel)],
                               "broken": ["correspondence policer.py wait()/wait_sync() <-> Policer.release"]},
                              no_input=True)
                break
    n_sess = session_policing(chk)
    if model_ok:
        model, rc, err = common.run_model(lines)
        diffs = common.diff_streams(lines, expected, model)
        if diffs:
            k, req, a, b = diffs[0]
            chk.violation("correspondence",
                          f"model and RPSPolicer disagree on {len(diffs)} of {len(lines)} histories; first: {req[:120]}",
                          {"kind": "correspondence", "stream": "policer", "lines": [req], "impl": [a], "model": [b],
                           "broken": ["correspondence policer.py <-> GufoSnmp.Policer.getTimeout"]},
                          no_input=True)
    chk.coverage.update({
        "evaluations": len(lines) + n_wait + n_sess,
        "distinct_nontrivial": len(distinct),
        "rule": "histories generated with the real RPSPolicer.get_timeout as transition function: interval "
                "from a boundary-biased set, each next call at previous release + gap, gap in {0, <interval, "
                "=interval, interval±1, k*interval, k*interval+r, random}; 15% of histories also step the clock back "
                "(correspondence only, not admissible for the oracle). distinct = distinct (interval, pattern of "
                "none/full/partial delays); all have >= 1 call.",
        "samples": [lines[0][:200], lines[len(lines) // 2][:200], ctor_lines[0]],
        "traces_validated_against_impl": len(lines),
        "admissible_histories_checked_by_oracle": n_adm,
        "delay_kind_histogram": gap_hist,
        "constructor_probes": len(CTOR_RPS),
        "fake_clock_wait_histories": n_wait,
        "session_level_policing_scenarios": n_sess,
    })
    chk.assumptions += [
        "float division NS / rps and int() truncation in RPSPolicer.__init__ are trusted (the model takes the quotient as input)",
        "wait()/wait_sync() sleep for the returned delay (time.sleep / asyncio.sleep and the clock are outside the model)",
    ]


def fake_clock_waits(chk, mod, rng, n_hist):
    """wait() / wait_sync() on a fake clock: the release time of each request is the clock after the wait"""
    import asyncio
    clock = {"t": 0, "slept": []}

    def fake_sleep(sec):
        ns = int(round(sec * mod.NS))
        clock["slept"].append(ns)
        clock["t"] += ns

    class FakeAsyncio:
        @staticmethod
        async def sleep(sec):
            fake_sleep(sec)
    saved = (mod.perf_counter_ns, mod.sleep, mod.asyncio)
    mod.perf_counter_ns = lambda: clock["t"]
    mod.sleep = fake_sleep
    mod.asyncio = FakeAsyncio
    lines, want = [], []
    n = 0
    try:
        for h in range(n_hist):
            delta = rng.choice([1, 2, 7, 100, 999_999, 1_000_000, 1_000_001, 10 ** 8, 333_333_333, 10 ** 9, 2 ** 33])
            use_async = rng.random() < 0.5
            p = mod.RPSPolicer(1.0)
            p._delta, p._prev = delta, None
            clock["t"] = rng.choice([0, 5, rng.randrange(10 ** 12)])
            calls, rels = [], []
            for _ in range(rng.randrange(1, 25)):
                calls.append(clock["t"])
                if use_async:
                    asyncio.run(p.wait())
                else:
                    p.wait_sync()
                rels.append(clock["t"])
                k = rng.randrange(8)
                gap = [0, rng.randrange(0, delta), delta, max(delta - 1, 0), delta + 1, 1,
                       delta * rng.randrange(2, 9) + rng.randrange(0, delta), rng.randrange(0, 3 * delta + 1)][k]
                clock["t"] += gap
            n += 1
            outs = [r - c if r != c else None for c, r in zip(calls, rels)]
            bad = oracle(delta, calls, outs)
            line = f"policer {delta} {','.join(str(c) for c in calls)}"
            if bad:
                chk.violation("oracle", f"{'wait' if use_async else 'wait_sync'}() with interval {delta} ns: {bad}",
                              {"kind": "oracle", "lines": [line], "impl": [str(rels)], "expected": bad,
                               "note": "release times observed on a fake clock driving wait()/wait_sync()"})
            lines.append(line)
            want.append(rels)
    finally:
        mod.perf_counter_ns, mod.sleep, mod.asyncio = saved
    return lines, want, n


async def _mk_async(cls, port, version, given):
    return cls("127.0.0.1", port=port, community="public", version=version, timeout=0.05, policer=given, limit_rps=50)


def session_policing(chk):
    """every request of a rate-limited session is preceded by exactly one policer wait (sync and async clients)"""
    import sys
    sys.path.insert(0, "/verif/harness/py")
    import ber
    from vlib import e2e
    env = e2e.env()
    from gufo.snmp.policer import BasePolicer, RPSPolicer
    from gufo.snmp import SnmpVersion
    events = []

    class Counting(BasePolicer):
        def get_timeout(self, ts):
            return None

        async def wait(self):
            events.append("wait")
            who.append(id(self))

        def wait_sync(self):
            events.append("wait")
            who.append(id(self))
    who = []        # which policer object each wait went to: the session has ONE limiter, shared by all its request sources
    n = 0
    peer = e2e.Peer("v2c")
    rows = [((1, 3, 6, 1, k), ber.INT(k)) for k in range(1, 8)]

    def reply(req, who_=None):
        o = tuple(req["varbinds"][0][0]) if req.get("varbinds") else ()
        later = [r for r in rows if r[0] > o]
        if req["pdu_type"] == 5:
            out = later[:2]
            vbs = [ber.varbind(a, v) for a, v in out] or [ber.varbind(o, ber.ENDOFMIBVIEW)]
        elif req["pdu_type"] == 1:
            vbs = [ber.varbind(*later[0])] if later else [ber.varbind(o, ber.ENDOFMIBVIEW)]
        else:
            vbs = [ber.varbind(a, ber.INT(1)) for a, _, _ in req["varbinds"]]
        return [peer.response(req, vbs)]
    # sync client
    from gufo.snmp.sync_client import SnmpSession
    for what in ("get", "get_many", "getnext", "getbulk", "fetch", "fetch-nobulk"):
        del events[:]
        conv = e2e.Conv(peer, env)
        sess = SnmpSession("127.0.0.1", port=env.agent.port, community="public", version=SnmpVersion.v2c,
                           timeout=0.05, policer=Counting(), max_repetitions=2, allow_bulk=what != "fetch-nobulk")

        def script(op, req):
            events.append("req")
            return reply(req)
        sess._sock = e2e.SockShim(conv, script)
        if what == "get":
            sess.get("1.3.6.1.1")
        elif what == "get_many":
            sess.get_many(["1.3.6.1.1", "1.3.6.1.2"])
        elif what == "getnext":
            list(sess.getnext("1.3.6.1"))
        elif what == "getbulk":
            list(sess.getbulk("1.3.6.1"))
        else:
            list(sess.fetch("1.3.6.1"))
        n += 1
        nreq = events.count("req")
        ok = events == ["wait", "req"] * nreq and nreq >= 1
        if not ok:
            chk.violation("oracle", f"sync SnmpSession.{what} with a policer: {nreq} requests but the policer was consulted "
                          f"{events.count('wait')} times (events {events[:12]})",
                          {"kind": "oracle", "lines": [f"sync {what}"], "impl": [str(events)],
                           "expected": "one policer wait before every request"})
    # several request sources on ONE sync session (walks interleaved with gets, walks one after another): all of them
    # draw from the session's limiter — the very object the caller configured
    del events[:]
    del who[:]
    mine = Counting()
    conv = e2e.Conv(peer, env)
    sess = SnmpSession("127.0.0.1", port=env.agent.port, community="public", version=SnmpVersion.v2c, timeout=0.05, policer=mine,
                       max_repetitions=2)

    def script2(op, req):
        events.append("req")
        return reply(req)
    sess._sock = e2e.SockShim(conv, script2)
    for _row in sess.getnext("1.3.6.1"):
        sess.get("1.3.6.1.1")
    for _ in range(2):
        list(sess.getbulk("1.3.6.1"))
    list(sess.fetch("1.3.6.1"))
    n += 1
    nreq = events.count("req")
    if events != ["wait", "req"] * nreq or any(w != id(mine) for w in who) or len(who) != nreq:
        chk.violation("oracle", f"sync session, walks interleaved with gets: {nreq} requests, {len(who)} waits of which "
                      f"{sum(1 for w in who if w == id(mine))} went to the session's policer (the rest to some other limiter object, "
                      "whose slots the session's other requests do not see)",
                      {"kind": "oracle", "lines": ["sync mixed sources"], "impl": [str(events[:20])],
                       "expected": "every request preceded by one wait on the configured policer"})
    # an explicit policer is the session's limiter even when limit_rps is given too ("policer overrides limit_rps")
    for mode in ("sync", "async"):
        given = Counting()
        if mode == "sync":
            sx = SnmpSession("127.0.0.1", port=env.agent.port, community="public", version=SnmpVersion.v2c, timeout=0.05,
                             policer=given, limit_rps=50)
        else:
            from gufo.snmp.async_client import SnmpSession as ASession0
            sx = e2e.run_coro(_mk_async(ASession0, env.agent.port, SnmpVersion.v2c, given), 5.0)
        n += 1
        if getattr(sx, "_policer", None) is not given:
            chk.violation("oracle", f"{mode} SnmpSession(policer=P, limit_rps=50): the session's limiter is {type(getattr(sx, '_policer', None)).__name__}, "
                          "not the policer that was passed", {"kind": "oracle", "lines": [f"{mode} policer+limit_rps"]})
    # async client: community sessions and authenticated v3 sessions (whose refresh handshake must not switch policing off)
    from props import c18
    apeers = [peer, e2e.Peer("v3", auth=1, priv=0, auth_kt="localized"), e2e.Peer("v3", auth=2, priv=2, auth_kt="localized", priv_kt="localized")]
    for what, peer in [(w, p) for p in apeers for w in (("get", "get_many", "getnext", "getbulk", "fetch") if p is apeers[0] else ("get", "getbulk"))]:
        del events[:]

        def ascript(dg, peer=peer):
            events.append("req")
            req = peer.decode(dg)
            if peer.kind == "v3" and req["pdu_type"] == 0 and not req["varbinds"]:
                return [peer.state.report(req["request_id"], req["msg_id"], auth=bool(peer.state.auth_alg))]
            return reply(req)

        class SockProxy:
            """the session's socket with every send_* call logged at the moment it is made (the policer must have
            been consulted BEFORE the request leaves, not after)"""

            def __init__(self, inner):
                self._inner = inner

            def __getattr__(self, name):
                attr = getattr(self._inner, name)
                if name.startswith("send_"):
                    def logged(*a, **k):
                        events.append("send")
                        return attr(*a, **k)
                    return logged
                return attr

        async def main(port):
            from gufo.snmp.async_client import SnmpSession as ASession
            s = ASession("127.0.0.1", port=port, timeout=1.0, policer=Counting(), max_repetitions=2, **c18.session_kwargs(peer))
            s._sock = SockProxy(s._sock)
            if what == "get":
                await s.get("1.3.6.1.1")
            elif what == "get_many":
                await s.get_many(["1.3.6.1.1"])
            else:
                it = {"getnext": s.getnext, "getbulk": s.getbulk, "fetch": s.fetch}[what]("1.3.6.1")
                async for _ in it:
                    pass
        e2e.run_async(main, ascript)
        n += 1
        nreq = events.count("req")
        order = [e for e in events if e != "req"]
        if order != ["wait", "send"] * (len(order) // 2) or len(order) != 2 * nreq:
            chk.violation("oracle", f"async SnmpSession.{what} ({peer.label}) with a policer: the policer must be awaited before each request is "
                          f"handed to the socket; observed {order[:12]} for {nreq} requests",
                          {"kind": "oracle", "lines": [f"async {what}"], "impl": [str(events)],
                           "expected": "wait, send, wait, send, ..."})
        events[:] = [e for e in events if e != "send"]
        if not (events == ["wait", "req"] * nreq and nreq >= 1):
            chk.violation("oracle", f"async SnmpSession.{what} ({peer.label}) with a policer: {nreq} requests but the policer was "
                          f"consulted {events.count('wait')} times (events {events[:12]})",
                          {"kind": "oracle", "lines": [f"async {what}"], "impl": [str(events)],
                           "expected": "one policer wait before every request"})
    # limit_rps installs the limiter for every protocol version and both clients
    from gufo.snmp.async_client import SnmpSession as ASessionV
    for ver in (SnmpVersion.v1, SnmpVersion.v2c):
        for mode in ("sync", "async"):
            if mode == "sync":
                sx = SnmpSession("127.0.0.1", port=env.agent.port, community="public", version=ver, limit_rps=10, timeout=0.05)
            else:
                async def mk(ver=ver):
                    return ASessionV("127.0.0.1", port=env.agent.port, community="public", version=ver, limit_rps=10, timeout=0.05)
                sx = e2e.run_coro(mk(), 5.0)
            n += 1
            pol = getattr(sx, "_policer", None)
            if not isinstance(pol, RPSPolicer) or pol._delta != 10 ** 8:
                chk.violation("oracle", f"{mode} SnmpSession(version={ver.name}, limit_rps=10) has no RPSPolicer with a 100 ms interval "
                              f"(limiter: {type(pol).__name__})", {"kind": "oracle", "lines": [f"{mode} {ver.name} limit_rps=10"]})
    # one limiter shared by several short-lived sessions (`with SnmpSession(policer=p)` again and again): the slots it has
    # handed out stay handed out, entering a session does not start the accounting afresh
    import time as _t
    answering = e2e.ThreadAgent(lambda dg: [(0, e2e.Peer("v2c").response(ber.decode_message(dg), [ber.varbind((1, 3, 6, 1), ber.INT(1))]))])
    try:
        def shared_run():
            pol = RPSPolicer(5)
            t0 = _t.monotonic()
            for _ in range(4):
                with SnmpSession("127.0.0.1", port=answering.port, community="public", version=SnmpVersion.v2c, policer=pol, timeout=1.0) as sx_:
                    sx_.get("1.3.6.1")
            return _t.monotonic() - t0
        el = shared_run()
        if el < 0.55:
            el = min(el, shared_run(), shared_run())
        n += 1
        if el < 0.55:
            chk.violation("oracle", f"4 requests through one RPSPolicer(5) shared by 4 successive `with SnmpSession(...)` blocks took {el:.3f} s; "
                          "3 intervals of 0.2 s must separate them", {"kind": "oracle", "lines": ["shared policer across sessions"]})
    finally:
        answering.stop = True
    # limit_rps builds an RPSPolicer with the right interval
    s = SnmpSession("127.0.0.1", port=env.agent.port, limit_rps=10, timeout=0.05)
    if not isinstance(s._policer, RPSPolicer) or s._policer._delta != 10 ** 8:
        chk.violation("oracle", "SnmpSession(limit_rps=10) does not install an RPSPolicer with a 100 ms interval",
                      {"kind": "oracle", "lines": ["limit_rps=10"]})
    return n + 1


def replay(chk, path):
    with open(path) as f:
        rp = json.load(f)
    mod = load_policer()
    rc = 0
    for line in rp.get("lines", []):
        parts = line.split(" ")
        if parts[0] == "policer":
            delta = int(parts[1])
            tss = [int(x) for x in parts[2].split(",")]
            p = mod.RPSPolicer(1.0)
            p._delta, p._prev = delta, None
            outs = [p.get_timeout(t) for t in tss]
            bad = oracle(delta, tss, outs)
            print("impl:", outs, "oracle:", bad or "holds")
            if bad:
                rc = 1
    return rc
