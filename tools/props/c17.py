"""C17 — oversized requests fail cleanly; buffer code stays in bounds."""
import json
import random
import sys

from vlib import common, gens, streams

sys.path.insert(0, "/verif/harness/py")
import ber  # noqa: E402

CAP = None


def cap():
    global CAP
    if CAP is None:
        import re
        with open(common.REPO + "/src/buf/buffer.rs") as f:
            CAP = int(re.search(r"const MAX_SIZE: usize = (\d+);", f.read()).group(1))
    return CAP


class Shadow:
    """Vec-backed shadow of Buffer (independent of the Lean model)"""

    def __init__(self):
        self.data = []   # front = low address
        self.bm = 0

    def free(self):
        return cap() - len(self.data)

    def op(self, op):
        p = op.split(":")
        k = p[0]
        if k == "push":
            d = b"" if p[1] == "-" else bytes.fromhex(p[1])
            if self.free() < len(d):
                return "E"
            self.data = list(d) + self.data
            return "-"
        if k == "u8":
            if self.free() == 0:
                return "E"
            self.data = [int(p[1])] + self.data
            return "-"
        if k == "taglen":
            t, v = int(p[1]), int(p[2])
            hdr = [t, v] if v < 128 else ([t, 0x81, v & 0xff] if v < 256 else [t, 0x82, (v >> 8) & 0xff, v & 0xff])
            if self.free() < len(hdr):
                return "E"
            self.data = hdr + self.data
            return "-"
        if k == "tagged":
            d = b"" if p[2] == "-" else bytes.fromhex(p[2])
            if self.free() < len(d):
                return "E"
            self.data = list(d) + self.data
            return self.op(f"taglen:{p[1]}:{len(d)}")
        if k == "skipfill":
            d = b"" if p[1] == "-" else bytes.fromhex(p[1])
            n = min(len(d), self.free())
            self.data = [None] * n + self.data
            m = min(len(d), len(self.data))
            self.data[:m] = list(d[:m])
            return "-"
        if k == "skip":
            n = min(int(p[1]), self.free())
            self.data = [None] * n + self.data
            return "-"
        if k == "reset":
            self.data = []
            return "-"
        if k == "bm":
            v = self.free() + int(p[1])
            if v >= 2 ** 64:
                raise OverflowError
            self.bm = v
            return "-"
        if k == "getbm":
            v = self.bm - self.free()
            return "P" if v < 0 else str(v)
        if k == "data":
            if any(x is None for x in self.data):
                return "?"
            return bytes(self.data).hex() if self.data else "-"
        raise ValueError(op)


def shadow_line(ops):
    sh = Shadow()
    out = []
    try:
        for op in ops.split(";"):
            r = sh.op(op)
            out.append(f"{r}@{len(sh.data)}/{sh.free()}")
    except OverflowError:
        return "PANIC"
    return "ok " + ";".join(out)


def lines_privenc(rng, n):
    """encrypt sequences on one key object: (alg, key, boots, time, count, ctx engine id, request)"""
    out = []
    for _ in range(n):
        alg = rng.choice([1, 2])
        key = bytes(rng.getrandbits(8) for _ in range(16))
        eng = bytes(rng.getrandbits(8) for _ in range(rng.choice([0, 5, 9, 12, 17, 32])))
        oids = [bytes([43, 6] + [rng.getrandbits(7) for _ in range(rng.randrange(0, 40))]) for _ in range(rng.randrange(0, 4))]
        req = f"get {rng.getrandbits(31)} " + (",".join(o.hex() for o in oids) if oids else "-")
        out.append(f"privenc {alg} {key.hex()} {rng.getrandbits(32)} {rng.getrandbits(32)} {rng.randrange(1, 4)} "
                   f"{gens.hx(eng)} {req}")
    return out


def run(chk, model_ok=True):
    rng = random.Random(chk.seed)
    quick = chk.tier == "quick"
    n = 12000 if quick else 160000
    st = streams.Streams(chk, model_ok)
    st.add("corpus", streams.corpus_lines("C17"))
    st.add("buf", gens.lines_buf(rng, n))
    st.add("encmsg", gens.lines_encmsg(rng, n))
    st.add("encpdu", gens.lines_encpdu(rng, n // 2))
    st.add("encoid", gens.lines_encoid(rng, n // 2))
    st.add("privenc", lines_privenc(rng, n // 8))
    st.run()
    import ossl
    import usm
    bad = 0

    def fail(ln, out, why):
        nonlocal bad
        bad += 1
        if bad <= 5:
            chk.violation("oracle", f"{why}: {ln[:200]} -> {out[:120]}",
                          {"kind": "oracle", "lines": [ln], "impl": [out], "expected": why})

    sizes = {"fit": 0, "oob": 0, "exact_cap": 0}
    for ln, out in zip(st.lines, st.impl):
        parts = ln.split(" ")
        if parts[0] == "buf":
            want = shadow_line(parts[1])
            if out != want:
                # locate the first differing op
                fail(ln, out, f"buffer op sequence disagrees with the Vec-backed shadow (expected {want[:100]})")
            if out == "PANIC" and want != "PANIC":
                fail(ln, out, "buffer operation panicked")
        elif parts[0] == "encmsg" and parts[1] in ("v1", "v2c"):
            comm = b"" if parts[2] == "-" else bytes.fromhex(parts[2])
            kind = parts[3]
            if kind in ("get", "getnext"):
                rid = int(parts[4])
                oids = [] if parts[5] == "-" else [b"" if x in ("", "-") else bytes.fromhex(x) for x in parts[5].split(",")]
                body = ber.INT(rid) + ber.INT(0) + ber.INT(0)
                tag = 0xa0 if kind == "get" else 0xa1
            else:
                rid, nr, mr = int(parts[4]), int(parts[5]), int(parts[6])
                oids = [] if parts[7] == "-" else [b"" if x in ("", "-") else bytes.fromhex(x) for x in parts[7].split(",")]
                body = ber.INT(rid) + ber.INT(nr) + ber.INT(mr)
                tag = 0xa5
            vbs = b"".join(ber.tlv(0x30, ber.tlv(0x06, o) + ber.NULL) for o in oids)
            pdu = ber.tlv(tag, body + ber.tlv(0x30, vbs))
            msg = ber.tlv(0x30, ber.INT(0 if parts[1] == "v1" else 1) + ber.tlv(0x04, comm) + pdu)
            if len(msg) > cap():
                sizes["oob"] += 1
                if out != "err OutOfBuffer":
                    fail(ln, out, f"request of {len(msg)} octets does not fit {cap()} but did not fail with OutOfBuffer")
            else:
                sizes["fit"] += 1
                sizes["exact_cap"] += len(msg) == cap()
                if out != "ok " + msg.hex():
                    fail(ln, out, f"request of {len(msg)} octets fits but the datagram is not the complete minimal encoding")
        elif parts[0] == "privenc" and out.startswith("ok "):
            alg, key = parts[1], bytes.fromhex(parts[2])
            boots, time_ = int(parts[3]), int(parts[4])
            for pair in out[3:].split(";"):
                ct, salt = (bytes.fromhex(x) for x in pair.split("/"))
                if alg == "1":
                    k8, iv = usm.des_params(key, salt)
                    pt = ossl.des_cbc_decrypt(k8, iv, ct)
                    block = 8
                else:
                    pt = ossl.aes128_cfb_decrypt(key, usm.aes_iv(boots, time_, salt), ct)
                    block = 16
                try:
                    tag, content, end, _ = ber.parse_tlv(pt, 0)
                except ber.BerError as e:
                    fail(ln, out, f"encrypted payload does not decrypt to a scoped PDU ({e})")
                    break
                pad = pt[end:]
                if len(pad) >= block or any(pad):
                    fail(ln, out, f"bytes after the scoped PDU are not < one block of zero padding: {pad.hex()} "
                                  "(never-written or stale buffer octets were exposed)")
                    break
        elif out == "PANIC":
            fail(ln, out, "encoder panicked")
    # end to end: oversized and fitting requests interleaved on sessions sharing the buffer pool
    from props import c03
    from vlib import e2e, sessions
    env = e2e.env()
    peers = sessions.default_peers()
    n_e2e = 0
    for h in range(75 if quick else 1200):
        for s in sessions.run_history(env, rng, peers, rng.randrange(1, 4), rng.randrange(6, 30), oversize_bias=0.3):
            seen_bt = None
            for rec in s.records:
                if rec["kind"] != "send":
                    continue
                n_e2e += 1
                r = rec["result"]
                why = None
                if r[0] != "ok":
                    if rec["datagrams"]:
                        why = f"call failed with {r[1]} but a datagram was sent"
                    elif not r[2]:
                        why = f"{r[1]} is not an Exception (panic)"
                    else:
                        est = c03.size_estimate(s, rec)
                        if r[1] == "SnmpEncodeError" and est is not None and est < 3900:
                            why = f"request needing at most {est} octets was refused with SnmpEncodeError"
                        elif r[1] == "SnmpEncodeError":
                            sizes["oob"] += 1
                        elif est is not None and est > cap() + 400 and rec["op"] == "getmany" and r[1] not in ("SnmpEncodeError",):
                            # (est is an upper bound within a few hundred octets: far beyond the capacity the request IS oversized)
                            if c03.text_denotes_all(rec) if hasattr(c03, "text_denotes_all") else True:
                                why = f"oversized request (about {est} octets) raised {r[1]} instead of SnmpEncodeError"
                else:
                    d = rec["req"]
                    if not d or "undecodable" in d or not d.get("all_minimal"):
                        why = f"datagram of a fitting request is not a complete minimally encoded message: {str(d)[:120]}"
                    elif len(rec["datagrams"][0]) > cap():
                        why = f"datagram of {len(rec['datagrams'][0])} octets exceeds the buffer capacity"
                if why:
                    fail(s.line()[:400000], str(r), f"{s.label} {rec['op']}: {why}")
    # the receive side of the same buffer: a reply larger than the buffer is cut by the kernel; what lies beyond was never
    # received, so the call must fail to decode — it can never return octets of the part that did not fit
    for peer in (e2e.Peer("v2c"), e2e.Peer("v3", auth=1, priv=2, auth_kt="localized", priv_kt="localized")):
        sx = sessions.Sess(env, peer, rng)
        for big in (cap() - 200, cap() + 10, 5000, 9000, 20000):
            rec = sx.send("get", "1.3.6.1.2.1.1.1.0")
            req = sx.conv.req
            if rec["result"][0] != "ok" or not req or "request_id" not in req:
                continue
            payload = bytes((i * 7 + 3) % 251 for i in range(big))
            dg = peer.response(req, [ber.varbind((1, 3, 6, 1, 2, 1, 1, 1, 0), ber.OCT(payload))])
            chk.progress(f"{peer.label}: recv_get of a reply of {len(dg)} octets (receive buffer {cap()}): " + sx.line()[:1500])
            r = sx.recv("get", [dg])["result"]
            chk.progress("")
            n_e2e += 1
            if len(dg) > cap():
                if r[0] == "ok":
                    got_len = len(r[1]) if isinstance(r[1], (bytes, str)) else -1
                    fail(f"# {peer.label} reply of {len(dg)} octets", str(r)[:80], f"{peer.label}: a reply of {len(dg)} octets (buffer {cap()}) was "
                         f"delivered as a value of {got_len} octets: octets beyond the receive buffer were read")
                elif r[1] != "SnmpDecodeError":
                    fail(f"# {peer.label} reply of {len(dg)} octets", str(r)[:80], f"{peer.label}: a reply of {len(dg)} octets ended as {r[1]}, not SnmpDecodeError")
            elif r[0] != "ok" or r[1] != payload:
                fail(f"# {peer.label} reply of {len(dg)} octets", str(r)[:80], f"{peer.label}: a fitting reply of {len(dg)} octets was not delivered intact")
    # a user name that cannot fit any message, on sessions that learn their engine id from the agent: the first real request
    # must be refused with SnmpEncodeError; nothing may go out under another (empty) user name instead
    from props import c13
    for mode in ("sync", "async"):
        peer = e2e.Peer("v3", auth=0, priv=0, user="u" * 5000)
        runner = c13.run_sync_client if mode == "sync" else c13.run_async_client
        script, r, results = runner(rng, peer, True, ["1.3.6.1.2.1.1.1.0"])
        n_e2e += 1
        data_reqs = [d for _, d in script.requests if isinstance(d, dict) and d.get("varbinds")]
        if data_reqs:
            fail(f"# {mode} oversized user name", str(r)[:80], f"{mode} client, user name of 5000 octets: a request went out under user "
                 f"{data_reqs[0].get('user')!r} ({len(data_reqs)} data requests sent) instead of failing with SnmpEncodeError")
        elif r[0] == "ok" or r[1] not in ("SnmpEncodeError", "PySnmpEncodeError"):    # (create_exception! names the class after the Rust identifier)
            fail(f"# {mode} oversized user name", str(r)[:80], f"{mode} client, user name of 5000 octets: ended as {r[:2]} instead of SnmpEncodeError")
    # the Python clients in front of the socket: what get_many is given is what must be sized and sent — repeated
    # OIDs included (a list that is oversized through repetition must be refused, a fitting one sent complete)
    from gufo.snmp import SnmpVersion
    from gufo.snmp.sync_client import SnmpSession as SyncSession
    peer = e2e.Peer("v2c")
    conv = e2e.Conv(peer, env)
    seen = []

    def script(op, req):
        seen.append(req)
        return [peer.response(req, [ber.varbind(tuple(v[0]), ber.INT(1)) for v in req["varbinds"]])]
    sess = SyncSession("127.0.0.1", port=env.agent.port, community="public", version=SnmpVersion.v2c, timeout=0.05)
    sess._sock = e2e.SockShim(conv, script)
    n_cli = 0
    a, b = "1.3.6.1.2.1.1.1.0", "1.3.6.1.2.1.1.5.0"
    lists = [[a, b, a], [b] * 2, [b] * 128, [a, a, b, b, a], [b] * 250, [b] * 300, [a] * 400, [a, b] * 1000]
    for lst in lists:
        del seen[:]
        r = e2e.ncall(lambda: sess.get_many(lst))
        n_cli += 1
        need = 30 + len(lst) * 14          # octets of a v2c request with these names (each varbind is 14)
        sent = [tuple(v[0]) for q in seen for v in q.get("varbinds", [])]
        want = [tuple(int(x) for x in o.split(".")) for o in lst]
        if need > cap() + 14:
            if r[0] == "ok" or seen:
                fail("# sync get_many " + str(len(lst)), str(r)[:60], f"sync get_many of {len(lst)} names (about {need} octets, buffer {cap()}) was not refused: "
                     f"{len(sent)} names were sent")
            elif r[1] != "SnmpEncodeError":
                fail("# sync get_many " + str(len(lst)), str(r)[:60], f"oversized get_many raised {r[1]} instead of SnmpEncodeError")
        elif need < cap() - 14:
            if sent != want:
                fail("# sync get_many " + str(len(lst)), str(r)[:60], f"sync get_many of {len(lst)} names (fits the buffer) put {len(sent)} names on the wire: "
                     f"{sent[:4]}.. instead of {want[:4]}..")

    def async_many(lst):
        got = []

        def plan(dg):
            req = peer.decode(dg)
            got.append(req)
            return [peer.response(req, [ber.varbind(tuple(v[0]), ber.INT(1)) for v in req["varbinds"]])]

        async def main(port):
            from gufo.snmp.async_client import SnmpSession
            async with SnmpSession("127.0.0.1", port=port, community="public", version=SnmpVersion.v2c, timeout=0.6) as sx:
                return await sx.get_many(lst)
        r, _ = e2e.run_async(main, plan)
        if r[0] == "exc" and r[1].startswith("PySnmp"):
            r = ("exc", r[1][2:], r[2])
        return r, [tuple(v[0]) for q in got for v in q.get("varbinds", [])]
    for lst in ([a, b, a], [b] * 64, [a] * 400):
        r, sent = async_many(lst)
        n_cli += 1
        want = [tuple(int(x) for x in o.split(".")) for o in lst]
        if len(lst) == 400:
            if r[:2] != ("exc", "SnmpEncodeError") or sent:
                fail("# async get_many 400", str(r)[:60], f"async get_many of 400 names was not refused with SnmpEncodeError: {r!r:.60}, {len(sent)} names sent")
        elif sent != want:
            fail("# async get_many " + str(len(lst)), str(r)[:60], f"async get_many put {len(sent)} names on the wire instead of the {len(want)} requested")
    # any iterable is a legitimate argument of get_many: every name it yields must be sized and sent
    for mk, what in ((lambda: iter([a, b, a]), "iterator"), (lambda: (x for x in [b, a]), "generator"), (lambda: (a, b), "tuple"),
                     (lambda: map(str, [a, b]), "map object"), (lambda: {a: 1, b: 2}.keys(), "dict view")):
        del seen[:]
        r = e2e.ncall(lambda: sess.get_many(mk()))
        n_cli += 1
        sent = [tuple(v[0]) for q in seen for v in q.get("varbinds", [])]
        want = [tuple(int(x) for x in o.split(".")) for o in list(mk())]
        if r[0] != "ok" or sent != want:
            fail("# sync get_many(" + what + ")", str(r)[:60], f"sync get_many given a {what} of {len(want)} names put {len(sent)} on the wire ({r!r:.40})")
    chk.coverage["python_client_calls"] = n_cli
    chk.coverage["e2e_sends"] = n_e2e
    st.diff("C17 buffer / encoders")
    st.coverage(
        "buf: random operation sequences (1..30 ops of push / push_u8 / push_tag_len / push_tagged / skip+fill / reset / "
        "bookmark) biased to fill and overflow the buffer, compared op by op (result, len, free, data) with a Vec-backed "
        "shadow and with the Lean model; encmsg / encpdu / encoid: requests whose size is swept around 127/128, 255/256 "
        "and the capacity, compared with an independent encoder: OutOfBuffer iff the independent encoding exceeds the "
        "capacity, otherwise byte-identical. non-trivial = at least one op succeeded / encoder line; distinct lines.",
        lambda ln, out: out.startswith("ok") or out.startswith("err"))
    chk.coverage["size_classes"] = sizes
    chk.assumptions += ["memory safety of the unsafe blocks follows from the proved position invariant; the harness "
                        "does not run under a sanitizer"]


def replay(chk, path):
    with open(path) as f:
        rp = json.load(f)
    gsv, _ = common.build_gsv()
    out, _, _ = common.run_gsv(gsv, rp.get("lines", []))
    for ln, o in zip(rp.get("lines", []), out):
        print(ln[:160], "->", o[:160], "| expected:", rp.get("expected"))
    return 0
