"""C07 — get / get_many results and SNMP exceptions map as documented."""
import json
import random
import sys

from vlib import common, e2e, gens, streams, values

sys.path.insert(0, "/verif/harness/py")
import ber  # noqa: E402


def expected_get(vals):
    """the documented table for get()"""
    if len(vals) == 0:
        return ("ok", None)
    if len(vals) >= 2:
        return ("exc", "SnmpDecodeError")
    v = vals[0]
    if v is values.NULLV:
        return ("ok", None)
    if v is values.EXC:
        return ("exc", "NoSuchInstance")
    return ("ok", v)


def expected_get_many(names, vals):
    d = {}
    for n, v in zip(names, vals):
        if v is values.NULLV or v is values.EXC:
            continue
        d[values.dotted(n)] = v
    return ("ok", d)


def same(a, b):
    return e2e.canon(a) == e2e.canon(b)


def async_recv_trace(outcomes):
    """drive the real `SnmpSession._recv` with a scripted receiver: outcomes = list of 'B' | ('V', n) | ('E', name)"""
    import asyncio

    async def main(port):
        from gufo.snmp import SnmpVersion
        from gufo.snmp.async_client import SnmpSession
        sess = SnmpSession("127.0.0.1", port=port, community="public", version=SnmpVersion.v2c, timeout=0.08)
        # make the socket readable (and keep it so: the scripted receiver never reads)
        await sess._send(lambda: sess._sock.send_get("1.3.6"))
        await asyncio.sleep(0.02)
        left = list(outcomes)
        env_ = e2e.env()

        def receiver():
            if not left:
                raise BlockingIOError
            o = left.pop(0)
            if o == "B":
                raise BlockingIOError
            if o[0] == "V":
                return o[1]
            raise {"SnmpDecodeError": env_.fast.SnmpDecodeError, "SnmpAuthError": env_.fast.SnmpAuthError,
                   "NoSuchInstance": env_.fast.NoSuchInstance, "ValueError": ValueError, "TimeoutError": TimeoutError}[o[1]]("scripted")
        return await sess._recv(receiver)

    def script(dg):
        return [b"\x30\x00"]        # any datagram: only readiness matters
    r, _ = e2e.run_async(main, script)
    if r[0] == "exc" and (r[1].startswith("PySnmp") or r[1] == "PyNoSuchInstance"):
        return ("exc", r[1][2:], r[2])
    return r


def async_call(peer, op, vbs, as_report):
    """one get / get_many through the real asyncio client against a scripted reply"""
    from props import c18

    def plan(dg):
        req = peer.decode(dg)
        if req["pdu_type"] == 0 and not req["varbinds"]:
            return [peer.state.report(req["request_id"], req["msg_id"], auth=bool(peer.state.auth_alg))]
        return [peer.response(req, vbs, pdu_tag=8 if as_report else 2)]

    async def main(port):
        from gufo.snmp.async_client import SnmpSession
        async with SnmpSession("127.0.0.1", port=port, timeout=1.0, **c18.session_kwargs(peer)) as s:
            if op == "get":
                return await s.get("1.3.6.1.2.1.1.5.0")
            return await s.get_many(["1.3.6.1.2.1.1.5.0", "1.3.6.1.2.1.1.6.0"])
    r, _ = e2e.run_async(main, plan)
    if r[0] == "exc" and (r[1].startswith("PySnmp") or r[1] == "PyNoSuchInstance"):
        return ("exc", r[1][2:], r[2])
    return r


def run(chk, model_ok=True):
    rng = random.Random(chk.seed)
    quick = chk.tier == "quick"
    env = e2e.env()
    peers = e2e.all_peers()
    n_per = 480 if quick else 24000
    n_e2e = 0
    hist = {}
    distinct = set()
    samples = []
    bad = 0

    def fail(what, detail):
        nonlocal bad
        bad += 1
        if bad <= 5:
            chk.violation("oracle", what, {"kind": "oracle", "lines": [detail], "expected": what})

    topy_lines = []
    for peer in peers:
        conv = e2e.Conv(peer, env)
        for it in range(n_per):
            op = rng.choice(["get", "getmany"])
            k = rng.choice([0, 1, 1, 1, 2, 3, 4, 6])
            names = [values.gen_arcs(rng) for _ in range(k)]
            if k >= 2 and rng.random() < 0.3:
                names[rng.randrange(1, k)] = names[0]            # duplicate OID
            tl = [values.gen_value(rng, allow_real=True) for _ in range(k)]
            vbs = [ber.varbind(n, t[0]) for n, t in zip(names, tl)]
            vals = [t[1] for t in tl]
            as_report = peer.kind == "v3" and rng.random() < 0.12
            arg = "1.3.6.1.2.1.1.5.0" if op == "get" else ["1.3.6.1.2.1.1.5.0", "1.3.6.1.2.1.1.6.0"]

            rep_rid = rng.choice(["same", 0, rng.getrandbits(31)])
            # error-status / error-index do not change what the varbinds denote (the library ignores them)
            es, ei = rng.choice([(0, 0), (0, 0), (0, 0), (2, 1), (5, 0), (1, 2), (17, 300)])

            def replies(req):
                if as_report:
                    # Reports are accepted whatever request-id they carry (agents send 0 on unknown user / bad digest)
                    return [peer.response(req, vbs, pdu_tag=8, request_id=None if rep_rid == "same" else rep_rid)]
                return [peer.response(req, vbs, error_status=es, error_index=ei)]
            r = conv.exchange(op, arg, replies)
            n_e2e += 1
            if as_report:
                want = ("exc", "SnmpAuthError")
            elif op == "get":
                want = expected_get(vals)
            else:
                want = expected_get_many(names, vals)
            key = (peer.label, op, tuple(t[2] for t in tl), as_report)
            distinct.add(key)
            hk = f"{op}:{'report' if as_report else min(k, 3)}vb->{r[0] if r[0] == 'ok' else r[1]}"
            hist[hk] = hist.get(hk, 0) + 1
            pdu_hex = ber.pdu(8 if as_report else 2, 1, 0, 0, vbs).hex()
            topy_lines.append(f"topy {op} {pdu_hex}")
            if len(samples) < 6:
                samples.append({"session": peer.label, "op": op, "reply_pdu": pdu_hex[:200], "result": repr(r)[:120]})
            if r[0] == "exc" and not r[2]:
                fail(f"{peer.label} {op}: {r[1]} is not an Exception (panic) for reply {pdu_hex[:120]}", f"topy {op} {pdu_hex}")
            elif want[0] == "exc":
                if r[0] != "exc" or r[1] != want[1]:
                    fail(f"{peer.label} {op}: expected {want[1]}, got {r!r:.120} for reply {pdu_hex[:120]}", f"topy {op} {pdu_hex}")
                else:
                    cls = getattr(env.fast, r[1], None)
                    if r[1] in ("NoSuchInstance", "SnmpAuthError", "SnmpDecodeError") and not issubclass(cls, env.fast.SnmpError):
                        fail(f"{r[1]} is not a subclass of SnmpError", f"topy {op} {pdu_hex}")
            else:
                if r[0] != "ok" or not same(r[1], want[1]):
                    fail(f"{peer.label} {op}: expected {e2e.canon(want[1])[:100]}, got {(e2e.canon(r[1]) if r[0] == 'ok' else repr(r))[:100]} "
                         f"for reply {pdu_hex[:120]}", f"topy {op} {pdu_hex}")
    # a Report that belongs to another exchange (other msgID) is not an answer: it must be skipped, not raised
    for peer in [p_ for p_ in peers if p_.kind == "v3"][:4]:
        conv = e2e.Conv(peer, env)
        for it in range(6 if quick else 120):
            op = rng.choice(["get", "getmany"])
            arg = "1.3.6.1.2.1.1.5.0" if op == "get" else ["1.3.6.1.2.1.1.5.0"]
            follow = rng.random() < 0.5

            def replies(req):
                stale = peer.response(req, [], pdu_tag=8, request_id=rng.choice([0, req["request_id"]]),
                                      msg_id=(req["msg_id"] + rng.choice([1, -1, 2 ** 30])) % 2 ** 31)
                out = [stale]
                if follow:
                    out.append(peer.response(req, [ber.varbind((1, 3, 6, 1, 2, 1, 1, 5, 0), ber.INT(4711))]))
                return out
            r = conv.exchange(op, arg, replies)
            n_e2e += 1
            want = ("exc", "BlockingIOError") if not follow else (("ok", 4711) if op == "get" else ("ok", {"1.3.6.1.2.1.1.5.0": 4711}))
            if r[:2] != want:
                fail(f"{peer.label} {op}: a Report with a foreign msgID {'followed by the reply ' if follow else ''}gave {r!r:.100}, expected {want!r:.80}",
                     f"# stale report {peer.label} {op} follow={follow}")
    # the async client maps the same way (it has its own receive loop around the socket)
    n_async = 0
    for peer in [e2e.Peer("v2c"), e2e.Peer("v3", auth=1, priv=1, auth_kt="localized", priv_kt="localized")]:
        for it in range(10 if quick else 250):
            op = rng.choice(["get", "getmany"])
            k = rng.choice([0, 1, 1, 2, 3])
            names = [values.gen_arcs(rng) for _ in range(k)]
            tl = [values.gen_value(rng, allow_real=False) for _ in range(k)]
            vbs = [ber.varbind(n, t[0]) for n, t in zip(names, tl)]
            vals = [t[1] for t in tl]
            as_report = peer.kind == "v3" and rng.random() < 0.15
            want = ("exc", "SnmpAuthError") if as_report else (expected_get(vals) if op == "get" else expected_get_many(names, vals))
            r = async_call(peer, op, vbs, as_report)
            n_async += 1
            okk = (r[0] == "exc" and want[0] == "exc" and r[1] == want[1]) or (r[0] == "ok" and want[0] == "ok" and same(r[1], want[1]))
            if not okk:
                fail(f"async {peer.label} {op}: expected {(e2e.canon(want[1]) if want[0] == 'ok' else want[1])[:90]}, got "
                     f"{(e2e.canon(r[1]) if r[0] == 'ok' else repr(r))[:90]} for reply {ber.pdu(8 if as_report else 2, 1, 0, 0, vbs).hex()[:100]}",
                     f"topy {op} {ber.pdu(8 if as_report else 2, 1, 0, 0, vbs).hex()}")
    n_e2e += n_async
    # the async receive loop itself against its model (Py.asyncRecv): scripted outcomes of the socket call
    tlines, twant = [], []
    for it in range(12 if quick else 300):
        outs = []
        for _ in range(rng.randrange(0, 5)):
            outs.append(rng.choice(["B", "B", "B", ("V", rng.randrange(100)), ("E", rng.choice(["SnmpDecodeError", "SnmpAuthError", "NoSuchInstance", "ValueError"]))]))
        r = async_recv_trace(outs)
        tlines.append("asyncrecv " + (",".join("B" if o == "B" else f"{o[0]}:{o[1]}" for o in outs) or "-"))
        twant.append(f"pyok {r[1]}" if r[0] == "ok" else f"pyerr {r[1]}")
        first = next((o for o in outs if o != "B"), None)
        exp = "pyerr TimeoutError" if first is None else (f"pyok {first[1]}" if first[0] == "V" else f"pyerr {first[1]}")
        if twant[-1] != exp:
            fail(f"async _recv with socket outcomes {outs} ended as {twant[-1]}, the first outcome that is not 'nothing yet' is {exp}", tlines[-1])
    if model_ok and tlines:
        mo, _, _ = common.run_model(tlines)
        bad_ = [(l, w, g) for l, w, g in zip(tlines, twant, mo + ["<missing>"] * (len(tlines) - len(mo))) if w != g]
        if bad_:
            chk.violation("correspondence", f"async _recv vs Py.asyncRecv: {bad_[0][0]} implementation {bad_[0][1]} model {bad_[0][2]}",
                          {"kind": "correspondence", "stream": "asyncrecv", "lines": [b[0] for b in bad_[:10]], "impl": [b[1] for b in bad_[:10]],
                           "model": [b[2] for b in bad_[:10]], "broken": ["correspondence asyncrecv: Lean Py.asyncRecv vs async_client/client.py"]},
                          no_input=True)
    n_e2e += len(tlines)
    # the sync session: BlockingIOError -> TimeoutError, values passed through
    from gufo.snmp.sync_client import SnmpSession
    from gufo.snmp import SnmpVersion
    peer = e2e.Peer("v2c")
    conv = e2e.Conv(peer, env)
    sess = SnmpSession("127.0.0.1", port=env.agent.port, community="public", version=SnmpVersion.v2c, timeout=0.05)
    mode = {"v": "reply"}

    def script(op, req):
        if mode["v"] == "silent":
            return []
        return [peer.response(req, [ber.varbind((1, 3, 6, 1), ber.INT(7))])]
    sess._sock = e2e.SockShim(conv, script)
    r = e2e.ncall(lambda: sess.get("1.3.6.1"))
    if r != ("ok", 7):
        fail(f"sync SnmpSession.get returned {r!r}", "sync get")
    # get_many of the sync client on generated replies: the dict is built from what the AGENT returned (names need not
    # be those asked for, nor spelled the same way)
    for it in range(30 if quick else 800):
        k = rng.choice([0, 1, 2, 3, 5])
        names = [values.gen_arcs(rng) for _ in range(k)]
        tl = [values.gen_value(rng, allow_real=False) for _ in range(k)]
        vbs_ = [ber.varbind(n, t[0]) for n, t in zip(names, tl)]

        def script2(op, req, vbs_=vbs_):
            return [peer.response(req, vbs_)]
        sess._sock = e2e.SockShim(conv, script2)
        asked = rng.choice([["1.3.6.1.2.1.1.5.0", "1.3.6.1.2.1.1.6.0"], ["1.3.6.1.2.1.1.05.0"], [values.dotted(n) for n in names] or ["1.3.6"]])
        r = e2e.ncall(lambda: sess.get_many(asked))
        want = expected_get_many(names, [t[1] for t in tl])
        n_e2e += 1
        if not (r[0] == "ok" and same(r[1], want[1])):
            fail(f"sync SnmpSession.get_many({asked}): expected {e2e.canon(want[1])[:100]}, got {(e2e.canon(r[1]) if r[0] == 'ok' else repr(r))[:100]}",
                 f"topy getmany {ber.pdu(2, 1, 0, 0, vbs_).hex()}")
    sess._sock = e2e.SockShim(conv, script)
    # a call that ended with an exception (after skipping a datagram) leaves the session as it was: the next reply,
    # arriving within the configured timeout, is delivered (blocking socket, real timing, judged on the agent's send times)
    from props import c18
    for peer_h in (e2e.Peer("v2c"), e2e.Peer("v1")):
        for kind_first in ("n", "g"):
            before = [[(3, "s"), (4, kind_first)]]
            sched = [(6, "r")]
            ok_runs = 0
            for _ in range(3):
                r, el, actual = c18.run_sync(peer_h, sched, before)
                if actual and actual[-1] > c18.T_TICKS - 1.2:
                    ok_runs += 1       # the agent ran late: nothing can be concluded
                    continue
                if r[:2] == ("ok", 4242):
                    ok_runs += 1
            n_e2e += 1
            if ok_runs == 0:
                fail(f"sync {peer_h.label}: after a call that skipped a datagram and ended with "
                     f"{'NoSuchInstance' if kind_first == 'n' else 'SnmpDecodeError'}, the next call's reply (sent {sched[0][0] * c18.TICK:.2f}s after "
                     f"the request, timeout {c18.T_TICKS * c18.TICK:.2f}s) was not delivered: {r!r:.60} (3 runs)",
                     f"# sync history {peer_h.label} {kind_first}")
    mode["v"] = "silent"
    for f, nm in ((lambda: sess.get("1.3.6.1"), "get"), (lambda: sess.get_many(["1.3.6.1"]), "get_many")):
        r = e2e.ncall(f)
        if r[:2] != ("exc", "TimeoutError"):
            fail(f"sync SnmpSession.{nm} without a reply raised {r!r}, expected TimeoutError", f"sync {nm} silent")
    n_e2e += 3
    # correspondence of the conversion layer on the same replies
    st = streams.Streams(chk, model_ok)
    st.add("topy-e2e-replies", topy_lines)
    st.add("topy", gens.lines_topy(rng, 12000 if quick else 480000))
    st.run()
    for ln, out in zip(st.lines, st.impl):
        if out == "PANIC":
            fail("conversion panicked: " + ln[:160], ln)
    st.diff("C07 op layer")
    st.coverage(
        "e2e: for every session kind (v1, v2c, v3 noAuth / MD5 / SHA1 x none / DES / AES) get and get_many against "
        "scripted replies with 0..6 varbinds, any mix of data values (all types), NULL and the three exception "
        "values, duplicate OIDs, Reports in place of responses (v3); oracle = the documented table evaluated on the "
        "generator's ground truth. The same reply PDUs plus a generated stream go through the conversion layer in the "
        "Rust harness and the Lean model. distinct = distinct (session, op, value-kind tuple).",
        lambda ln, out: True)
    chk.coverage["evaluations"] = n_e2e + len(st.lines)
    chk.coverage["distinct_nontrivial"] = len(distinct)
    chk.coverage["e2e_exchanges"] = n_e2e
    chk.coverage["e2e_outcome_histogram"] = dict(sorted(hist.items()))
    chk.coverage["samples"] = samples
    chk.assumptions += ["async client covered by C05/C13 checks; here the sync wrapper and the raw socket API"]


def replay(chk, path):
    with open(path) as f:
        rp = json.load(f)
    gsv, _ = common.build_gsv()
    out, _, _ = common.run_gsv(gsv, [l for l in rp.get("lines", []) if l.startswith("topy")])
    for o in out:
        print(o[:200])
    return 0
