"""C13 — engine discovery and time sync follow the agent."""
import json
import random
import sys

from props import c09, c11
from vlib import common, e2e, sessions

sys.path.insert(0, "/verif/harness/py")
import agent as ag  # noqa: E402
import ber  # noqa: E402

BT = [0, 1, 127, 128, 255, 256, 65535, 65536, 2 ** 24, 2 ** 31 - 1]


class AgentScript:
    """a v3 agent whose boots/time move between replies; remembers what it announced"""

    def __init__(self, rng, peer, discover, change_p=0.5, drop=()):
        self.rng, self.peer, self.discover = rng, peer, discover
        self.drop = set(drop)   # indices of requests the network loses (no reply)
        self.expect = []        # per request: (engine id, boots, time) the client must stamp, and whether it has its keys
        self.current = (b"" if discover else peer.state.engine_id, 0, 0)
        self.replied = 0
        self.probes = 0
        self.st = peer.state
        self.st0 = ag.V3AgentState(b"", boots=0, time=0, user="")     # reads the default user's probe
        self.requests = []      # (datagram, decoded | error text)
        self.announced = []     # (engine id, boots, time) of each reply, in order
        self.change_p = change_p
        self.answers = []       # per data request: [(dotted name, value)]

    def __call__(self, dg):
        st = self.st
        try:
            outer = ber.decode_message(dg)
            d = (self.st0 if outer.get("user") == b"" and not outer["flags"] & 3 else st).parse_request(dg)
        except ber.BerError as ex:
            self.requests.append((dg, f"undecodable: {ex}"))
            return []
        self.requests.append((dg, d))
        self.expect.append((self.current, (not self.discover) or self.replied > 0))
        if d["pdu_type"] == 0 and not d["varbinds"]:
            self.probes += 1
            if self.probes - 1 in self.drop:
                return []      # a lost probe (only probes are lost: the client retries refresh())
        self.replied += 1
        if self.rng.random() < self.change_p:
            st.boots = self.rng.choice(BT + [self.rng.getrandbits(31)])
            st.time = self.rng.choice(BT + [self.rng.getrandbits(31)])
        self.announced.append((st.engine_id, st.boots, st.time))
        self.current = (st.engine_id, st.boots, st.time)
        if d["pdu_type"] == 0 and not d["varbinds"]:
            # (a Report carries the request-id of the request "if it can be determined", else 0 — RFC 3412 7.1 step 3:
            #  an agent that could not decrypt or parse the PDU answers with request-id 0)
            d = dict(d, request_id=d["request_id"] if self.rng.random() < 0.6 else 0)
            if d["engine_id"] == b"":
                # the contextEngineID of a Report need not be the authoritative engine id (RFC 3412: it names the
                # context of the PDU); the session must learn the engine id from the USM header
                ctx = self.rng.choice([None, None, b"", bytes(self.rng.getrandbits(8) for _ in range(9))])
                return [st.report(d["request_id"], d["msg_id"], user=d["user"], ctx_engine_id=ctx)]
            return [st.report(d["request_id"], d["msg_id"], auth=bool(st.auth_alg) and bool(d["flags"] & 1),
                              varbinds=[ber.varbind((1, 3, 6, 1, 6, 3, 15, 1, 1, 2, 0), ber.UINT(0x41, 7))])]
        vbs = []
        ans = []
        for name, _, _ in d["varbinds"]:
            v = self.rng.randrange(-1000, 1000)
            ans.append((ber.dotted(name), v))
            vbs.append(ber.varbind(name, ber.INT(v)))
        self.answers.append(ans)
        return [st.reply_to(d, vbs)]


def judge(script, configured_engine, results):
    """the property on the request log; returns None or a reason"""
    st = script.st
    reqs = script.requests
    if not reqs:
        return "the client sent nothing"
    for k, (dg, d) in enumerate(reqs):
        if isinstance(d, str):
            return f"request {k} is not readable by the agent ({d})"
        (want_eng, wb, wt), keyed = script.expect[k]
        want_bt = (wb, wt)
        if d["engine_id"] != want_eng:
            return f"request {k} carries engine id {d['engine_id'].hex() or '-'} instead of {want_eng.hex() or '-'}"
        if d.get("ctx_engine_id", want_eng) != want_eng:
            return f"request {k} carries context engine id {d['ctx_engine_id'].hex()} instead of {want_eng.hex()}"
        if (d["boots"], d["time"]) != want_bt:
            return (f"request {k} is stamped boots/time {(d['boots'], d['time'])} instead of {want_bt} "
                    "announced in the agent's latest reply")
        if keyed:
            if d["user"] != st.user:
                return f"request {k} carries user {d['user']!r} instead of {st.user!r} (the user's keys were not installed)"
            if st.priv_alg and not d.get("encrypted"):
                return f"request {k} is not encrypted although the user has a privacy key"
            why = c09.check_mac(st, dg)
            if why:
                return f"request {k}: {why}"
        else:
            if d["flags"] & 3:
                return f"discovery probe carries security flags {d['flags'] & 3}"
    return None


client_user = e2e.client_user


def run_sync_client(rng, peer, discover, oids, drop=(), user=None):
    from gufo.snmp.sync_client import SnmpSession
    script = AgentScript(rng, peer, discover, drop=drop)
    agent = e2e.ThreadAgent(lambda dg: [(0, r) for r in script(dg)])
    st = peer.state
    results = []

    def body():
        sess = SnmpSession("127.0.0.1", port=agent.port, engine_id=rng.choice([None, b""]) if discover else st.engine_id,
                           user=user or client_user(st), timeout=0.6 if drop else 3.0)
        for attempt in range(len(drop) + 1):
            try:
                sess.refresh()
                break
            except (TimeoutError, BlockingIOError):
                if attempt == len(drop):
                    raise
        for o in oids:
            results.append(sess.get(o))
        if rng.random() < 0.5:
            results.append(sess.get_many(oids[:2]))
        return sess.get_engine_id()
    try:
        r = e2e.ncall(body)
    finally:
        agent.close()
    return script, r, results


def run_async_client(rng, peer, discover, oids, drop=(), user=None):
    script = AgentScript(rng, peer, discover, drop=drop)
    st = peer.state
    results = []

    async def main(port):
        from gufo.snmp.async_client import SnmpSession
        sess = SnmpSession("127.0.0.1", port=port, engine_id=rng.choice([None, b""]) if discover else st.engine_id,
                           user=user or client_user(st), timeout=0.6 if drop else 3.0)
        for attempt in range(len(drop) + 1):
            try:
                await sess.refresh()
                break
            except (TimeoutError, BlockingIOError):
                if attempt == len(drop):
                    raise
        for o in oids:
            results.append(await sess.get(o))
        return sess.get_engine_id()
    r, _ = e2e.run_async(main, script)
    return script, r, results


def client_cases(rng, n, lossy=True):
    """run the real sync / async clients against a conforming agent in random configurations (engine id given /
    None / b"", every digest x cipher x key type, optionally with lost discovery probes); yields
    (key, script, outcome, judge-reason-or-None)"""
    # stratified: every client x digest x (engine id given / discovered) x (probes lost / not) combination occurs
    # once per 24 cases, in a shuffled order; cipher, key types, OIDs and the loss pattern are drawn independently
    deck = []
    for k in range(n):
        if not deck:
            deck = [(m, a, d, lo) for m in ("sync", "async") for a in (0, 1, 2) for d in (True, False)
                    for lo in ((True, False) if lossy else (False,))]
            rng.shuffle(deck)
        mode, auth, discover, lose = deck.pop()
        priv = rng.choice([1, 2, 1, 2, 0]) if auth else 0
        peer = sessions.rand_v3_peer(rng, auth=auth, priv=priv)
        oids = [o for o in (sessions.rand_oid_text(rng) for _ in range(rng.randrange(1, 4))) if o.count(".") >= 1] or ["1.3.6.1"]
        # (the first probe is the one whose loss leaves a half-configured session behind: lost in 4 patterns of 5)
        drop = rng.choice([(0,), (0,), (0, 1), (0, 2), (1,)]) if lose else ()
        script, r, results = (run_sync_client if mode == "sync" else run_async_client)(rng, peer, discover, oids, drop)
        key = f"{mode}:{peer.label}:{'discovered' if discover else 'configured'}" + (f":lost{list(drop)}" if drop else "")
        why = None
        if r[0] != "ok":
            why = f"the client failed with {r[1]} against a conforming agent"
        else:
            why = judge(script, None if discover else peer.state.engine_id, results)
        yield key, script, r, why

    # one User object configured once and used for several sessions of the process, towards agents with different
    # engine ids: every session must end up with ITS engine's keys, and the caller's object must stay usable
    for mode in ("sync", "async"):
        auth = rng.choice([1, 2])
        priv = rng.choice([1, 2])
        apw, ppw = b"shared-auth-secret", b"shared-priv-secret"
        peers = [e2e.Peer("v3", auth=auth, priv=priv, engine_id=bytes(rng.getrandbits(8) for _ in range(rng.choice([9, 12, 17]))),
                          user="shared", auth_pw=apw, priv_pw=ppw) for _ in range(2)]
        shared = client_user(peers[0].state)
        for k, peer in enumerate(peers):
            runner = run_sync_client if mode == "sync" else run_async_client
            script, r, results = runner(rng, peer, True, ["1.3.6.1.2.1.1.1.0"], (), shared)
            key = f"{mode}:{peer.label}:shared-user-object:session{k + 1}"
            if r[0] != "ok":
                why = f"the client failed with {r[1]} against a conforming agent"
            else:
                why = judge(script, None, results)
            yield key, script, r, why


def refresh_trace(mode, peer, given, outcomes, ncalls):
    """drive refresh() of the real client `ncalls` times against an agent that answers the k-th probe iff
    outcomes[k]; returns ([(probes seen during the call, raised)], deferred?, to_refresh?)"""
    st = peer.state
    seen = {"probes": 0}

    def plan(dg):
        req = peer.decode(dg) if not (ber.decode_message(dg).get("user") == b"" and not ber.decode_message(dg)["flags"] & 3) \
            else ag.V3AgentState(b"", boots=0, time=0, user="").parse_request(dg)
        k = seen["probes"]
        seen["probes"] += 1
        if k < len(outcomes) and outcomes[k]:
            if req["engine_id"] == b"":
                return [st.report(req["request_id"], req["msg_id"], user=req["user"])]
            return [st.report(req["request_id"], req["msg_id"], auth=bool(st.auth_alg) and bool(req["flags"] & 1))]
        return []
    calls = []
    kw = dict(engine_id=st.engine_id if given else None, user=client_user(st), timeout=0.4)
    if mode == "sync":
        from gufo.snmp.sync_client import SnmpSession
        agent = e2e.ThreadAgent(lambda dg: [(0, x) for x in plan(dg)])
        try:
            sess = SnmpSession("127.0.0.1", port=agent.port, **kw)
            for _ in range(ncalls):
                before = seen["probes"]
                r = e2e.ncall(sess.refresh)
                calls.append((seen["probes"] - before, r[0] != "ok"))
            return calls, sess._deferred_user is not None, bool(sess._to_refresh)
        finally:
            agent.stop = True

    async def main(port):
        from gufo.snmp.async_client import SnmpSession
        sess = SnmpSession("127.0.0.1", port=port, **kw)
        for _ in range(ncalls):
            before = seen["probes"]
            try:
                await sess.refresh()
                raised = False
            except Exception:  # noqa: BLE001
                raised = True
            calls.append((seen["probes"] - before, raised))
        return sess._deferred_user is not None, bool(sess._to_refresh)
    r, _ = e2e.run_async(main, plan)
    if r[0] != "ok":
        return calls, None, None
    return calls, r[1][0], r[1][1]


def run(chk, model_ok=True):
    rng = random.Random(chk.seed)
    quick = chk.tier == "quick"
    env = e2e.env()
    bad = 0

    def fail(what, line):
        nonlocal bad
        bad += 1
        if bad <= 5:
            chk.violation("oracle", what, {"kind": "oracle", "lines": [line[:400000]], "expected": what})

    hist = {}
    n_req = 0
    # 1. the real sync and async clients
    n_cli = 90 if quick else 2700
    for k in range(n_cli):
        # independent draws, so that every digest x cipher x mode x discovery x loss-pattern combination can occur
        auth = rng.choice([0, 1, 1, 2, 2])
        priv = rng.choice([0, 1, 2]) if auth else 0
        discover = rng.random() < 0.55
        peer = sessions.rand_v3_peer(rng, auth=auth, priv=priv)
        mode = "sync" if k % 2 == 0 else "async"
        oids = [sessions.rand_oid_text(rng) or "1.3.6" for _ in range(rng.randrange(1, 5))]
        oids = [o for o in oids if o.count(".") >= 1] or ["1.3.6.1"]
        # the network may lose the first probes (and the client retries refresh())
        drop = rng.choice([(0,), (1,), (0, 1), (0, 2)]) if rng.random() < 0.35 else ()
        script, r, results = (run_sync_client if mode == "sync" else run_async_client)(rng, peer, discover, oids, drop)
        key = f"{mode}:{peer.label}:{'discovered' if discover else 'configured'}" + (f":lost{list(drop)}" if drop else "")
        hist[key] = hist.get(key, 0) + 1
        n_req += len(script.requests)
        line = f"# {key} engine={peer.state.engine_id.hex()} user={peer.state.user!r} oids={oids}"
        if r[0] != "ok":
            fail(f"{key}: the client failed with {r[1]} against a conforming agent", line)
            continue
        if r[1] != peer.state.engine_id:
            fail(f"{key}: get_engine_id() = {r[1].hex()} instead of the agent's {peer.state.engine_id.hex()}", line)
        why = judge(script, None if discover else peer.state.engine_id, results)
        if why:
            fail(f"{key}: {why}", line)
            continue
        for o, v, ans in zip(oids, results, script.answers):
            if len(ans) != 1 or v != ans[0][1]:
                fail(f"{key}: get({o}) returned {v!r}, the agent answered {ans}", line)
    # 1b. the refresh() state machine of both clients against its model (Model/PyClient.lean: Py.refresh)
    rlines, rwant = [], []
    for k in range(16 if quick else 300):
        mode = "sync" if k % 2 == 0 else "async"
        given = rng.random() < 0.4
        auth = rng.choice([0, 1, 2])
        peer = sessions.rand_v3_peer(rng, auth=auth, priv=0, kt="localized")
        ncalls = rng.randrange(1, 4)
        outcomes = [rng.random() < 0.6 for _ in range(2 * ncalls)]
        calls, deferred, to_refresh = refresh_trace(mode, peer, given, outcomes, ncalls)
        rlines.append(f"refresh {int(given)} {int(bool(auth))} {ncalls} " + ",".join(str(int(o)) for o in outcomes))
        rwant.append((calls, deferred, to_refresh, mode))
    n_refresh = len(rlines)
    if model_ok and rlines:
        out, _, _ = common.run_model(rlines)
        for ln, (calls, deferred, to_refresh, mode), mo in zip(rlines, rwant, out + ["<missing>"] * (len(rlines) - len(out))):
            ok_ = mo.startswith("ok ")
            if ok_:
                body, fin = mo[3:].split("|")
                mcalls = [(c.count("P"), c.endswith("!")) for c in body.split(";")]
                ok_ = mcalls == calls and fin == f"{int(bool(deferred))}{int(bool(to_refresh))}"
            if not ok_:
                chk.violation("correspondence", f"refresh() of the {mode} client: {ln} -> implementation {calls} deferred={deferred} "
                              f"to_refresh={to_refresh}, model {mo}",
                              {"kind": "correspondence", "stream": "refresh", "lines": [ln], "impl": [str((calls, deferred, to_refresh))],
                               "model": [mo], "broken": ["correspondence refresh: Lean Py.refresh vs the Python clients"]}, no_input=True)
                break
    # 2. raw sockets driven like the clients do (deferred default user, Report, set_keys, second probe), replayed on the model
    all_sess = []
    n_hist = 75 if quick else 1800
    for h in range(n_hist):
        auth = rng.choice([0, 1, 2])
        peer = sessions.rand_v3_peer(rng, auth=auth, priv=rng.choice([0, 1, 2]) if auth else 0)
        deferred = h % 3 != 2
        s = sessions.Sess(env, peer, rng, deferred=deferred)
        all_sess.append(s)
        final = peer.state
        announced = [(b"", 0, 0)] if deferred else [(final.engine_id, 0, 0)]
        if deferred:
            final.boots, final.time = rng.choice(BT), rng.choice(BT)
            # probe -> Report (unknown engine id) -> set_keys -> probe -> Report (not in time window)
            rec = s.send("refresh")
            d = s.conv.req
            if rec["result"][0] != "ok" or not d or "request_id" not in d:
                fail(f"{s.label}: discovery probe failed {rec['result']}", s.line())
                continue
            if d["engine_id"] != b"" or d["flags"] != 4 or d["varbinds"]:
                fail(f"{s.label}: discovery probe is not a reportable empty GET without engine id: flags {d['flags']}", s.line())
            # a few non-matching messages first: they must not be adopted
            other = ag.V3AgentState(bytes(rng.getrandbits(8) for _ in range(12)), boots=77, time=77, user="")
            noise = [other.report(d["request_id"], (d["msg_id"] + 1) % 2 ** 31, user=b""),
                     other.report(d["request_id"], d["msg_id"], user=b"someone")]
            ctx = rng.choice([None, None, b"", bytes(rng.getrandbits(8) for _ in range(7))])
            s.recv("refresh", noise[:rng.randrange(0, 3)] + [final.report(d["request_id"], d["msg_id"], user=b"", ctx_engine_id=ctx)])
            s.engine_id()
            s.set_keys(final)
            announced.append((final.engine_id, final.boots, final.time))
        for k in range(rng.randrange(2, 9)):
            op = rng.choice(["refresh", "get", "get", "getmany"])
            if op == "refresh":
                rec = s.send("refresh")
            elif op == "get":
                rec = s.send("get", sessions.rand_oid_text(rng))
            else:
                rec = s.send("getmany", [sessions.rand_oid_text(rng) for _ in range(rng.randrange(0, 4))])
            d = s.conv.req
            if rec["result"][0] != "ok" or not d or "request_id" not in d:
                if rec["result"][0] == "ok":
                    fail(f"{s.label}: request not readable by the agent: {d}", s.line())
                continue
            n_req += 1
            e, b, t = announced[-1]
            if (d["engine_id"], d["boots"], d["time"]) != (e, b, t):
                fail(f"{s.label}: request stamped {(d['engine_id'].hex(), d['boots'], d['time'])}, the latest accepted "
                     f"message announced {(e.hex(), b, t)}", s.line())
                break
            why = c09.check_mac(final, rec["datagrams"][-1])
            if why:
                fail(f"{s.label}: {why}", s.line())
                break
            r = rng.random()
            if r < 0.2:
                continue                          # lost reply: nothing changes
            if rng.random() < 0.6:
                final.boots, final.time = rng.choice(BT + [rng.getrandbits(31)]), rng.choice(BT + [rng.getrandbits(31)])
            if r < 0.35:
                # a reply that does not match (other msg id): must not move the clock
                wrong = final.build(2, d["request_id"], (d["msg_id"] + 1) % 2 ** 31, [], boots=999, time=999)
                s.recv(op, [wrong])
                continue
            if op == "refresh":
                dg = final.report(d["request_id"], d["msg_id"], auth=bool(final.auth_alg))
            else:
                dg = final.reply_to(d, [ber.varbind(a, ber.INT(5)) for a, _, _ in d["varbinds"][:2]])
            rr = s.recv(op, [dg])
            if rr["result"][0] == "ok" or (rr["result"][0] == "exc" and rr["result"][1] in ("SnmpAuthError", "NoSuchInstance")):
                announced.append((final.engine_id, final.boots, final.time))
            s.engine_id()
    nl, nd = sessions.model_compare(chk, all_sess, model_ok)
    chk.coverage.update({
        "evaluations": n_req,
        "distinct_nontrivial": len(hist) + nl,
        "rule": "real sync (blocking, agent in a thread) and async (agent on the event loop) SnmpSession objects entered with and "
                "without an engine id against a conforming v3 agent with random identity (engine id 5..32 octets, user 0..32, "
                "{none, MD5, SHA-1} x {none, DES, AES} x {password, master, localized}) whose boots/time change between replies: "
                "request k must carry the engine id, boots and time announced in reply k-1, verify under the key localized to "
                "the agent's engine id and be decryptable; raw sockets driven through the same deferred-user flow with lost, "
                "non-matching and foreign-engine replies in between, replayed on the Lean model incl. the learned state.",
        "samples": [{"configuration": k, "runs": v} for k, v in list(sorted(hist.items()))[:6]],
        "client_runs": n_cli, "refresh_state_machine_cases": n_refresh, "per_configuration": dict(sorted(hist.items())), "requests_judged": n_req,
        "session_lines": nl, "session_lines_disagreeing": nd,
        "traces_validated_against_impl": nl if model_ok else 0,
    })
    chk.assumptions += ["the scripted agent is conforming: every reply matches the request it answers",
                        "hashlib / OpenSSL are the reference primitives"]


def replay(chk, path):
    with open(path) as f:
        rp = json.load(f)
    out, _, _ = common.run_model([l for l in rp.get("lines", []) if l.startswith("session")])
    for o in out:
        print(o[:400])
    return 0
