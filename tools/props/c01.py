"""C01 — no datagram can crash the client: the receive path is total."""
import random
import sys

from vlib import common, gens, streams


def lines_privdec(rng, n):
    out = []
    for _ in range(n):
        alg = rng.choice([1, 2])
        key = bytes(rng.getrandbits(8) for _ in range(16))
        pp = bytes(rng.getrandbits(8) for _ in range(rng.choice([0, 1, 7, 8, 8, 8, 9, 16])))
        ln = rng.choice([0, 1, 7, 8, 15, 16, 17, 24, 32, 33, 48, 64, 100, 4072, 4080])
        data = bytes(rng.getrandbits(8) for _ in range(ln))
        boots = rng.choice([0, 1, 2 ** 31 - 1, 2 ** 32 - 1, rng.getrandbits(32)])
        time = rng.choice([0, 1, 2 ** 31 - 1, 2 ** 32 - 1, rng.getrandbits(32)])
        out.append(f"privdec {alg} {key.hex()} {boots} {time} {gens.hx(pp)} {gens.hx(data)}")
    return out


CRASHERS = [
    "hdr 1f80", "hdr 3081", "hdr 308201", "msg v2c 1f80", "msg v2c 3081", "msg v1 308201", "msg v3 3081",
    # D2 empty varbind, D3 relative oid after empty oid / short relative oid / overflow
    "pdu a20b0201010201000201003000" , "pdu a20d02010102010002010030023000",
    "pdu a2170201010201000201003010300406000500" + "30080d0107050005000500"[:0],
    "normalize 07 2b", "normalize - 2b", "normalize 0707 2b", "normalize 01 -", "normalize 0601 2b06",
    # D6 8-octet integers, D8 REAL
    "ber int 0208ffffffffffffffff", "ber int 02088000000000000000", "ber int 020900ffffffffffffffff",
    "ber real 090180", "value 090380ff01", "value 0903800101", "ber real 09018000",
    # D5 exception values reaching into_pyobject
    "walk getnext 312e332e36 0 a2110201000201000201003006300406022b068000",
    "walk getnext 312e332e36 0 a2130201000201000201003008300606032b06018100",
    "topy get a2110201000201000201003006300406022b068000",
    # D4 AES salt length
    "privdec 2 000102030405060708090a0b0c0d0e0f 1 2 00 0102030405060708",
    "privdec 2 000102030405060708090a0b0c0d0e0f 1 2 - 0102030405060708",
    "privdec 1 000102030405060708090a0b0c0d0e0f 1 2 00 0102030405060708",
]


def run(chk, model_ok=True):
    rng = random.Random(chk.seed)
    quick = chk.tier == "quick"
    n = 18000 if quick else 720000
    st = streams.Streams(chk, model_ok)
    st.add("corpus", streams.corpus_lines("C01") + CRASHERS)
    for name, fn in [("hdr", gens.lines_hdr), ("ber", gens.lines_ber), ("value", gens.lines_value),
                     ("real", gens.lines_real), ("normalize", gens.lines_normalize), ("pdu", gens.lines_pdu),
                     ("msg", gens.lines_msg), ("topy", gens.lines_topy), ("walk", gens.lines_walk)]:
        st.add(name, fn(rng, n if name in ("msg", "pdu", "value") else n // 2))
    st.add("privdec", lines_privdec(rng, n // 4))
    L = 3 if quick else 4
    ex = []
    for bs in gens.exhaustive_small(gens.ALPHABET, L):
        h = gens.hx(bs)
        ex += [f"hdr {h}", f"value {h}", f"pdu {h}", f"msg v2c {h}", f"msg v3 {h}"]
    st.add("exhaustive-small", ex)
    st.run()
    # implementation-level oracle: nothing panics, the process is alive (checked in run())
    npanic = 0
    for ln, out in zip(st.lines, st.impl):
        if out == "PANIC":
            npanic += 1
            if npanic <= 5:
                chk.violation("oracle", f"panic on the receive path: {ln[:200]}",
                              {"kind": "oracle", "lines": [ln], "impl": [out], "expected": "a value or an SnmpError, never a panic"})
    # end to end: the whole receive path of the real clients, incl. the steps a received datagram triggers
    # (key localisation after discovery) and the Python receive loops: a value or a documented exception, and
    # the call comes back
    from vlib import e2e, sessions
    sys.path.insert(0, "/verif/harness/py")
    import agent as ag
    import ber
    env = e2e.env()
    n_e2e = 0
    DOCUMENTED = {"TimeoutError", "BlockingIOError", "SnmpDecodeError", "SnmpAuthError", "SnmpError", "NoSuchInstance", "ValueError",
                  "SnmpEncodeError", "OSError", "StopAsyncIteration", "StopIteration", "NotImplementedError", "RuntimeError"}
    # (a) discovery against agents with engine ids of any length (RFC 3411 allows 5..32; a peer can send anything)
    for ln_ in [0, 1, 4, 5, 12, 32, 33, 40, 41, 64, 100, 255, 300]:
        for auth in (1, 2):
            for kt in ("password", "master"):
                eng = bytes(rng.getrandbits(8) for _ in range(ln_))
                peer = e2e.Peer("v3", auth=auth, priv=rng.choice([0, 1, 2]), engine_id=eng, auth_kt=kt, priv_kt=kt)
                sx = sessions.Sess(env, peer, rng, deferred=True)
                rec = sx.send("refresh")
                req = sx.conv.req
                n_e2e += 1
                if rec["result"][0] != "ok" or not req or "request_id" not in req:
                    continue
                r1 = sx.recv("refresh", [peer.state.report(req["request_id"], req["msg_id"], user=b"")])
                r2 = sx.set_keys(peer.state)
                r3 = sx.send("get", "1.3.6.1.2.1.1.1.0")["result"]
                for what, r in (("recv_refresh", r1["result"]), ("set_keys", r2), ("send_get", r3)):
                    if r[0] == "exc" and (not r[2] or r[1] not in DOCUMENTED):
                        chk.violation("oracle", f"discovery with a {ln_}-octet engine id, {['', 'MD5', 'SHA-1'][auth]} {kt} key: {what} raised {r[1]} "
                                      "(panic / undocumented) instead of a value or a documented exception",
                                      {"kind": "oracle", "lines": [sx.line()[:20000]], "engine_id_len": ln_})
    # (b) the async client's own receive loop: datagrams that do not answer the request, then nothing
    for peer in (e2e.Peer("v2c"), e2e.Peer("v3", auth=1, priv=0, auth_kt="localized")):
        for k in (1, 2):
            def plan(dg, peer=peer, k=k):
                req = peer.decode(dg)
                if req["pdu_type"] == 0 and not req["varbinds"]:
                    return [peer.state.report(req["request_id"], req["msg_id"], auth=bool(peer.state.auth_alg))]
                return [peer.response(req, [ber.varbind((1, 3, 6), ber.INT(i))], request_id=(req["request_id"] + 1 + i) % 2 ** 31)
                        for i in range(k)]

            async def main(port, peer=peer):
                from gufo.snmp.async_client import SnmpSession
                from props import c18
                async with SnmpSession("127.0.0.1", port=port, timeout=0.2, **c18.session_kwargs(peer)) as sx:
                    return await sx.get("1.3.6")
            r, _ = e2e.run_async(main, plan, watchdog=6.0)
            n_e2e += 1
            name = r[1][2:] if r[0] == "exc" and r[1].startswith("PySnmp") else (r[1] if r[0] == "exc" else "value")
            if r[0] == "exc" and name == "Hang":
                chk.violation("oracle", f"async get() on {peer.label}: {k} non-matching datagram(s) and no reply: the call never returned "
                              "(event loop frozen) instead of raising TimeoutError",
                              {"kind": "oracle", "lines": [f"# async {peer.label} strays={k}"]})
                break
            if name != "TimeoutError":
                chk.violation("oracle", f"async get() on {peer.label}: {k} non-matching datagram(s) and no reply ended as {name}",
                              {"kind": "oracle", "lines": [f"# async {peer.label} strays={k}"]})
    # (c) the clients' own discovery (refresh() / first call) against agents that announce engine ids of unusual
    # lengths — an empty one included: every call comes back with a value or a documented exception
    from props import c13
    for ln_ in (0, 1, 33, 300):
        for mode in ("sync", "async"):
            eng = bytes(rng.getrandbits(8) for _ in range(ln_))
            peer = e2e.Peer("v3", auth=rng.choice([1, 2]), priv=rng.choice([0, 1, 2]), engine_id=eng,
                            auth_kt="localized", priv_kt="localized")
            runner = c13.run_sync_client if mode == "sync" else c13.run_async_client
            script, r, results = e2e.run_guarded(lambda: runner(rng, peer, True, ["1.3.6.1.2.1.1.1.0"]), 40.0,
                                                 (None, ("exc", "Hang", True), []))
            n_e2e += 1
            if r[0] == "exc" and (not r[2] or r[1] not in DOCUMENTED):
                chk.violation("oracle", f"{mode} client, discovery against an agent announcing a {ln_}-octet engine id: the call ended with "
                              f"{r[1]} (a panic, an undocumented exception or a call that never came back) instead of a value or a "
                              "documented exception",
                              {"kind": "oracle", "lines": [f"# {mode} discovery engine-id-length {ln_}"], "engine_id_len": ln_})
    # (d) a stream of non-matching datagrams that outlasts the timeout (sync: each one is processed a little later than
    # the last, one of them after the deadline; async: they keep waking the receive loop), and an encrypted message
    # arriving at a session that has no privacy key: a value or a documented exception, and the call comes back while
    # the stream is still running
    from props import c18
    import asyncio as _aio
    drip = [(t, "s") for t in range(1, 10 * c18.T_TICKS)]            # one every tick for ten timeouts
    # (sync, second pattern: a burst of non-matching datagrams every half millisecond across the deadline, so that one
    #  of them is taken off the socket just before the deadline and dealt with just after it)
    burst = [(c18.T_TICKS - 0.6 + k * 0.01, "s") for k in range(120)]
    for peer in (e2e.Peer("v2c"), e2e.Peer("v3", auth=1, priv=0, auth_kt="localized")):
        for mode in ("sync", "sync-burst", "async"):
            if mode.startswith("sync"):
                sched_ = drip if mode == "sync" else burst
                got = e2e.run_guarded(lambda: c18.run_sync(peer, sched_), 30.0, (("exc", "Hang", True), 30.0, []))
            else:
                try:
                    got = e2e.run_coro(c18.run_async_one(peer, drip), 30.0) or (("exc", "Hang", True), 30.0, [])
                except BaseException as ex:  # noqa: BLE001
                    got = (("exc", type(ex).__name__, isinstance(ex, Exception)), 0.0, [])
            r, el = got[0], got[1]
            n_e2e += 1
            name = (r[1][2:] if r[1].startswith("PySnmp") else r[1]) if r[0] == "exc" else "value"
            stream_s = 10 * c18.T_TICKS * c18.TICK
            if r[0] == "exc" and (not r[2] or name not in DOCUMENTED or name == "Hang"):
                chk.violation("oracle", f"{mode} get() on {peer.label} under a stream of non-matching datagrams: ended with {name} "
                              "(a panic, an undocumented exception or no return at all)",
                              {"kind": "oracle", "lines": [f"# {mode} {peer.label} stray stream"]})
            elif el > stream_s - 0.5:
                chk.violation("oracle", f"{mode} get() on {peer.label} (timeout {c18.T_TICKS * c18.TICK:.1f} s) came back only after {el:.1f} s, when the "
                              f"{stream_s:.0f} s stream of non-matching datagrams had stopped: with a stream that does not stop it does not return",
                              {"kind": "oracle", "lines": [f"# {mode} {peer.label} stray stream"]})
    for auth in (0, 1):
        peer = e2e.Peer("v3", auth=auth, priv=0, auth_kt="localized")
        sx = sessions.Sess(env, peer, rng)
        rec = sx.send("get", "1.3.6.1.2.1.1.1.0")
        req = sx.conv.req
        n_e2e += 1
        if rec["result"][0] == "ok" and req and "request_id" in req:
            st_ = peer.state
            for flags in (3, 2, 7):
                dg = ber.msg_v3(req["msg_id"], flags, st_.engine_id, st_.boots, st_.time, st_.user, bytes(12) if flags & 1 else b"",
                                bytes(rng.getrandbits(8) for _ in range(8)), ber.OCT(bytes(rng.getrandbits(8) for _ in range(32))))
                r = sx.recv("get", [dg])["result"]
                if r[0] == "exc" and (not r[2] or r[1] not in DOCUMENTED):
                    chk.violation("oracle", f"{peer.label}: an encrypted message (msgFlags {flags}) arriving at a session without a privacy key "
                                  f"ended the call with {r[1]} (panic / undocumented)", {"kind": "oracle", "lines": [sx.line()[:20000]]})
    st.diff("C01 decoders")
    st.coverage(
        "streams: corpus of former crashers; structured-valid (40%) / mutated (40%) / grammar-malformed (20%) "
        "inputs for the header parser, every typed decoder, SnmpValue, relative-OID normalisation, PDUs, the three "
        "message decoders, USM / scoped PDU / msgData, the op layer (get, getmany, refresh, getnext, getbulk) and "
        f"the privacy decrypt path; plus every byte string of length <= {L} over a 16-octet alphabet through "
        "hdr/value/pdu/msg. non-trivial = the request got past the first header (result is not Incomplete/bad-op); "
        "distinct = distinct request lines.",
        lambda ln, out: not out.startswith("err Incomplete") and out != "bad-op")
    chk.coverage["exhaustive_small_len"] = L
    chk.coverage["e2e_receive_path_cases"] = n_e2e
    chk.coverage["evaluations"] = chk.coverage.get("evaluations", 0) + n_e2e
    chk.assumptions += [
        "safe Rust: an out-of-range index or slice panics instead of reading out of bounds (memory safety of the decoders)",
        "the harness is built with the dev profile (overflow checks on), as the pinned test command is",
        "the UDP socket, the GIL hand-off and PyO3's argument conversion are outside the model",
    ]


def replay(chk, path):
    import json
    with open(path) as f:
        rp = json.load(f)
    gsv, err = common.build_gsv()
    out, rc, _ = common.run_gsv(gsv, rp.get("lines", []))
    bad = 0
    for ln, o in zip(rp.get("lines", []), out):
        print(ln[:120], "->", o[:120])
        if o == "PANIC":
            bad = 1
    return bad
