"""C01 — no datagram can crash the client: the receive path is total."""
import random

from vlib import common, gens, streams


def lines_privdec(rng, n):
    out = []
    for _ in range(n):
        alg = rng.choice([1, 2])
        key = bytes(rng.getrandbits(8) for _ in range(16))
        pp = bytes(rng.getrandbits(8) for _ in range(rng.choice([0, 1, 7, 8, 8, 8, 9, 16])))
        ln = rng.choice([0, 1, 7, 8, 15, 16, 17, 24, 32, 33, 48, 64, 100, 4072, 4080])
        data = bytes(rng.getrandbits(8) for _ in range(ln))
        boots = rng.choice([0, 1, 2 ** 31 - 1, 2 ** 32 - 1, rng.getrandbits(32)])
        time = rng.choice([0, 1, 2 ** 31 - 1, 2 ** 32 - 1, rng.getrandbits(32)])
        out.append(f"privdec {alg} {key.hex()} {boots} {time} {gens.hx(pp)} {gens.hx(data)}")
    return out


CRASHERS = [
    "hdr 1f80", "hdr 3081", "hdr 308201", "msg v2c 1f80", "msg v2c 3081", "msg v1 308201", "msg v3 3081",
    # D2 empty varbind, D3 relative oid after empty oid / short relative oid / overflow
    "pdu a20b0201010201000201003000" , "pdu a20d02010102010002010030023000",
    "pdu a2170201010201000201003010300406000500" + "30080d0107050005000500"[:0],
    "normalize 07 2b", "normalize - 2b", "normalize 0707 2b", "normalize 01 -", "normalize 0601 2b06",
    # D6 8-octet integers, D8 REAL
    "ber int 0208ffffffffffffffff", "ber int 02088000000000000000", "ber int 020900ffffffffffffffff",
    "ber real 090180", "value 090380ff01", "value 0903800101", "ber real 09018000",
    # D5 exception values reaching into_pyobject
    "walk getnext 312e332e36 0 a2110201000201000201003006300406022b068000",
    "walk getnext 312e332e36 0 a2130201000201000201003008300606032b06018100",
    "topy get a2110201000201000201003006300406022b068000",
    # D4 AES salt length
    "privdec 2 000102030405060708090a0b0c0d0e0f 1 2 00 0102030405060708",
    "privdec 2 000102030405060708090a0b0c0d0e0f 1 2 - 0102030405060708",
    "privdec 1 000102030405060708090a0b0c0d0e0f 1 2 00 0102030405060708",
]


def run(chk, model_ok=True):
    rng = random.Random(chk.seed)
    quick = chk.tier == "quick"
    n = 18000 if quick else 720000
    st = streams.Streams(chk, model_ok)
    st.add("corpus", streams.corpus_lines("C01") + CRASHERS)
    for name, fn in [("hdr", gens.lines_hdr), ("ber", gens.lines_ber), ("value", gens.lines_value),
                     ("real", gens.lines_real), ("normalize", gens.lines_normalize), ("pdu", gens.lines_pdu),
                     ("msg", gens.lines_msg), ("topy", gens.lines_topy), ("walk", gens.lines_walk)]:
        st.add(name, fn(rng, n if name in ("msg", "pdu", "value") else n // 2))
    st.add("privdec", lines_privdec(rng, n // 4))
    L = 3 if quick else 4
    ex = []
    for bs in gens.exhaustive_small(gens.ALPHABET, L):
        h = gens.hx(bs)
        ex += [f"hdr {h}", f"value {h}", f"pdu {h}", f"msg v2c {h}", f"msg v3 {h}"]
    st.add("exhaustive-small", ex)
    st.run()
    # implementation-level oracle: nothing panics, the process is alive (checked in run())
    npanic = 0
    for ln, out in zip(st.lines, st.impl):
        if out == "PANIC":
            npanic += 1
            if npanic <= 5:
                chk.violation("oracle", f"panic on the receive path: {ln[:200]}",
                              {"kind": "oracle", "lines": [ln], "impl": [out], "expected": "a value or an SnmpError, never a panic"})
    st.diff("C01 decoders")
    st.coverage(
        "streams: corpus of former crashers; structured-valid (40%) / mutated (40%) / grammar-malformed (20%) "
        "inputs for the header parser, every typed decoder, SnmpValue, relative-OID normalisation, PDUs, the three "
        "message decoders, USM / scoped PDU / msgData, the op layer (get, getmany, refresh, getnext, getbulk) and "
        f"the privacy decrypt path; plus every byte string of length <= {L} over a 16-octet alphabet through "
        "hdr/value/pdu/msg. non-trivial = the request got past the first header (result is not Incomplete/bad-op); "
        "distinct = distinct request lines.",
        lambda ln, out: not out.startswith("err Incomplete") and out != "bad-op")
    chk.coverage["exhaustive_small_len"] = L
    chk.assumptions += [
        "safe Rust: an out-of-range index or slice panics instead of reading out of bounds (memory safety of the decoders)",
        "the harness is built with the dev profile (overflow checks on), as the pinned test command is",
        "the UDP socket, the GIL hand-off and PyO3's argument conversion are outside the model",
    ]


def replay(chk, path):
    import json
    with open(path) as f:
        rp = json.load(f)
    gsv, err = common.build_gsv()
    out, rc, _ = common.run_gsv(gsv, rp.get("lines", []))
    bad = 0
    for ln, o in zip(rp.get("lines", []), out):
        print(ln[:120], "->", o[:120])
        if o == "PANIC":
            bad = 1
    return bad
