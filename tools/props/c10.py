"""C10 — unauthenticated or forged v3 replies are never accepted.

The pinned code never verifies an incoming MAC (known finding D12).  The check enumerates the
forgery matrix on the real extension, classifies every forgery that is delivered, prints the
classes listed in known_findings.json as KNOWN-FINDING and reports any other accepted forgery (or a
forgery accepted although user / engine id / msgID / request-id do not match) as a violation."""
import json
import random
import sys

from vlib import common, e2e, sessions

sys.path.insert(0, "/verif/harness/py")
import ber  # noqa: E402

MACS = ["valid", "zero", "random", "bitflip", "absent"]


def forge(rng, st, req, body, mac, auth_flag, enc, value, **over):
    """one reply to `req` from the forgery matrix"""
    tag = body if isinstance(body, int) else (2 if body == "response" else 8)
    # (request PDUs bind their names to NULL: anything else would not be a well-formed request)
    vbs = [ber.varbind(tuple(req["varbinds"][0][0]), ber.NULL if tag in (0, 1, 5) else ber.INT(value))] if req["varbinds"] else []
    kw = dict(auth=auth_flag, priv=enc)
    kw.update(over)
    if mac == "valid":
        if not auth_flag:
            return None
        return st.build(tag, req["request_id"], over.pop("msg_id", req["msg_id"]) if False else kw.pop("msg_id", req["msg_id"]), vbs, **kw)
    mid = kw.pop("msg_id", req["msg_id"])
    if mac == "zero":
        return st.build(tag, req["request_id"], mid, vbs, auth_params=bytes(12), **kw)
    if mac == "random":
        return st.build(tag, req["request_id"], mid, vbs, auth_params=bytes(rng.getrandbits(8) for _ in range(12)), **kw)
    if mac == "absent":
        return st.build(tag, req["request_id"], mid, vbs, auth_params=b"", **kw)
    if mac == "bitflip":
        if not auth_flag:
            return None
        kw["auth"] = True
        dg = bytearray(st.build(tag, req["request_id"], mid, vbs, **kw))
        off = ber.decode_message(bytes(dg))["auth_params_offset"]
        dg[off + rng.randrange(12)] ^= 1 << rng.randrange(8)
        return bytes(dg)
    return None


def lossy_then_forged(mode, peer, drop):
    """real client without engine id; the probes listed in `drop` are lost, refresh() is retried; then a get is answered
    with an unauthenticated reply for the empty user. Returns the outcome of that get."""
    import agent as ag
    from props import c13
    st = peer.state
    st0 = ag.V3AgentState(b"", boots=0, time=0, user="")
    seen = {"probes": 0}

    def plan(dg):
        outer = ber.decode_message(dg)
        req = (st0 if outer.get("user") == b"" and not outer["flags"] & 3 else st).parse_request(dg)
        if req["pdu_type"] == 0 and not req["varbinds"]:
            k = seen["probes"]
            seen["probes"] += 1
            if k in drop:
                return []
            if req["engine_id"] == b"":
                return [st.report(req["request_id"], req["msg_id"], user=req["user"])]
            return [st.report(req["request_id"], req["msg_id"], auth=bool(req["flags"] & 1))]
        # the forged answer: no MAC, no auth flag, empty user, the right engine id / msgID / request-id
        body = ber.scoped_pdu(st.engine_id, b"", ber.pdu(2, req["request_id"], 0, 0, [ber.varbind((1, 3, 6, 1), ber.OCT(b"FORGED"))]))
        return [ber.msg_v3(req["msg_id"], 0, st.engine_id, st.boots, st.time, b"", b"", b"", body)]
    kw = dict(engine_id=None, user=c13.client_user(st), timeout=0.5)
    if mode == "sync":
        from gufo.snmp.sync_client import SnmpSession
        agent = e2e.ThreadAgent(lambda dg: [(0, x) for x in plan(dg)])
        try:
            sess = SnmpSession("127.0.0.1", port=agent.port, **kw)
            for _ in range(len(drop) + 1):
                if e2e.ncall(sess.refresh)[0] == "ok":
                    break
            return e2e.ncall(lambda: sess.get("1.3.6.1"))
        finally:
            agent.stop = True

    async def main(port):
        from gufo.snmp.async_client import SnmpSession
        sess = SnmpSession("127.0.0.1", port=port, **kw)
        for _ in range(len(drop) + 1):
            try:
                await sess.refresh()
                break
            except Exception:  # noqa: BLE001
                pass
        return await sess.get("1.3.6.1")
    r, _ = e2e.run_async(main, plan)
    return r


def configured_then_forged(mode, peer):
    """real client WITH the engine id configured and an authenticated user, used straight away (no `with`, no refresh(),
    as in the first example of the docs): the agent answers the get with an unauthenticated reply for the empty user"""
    from props import c13
    st = peer.state

    def plan(dg):
        outer = ber.decode_message(dg)
        if outer.get("pdu_type", None) == 0 and not outer.get("varbinds", [1]) and outer.get("flags", 0) & 4:
            return [st.report(outer["request_id"], outer["msg_id"], auth=bool(outer["flags"] & 1))]
        rid = outer.get("request_id")
        if rid is None:
            try:
                rid = st.parse_request(dg)["request_id"]
            except ber.BerError:
                return []
        body = ber.scoped_pdu(st.engine_id, b"", ber.pdu(2, rid, 0, 0, [ber.varbind((1, 3, 6, 1), ber.OCT(b"FORGED"))]))
        return [ber.msg_v3(outer["msg_id"], 0, st.engine_id, st.boots, st.time, b"", b"", b"", body)]
    kw = dict(engine_id=st.engine_id, user=c13.client_user(st), timeout=0.4)
    if mode == "sync":
        from gufo.snmp.sync_client import SnmpSession
        agent = e2e.ThreadAgent(lambda dg: [(0, x) for x in plan(dg)])
        try:
            sess = SnmpSession("127.0.0.1", port=agent.port, **kw)
            return e2e.ncall(lambda: sess.get("1.3.6.1"))
        finally:
            agent.stop = True

    async def main(port):
        from gufo.snmp.async_client import SnmpSession
        sess = SnmpSession("127.0.0.1", port=port, **kw)
        return await sess.get("1.3.6.1")
    r, _ = e2e.run_async(main, plan)
    return r


def class_of(body, mac, auth_flag, enc, priv_cfg):
    return f"{body}:mac={mac}:authflag={int(auth_flag)}:{'encrypted' if enc else 'clear'}:priv-configured={int(bool(priv_cfg))}"


def allowed(body, mac, auth_flag, enc, priv_cfg):
    """the property: what MAY be delivered"""
    if body == "report":
        return True
    return auth_flag and mac == "valid" and (enc or not priv_cfg)


def run(chk, model_ok=True):
    rng = random.Random(chk.seed)
    quick = chk.tier == "quick"
    env = e2e.env()
    known = {}
    for f in chk.findings():
        for c in f.get("classes", []):
            known[c] = f
    bad = 0

    def fail(what, line):
        nonlocal bad
        bad += 1
        if bad <= 5:
            chk.violation("oracle", what, {"kind": "oracle", "lines": [line[:400000]], "expected": what})

    all_sess = []
    n = 0
    accepted_classes = {}
    dropped_classes = {}
    reproduced = {}
    rounds = 3 if quick else 72
    for rnd in range(rounds):
        for auth in (1, 2):
            for priv in (0, 1, 2):
                peer = sessions.rand_v3_peer(rng, auth=auth, priv=priv)
                st = peer.state
                s = sessions.Sess(env, peer, rng)
                all_sess.append(s)
                for body in ("response", "report"):
                    for mac in MACS:
                        for auth_flag in (True, False):
                            for enc in ((True, False) if priv else (False,)):
                                rec = s.send("get", sessions.rand_oid_text(rng) or "1.3.6")
                                req = s.conv.req
                                if rec["result"][0] != "ok" or not req or "request_id" not in req:
                                    continue
                                value = rng.randrange(1, 10 ** 6)
                                dg = forge(rng, st, req, body, mac, auth_flag, enc, value)
                                if dg is None:
                                    continue
                                n += 1
                                r = s.recv("get", [dg])["result"]
                                cls = class_of(body, mac, auth_flag, enc, priv)
                                delivered = r[0] == "ok" or (r[0] == "exc" and r[1] == "SnmpAuthError")
                                if r[0] == "exc" and not r[2]:
                                    fail(f"{s.label}: {cls} crashed the receiver ({r[1]})", s.line())
                                if delivered:
                                    accepted_classes[cls] = accepted_classes.get(cls, 0) + 1
                                    if not allowed(body, mac, auth_flag, enc, priv):
                                        if cls in known:
                                            reproduced.setdefault(known[cls]["id"], set()).add(cls)
                                        else:
                                            fail(f"{s.label}: forged reply {cls} was delivered as {str(r)[:80]} (not a listed finding)", s.line())
                                else:
                                    dropped_classes[cls] = dropped_classes.get(cls, 0) + 1
                                    if allowed(body, mac, auth_flag, enc, priv) and body == "response":
                                        chk.notes.append(f"legitimate reply {cls} was not delivered: {r}")
                # accept_partial: a forgery that ALSO mismatches must never be delivered
                from props.c04 import near_bytes, near_ints
                for field in ("user", "engine_id", "msg_id", "request_id", "engine_usm_only", "msg_id9", "request_id9") * (6 if quick else 32):
                    rec = s.send("get", "1.3.6.1")
                    req = s.conv.req
                    if rec["result"][0] != "ok" or not req or "request_id" not in req:
                        continue
                    over = {"reportable": rng.random() < 0.5}
                    rq = dict(req)
                    if field == "user":
                        over["user"] = near_bytes(rng, st.user)
                    elif field == "engine_id":
                        over["engine_id"] = near_bytes(rng, st.engine_id)
                    elif field == "msg_id":
                        over["msg_id"] = near_ints(rng, req["msg_id"])
                    elif field == "engine_usm_only":
                        # a foreign authoritative engine id in the USM header; the contextEngineID repeats the session's
                        over["engine_id"] = near_bytes(rng, st.engine_id)
                        over["ctx_engine_id"] = st.engine_id
                    elif field in ("msg_id9", "request_id9"):
                        # the right number written in nine content octets with a leading 01: that is 2^64 + id, another
                        # (and unrepresentable) value; a decoder that drops the first octet would see the right id
                        ber.NINE.add(req[field[:-1]])
                    else:
                        rq["request_id"] = near_ints(rng, req["request_id"])
                    # (a foreign request id may also come in a request-type PDU: a reflected or misdirected manager request)
                    btag = rng.choice([2, 2, 0, 1, 5]) if field == "request_id" else 2
                    dg = forge(rng, st, rq, btag if btag != 2 else "response", rng.choice(["zero", "absent", "random", "valid"]),
                               rng.random() < 0.7, bool(priv) and rng.random() < 0.5, 5, **over)
                    ber.NINE.clear()
                    if dg is None:
                        continue
                    n += 1
                    r = s.recv("get", [dg])["result"]
                    if field.endswith("9") and r[0] == "exc" and r[1] == "SnmpDecodeError":
                        continue       # an INTEGER of nine octets is out of range: refusing the datagram is right
                    if r[0] == "exc" and r[1] != "BlockingIOError":
                        shown = over.get(field, rq["request_id"])
                        shown = shown.hex() if isinstance(shown, bytes) else shown
                        fail(f"{s.label}: a forged {['GetRequest', 'GetNextRequest', 'GetResponse', '', '', 'GetBulkRequest'][btag]} with a wrong "
                             f"{field} ({shown}) was not passed over: it ended the call with {r[1]} (the genuine reply could no longer be received)",
                             s.line())
                    if r[0] == "ok":
                        fkey = {"engine_usm_only": "engine_id"}.get(field, field)
                        shown = over.get(fkey, rq["request_id"])
                        shown = shown.hex() if isinstance(shown, bytes) else shown
                        if field.endswith("9"):
                            fail(f"{s.label}: forged reply whose {field[:-1]} is written in nine octets (2^64 + {req[field[:-1]]}) was delivered", s.line())
                        else:
                            fail(f"{s.label}: forged reply with a wrong {field} ({shown} instead of "
                                 f"{(getattr(st, field, None) or req.get(field)) if field in ('msg_id', 'request_id') else getattr(st, 'user' if field == 'user' else 'engine_id').hex()}) was delivered", s.line())
    # a message that claims another security model is not a USM message at all: it must not be delivered,
    # whatever else matches (models equal to 3 modulo 256 / 2^16 are the interesting ones)
    for peer in (sessions.rand_v3_peer(rng, auth=1, priv=0), sessions.rand_v3_peer(rng, auth=2, priv=2)):
        st = peer.state
        s = sessions.Sess(env, peer, rng)
        all_sess.append(s)
        for model in (259, 515, 65539, 0x7fffff03, -253, 0, 1, 2, 4):
            rec = s.send("get", "1.3.6.1")
            req = s.conv.req
            if rec["result"][0] != "ok" or not req or "request_id" not in req:
                continue
            body = ber.scoped_pdu(st.engine_id, b"", ber.pdu(2, req["request_id"], 0, 0, [ber.varbind((1, 3, 6, 1), ber.INT(31337))]))
            dg = ber.msg_v3(req["msg_id"], 0, st.engine_id, st.boots, st.time, st.user, b"", b"", body, security_model=model)
            n += 1
            r = s.recv("get", [dg])["result"]
            if r[0] == "ok":
                fail(f"{s.label}: a reply with msgSecurityModel {model} (not USM) and no authentication was delivered as {r[1]!r}", s.line())
    # the clients' discovery with lost probes and retries must end with the user's keys installed: afterwards an
    # unauthenticated reply for the empty user is not for this session
    from props import c13
    for mode in ("sync", "async"):
        for auth, drop in ((1, (0,)), (2, (0, 1)), (1, (1,)), (2, (0,))):
            # (a user with a non-empty name: for the empty name the forged reply would match and fall under D12;
            #  every loss pattern is tried with both clients: which probe is lost decides what state is left behind)
            peer = e2e.Peer("v3", auth=auth, priv=rng.choice([0, 1, 2]), user="alice", auth_kt="localized", priv_kt="localized")
            n += 1
            r = lossy_then_forged(mode, peer, drop)
            if r[0] == "ok":
                fail(f"{mode} client ({peer.label}): after a discovery with lost probes, an unauthenticated reply with an empty user "
                     f"name was delivered as {r[1]!r}", f"# {mode} {peer.label} lossy discovery + forged reply")
            elif r[1] not in ("TimeoutError", "BlockingIOError"):
                chk.notes.append(f"lossy discovery + forged reply ended as {r[1]}")
    for mode in ("sync", "async"):
        for auth in (1, 2):
            peer = e2e.Peer("v3", auth=auth, priv=0, user="alice", auth_kt="localized")
            n += 1
            r = configured_then_forged(mode, peer)
            if r[0] == "ok":
                fail(f"{mode} client ({peer.label}), engine id configured, used without refresh(): an unauthenticated reply with an empty "
                     f"user name was delivered as {r[1]!r}", f"# {mode} {peer.label} configured + forged reply")
    for fid, classes in sorted(reproduced.items()):
        f = [x for x in chk.findings() if x["id"] == fid][0]
        chk.known_finding(f"{fid}: {f['what']} [{len(classes)} forgery classes reproduced, e.g. {sorted(classes)[0]}]")
    # replay on the model; an implementation that DROPS a forgery the model delivers is stricter than the model
    # (that is what a repair of the finding looks like): noted, not an alarm
    nl = nd = stricter = 0
    if model_ok:
        todo = [x for x in all_sess if x.events]
        out, _, _ = common.run_model([x.line() for x in todo])
        nl = len(todo)
        for x, mo in zip(todo, out + ["<missing>"] * (len(todo) - len(out))):
            d = sessions.compare(x.expect, mo)
            if d and isinstance(d[1], str) and d[1].startswith("pyerr BlockingIOError#") and str(d[2]).startswith(("pyok", "pyerr SnmpAuthError")):
                stricter += 1
                continue
            if d:
                nd += 1
                if nd == 1:
                    chk.violation("correspondence", f"session history of {x.label}: event {d[0]} implementation {str(d[1])[:120]} model {str(d[2])[:120]}",
                                  {"kind": "correspondence", "stream": "session", "lines": [x.line()[:400000]], "impl": [str(d[1])[:500]],
                                   "model": [str(d[2])[:500]], "broken": ["correspondence forgery histories: Lean unwrapV3 vs /repo"]},
                                  no_input=True)
        if stricter:
            chk.notes.append(f"{stricter} session(s): the implementation dropped a reply the model delivers (implementation stricter than "
                             "the model: the known finding may have been repaired; update the model and known_findings.json)")
    chk.coverage.update({
        "evaluations": n,
        "distinct_nontrivial": len(accepted_classes) + len(dropped_classes),
        "rule": "the forgery matrix of the property: otherwise-matching replies x MAC {valid, zero, random, one bit flipped, "
                "absent} x auth flag {set, clear} x {encrypted, clear} x body {GetResponse, Report} x {MD5, SHA-1} x "
                "{none, DES, AES}, plus forgeries that also carry a wrong user / engine id / msgID / request-id; each is injected "
                "as the only reply to a pending get. A delivered forgery outside the property's allowance is a violation unless "
                "its class is listed in known_findings.json. Sessions are replayed on the Lean model.",
        "samples": [{"class": c, "delivered": k} for c, k in list(sorted(accepted_classes.items()))[:5]],
        "classes_delivered": dict(sorted(accepted_classes.items())),
        "classes_dropped": dict(sorted(dropped_classes.items())),
        "session_lines": nl, "session_lines_disagreeing": nd,
        "traces_validated_against_impl": nl if model_ok else 0,
    })
    chk.assumptions += ["the forgeries are built by the scripted agent with the user's real keys where a valid MAC is wanted"]


def replay(chk, path):
    with open(path) as f:
        rp = json.load(f)
    out, _, _ = common.run_model(rp.get("lines", []))
    for o in out:
        print(o[:400])
    return 0
