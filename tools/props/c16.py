"""C16 — decoding an element reads exactly its declared extent."""
import json
import random
import sys

from vlib import common, gens, streams

TYPES = ["int", "bool", "null", "octets", "objdesc", "opaque", "oid", "reloid", "sequence", "option", "ipaddr",
         "counter32", "gauge32", "timeticks", "uinteger32", "counter64", "real"]


def indep_header(data):
    """independent reading of the identifier and length octets (X.690 8.1.2, 8.1.3) with the
    library's documented widths: tag number kept modulo 256, length modulo 2^64.
    Returns the expected response line."""
    if len(data) < 2:
        return "err Incomplete"
    i = 0
    ident = data[0]
    i = 1
    cls, cons, tag = ident >> 6, (ident >> 5) & 1, ident & 0x1f
    if tag == 0x1f:
        tag = 0
        while True:
            if i >= len(data):
                return "err Incomplete"
            t = data[i]
            i += 1
            tag = ((tag << 7) | (t & 0x7f)) & 0xff
            if not t & 0x80:
                break
    if i >= len(data):
        return "err Incomplete"
    n = data[i]
    i += 1
    if n & 0x80:
        k = n & 0x7f
        if i + k > len(data):
            return "err Incomplete"
        length = int.from_bytes(data[i:i + k], "big") & (2 ** 64 - 1) if k else 0
        i += k
    else:
        length = n
    if len(data) - i < length:
        return "err Incomplete"
    return f"ok {cls} {cons} {tag} {length} {gens.hx(data[i:])}"


def suffixes(rng):
    k = rng.randrange(6)
    if k == 0:
        return bytes([rng.getrandbits(8)])
    if k == 1:
        return b"\x00"
    if k == 2:
        return bytes(rng.getrandbits(8) for _ in range(rng.randrange(1, 9)))
    if k == 3:
        return rng.choice(gens.gen_values(rng, 1))
    if k == 4:
        return b"\xff" * rng.randrange(1, 4)
    return bytes([0x30, 0x82, 0xff, 0xff])


class _Over(Exception):
    pass


class _B:
    """TLV reader with the library's reading of identifier and length octets (see indep_header), used by the
    extent oracles below in place of the strict X.690 reader"""
    BerError = _Over

    @staticmethod
    def parse_tlv(buf, off=0, limit=None):
        data = bytes(buf[off:limit])
        r = indep_header(data)
        if not r.startswith("ok "):
            raise _Over(f"element at {off} does not fit ({r})")
        f = r.split(" ")
        length, tail = int(f[4]), (b"" if f[5] == "-" else bytes.fromhex(f[5]))
        hb = len(data) - len(tail)
        ident = data[0]
        return ident, data[hb:hb + length], off + hb + length, True

    @staticmethod
    def int_value(content):
        return (int.from_bytes(content, "big", signed=True) if content else 0, True)


def indep_value_rest(x):
    """octets left after the first TLV of x (declared extent), or None if x does not start with a plain TLV"""
    B = _B
    try:
        _, _, end, _ = B.parse_tlv(x, 0)
    except B.BerError:
        return None
    return x[end:]


def indep_pdu_extents_ok(x):
    """does a GetResponse PDU keep every element inside the element that holds it, with nothing left over at the PDU
    level? (True / False; None = not a plain GetResponse, no opinion)"""
    B = _B
    try:
        tag, c, end, _ = B.parse_tlv(x, 0)
        if tag != 0xA2:
            return None
        pos = 0
        for _ in range(3):
            t, _, pos, _ = B.parse_tlv(c, pos)
            if t != 0x02:
                return None
        t, vb, pos, _ = B.parse_tlv(c, pos)
        if t != 0x30:
            return None
        if pos != len(c):
            return False                      # octets after the varbind list inside the PDU
        q = 0
        while q < len(vb):
            t, one, q, _ = B.parse_tlv(vb, q)  # raises when a varbind runs past the list
            if t != 0x30:
                return None
            t2, _, e2, _ = B.parse_tlv(one, 0)
            if t2 not in (0x06, 0x0D):
                return None
            B.parse_tlv(one, e2)              # the value must lie inside its varbind
        return True
    except B.BerError:
        return False


def indep_v3_outline(dg):
    """(msgID, engine id, boots, time, user) of a v3 message read with every element confined to the element that
    holds it; raises BerError when a declared extent is exceeded; None when the outline is not the plain v3 shape"""
    B = _B
    tag, c, end, _ = B.parse_tlv(dg, 0)
    if tag != 0x30 or end != len(dg):
        return None
    t, ver, pos, _ = B.parse_tlv(c, 0)
    if t != 0x02 or B.int_value(ver)[0] != 3:
        return None
    t, hdr, pos, _ = B.parse_tlv(c, pos)
    if t != 0x30:
        return None
    t, mid, hp, _ = B.parse_tlv(hdr, 0)
    if t != 0x02:
        return None
    t, _, hp, _ = B.parse_tlv(hdr, hp)
    t, _, hp, _ = B.parse_tlv(hdr, hp)
    t, _, hp, _ = B.parse_tlv(hdr, hp)        # msgSecurityModel must still lie inside msgGlobalData
    t, sp, pos, _ = B.parse_tlv(c, pos)       # msgSecurityParameters start where msgGlobalData ends
    if t != 0x04:
        return None
    t, usm, e, _ = B.parse_tlv(sp, 0)
    if t != 0x30:
        return None
    out, q = [], 0
    for want in (0x04, 0x02, 0x02, 0x04):
        t, v, q, _ = B.parse_tlv(usm, q)
        if t != want:
            return None
        out.append(v)
    return (B.int_value(mid)[0], out[0], B.int_value(out[1])[0], B.int_value(out[2])[0], out[3])


def run(chk, model_ok=True):
    rng = random.Random(chk.seed)
    quick = chk.tier == "quick"
    n = 25000 if quick else 800000
    base = []
    base += gens.lines_ber(rng, n) + gens.lines_value(rng, n) + gens.lines_real(rng, n // 2)
    base += gens.lines_hdr(rng, n // 2) + gens.lines_msg(rng, n) + gens.lines_pdu(rng, n // 2)
    base = streams.corpus_lines("C16") + [
        "value 0903800101", "value 090380ff01", "ber real 09018000", "value 09020131", "value 0905033145332b",
    ] + base
    st0 = streams.Streams(chk, model_ok)
    st0.add("base", base)
    st0.run()
    # metamorphic pass: every request that decoded alone is repeated with bytes appended
    meta, expect = [], []
    for ln, out in zip(st0.lines, st0.impl):
        parts = ln.split(" ")
        if not out.startswith("ok"):
            continue
        kind = parts[0]
        if kind not in ("ber", "value", "hdr", "msg", "usm"):
            continue
        x = parts[-1]
        s = suffixes(rng)
        y = (x if x != "-" else "") + s.hex()
        if kind in ("ber", "value"):
            f = out.split(" ")
            val, rest = " ".join(f[1:-1]), f[-1]
            newrest = (rest if rest != "-" else "") + s.hex()
            meta.append(" ".join(parts[:-1] + [y]))
            expect.append(f"ok {val} {newrest}")
        elif kind == "hdr":
            f = out.split(" ")
            tail = f[-1]
            newtail = (tail if tail != "-" else "") + s.hex()
            meta.append(f"hdr {y}")
            expect.append(" ".join(f[:-1] + [newtail]))
        elif kind in ("msg", "usm"):
            meta.append(" ".join(parts[:-1] + [y]))
            expect.append("err TrailingData")
    # inner overrun: cut the input of a successfully parsed element inside its content
    over, over_expect = [], []
    for ln, out in zip(st0.lines, st0.impl):
        parts = ln.split(" ")
        if parts[0] == "hdr" and out.startswith("ok"):
            f = out.split(" ")
            length, tail = int(f[4]), f[5]
            tl = 0 if tail == "-" else len(tail) // 2
            total = len(parts[1]) // 2
            hb = total - tl
            if length > 0:
                cut = hb + rng.randrange(0, length)
                over.append("hdr " + gens.hx(bytes.fromhex(parts[1])[:cut]))
                over_expect.append("err Incomplete")
    st = streams.Streams(chk, model_ok)
    st.add("appended", meta)
    st.add("truncated-content", over)
    st.run()
    exp = expect + over_expect
    bad = 0
    for ln, out, want in zip(st.lines, st.impl, exp):
        if out != want:
            bad += 1
            if bad <= 5:
                chk.violation("oracle", f"extent violated: {ln[:160]} -> {out[:100]} (expected {want[:100]})",
                              {"kind": "oracle", "lines": [ln], "impl": [out], "expected": want})
    # independent reading of extents at the value, PDU and message layers (every element confined to the one holding it)
    B = _B
    for ln, out in zip(st0.lines, st0.impl):
        parts = ln.split(" ")
        if not out.startswith("ok") or parts[-1] == "-":
            continue
        try:
            x = bytes.fromhex(parts[-1])
        except ValueError:
            continue
        why = None
        if parts[0] == "value":
            rest = indep_value_rest(x)
            got_rest = out.split(" ")[-1]
            if rest is not None and got_rest != (rest.hex() or "-"):
                why = f"the value's element ends {len(rest)} octets before the end of the input, the decoder left {got_rest} unread"
        elif parts[0] == "pdu":
            if indep_pdu_extents_ok(x) is False:
                why = "an element of the PDU runs past the element that holds it, or octets are left over inside the PDU, yet it was accepted"
        elif parts[0] == "msg" and len(parts) == 3 and parts[1] == "v3":
            try:
                o = indep_v3_outline(x)
            except B.BerError as e:
                why = f"a field of the message lies outside the element that declares it ({e}), yet the message was accepted"
                o = None
            if o is not None:
                f = out.split(" ")
                try:
                    got = (int(f[1]), b"" if f[5] == "-" else bytes.fromhex(f[5]), int(f[6]), int(f[7]), b"" if f[8] == "-" else bytes.fromhex(f[8]))
                    if got != o:
                        why = f"read with every element confined to its holder the message says (msgID, engine, boots, time, user) = {o}, the decoder says {got}"
                except (ValueError, IndexError):
                    pass
        if why:
            bad += 1
            if bad <= 5:
                chk.violation("oracle", f"extent violated: {why}: {ln[:200]} -> {out[:100]}",
                              {"kind": "oracle", "lines": [ln], "impl": [out], "expected": why})
    # independent reading of every header: the content starts right after the length octets
    for ln, out in zip(st0.lines, st0.impl):
        if ln.startswith("hdr "):
            h = ln.split(" ")[1]
            want = indep_header(b"" if h == "-" else bytes.fromhex(h))
            if out != want:
                bad += 1
                if bad <= 5:
                    chk.violation("oracle", f"header extent differs from X.690: {ln[:120]} -> {out[:100]} (expected {want[:100]})",
                                  {"kind": "oracle", "lines": [ln], "impl": [out], "expected": want})
    # declared lengths inside an ENCRYPTED scoped PDU that run past the decrypted msgData: the decoder works on
    # the cipher object's private buffer, which holds older traffic beyond the plaintext; nothing of it may be read
    from vlib import e2e, sessions
    sys.path.insert(0, "/verif/harness/py")
    import ber
    env = e2e.env()
    n_enc = 0

    def fake(tag, content, extra):
        return bytes([tag]) + ber.enc_len(len(content) + extra) + content

    for peer in (e2e.Peer("v3", auth=1, priv=1), e2e.Peer("v3", auth=2, priv=1, auth_kt="localized", priv_kt="localized"),
                 e2e.Peer("v3", auth=2, priv=2)):
        stp = peer.state
        sx = sessions.Sess(env, peer, rng)
        for it in range(8 if quick else 150):
            # history first: some traffic that stays in the private buffer
            for _ in range(rng.randrange(0, 3)):
                rec = sx.send("get", sessions.rand_oid_text(rng))
                if rec["result"][0] == "ok" and sx.conv.req and rng.random() < 0.5:
                    q = sx.conv.req
                    sx.recv("get", [peer.response(q, [ber.varbind(tuple(q["varbinds"][0][0]), ber.OCT(bytes(range(40))))])])
            rec = sx.send("get", "1.3.6.1.2.1.1.1.0")
            q = sx.conv.req
            if rec["result"][0] != "ok" or not q or "request_id" not in q:
                continue
            data = bytes(rng.getrandbits(8) for _ in range(rng.randrange(0, 12)))
            # the agent zero-pads DES plaintext to a multiple of 8: the padding IS decrypted msgData, so the declared
            # lengths must exceed it to run past the data (sizes are the same for every `extra` below 100)
            probe = fake(0x30, ber.OCT(stp.engine_id) + ber.OCT(b"") + fake(0xA2, ber.INT(q["request_id"]) + ber.INT(0) + ber.INT(0)
                         + fake(0x30, fake(0x30, ber.OID((1, 3, 6, 1, 2, 1, 1, 1, 0)) + fake(0x04, data, 9), 9), 9), 9), 9)
            pad = (-len(probe)) % 8 if stp.priv_alg == 1 else 0
            extra = pad + rng.choice([1, 7, 8, 16, 40])
            value = fake(0x04, data, extra)
            vbind = fake(0x30, ber.OID((1, 3, 6, 1, 2, 1, 1, 1, 0)) + value, extra)
            vbl = fake(0x30, vbind, extra)
            pdu = fake(0xA2, ber.INT(q["request_id"]) + ber.INT(0) + ber.INT(0) + vbl, extra)
            scoped = fake(0x30, ber.OCT(stp.engine_id) + ber.OCT(b"") + pdu, extra)
            ct, salt = stp.encrypt(scoped, stp.boots, stp.time)
            flags = 3
            msg = ber.msg_v3(q["msg_id"], flags, stp.engine_id, stp.boots, stp.time, stp.user, bytes(12), salt, ber.OCT(ct))
            import usm as _usm
            msg = _usm.sign(msg, ber.decode_message(msg)["auth_params_offset"], stp.auth_alg, stp.auth_key)
            n_enc += 1
            r = sx.recv("get", [msg])["result"]
            if r[0] == "ok":
                chk.violation("oracle", f"{sx.label}: an encrypted reply whose inner lengths run {extra} octets past the decrypted msgData was "
                              f"accepted and delivered {r[1]!r:.80} (octets beyond the plaintext were read)",
                              {"kind": "oracle", "lines": [sx.line()[:400000]], "extra": extra})
                break
        nl_, nd_ = sessions.model_compare(chk, [sx], model_ok)
    chk.coverage["encrypted_overrun_cases"] = n_enc
    st0.diff("C16 decoders (base)")
    st.diff("C16 decoders (appended / truncated)")
    st.coverage(
        "metamorphic relation on the real decoders: every request of the base streams (typed decoders, SnmpValue incl. "
        "REAL, header, v1/v2c/v3 messages, USM parameters; structured-valid / mutated / malformed) that decodes alone "
        "is repeated with a random suffix appended (single octets, zero, random runs, a whole TLV, ff.., an over-long "
        "header): the value must be unchanged and the remainder must be the old remainder plus the suffix; messages "
        "must fail with TrailingData. Every parsed header is also re-run with its content cut short: Incomplete. "
        "non-trivial = the base request decoded successfully (all requests of this pass); distinct request lines.",
        lambda ln, out: True)
    chk.coverage["base_requests"] = len(st0.lines)
    chk.coverage["evaluations"] = len(st0.lines) + len(st.lines)


def replay(chk, path):
    with open(path) as f:
        rp = json.load(f)
    gsv, _ = common.build_gsv()
    out, _, _ = common.run_gsv(gsv, rp.get("lines", []))
    rc = 0
    for ln, o in zip(rp.get("lines", []), out):
        print(ln[:120], "->", o[:120], "expected", rp.get("expected"))
        if rp.get("expected") and o != rp["expected"]:
            rc = 1
    return rc
