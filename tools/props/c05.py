"""C05 — a walk returns the whole subtree, in order, once — by GetNext or GetBulk."""
import bisect
import json
import random
import sys

from vlib import common, e2e, gens, streams, values, walks

sys.path.insert(0, "/verif/harness/py")
import ber  # noqa: E402


def gen_mib(rng, table=False):
    """sorted list of (arcs, (valueTLV, pyvalue)); siblings sharing byte prefixes, multi-octet arcs"""
    n = rng.choice([0, 1, 2, 5, 12, 30])
    roots = [(1, 3, 6, 1, 2, 1), (1, 3, 6, 1, 4, 1, 16383), (1, 3, 6, 128), (1, 3, 6, 129), (1, 3, 7), (1, 3), (0, 0),
             (2, 39, 4294967295), (1, 3, 6, 16384), (1, 3, 6, 1)]
    ents = {}
    for _ in range(n):
        r = rng.choice(roots)
        arcs = r + tuple(rng.choice([0, 1, 2, 3, 127, 128, 129, 16383, 16384, 2 ** 21, 2 ** 32 - 1]) if rng.random() < 0.7
                         else rng.getrandbits(rng.randrange(1, 33)) for _ in range(rng.randrange(0, 4)))
        t = values.gen_value(rng, data_only=True, allow_real=False)
        ents[arcs] = (t[0], t[1])
    troot = None
    if table or rng.random() < 0.3:
        # a table: many names of the same length under one root (column.index), as real MIBs have
        r = troot = rng.choice(roots[:4])
        for col in rng.sample(range(1, 12), rng.randrange(1, 4)):
            for idx in rng.sample([1, 2, 3, 127, 128, 200, 300, 16383, 16384, 70000], rng.randrange(2, 6)):
                t = values.gen_value(rng, data_only=True, allow_real=False)
                ents[r + (1, col, idx)] = (t[0], t[1])
    if rng.random() < 0.15:
        # names of 128+ encoded octets (the length of their OID element needs the long form), several in a row
        r = rng.choice(roots[:5])
        for k in range(rng.randrange(2, 5)):
            arcs = r + tuple([2 ** 32 - 1] * rng.randrange(26, 40)) + (k,)
            t = values.gen_value(rng, data_only=True, allow_real=False)
            ents[arcs] = (t[0], t[1])
    mib = sorted(ents.items())
    bases = roots + [m[0] for m in mib[:3]] + [(1, 3, 6, 1, 2, 1, 99), (2, 39), (1, 3, 6, 1, 2)]
    if table:
        return mib, troot
    return mib, rng.choice(bases)


def agent_replies(mib, base, kind, maxrep, cap, v1, overshoot=False, rel_rng=None, rel_p=0.5):
    """RFC 3416 agent: the sequence of replies to the requests a correct walker sends.
    Computed lazily from the request OID actually received: returns a function req_arcs -> rep.
    overshoot: an agent that answers with `cap` rows however few were asked for (the property quantifies over any
    agent-side repetition count)"""
    keys = [m[0] for m in mib]

    def getnext(o):
        i = bisect.bisect_right(keys, tuple(o))
        return mib[i] if i < len(mib) else None

    def reply(req):
        o = tuple(req["varbinds"][0][0]) if req.get("varbinds") else ()
        if req["pdu_type"] == 1:
            e = getnext(o)
            if e is None:
                if v1:
                    return ("v1end", [(o, ber.NULL)])
                return [(o, ber.ENDOFMIBVIEW)]
            return [(e[0], e[1][0])]
        if req["pdu_type"] == 5:
            n = cap if (overshoot and req["max_repetitions"] > 0) else min(req["max_repetitions"], cap)
            out = []
            cur = o
            size = 0
            for _ in range(max(n, 0)):
                # like a real agent, never build a reply beyond what a datagram / the manager's buffer takes
                if out and size > 1200:
                    break
                e = getnext(cur)
                size += 8 + (6 * len(e[0]) + len(e[1][0]) if e else 6 * len(cur))
                if e is None:
                    out.append((cur, ber.ENDOFMIBVIEW))
                else:
                    out.append((e[0], e[1][0]))
                    cur = e[0]
            # (rel_rng: an agent that compresses the names of a reply with RELATIVE-OID elements)
            return walks.relativize(rel_rng, out, rel_p) if rel_rng is not None else out
        return []
    return reply


def subtree(mib, base):
    b = tuple(base)
    return [(values.dotted(a), v[1]) for a, v in mib if len(a) > len(b) and a[:len(b)] == b]


class LazyReplies:
    """adapter: walks.* index replies by step; here the reply depends on the request received"""

    def __init__(self, fn):
        self.fn = fn


def run_mode(mode, peer, kind, base, maxrep, reply_fn, env, use_fetch=False, allow_bulk=True, pre=False):
    """like walks.run_* but the agent computes each reply from the request"""
    out = walks.Outcome()
    v1 = peer.kind == "v1"

    PRE_BASE = "1.3.6.1.4.1.99999.7"
    in_pre = {"on": False}

    def pre_page(req):
        """a full page below the base of the walk that is abandoned before the walk under test"""
        names = [tuple(req["varbinds"][0][0]) + (i,) for i in range(1, 7)]
        return [peer.response(req, [ber.varbind(n, ber.INT(9000 + i)) for i, n in enumerate(names)])]

    def dgs(req):
        if not isinstance(req, dict) or "pdu_type" not in req or req.get("undecodable"):
            return []                  # an agent drops what it cannot parse
        if in_pre["on"]:
            return pre_page(req)
        rep = reply_fn(req)
        if isinstance(rep, tuple) and rep and rep[0] == "v1end":
            return [peer.response(req, walks.vb_bytes(rep[1]), error_status=2, error_index=1)]
        return [peer.response(req, walks.vb_bytes(rep))]
    if mode == "raw":
        conv = e2e.Conv(peer, env)
        it = conv.new_iter(base, maxrep if kind == "bulk" else None)
        op = "getnext" if kind == "next" else "getbulk"
        buf = []
        while len(out.yields) <= walks.CAP:
            if kind == "bulk" and buf:
                v = buf.pop(0)
                if v is None:
                    out.ending = "stop"
                    return out
                out.yields.append(v)
                continue
            s = conv.send(op, it)
            if s[0] != "ok":
                out.ending = s
                return out
            out.requests.append(conv.req)
            conv.inject(dgs(conv.req))
            r = conv.recv(op, it)
            if r[0] == "exc":
                out.ending = "stop" if r[1] == "StopAsyncIteration" else r
                return out
            if kind == "next":
                out.yields.append(r[1])
            else:
                buf = list(r[1])
        out.ending = "cap"
        return out
    if mode == "sync":
        conv = e2e.Conv(peer, env)

        def script(op, req):
            if not in_pre["on"]:
                out.requests.append(req)
            return dgs(req)
        shim = e2e.SockShim(conv, script)
        from gufo.snmp.sync_client.getbulk import GetBulkIter
        from gufo.snmp.sync_client.getnext import GetNextIter
        if pre and not v1:
            # the caller starts another GetBulk walk and leaves it after two rows (`break`)
            in_pre["on"] = True
            pit = GetBulkIter(shim, PRE_BASE, 6)
            e2e.ncall(lambda: (next(pit), next(pit)))
            in_pre["on"] = False
        if use_fetch:
            from gufo.snmp import SnmpVersion
            from gufo.snmp.sync_client import SnmpSession
            ver = SnmpVersion.v1 if v1 else SnmpVersion.v2c
            sess = SnmpSession("127.0.0.1", port=env.agent.port, community="public", version=ver, timeout=0.05,
                               max_repetitions=maxrep, allow_bulk=allow_bulk)
            sess._sock = shim
            itr = sess.fetch(base)
        else:
            itr = GetNextIter(shim, base) if kind == "next" else GetBulkIter(shim, base, maxrep)
        while len(out.yields) <= walks.CAP:
            # (callers consume a walk in pieces: each piece starts with iter(it), which must be the same walk)
            if len(out.yields) % 3 == 2:
                ri = e2e.ncall(lambda: iter(itr))
                if ri[0] == "ok":
                    itr = ri[1]
            r = e2e.ncall(lambda: next(itr))
            if r[0] == "exc":
                out.ending = "stop" if r[1] == "StopIteration" else r
                return out
            out.yields.append(r[1])
        out.ending = "cap"
        return out
    # async
    state = {}

    def script(dg):
        try:
            req = peer.decode(dg)
        except ber.BerError as e:
            req = {"undecodable": str(e)}
        if not in_pre["on"]:
            out.requests.append(req)
        return dgs(req)

    async def main(port):
        from gufo.snmp import SnmpVersion
        from gufo.snmp.async_client import SnmpSession
        from gufo.snmp.user import Aes128Key, DesKey, Md5Key, Sha1Key, User
        kw = dict(timeout=1.5, max_repetitions=maxrep, allow_bulk=allow_bulk)
        if peer.kind == "v3":
            s = peer.state
            sess = SnmpSession("127.0.0.1", port=port, engine_id=s.engine_id, user=e2e.client_user(s), **kw)
        else:
            sess = SnmpSession("127.0.0.1", port=port, community=peer.community,
                               version=SnmpVersion.v1 if v1 else SnmpVersion.v2c, **kw)
        if pre and not v1:
            in_pre["on"] = True
            k = 0
            async for _ in sess.getbulk(PRE_BASE, 6):
                k += 1
                if k >= 2:
                    break
            in_pre["on"] = False
        itr = sess.fetch(base) if use_fetch else (sess.getnext(base) if kind == "next" else sess.getbulk(base, maxrep))
        async for item in itr:
            out.yields.append(item)
            if len(out.yields) > walks.CAP:
                return "cap"
        return "stop"
    r, _ = e2e.run_async(main, script)
    out.ending = r[1] if r[0] == "ok" else ("exc", r[1], r[2])
    return out


def run(chk, model_ok=True):
    rng = random.Random(chk.seed)
    quick = chk.tier == "quick"
    env = e2e.env()
    peers = [e2e.Peer("v1"), e2e.Peer("v2c"), e2e.Peer("v3"), e2e.Peer("v3", auth=1, priv=1), e2e.Peer("v3", auth=2, priv=2)]
    plan = [("raw", 750 if quick else 15000), ("sync", 600 if quick else 12000), ("async", 75 if quick else 1500)]
    bad = 0
    n_walks = n_exch = 0
    hist = {}
    distinct = set()
    samples = []

    def fail(what, detail):
        nonlocal bad
        bad += 1
        if bad <= 5:
            chk.violation("oracle", what, {"kind": "oracle", "lines": [json.dumps(detail, default=str)[:3000]], "expected": what})

    for mode, n in plan:
        for _ in range(n):
            peer = rng.choice(peers)
            v1 = peer.kind == "v1"
            mib, base = gen_mib(rng)
            maxrep = rng.choice([1, 2, 3, 7, 20, 20, 127, 128, 200, 255, 256, 1000])
            cap = rng.choice([1, 2, 5, 50])
            overshoot = rng.random() < 0.2
            use_fetch = mode != "raw" and rng.random() < 0.3
            allow_bulk = rng.random() < 0.7
            kind = "next" if v1 else rng.choice(["next", "bulk"])
            rel = rng.random() < 0.25
            reply_fn = agent_replies(mib, base, kind, maxrep, cap, v1, overshoot, rng if rel else None)
            # sometimes the caller has abandoned another GetBulk walk just before (rows left in its buffer)
            pre = mode != "raw" and rng.random() < 0.2
            out = run_mode(mode, peer, kind, values.dotted(base), maxrep, reply_fn, env, use_fetch, allow_bulk, pre)
            n_walks += 1
            n_exch += len(out.requests)
            want = subtree(mib, base)
            detail = {"mode": mode, "session": peer.label, "kind": kind, "fetch": use_fetch, "allow_bulk": allow_bulk,
                      "abandoned_walk_before": pre, "agent_ignores_max_repetitions": overshoot, "relative_names": rel,
                      "base": values.dotted(base), "maxrep": maxrep, "agent_cap": cap,
                      "mib": [values.dotted(a) for a, _ in mib]}
            if any(not (isinstance(y, tuple) and len(y) == 2) for y in out.yields):
                fail(f"walk of {values.dotted(base)} ({mode}/{peer.label}/{kind}) yielded {[y for y in out.yields if not (isinstance(y, tuple) and len(y) == 2)][:2]!r}: "
                     "not an (oid, value) pair", detail)
                continue
            got = [(o, e2e.canon(v)) for o, v in out.yields]
            exp = [(o, e2e.canon(v)) for o, v in want]
            if out.ending != "stop":
                fail(f"walk of {values.dotted(base)} ({mode}/{peer.label}/{kind}) ended with {out.ending!r} instead of stopping", detail)
                continue
            if got != exp:
                fail(f"walk of {values.dotted(base)} ({mode}/{peer.label}/{kind}, maxrep {maxrep}, cap {cap}) returned "
                     f"{[o for o, _ in got][:6]} but the subtree is {[o for o, _ in exp][:6]}", detail)
                continue
            if use_fetch:
                types = {r["pdu_type"] for r in out.requests if "pdu_type" in r}
                want_t = {5} if (allow_bulk and not v1) else {1}
                if types - want_t:
                    fail(f"fetch() used PDU types {types}, expected {want_t} (v1={v1}, allow_bulk={allow_bulk})", detail)
                    continue
            hist[f"{mode}:{kind}{':fetch' if use_fetch else ''}"] = hist.get(f"{mode}:{kind}{':fetch' if use_fetch else ''}", 0) + 1
            distinct.add((mode, kind, use_fetch, len(mib), base, len(want), maxrep, cap))
            if len(samples) < 5 and want:
                samples.append({**detail, "yields": [o for o, _ in want][:6]})
    # a walk is only complete if the agent is asked for what the caller asked: max-repetitions of every GetBulk of a
    # call history (0 / None = the session default)
    from props import c03
    for desc, why in c03.maxrep_histories(rng, env, 5 if quick else 100):
        n_walks += 1
        if why:
            fail(f"{desc}: {why}", {"history": desc})
    st = streams.Streams(chk, model_ok)
    st.add("walk", gens.lines_walk(rng, 4500 if quick else 60000))
    st.add("cmp", gens.lines_cmp(rng, 4500 if quick else 60000))
    st.run()
    st.diff("C05 walk conversion / OID order")
    st.coverage(
        "random finite MIBs (0..30 entries, multi-octet arcs, siblings sharing byte prefixes such as 128/129/16384, "
        "entries before and after the subtree, empty MIB) served by an RFC 3416 GetNext/GetBulk agent simulator "
        "(endOfMibView for v2c/v3, noSuchName for v1, agent-side repetition cap 1..50); bases: existing subtrees, "
        "leaves, absent nodes, last subtree; max_repetitions 1..20; getnext / getbulk / fetch through the raw socket "
        "API, the sync iterator classes and the async client for v1, v2c, v3 (noAuth, MD5+DES, SHA1+AES). Oracle: the "
        "yields equal the MIB entries strictly below the base, in order, each once, then stop; fetch uses GetBulk "
        "only when allowed. distinct = distinct (mode, kind, fetch, |MIB|, base, |subtree|, maxrep, cap).",
        lambda ln, out: True)
    chk.coverage["evaluations"] = n_walks + len(st.lines)
    chk.coverage["distinct_nontrivial"] = len(distinct)
    chk.coverage["e2e_walks"] = n_walks
    chk.coverage["e2e_exchanges"] = n_exch
    chk.coverage["e2e_mode_histogram"] = dict(sorted(hist.items()))
    chk.coverage["samples"] = samples or chk.coverage["samples"]


def replay(chk, path):
    with open(path) as f:
        rp = json.load(f)
    print(rp.get("lines"))
    return 0
