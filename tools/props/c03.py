"""C03 — requests on the wire are exactly what the caller asked for."""
import json
import random
import sys

from vlib import common, e2e, sessions, values

sys.path.insert(0, "/verif/harness/py")
import ber  # noqa: E402

PDU_OF = {"get": 0, "getmany": 0, "getnext": 1, "getbulk": 5, "refresh": 0}


PART = __import__("re").compile(r"\+?[0-9]+")


def text_denotes(t):
    parts = t.split(".")
    if len(parts) < 2 or not all(PART.fullmatch(p) for p in parts):
        return None
    arcs = [int(p) for p in parts]
    if arcs[0] > 2 or arcs[1] > 39 or any(a > 2 ** 32 - 1 for a in arcs):
        return None
    return arcs


def size_estimate(s, rec):
    """upper estimate of the datagram a call needs (independent of the library): None = unknown"""
    if rec["op"] == "get":
        texts = [rec["arg"]]
    elif rec["op"] == "getmany":
        texts = list(rec["arg"])
    elif rec["op"] == "refresh":
        texts = []
    else:
        return 700
    total = 0
    for t in texts:
        a = text_denotes(t)
        if a is None:
            return None
        total += len(ber.oid_content(a)) + 8
    p = s.peer
    over = 40 + (len(p.community) if p.kind != "v3" else 2 * len(p.state.engine_id) + len(p.state.user) + 90)
    return total + over


def check_request(s, rec, seen_bt):
    """independent reading of one emitted datagram against the call; returns None or a reason"""
    r = rec["result"]
    dgs = rec["datagrams"]
    if rec.get("ctor_failed"):
        return f"a session with valid credentials could not be created: {r[1]}"
    if r[0] != "ok":
        if dgs:
            return f"call failed with {r[1]} but {len(dgs)} datagram(s) were sent"
        if not r[2]:
            return f"call raised {r[1]} which is not an Exception (panic)"
        est = size_estimate(s, rec)
        if r[1] == "SnmpEncodeError" and est is not None and est < 3900:
            return f"request needing at most {est} octets was refused with SnmpEncodeError (it fits the buffer)"
        if est is not None and r[1] != "SnmpEncodeError":
            return f"valid request refused with {r[1]}"
        return None
    if rec["op"] in ("get", "getmany"):
        texts = [rec["arg"]] if rec["op"] == "get" else list(rec["arg"])
        if any(text_denotes(t) is None for t in texts):
            return "a request with a malformed OID text was sent instead of being refused"
    if len(dgs) != 1:
        return f"call succeeded but {len(dgs)} datagrams were sent"
    d = rec["req"]
    if not d or "undecodable" in d:
        return f"datagram is not a well-formed SNMP message: {d}"
    if not d.get("all_minimal"):
        return "datagram is not minimally encoded at every level"
    p = s.peer
    want_ver = {"v1": 0, "v2c": 1, "v3": 3}[p.kind]
    if d["version"] != want_ver:
        return f"version {d['version']} instead of {want_ver}"
    if p.kind != "v3":
        if d["community"] != p.community.encode():
            return "community differs from the session's"
    else:
        st = p.state
        if d["user"] != st.user:
            return f"user name {d['user']!r} instead of {st.user!r}"
        if d["engine_id"] != st.engine_id or d.get("ctx_engine_id", st.engine_id) != st.engine_id:
            return "engine id differs from the session's"
        if (d["boots"], d["time"]) not in seen_bt:
            return f"engine boots/time {(d['boots'], d['time'])} were never announced by the agent"
        if rec.get("expect_bt") is not None and (d["boots"], d["time"]) != rec["expect_bt"]:
            return (f"engine boots/time {(d['boots'], d['time'])} instead of {rec['expect_bt']}, the values of the most "
                    "recent message the session accepted (a skipped datagram must not move the clock)")
        want_flags = (1 if st.auth_alg else 0) | (2 if st.priv_alg else 0)
        if d["flags"] & 3 != want_flags or d["flags"] > 7:
            return f"security flags {d['flags'] & 3} instead of {want_flags}"
        if d["security_model"] != 3:
            return "security model is not USM"
        if not 0 <= d["msg_id"] < 2 ** 31:
            return f"msgID {d['msg_id']} outside 0..2^31-1"
        if st.auth_alg and d["auth_ok"] is not True:
            return "msgAuthenticationParameters do not verify"
    if d["pdu_type"] != PDU_OF[rec["op"]]:
        return f"PDU type {d['pdu_type']} for {rec['op']}"
    if not 0 <= d["request_id"] < 2 ** 31:
        return f"request-id {d['request_id']} outside 0..2^31-1"
    if rec["op"] == "get":
        want = [values.arcs_norm(rec["arg"])]
    elif rec["op"] == "getmany":
        want = [values.arcs_norm(a) for a in rec["arg"]]
    elif rec["op"] == "refresh":
        want = []
    else:
        want = None
    got = [tuple(v[0]) for v in d["varbinds"]]
    if want is None and rec.get("expect_oid") is not None and got != [tuple(rec["expect_oid"])]:
        return (f"the walk's follow-up request names {got[:1]} instead of {tuple(rec['expect_oid'])}, the OID the agent "
                "returned last (nothing else may be asked for)")
    if want is not None and got != want:
        return f"OIDs {got[:4]} instead of {want[:4]}"
    if any(v[1] != 0x05 or v[2] != b"" for v in d["varbinds"]):
        return "a requested OID is not bound to NULL"
    if rec["op"] == "getbulk":
        if d["non_repeaters"] != 0:
            return f"non-repeaters {d['non_repeaters']}"
        if d["max_repetitions"] != rec.get("maxrep", d["max_repetitions"]):
            return f"max-repetitions {d['max_repetitions']} instead of {rec.get('maxrep')}"
    elif (d.get("error_status"), d.get("error_index")) != (0, 0):
        return "error-status / error-index not zero in a request"
    return None


def maxrep_histories(rng, env, n):
    """the real sync and async SnmpSession: histories of getbulk(oid), getbulk(oid, N), fetch(oid) on one session; every
    GetBulk request must carry the max-repetitions of ITS call (the override, else the session default) and
    non-repeaters 0. Yields (description, problem-or-None)."""
    from gufo.snmp import SnmpVersion
    peer = e2e.Peer("v2c")
    for h in range(n):
        default = rng.choice([1, 5, 20, 127, 128, 300])
        calls = []
        for _ in range(rng.randrange(2, 6)):
            k = rng.random()
            if k < 0.4:
                calls.append(("getbulk", None))
            elif k < 0.8:
                calls.append(("getbulk", rng.choice([0, 1, 2, 7, 50, 128, 255, 1000])))   # 0 = "not given": the default
            else:
                calls.append(("fetch", None))
        # (every history has one call that passes 0 explicitly, at a random position)
        calls.insert(rng.randrange(len(calls) + 1), ("getbulk", 0))
        want = [mr if mr else default for _, mr in calls]
        desc = f"default max_repetitions {default}, calls {[(c, m) for c, m in calls]}"
        for mode in ("sync", "async"):
            seen = []

            def answer(req):
                seen.append(req)
                name = tuple(req["varbinds"][0][0]) if req.get("varbinds") else (1, 3)
                return [peer.response(req, [ber.varbind(name, ber.ENDOFMIBVIEW)])]
            if mode == "sync":
                from gufo.snmp.sync_client import SnmpSession
                conv = e2e.Conv(peer, env)
                sess = SnmpSession("127.0.0.1", port=env.agent.port, community="public", version=SnmpVersion.v2c,
                                   timeout=0.05, max_repetitions=default)
                sess._sock = e2e.SockShim(conv, lambda op, req: answer(req))

                def body():
                    for c, mr in calls:
                        it = sess.fetch("1.3.6.1.2.1") if c == "fetch" else (
                            sess.getbulk("1.3.6.1.2.1", mr) if mr is not None else sess.getbulk("1.3.6.1.2.1"))
                        for _ in it:
                            pass
                r = e2e.ncall(body)
            else:
                async def main(port):
                    from gufo.snmp.async_client import SnmpSession
                    async with SnmpSession("127.0.0.1", port=port, community="public", version=SnmpVersion.v2c,
                                           timeout=1.0, max_repetitions=default) as sx:
                        for c, mr in calls:
                            it = sx.fetch("1.3.6.1.2.1") if c == "fetch" else (
                                sx.getbulk("1.3.6.1.2.1", mr) if mr is not None else sx.getbulk("1.3.6.1.2.1"))
                            async for _ in it:
                                pass
                r, _ = e2e.run_async(main, lambda dg: answer(peer.decode(dg)))
            got = [q.get("max_repetitions") for q in seen if q.get("pdu_type") == 5]
            nr = [q.get("non_repeaters") for q in seen if q.get("pdu_type") == 5]
            if r[0] != "ok":
                yield f"{mode}: {desc}", f"the calls failed with {r[1]}"
            elif got != want or any(nr):
                yield f"{mode}: {desc}", f"the GetBulk requests carry max-repetitions {got} (non-repeaters {nr}), asked for {want}"
            else:
                yield f"{mode}: {desc}", None


def run(chk, model_ok=True):
    rng = random.Random(chk.seed)
    quick = chk.tier == "quick"
    env = e2e.env()
    peers = sessions.default_peers()
    n_hist = 150 if quick else 3000
    lines, expects, owners = [], [], []
    n_send = n_recv = n_fail = 0
    hist = {}
    distinct = set()
    samples = []
    bad = 0

    def fail(what, line):
        nonlocal bad
        bad += 1
        if bad <= 5:
            chk.violation("oracle", what, {"kind": "oracle", "lines": [line[:400000]], "expected": what})

    for h in range(n_hist):
        ss = sessions.run_history(env, rng, peers, rng.randrange(1, 5), rng.randrange(5, 40))
        for s in ss:
            seen_bt = {(0, 0)}
            maxreps = {}
            for ev in s.events:
                if ev.startswith("iter,"):
                    pass
            iter_maxrep = [int(ev.split(",")[2]) for ev, ex in zip(s.events, s.expect) if ev.startswith("iter,") and ex == "ok"]
            for rec in s.records:
                if rec["kind"] == "recv":
                    n_recv += 1
                    for dg in rec["datagrams"]:
                        try:
                            dd = ber.decode_message(dg)
                            if dd["version"] == 3:
                                seen_bt.add((dd["boots"], dd["time"]))
                        except ber.BerError:
                            pass
                    continue
                n_send += 1
                if rec["op"] == "getbulk" and rec["iter"] is not None and rec["iter"] < len(iter_maxrep):
                    rec["maxrep"] = iter_maxrep[rec["iter"]]
                why = check_request(s, rec, seen_bt)
                key = (s.label, rec["op"], rec["result"][0] if rec["result"][0] == "ok" else rec["result"][1])
                distinct.add(key + (len(rec["datagrams"][0]) if rec["datagrams"] else 0,))
                hist[f"{rec['op']}:{key[2]}"] = hist.get(f"{rec['op']}:{key[2]}", 0) + 1
                if rec["result"][0] != "ok":
                    n_fail += 1
                if why:
                    fail(f"{s.label} {rec['op']}({str(rec['arg'])[:60]}): {why}", s.line())
            if s.events:
                lines.append(s.line())
                expects.append(s.expect)
                owners.append(s.label)
        if len(samples) < 4 and ss and ss[0].events:
            samples.append({"session": ss[0].label, "request": ss[0].line()[:300]})
    # the real clients in random configurations (engine id given / None / b"", lost discovery probes): the credentials
    # every request carries (user name, engine id, boots / time, flags) as the property lists them
    from props import c13
    n_cli = 0
    for key, script, r, why in c13.client_cases(rng, 24 if quick else 480):
        n_cli += 1
        if why and any(w in why for w in ("carries user", "engine id", "boots/time", "security flags", "failed with")):
            fail(f"{key}: {why}", f"# client {key}")
    chk.coverage["client_runs"] = n_cli
    n_mr = 0
    for desc, why in maxrep_histories(rng, env, 6 if quick else 200):
        n_mr += 1
        if why:
            fail(f"{desc}: {why}", f"# {desc}")
    chk.coverage["maxrep_histories"] = n_mr
    # the buffer pool on its own: programs of acquire / write / drop with several handles out at once; every
    # buffer handed out must be empty (oracle), and the run must agree with Model/Pool.lean (correspondence)
    from vlib import streams
    def pool_prog():
        ops, live, nh = [], [], 0
        for _ in range(rng.randrange(1, 25)):
            r = rng.random()
            if r < 0.4 or not live:
                ops.append("a"); live.append(nh); nh += 1
            elif r < 0.75:
                k = rng.choice(live)
                ln = rng.choice([1, 2, 7, 100, 1000, 2040, 4079, 4080, 4081]) if rng.random() < 0.5 else rng.randrange(1, 300)
                ops.append(f"w{k}:" + bytes(rng.getrandbits(8) for _ in range(min(ln, 64))).hex() * 1
                           if ln <= 64 else f"w{k}:" + (bytes([rng.getrandbits(8)]) * ln).hex())
            else:
                k = rng.choice(live); live.remove(k); ops.append(f"d{k}")
        return "pool " + ";".join(ops)
    stp = streams.Streams(chk, model_ok)
    stp.add("pool", [pool_prog() for _ in range(400 if quick else 20000)])
    stp.run()
    for ln, out in zip(stp.lines, stp.impl):
        if not out.startswith("ok "):
            fail(f"pool program failed: {out[:80]}", ln)
            continue
        for op, res in zip(ln[5:].split(";"), out[3:].split(";")):
            if op == "a" and res != "0":
                fail(f"the pool handed out a buffer that already holds {res} octets (pooled buffers must come back reset)", ln)
                break
    stp.diff("C03 buffer pool")
    chk.coverage["pool_programs"] = len(stp.lines)
    if model_ok and lines:
        out, rc, err = common.run_model(lines)
        nd = 0
        for ln, ex, mo, who in zip(lines, expects, out + ["<missing>"] * (len(lines) - len(out)), owners):
            d = sessions.compare(ex, mo)
            if d:
                nd += 1
                if nd == 1:
                    chk.violation("correspondence",
                                  f"session history of {who}: event {d[0]} implementation {str(d[1])[:120]} model {str(d[2])[:120]}",
                                  {"kind": "correspondence", "stream": "session", "lines": [ln[:400000]], "impl": [str(d[1])[:500]],
                                   "model": [str(d[2])[:500]], "broken": ["correspondence session histories: Lean Session.send/recvLoop vs /repo"]},
                                  no_input=True)
        chk.coverage["session_lines_disagreeing"] = nd
    chk.coverage.update({
        "evaluations": n_send + n_recv,
        "distinct_nontrivial": len(distinct),
        "rule": "histories of 5..40 interleaved API calls on 1..4 sessions sharing the process-wide buffer pool; session "
                "kinds: v1, v2c (short / empty / 200-octet community), v3 with every digest x cipher combination, master and "
                "localized key types, 32-octet engine id and user name, empty user; calls: get, get_many (0..20 OIDs), "
                "getnext, getbulk (max-repetitions at 1, 127/128, 255/256, 32767/32768, 65535/65536, 2^31-1), refresh, "
                "oversized requests and invalid OID texts; replies, timeouts and changing engine boots/time in between. "
                "Oracle: every datagram re-read by the independent strict decoder and compared with the call; failing calls "
                "send nothing. Each session history is replayed on the Lean model (byte-for-byte datagrams incl. HMAC and "
                "ciphertext). distinct = distinct (session kind, op, outcome, datagram length).",
        "samples": samples,
        "sends": n_send, "failed_sends": n_fail, "receives": n_recv, "session_histories": len(lines),
        "outcome_histogram": dict(sorted(hist.items())),
        "traces_validated_against_impl": len(lines) if model_ok else 0,
    })
    chk.assumptions += ["random request / message ids and salt seeds are read off the wire and fed to the model as inputs",
                        "the kernel UDP socket delivers what send() was given (loopback)"]


def replay(chk, path):
    with open(path) as f:
        rp = json.load(f)
    out, _, _ = common.run_model(rp.get("lines", []))
    for o in out:
        print(o[:400])
    return 0
