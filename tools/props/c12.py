"""C12 — USM keys are derived exactly as RFC 3414 A.2 prescribes."""
import hashlib
import json
import random
import sys

from props import c09, c11
from vlib import common, e2e, gens, sessions, streams

sys.path.insert(0, "/verif/harness/py")
import agent as ag  # noqa: E402
import ber  # noqa: E402

HASH = c09.HASH
MB = 1048576
KS = {1: 16, 2: 20}
NAME = {1: "md5", 2: "sha1"}


def p2k(alg, pw):
    """RFC 3414 A.2: digest of the first 2^20 octets of the endlessly repeated password"""
    n = -(-MB // len(pw))
    return HASH[alg]((pw * n)[:MB]).digest()


def localize(alg, ku, eng):
    return HASH[alg](ku + eng + ku).digest()


PW_LENGTHS = [1, 2, 3, 5, 7, 8, 10, 13, 16, 31, 32, 33, 63, 64, 65, 100, 128, 1000, 1024, 4096, 65536, 65537]
PW_LONG = [MB - 1, MB, MB + 1, MB + 100, 2 * MB]


def rand_pw(rng, n):
    if n <= 64:
        return bytes(rng.getrandbits(8) for _ in range(n))
    unit = bytes(rng.getrandbits(8) for _ in range(97))
    return (unit * (n // 97 + 1))[:n - 1] + bytes([rng.getrandbits(8)])


def gen_lines(rng, quick):
    lines = []
    for n in PW_LENGTHS + (PW_LONG[:2] if quick else PW_LONG):
        for alg in (1, 2):
            lines.append(f"p2m {NAME[alg]} {rand_pw(rng, n).hex()}")
    for _ in range(120 if quick else 3000):
        alg = rng.choice([1, 2])
        lines.append(f"p2m {NAME[alg]} {rand_pw(rng, rng.choice(PW_LENGTHS[:18])).hex()}")
    lines += ["p2m md5 -", "p2m sha1 -", "getkey 1 -", "getkey 2 -", "getkey 0 70", "getkey 3 70", "getkey 64 70"]
    for _ in range(400 if quick else 10000):
        alg = rng.choice([1, 2])
        kl = KS[alg] if rng.random() < 0.7 else rng.choice([0, 1, 8, 15, 16, 17, 19, 20, 21, 32, 64])
        key = bytes(rng.getrandbits(8) for _ in range(kl))
        eng = bytes(rng.getrandbits(8) for _ in range(rng.choice([0, 1, 5, 11, 12, 17, 31, 32])))
        k = rng.random()
        if k < 0.3:
            lines.append(f"localize {NAME[alg]} {gens.hx(key)} {gens.hx(eng)}")
        elif k < 0.5:
            lines.append(f"getlkey {rng.choice([alg, alg, 0, 3, 65])} {gens.hx(key)} {gens.hx(eng)}")
        elif k < 0.6:
            lines.append(f"getkey {rng.choice([alg, alg | 64, alg | 128, 0, 7])} {gens.hx(rand_pw(rng, rng.choice([1, 8, 33, 100])))}")
        else:
            kt = rng.choice([0, 0, 64, 64, 128, 128, 192])
            code = rng.choice([alg, alg, alg, 0, 3, 63]) | kt
            if kt == 0 and rng.random() < 0.8:
                key = rand_pw(rng, rng.choice([0, 1, 8, 20, 64, 100]))
            lines.append(f"keytype {code} {gens.hx(key)} {gens.hx(eng)}")
    # the same secret under both digests, back to back in one process (anything cached must be keyed by the digest too)
    for _ in range(20 if quick else 400):
        pw = rand_pw(rng, rng.choice([1, 8, 13, 33]))
        eng = bytes(rng.getrandbits(8) for _ in range(rng.choice([0, 5, 12])))
        order = rng.choice([(1, 2), (2, 1), (1, 2, 1), (2, 1, 2)])
        for alg in order:
            lines.append(f"keytype {alg} {gens.hx(pw)} {gens.hx(eng)}")
    return lines


def unhx(x):
    return b"" if x == "-" else bytes.fromhex(x)


def oracle(ln, out):
    """None or the reason `out` is wrong for request `ln`"""
    p = ln.split(" ")
    if out == "PANIC":
        if p[0] == "localize" or ln in ("p2m md5 -", "p2m sha1 -"):
            # raw trait methods (out buffer of the digest size / MEGABYTE / pass_len): every caller in the crate
            # (as_key_type, get_master_key, get_localized_key) checks first; those entry points are exercised below
            return None
        return "crash (panic) instead of an exception"
    if p[0] == "p2m":
        alg = 1 if p[1] == "md5" else 2
        pw = unhx(p[2])
        if not pw:
            return None if not out.startswith("ok") else "empty password accepted"
        want = "ok " + p2k(alg, pw).hex()
        return None if out == want else f"password->master key {out[:60]} instead of {want}"
    if p[0] == "localize":
        alg = 1 if p[1] == "md5" else 2
        want = "ok " + localize(alg, unhx(p[2]), unhx(p[3])).hex()
        return None if out == want else f"localized key {out[:60]} instead of {want}"
    if p[0] == "getkey":
        code, pw = int(p[1]), unhx(p[2])
        alg = code & 0x3F
        if alg not in (1, 2) or not pw:
            # (code 0 = no auth: key size 0 -> an empty key is returned; anything else must raise)
            if alg == 0 and pw:
                return None if out in ("pyok -",) or out.startswith("pyerr") else f"no-auth master key {out}"
            return None if out.startswith("pyerr ") else f"invalid request accepted: {out[:60]}"
        want = "pyok " + p2k(alg, pw).hex()
        return None if out == want else f"get_master_key {out[:60]} instead of {want}"
    if p[0] == "getlkey":
        code, key, eng = int(p[1]), unhx(p[2]), unhx(p[3])
        alg = code & 0x3F
        if alg not in (1, 2) or len(key) != KS[alg]:
            if alg == 0 and not key:
                return None
            return None if out.startswith("pyerr ") else f"invalid request accepted: {out[:60]}"
        want = "pyok " + localize(alg, key, eng).hex()
        return None if out == want else f"get_localized_key {out[:60]} instead of {want}"
    if p[0] == "keytype":
        code, key, eng = int(p[1]), unhx(p[2]), unhx(p[3])
        alg, kt = code & 0x3F, code & 0xC0
        if alg == 0:
            return None if out == "ok -" else f"no-auth key {out[:40]}"
        if alg not in (1, 2):
            return None if out.startswith("err ") else f"unknown algorithm code {code} accepted: {out[:40]}"
        if kt == 0:
            if not key:
                return None if out.startswith("err ") else "empty password accepted"
            want = "ok " + localize(alg, p2k(alg, key), eng).hex()
        elif kt == 64:
            want = "ok " + localize(alg, key, eng).hex()     # any length is hashed (Python pads to the digest size)
        elif kt == 128:
            if len(key) != KS[alg]:
                return None if out.startswith("err ") else f"localized key of {len(key)} octets accepted"
            want = "ok " + key.hex()
        else:
            return None if out.startswith("err ") else "unknown key type accepted"
        return None if out == want else f"installed key {out[:60]} instead of {want}"
    return None


def run(chk, model_ok=True):
    rng = random.Random(chk.seed)
    quick = chk.tier == "quick"
    env = e2e.env()
    bad = 0

    def fail(what, line):
        nonlocal bad
        bad += 1
        if bad <= 5:
            chk.violation("oracle", what, {"kind": "oracle", "lines": [line[:400000]], "expected": what})

    # the RFC's own loop (A.2.1) on a few passwords validates the closed form used by the oracle
    for n in (1, 3, 7, 64, 100, 4096):
        pw = rand_pw(rng, n)
        for alg in (1, 2):
            if c09.a2_password_to_key(alg, pw) != p2k(alg, pw):
                raise RuntimeError("oracle self-check failed")
    st = streams.Streams(chk, model_ok)
    st.add("corpus", streams.corpus_lines("C12"))
    st.add("keys", gen_lines(rng, quick))
    st.run()
    hist = {}
    for ln, out in zip(st.lines, st.impl):
        if out in ("<nobuild>", "<died>"):
            continue
        why = oracle(ln, out)
        k = ln.split(" ")[0] + " -> " + out.split(" ")[0] + (" " + out.split(" ")[1] if out.startswith(("err", "pyerr")) else "")
        hist[k] = hist.get(k, 0) + 1
        if why:
            fail(why, ln if len(ln) < 2000 else ln[:200] + f"...({len(ln)} chars)")
    st.diff("keys")
    # the Python-visible classes and the keys a session really uses
    from gufo.snmp.user import Aes128Key, DesKey, KeyType, Md5Key, Sha1Key, User
    n_api = n_sess = 0
    all_sess = []
    for k in range(80 if quick else 2400):
        alg = rng.choice([1, 2])
        cls = Md5Key if alg == 1 else Sha1Key
        pw = rand_pw(rng, rng.choice(PW_LENGTHS[:18]))
        eng = bytes(rng.getrandbits(8) for _ in range(rng.choice([0, 5, 12, 32])))
        n_api += 1
        r = e2e.ncall(lambda: cls.get_master_key(pw))
        if r != ("ok", p2k(alg, pw)):
            fail(f"{cls.__name__}.get_master_key({pw[:8].hex()}..[{len(pw)}]) = {str(r)[:80]}", f"getkey {alg} {pw.hex()}")
            continue
        r2 = e2e.ncall(lambda: cls.get_localized_key(r[1], eng))
        if r2 != ("ok", localize(alg, r[1], eng)):
            fail(f"{cls.__name__}.get_localized_key = {str(r2)[:80]}", f"getlkey {alg} {r[1].hex()} {gens.hx(eng)}")
        for badlen in (0, 1, KS[alg] - 1, KS[alg] + 1, 64):
            rb = e2e.ncall(lambda: cls.get_localized_key(bytes(badlen), eng))
            if rb[0] == "ok" or not rb[2]:
                fail(f"{cls.__name__}.get_localized_key with a {badlen}-octet key: {rb}", f"getlkey {alg} {gens.hx(bytes(badlen))} {gens.hx(eng)}")
        rb = e2e.ncall(lambda: cls.get_master_key(b""))
        if rb[0] == "ok" or not rb[2]:
            fail(f"{cls.__name__}.get_master_key(b'') = {rb}", f"getkey {alg} -")
    # sessions configured through user.py with each key type: the MAC / ciphertext of what they emit must verify
    for k in range(60 if quick else 1200):
        auth = rng.choice([1, 2])
        priv = rng.choice([0, 1, 2])
        akt, pkt = rng.choice(["password", "master", "localized"]), rng.choice(["password", "master", "localized"])
        peer = sessions.rand_v3_peer(rng, auth=auth, priv=priv)
        if k % 2 == 0 or k == 0:
            raw = False
            pair_pw = (rand_pw(rng, rng.choice([1, 8, 13, 64, 100])), rand_pw(rng, rng.choice([1, 8, 13, 64, 100])))
            if rng.random() < 0.35:
                # one secret for both keys (the key types may still differ: password / master / localized are
                # different derivations of the same octets; of the digest's own size, so that user.py's alignment
                # of master / localized keys leaves the octets alone)
                one = rand_pw(rng, 16 if auth == 1 else 20)
                pair_pw = (one, one)
                if akt == pkt and rng.random() < 0.8:
                    pkt = rng.choice([t for t in ("password", "master", "localized") if t != akt])
                raw = True
        else:
            auth = 3 - prev_auth          # the same secrets as the previous session, the other digest
            raw = False
        prev_auth = auth
        peer = e2e.Peer("v3", auth=auth, priv=priv, engine_id=peer.state.engine_id, user=peer.state.user.decode(),
                        auth_pw=pair_pw[0], priv_pw=pair_pw[1], auth_kt=akt, priv_kt=pkt, raw_secrets=raw)
        stt = peer.state
        KT = {"password": KeyType.Password, "master": KeyType.Master, "localized": KeyType.Localized}
        ak = (Md5Key if auth == 1 else Sha1Key)(stt.auth_secret, key_type=KT[akt])
        pk = (DesKey if priv == 1 else Aes128Key)(stt.priv_secret, key_type=KT[pkt]) if priv else None
        user = User(stt.user.decode(), auth_key=ak, priv_key=pk)
        kw = stt.client_kwargs()
        got = (user.get_auth_alg(), user.get_auth_key(), user.get_priv_alg(), user.get_priv_key())
        want = (kw["auth_alg"], kw["auth_key"], kw["priv_alg"], kw["priv_key"] if priv else b"")
        if got != want:
            fail(f"user.py hands the socket {got} for a {akt}/{pkt} user, expected {want}", "#")
            continue
        # half of them the way the clients do without an engine id: default user, discovery, set_keys
        s = sessions.Sess(env, peer, rng, deferred=k % 2 == 1)
        all_sess.append(s)
        if s.deferred and not sessions.discovery_flow(s):
            fail(f"{s.label}: discovery / set_keys flow failed: {[r['result'] for r in s.records if r['kind'] != 'send'][-2:]}", s.line())
            continue
        for step in range(3):
            if step == 2:
                # a re-keying attempt with material that is refused (empty privacy / authentication password, localized key of
                # the wrong size): it must raise and leave the working keys in place
                kw_ok = e2e.client_kwargs(stt)
                bad_kw = dict(kw_ok)
                which = rng.choice(["priv-empty", "auth-empty", "auth-size"] if priv else ["auth-empty", "auth-size"])
                if which == "priv-empty":
                    bad_kw.update(priv_alg=stt.priv_alg, priv_key=b"")
                elif which == "auth-empty":
                    bad_kw.update(auth_alg=stt.auth_alg, auth_key=b"")
                else:
                    bad_kw.update(auth_alg=stt.auth_alg | 128, auth_key=bytes(7))
                rk = s.set_keys(stt, raw_kw=bad_kw)
                if rk[0] == "ok":
                    fail(f"{s.label}: set_keys accepted refused key material ({which})", s.line())
                    break
            rec = s.send("get", sessions.rand_oid_text(rng))
            if rec["result"][0] != "ok":
                fail(f"{s.label}: valid v3 session cannot send: {rec['result']}", s.line())
                break
            n_sess += 1
            dg = rec["datagrams"][-1]
            why = c09.check_mac(stt, dg)
            if not why and priv:
                why = c11.check_payload(stt, rec, dg, [rec["arg"]])
            if why:
                fail(f"{s.label} ({akt}/{pkt} keys): {why}", s.line())
    # the real clients, engine id learnt from the agent (whose Report may name another contextEngineID): the keys in
    # force after discovery are the user's secrets localized to the *authoritative* engine id
    from props import c13
    n_cli = 0
    for key, script, r, why in c13.client_cases(rng, 24 if quick else 480):
        n_cli += 1
        if why and any(w in why for w in ("HMAC", "not readable", "keys were not installed", "not encrypted", "engine id", "failed with")):
            fail(f"{key}: {why}", f"# client {key}")
    n_sess += n_cli
    # the key classes of user.py against their model (padding, codes, refusal of priv without auth)
    ulines, uwant = [], []
    for k in range(300 if quick else 6000):
        aalg = rng.choice([1, 2, None])
        palg = rng.choice([1, 2, None, None])
        akt, pkt = rng.randrange(3), rng.randrange(3)
        akey = bytes(rng.getrandbits(8) for _ in range(rng.choice([0, 1, 8, 15, 16, 17, 19, 20, 21, 32, 40])))
        pkey = bytes(rng.getrandbits(8) for _ in range(rng.choice([0, 1, 8, 15, 16, 17, 19, 20, 21, 32, 40])))
        name = "".join(rng.choice("abcxyz019") for _ in range(rng.randrange(0, 9)))
        KTS = [KeyType.Password, KeyType.Master, KeyType.Localized]

        def build():
            ak = (Md5Key if aalg == 1 else Sha1Key)(akey, key_type=KTS[akt]) if aalg else None
            pk = (DesKey if palg == 1 else Aes128Key)(pkey, key_type=KTS[pkt]) if palg else None
            u = User(name, auth_key=ak, priv_key=pk)
            return (u.get_auth_alg(), u.get_auth_key(), u.get_priv_alg(), u.get_priv_key())
        r = e2e.ncall(build)
        ulines.append(f"userkeys {gens.hx(name.encode())} {aalg or '-'} {akt} {gens.hx(akey)} {palg or '-'} {pkt} {gens.hx(pkey)}")
        if r[0] == "ok":
            uwant.append(f"ok {r[1][0]} {gens.hx(r[1][1])} {r[1][2]} {gens.hx(r[1][3])}")
            # independent expectation: aligned keys have the digest's size, codes carry alg and type
            if aalg and akt and len(r[1][1]) != KS[aalg]:
                fail(f"user.py hands the socket a {['password', 'master', 'localized'][akt]} auth key of {len(r[1][1])} octets", ulines[-1])
            if r[1][0] != (aalg or 0) + ((akt << 6) if aalg else 0):
                fail(f"user.py auth code {r[1][0]} for alg {aalg} key type {akt}", ulines[-1])
        else:
            uwant.append(f"pyerr {r[1]}")
            if not (palg and not aalg and r[1] == "ValueError"):
                fail(f"user.py raised {r[1]} for auth {aalg}/{akt} priv {palg}/{pkt}", ulines[-1])
    n_user = len(ulines)
    if model_ok:
        uo, _, _ = common.run_model(ulines)
        ud = [(l, w, g) for l, w, g in zip(ulines, uwant, uo + ["<missing>"] * (len(ulines) - len(uo))) if w != g]
        if ud:
            chk.violation("correspondence", f"user.py vs Model/User.lean: {len(ud)} of {len(ulines)} differ; first: {ud[0][0][:120]} impl={ud[0][1][:80]} model={ud[0][2][:80]}",
                          {"kind": "correspondence", "stream": "userkeys", "lines": [d[0] for d in ud[:10]], "impl": [d[1] for d in ud[:10]],
                           "model": [d[2] for d in ud[:10]], "broken": ["correspondence userkeys: Lean Py.mkUser vs user.py"]}, no_input=True)
    # malformed key material at the socket constructor: exception, never a crash
    n_ctor = 0
    for k in range(300 if quick else 6000):
        aa = rng.choice([1, 2, 3, 0]) | rng.choice([0, 64, 128, 192])
        pa = rng.choice([0, 1, 2, 3]) | rng.choice([0, 64, 128, 192])
        akey = bytes(rng.getrandbits(8) for _ in range(rng.choice([0, 1, 15, 16, 17, 19, 20, 21, 32, 64])))
        pkey = bytes(rng.getrandbits(8) for _ in range(rng.choice([0, 1, 15, 16, 17, 19, 20, 21, 32, 64])))
        eng = bytes(rng.getrandbits(8) for _ in range(rng.choice([0, 5, 12])))
        n_ctor += 1
        r = e2e.ncall(lambda: ag.make_sock(env.fast, env.agent, 3, engine_id=eng, user_name="u", auth_alg=aa, auth_key=akey,
                                           priv_alg=pa, priv_key=pkey))
        line = f"session v3,{gens.hx(eng)},75,{aa},{gens.hx(akey)},{pa},{gens.hx(pkey)},0 -"
        if r[0] == "exc" and not r[2]:
            fail(f"socket constructor crashed ({r[1]}) on auth code {aa} / {len(akey)}-octet key, priv code {pa} / {len(pkey)}-octet key", line)
        alg = aa & 0x3F
        if r[0] == "ok" and (alg == 3 or (alg and (aa & 0xC0) == 192) or (alg and (aa & 0xC0) == 128 and len(akey) != KS[alg])
                             or (alg and (aa & 0xC0) == 0 and not akey)):
            fail(f"socket constructor accepted auth code {aa} with a {len(akey)}-octet key", line)
        all_sess.append(_CtorCase(line, "ok -" if r[0] == "ok" else (f"pyerr {r[1]}" if r[2] else "PANIC")))
    nl, nd = model_compare_mixed(chk, all_sess, model_ok)
    chk.coverage.update({
        "evaluations": len(st.lines) + n_api + n_sess + n_ctor + n_user,
        "user_py_cases": n_user,
        "distinct_nontrivial": len(set(st.lines)) + n_api + n_sess,
        "rule": "password->master key for password lengths 1..65537 and 2^20-1, 2^20, 2^20+1 (.., 2^21 in the thorough tier) "
                "incl. lengths that divide 2^20 and that do not; localisation for engine ids of 0..32 octets; as_key_type for every "
                "(algorithm code, key type) incl. unknown codes, empty passwords and key sizes 0..64; the Python-visible "
                "get_master_key / get_localized_key; user.py key classes; sessions configured with password / master / localized "
                "keys whose emitted MAC and ciphertext must verify under keys derived with hashlib; socket constructor on "
                "malformed key material. Oracle: hashlib closed form, itself validated against the RFC's A.2.1 loop.",
        "samples": [{"stream": "keys", "request": l[:160], "impl": o[:80]} for l, o in list(zip(st.lines, st.impl))[45:49]],
        "response_histogram": dict(sorted(hist.items())),
        "python_api_calls": n_api, "session_messages_verified": n_sess, "constructor_cases": n_ctor,
        "session_lines": nl, "session_lines_disagreeing": nd,
        "traces_validated_against_impl": len(st.lines) + nl if model_ok else 0,
    })
    chk.assumptions += ["hashlib MD5 / SHA-1 are the reference digests"]


class _CtorCase:
    """a `session <cfg> -` request whose only observation is the constructor's outcome"""

    def __init__(self, line, expect):
        self._line, self.expect1 = line, expect
        self.events = ["ctor"]
        self.label = "ctor"

    def line(self):
        return self._line


def model_compare_mixed(chk, items, model_ok):
    if not model_ok:
        return 0, 0
    sess = [s for s in items if not isinstance(s, _CtorCase)]
    nl, nd = sessions.model_compare(chk, sess, model_ok)
    ctor = [s for s in items if isinstance(s, _CtorCase)]
    if ctor:
        out, _, _ = common.run_model([c.line() for c in ctor])
        for c, mo in zip(ctor, out + ["<missing>"] * (len(ctor) - len(out))):
            got = "ok -" if mo.startswith("ok") else mo
            if got != c.expect1:
                nd += 1
                if nd == 1:
                    chk.violation("correspondence", f"socket constructor: implementation {c.expect1} model {mo[:80]} on {c.line()[:160]}",
                                  {"kind": "correspondence", "stream": "ctor", "lines": [c.line()], "impl": [c.expect1], "model": [mo[:200]],
                                   "broken": ["correspondence v3 constructor: Lean V3Session.new vs /repo"]}, no_input=True)
        nl += len(ctor)
    return nl, nd


def replay(chk, path):
    with open(path) as f:
        rp = json.load(f)
    out, _, _ = common.run_model(rp.get("lines", []))
    for o in out:
        print(o[:400])
    return 0
