"""C08 — the OID sent is the OID asked for; invalid OID text is refused."""
import json
import random
import re
import sys

from vlib import values,  common, gens, streams

sys.path.insert(0, "/verif/harness/py")
import ber  # noqa: E402

PART = re.compile(rb"^\+?[0-9]+$")


def denote(text):
    """arcs denoted by the text under the property's reading, or None"""
    parts = text.split(b".")
    arcs = []
    for p in parts:
        if not PART.match(p):
            return None
        arcs.append(int(p))
    return arcs


def canonical(arcs):
    return ".".join(str(a) for a in arcs).encode()


def valid(arcs):
    return len(arcs) >= 2 and arcs[0] <= 2 and arcs[1] <= 39 and all(a <= 2 ** 32 - 1 for a in arcs)


def extra_texts(rng, n):
    out = []
    bounds = [0, 1, 39, 40, 127, 128, 16383, 16384, 2 ** 21 - 1, 2 ** 21, 2 ** 28 - 1, 2 ** 28, 2 ** 32 - 1, 2 ** 32]
    for _ in range(n):
        k = rng.randrange(1, 12)
        arcs = [rng.choice([0, 1, 2, 2, 1, 3, 6, 7]), rng.choice([0, 3, 39, 39, 40, 41, 255])]
        arcs += [rng.choice(bounds) if rng.random() < 0.6 else rng.getrandbits(rng.randrange(1, 34)) for _ in range(k)]
        t = canonical(arcs)
        m = rng.randrange(10)
        if m == 0:
            t = t.replace(b".", b"..", 1)
        elif m == 1:
            t = b"." + t
        elif m == 2:
            t = t + b"."
        elif m == 3:
            i = rng.randrange(len(t))
            t = t[:i] + rng.choice([b"-", b"+", b" ", b"a", b"x", b"\xd9\xa3", b"_"]) + t[i:]
        elif m == 4:
            t = b".".join((b"+" if rng.random() < 0.3 else b"") + (b"0" * rng.randrange(0, 3)) + p for p in t.split(b"."))
        out.append("oidstr " + gens.hx(t))
    return out


def run(chk, model_ok=True):
    rng = random.Random(chk.seed)
    quick = chk.tier == "quick"
    n = 32000 if quick else 1600000
    st = streams.Streams(chk, model_ok)
    st.add("corpus", streams.corpus_lines("C08") + [
        "oidstr " + gens.hx(t) for t in [b"1.40.1", b"3.1.1", b"6.39.1", b"1.3", b"2.39.4294967295", b"1.3.4294967296",
                                         b"1.+3.06", b"1.3.-6", b"", b"1", b"1..3", b"0.0", b"2.40", b"1.3.6.1.2.1.1.5.0"]])
    st.add("oidstr", gens.lines_oidstr(rng, n))
    st.add("oidstr-extra", extra_texts(rng, n))
    st.add("oidtxt", gens.lines_oidtxt(rng, n // 2))
    st.add("cmp", gens.lines_cmp(rng, n // 4))
    st.run()
    bad = 0
    stats = {"accepted": 0, "refused": 0, "valid_canonical": 0, "plus_or_zero_forms": 0}

    def fail(ln, out, why):
        nonlocal bad
        bad += 1
        if bad <= 5:
            chk.violation("oracle", f"{why}: {ln[:160]} -> {out[:100]}",
                          {"kind": "oracle", "lines": [ln], "impl": [out], "expected": why})

    printback, expect = [], []
    for ln, out in zip(st.lines, st.impl):
        parts = ln.split(" ")
        if parts[0] != "oidstr":
            if out == "PANIC":
                fail(ln, out, "panic")
            continue
        text = b"" if parts[1] == "-" else bytes.fromhex(parts[1])
        arcs = denote(text)
        if out == "PANIC":
            fail(ln, out, f"panic instead of refusing {text!r}")
            continue
        if out.startswith("ok "):
            stats["accepted"] += 1
            content = b"" if out[3:] == "-" else bytes.fromhex(out[3:])
            if arcs is None:
                fail(ln, out, f"text {text!r} does not denote an OID but was accepted")
                continue
            try:
                got, minimal = ber.oid_decode(content)
            except ber.BerError as e:
                fail(ln, out, f"accepted text {text!r} produced undecodable OID bytes ({e})")
                continue
            if list(got) != arcs or not minimal:
                fail(ln, out, f"text {text!r} denotes {arcs} but was encoded as {list(got)} (minimal={minimal})")
                continue
            printback.append("oidtxt " + gens.hx(content))
            expect.append("ok " + canonical(arcs).decode())
            if text == canonical(arcs):
                stats["valid_canonical"] += 1
            else:
                stats["plus_or_zero_forms"] += 1
        else:
            stats["refused"] += 1
            if arcs is not None and valid(arcs) and text == canonical(arcs):
                fail(ln, out, f"valid OID text {text!r} was refused")
    st2 = streams.Streams(chk, model_ok)
    st2.add("print-back", printback)
    st2.run()
    for ln, out, want in zip(st2.lines, st2.impl, expect):
        if out != want:
            fail(ln, out, f"print(parse(s)) != s: expected {want}")
    # end to end: what reaches the wire for texts handed to get / get_many / GetIter
    from props import c03
    from vlib import e2e, sessions
    env = e2e.env()
    n_e2e = 0
    for peer in [e2e.Peer("v2c"), e2e.Peer("v1"), e2e.Peer("v3", auth=1, priv=2)]:
        s = sessions.Sess(env, peer, rng)
        for _ in range(600 if quick else 32000):
            k = rng.randrange(4)
            good = lambda: sessions.rand_oid_text(rng, long=rng.random() < 0.08)
            badt = lambda: sessions.bad_oid_text(rng)
            if k == 0:
                rec = s.send("get", good() if rng.random() < 0.5 else badt())
            elif k == 1:
                lst = [good() for _ in range(rng.randrange(0, 4))]
                if rng.random() < 0.6:
                    lst.insert(rng.randrange(len(lst) + 1), badt())
                rec = s.send("getmany", lst)
            else:
                t = good() if rng.random() < 0.5 else badt()
                it = s.new_iter(t, 5)
                if (it is None) != (c03.text_denotes(t) is None):
                    fail("oidstr " + t.encode().hex(), "-", f"GetIter({t!r}) {'refused a valid' if it is None else 'accepted a malformed'} OID text")
                if it is None:
                    continue
                rec = s.send("getnext" if k == 2 else ("getbulk" if peer.kind != "v1" else "getnext"), it=it)
                if rec["result"][0] == "ok" and rec["req"] and rec["req"].get("varbinds"):
                    if list(rec["req"]["varbinds"][0][0]) != c03.text_denotes(t):
                        fail("oidstr " + t.encode().hex(), "-", f"walk base {t!r} reached the wire as {rec['req']['varbinds'][0][0]}")
                continue
            n_e2e += 1
            why = c03.check_request(s, rec, {(0, 0)})
            if why:
                fail(s.line()[:2000], str(rec["result"]), f"{peer.label} {rec['op']}({str(rec['arg'])[:80]}): {why}")
    # walks: the OID of every follow-up request is the OID the caller is at, i.e. the name of the last row the agent
    # returned (names that get shorter or longer from row to row, names compressed as RELATIVE-OID elements)
    from props import c05
    n_walk = 0
    for mode, cnt in (("raw", 60 if quick else 3000), ("sync", 40 if quick else 2000), ("async", 10 if quick else 300)):
        for _ in range(cnt):
            peer = rng.choice([e2e.Peer("v2c"), e2e.Peer("v1"), e2e.Peer("v3", auth=1, priv=1, auth_kt="localized", priv_kt="localized")])
            v1 = peer.kind == "v1"
            # (a third of the walks: a table below the base, read by GetBulk from an agent that compresses names)
            table = not v1 and rng.random() < 0.45
            mib, base = c05.gen_mib(rng, table)
            kind = "next" if v1 else ("bulk" if table else rng.choice(["next", "bulk"]))
            maxrep, cap = (20, 50) if table else (rng.choice([1, 2, 3, 7, 20]), rng.choice([1, 2, 5, 50]))
            inner = c05.agent_replies(mib, base, kind, maxrep, cap, v1, False, rng if (table or rng.random() < 0.5) else None,
                                      0.85 if table else 0.5)
            log = []

            def reply_fn(req, inner=inner, log=log):
                rep = inner(req)
                rows = rep[1] if isinstance(rep, tuple) else rep
                log.append((tuple(req["varbinds"][0][0]) if req.get("varbinds") else None, rows))
                return rep
            out = c05.run_mode(mode, peer, kind, values.dotted(base), maxrep, reply_fn, env)
            n_walk += 1
            # the names the caller is given are the names the agent sent (whatever way it wrote them), in order
            if out.ending == "stop" and all(isinstance(y, tuple) and len(y) == 2 for y in out.yields):
                got_names = [o for o, _ in out.yields]
                want_names = [o for o, _ in c05.subtree(mib, base)]
                if got_names != want_names:
                    k = next((i for i, (a, b) in enumerate(zip(got_names, want_names)) if a != b), min(len(got_names), len(want_names)))
                    fail(f"# walk {mode} {peer.label} {kind} base={values.dotted(base)}", str(got_names[k:k + 2])[:100],
                         f"{mode}/{peer.label}/{kind} walk of {values.dotted(base)}: row {k} reached the caller as "
                         f"{got_names[k] if k < len(got_names) else 'nothing (walk ended)'}, the agent sent {want_names[k] if k < len(want_names) else 'nothing more'}")
                    continue
            # resolved names of each reply: rows hold arcs (absolute) or raw RELATIVE-OID elements; recompute from the MIB
            keys = [m[0] for m in mib]
            for i in range(1, len(log)):
                asked, prev_rows = log[i][0], log[i - 1][1]
                if not prev_rows:
                    continue
                # the agent walked the MIB from the OID it was asked for: the last row's name is the next MIB key chain
                cur = log[i - 1][0]
                last = None
                import bisect
                for _row in prev_rows:
                    j = bisect.bisect_right(keys, tuple(cur))
                    if j >= len(keys):
                        break
                    cur = keys[j]
                    last = cur
                if last is not None and asked != tuple(last):
                    fail(f"# walk {mode} {peer.label} {kind} base={values.dotted(base)}", str(asked)[:100],
                         f"{mode}/{peer.label}/{kind} walk of {values.dotted(base)}: after the agent returned {values.dotted(last)} as last row, "
                         f"the next request asks for {values.dotted(asked) if asked else asked}")
                    break
    chk.coverage["walk_cursor_walks"] = n_walk
    # the Python clients in front of the socket must hand the text through untouched: what they accept, refuse and
    # send is judged like above (texts that only a lenient integer parser would accept are among the inputs)
    ODD = ["1.3.6.1_0", "1.3. 6", "1.3.6\n", " 1.3.6", "1.3.6 ", "1.3.-0", "1.3.6.-0.1", "1.3.\u0663", "\uff11.\uff13.6", "1.3.0x10", "1.3.1e2",
           "1.3.6.1__0", "1.3.6.+1", "1.3.06", "1.3.6.00", "01.3.6", "1.3.6.4294967296", "1.3.6.4294967299", "1.3.6.4294967295"]
    from gufo.snmp import SnmpVersion
    from gufo.snmp.sync_client import SnmpSession as SyncSession
    n_cli = 0
    peer = e2e.Peer("v2c")
    conv = e2e.Conv(peer, env)
    seen = []

    def script(op, req):
        seen.append(req)
        return [peer.response(req, [ber.varbind(tuple(v[0]), ber.INT(1)) for v in req["varbinds"]])]
    sess = SyncSession("127.0.0.1", port=env.agent.port, community="public", version=SnmpVersion.v2c, timeout=0.05)
    sess._sock = e2e.SockShim(conv, script)

    def judge_client(mode, text, r, sent):
        den = c03.text_denotes(text)
        if den is None:
            if r[0] == "ok" or sent:
                return f"{mode} client accepted the malformed OID text {text!r}" + (f" and sent {sent[0]}" if sent else "")
            if r[1] not in ("ValueError", "SnmpDecodeError"):
                # (InvalidData surfaces as SnmpDecodeError from get / get_many, as ValueError from GetIter)
                return f"{mode} client raised {r[1]} for the malformed OID text {text!r}"
            return None
        if r[0] != "ok":
            return f"{mode} client refused the valid OID text {text!r}: {r[1]}"
        if not sent or list(sent[0]) != den:
            return f"{mode} client sent {sent[:1]} for the text {text!r} which denotes {den}"
        return None
    texts = ODD + [sessions.rand_oid_text(rng) for _ in range(20 if quick else 400)] + [sessions.bad_oid_text(rng) for _ in range(10 if quick else 200)]
    for t in texts:
        for call in ("get", "get_many"):
            del seen[:]
            r = e2e.ncall((lambda: sess.get(t)) if call == "get" else (lambda: sess.get_many(["1.3.6.1", t])))
            n_cli += 1
            sent = [tuple(v[0]) for q in seen for v in q.get("varbinds", [])]
            if call == "get_many":
                sent = sent[1:] if len(sent) > 1 else ([] if c03.text_denotes(t) is None else sent)
            why = judge_client("sync", t, r, sent)
            if why:
                fail("oidstr " + t.encode().hex(), str(r)[:80], why)

    def async_get(t):
        got = []

        def plan(dg):
            req = peer.decode(dg)
            got.append(req)
            return [peer.response(req, [ber.varbind(tuple(v[0]), ber.INT(1)) for v in req["varbinds"]])]

        async def main(port):
            from gufo.snmp.async_client import SnmpSession
            async with SnmpSession("127.0.0.1", port=port, community="public", version=SnmpVersion.v2c, timeout=1.0) as sx:
                return await sx.get(t)
        r, _ = e2e.run_async(main, plan)
        if r[0] == "exc" and r[1].startswith("PySnmp"):
            r = ("exc", r[1][2:], r[2])
        return r, [tuple(v[0]) for q in got for v in q.get("varbinds", [])]
    for t in ODD + [sessions.rand_oid_text(rng) for _ in range(6 if quick else 100)]:
        r, sent = async_get(t)
        n_cli += 1
        why = judge_client("async", t, r, sent)
        if why:
            fail("oidstr " + t.encode().hex(), str(r)[:80], why)
    chk.coverage["e2e_calls"] = n_e2e
    chk.coverage["python_client_calls"] = n_cli
    st.diff("C08 oid text")
    st2.diff("C08 print-back")
    st.coverage(
        "oidstr: dotted texts over {digits . - + space letters non-ASCII}: valid OIDs with arcs at 0, 39/40, 127/128, "
        "16383/16384, 2^21, 2^28, 2^32-1/2^32, up to 128 arcs; malformed (empty, single arc, empty arcs, leading/trailing "
        "dot, signs, non-digits, first arc 3..7, second arc 40..255, overflow). Oracle: independent denotation "
        "(parts matching +?[0-9]+) and independent BER OID decoder: accepted => bytes decode minimally to the denoted "
        "arcs; canonical valid text => accepted; text without denotation => refused; print(parse(s)) = canonical(s). "
        "non-trivial = text with at least two parts; distinct lines.",
        lambda ln, out: ln.startswith("oidstr") and b"." in (bytes.fromhex(ln.split(" ")[1]) if ln.split(" ")[1] != "-" else b"")
        or not ln.startswith("oidstr"))
    chk.coverage["oracle_classes"] = stats
    chk.coverage["evaluations"] = len(st.lines) + len(st2.lines)


def replay(chk, path):
    with open(path) as f:
        rp = json.load(f)
    gsv, _ = common.build_gsv()
    out, _, _ = common.run_gsv(gsv, rp.get("lines", []))
    for ln, o in zip(rp.get("lines", []), out):
        print(ln[:160], "->", o[:160], "| expected:", rp.get("expected"))
    return 0
