#!/bin/sh
# seedbatch2.sh <PROP> <offset> <checks...> : like seedbatch.sh for a later round: candidate k is kept as <PROP>-<k+offset>
P=$1; OFF=$2; shift; shift
for d in /var/tmp/seed/$P/_out/*/; do
  k=$(basename $d)
  n=$((k + OFF))
  c=$(python3 /verif/tools/seedtest.py confirm /var/tmp/seed/$P $k | tr '\n' ' ')
  case "$c" in
    *'"confirmed": true'*) python3 /verif/tools/seedtest.py keep /var/tmp/seed/$P $k $P $n >/dev/null; echo "== $P-$n confirmed";;
    *) echo "== $P-$n (candidate $k) NOT CONFIRMED: $c"; continue;;
  esac
  python3 /verif/tools/seedtest.py run /verif/seeded/$P-$n "$@" | python3 -c "import json,sys; d=json.load(sys.stdin); [print('  ',k, v['verdict'][:75], '|', v['what'][:170]) for k,v in d.items()]"
done
