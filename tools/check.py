#!/usr/bin/env python3
"""./check <ID> [--tier quick|thorough] [--replay FILE]

Decides one property: regenerates the generated Lean constants from /repo, rebuilds and
audits the property's theorems, rebuilds the implementation from /repo's working tree, runs
the implementation-level oracle and the model/implementation correspondence, replays known
findings, writes evidence/<ID>.json and prints the verdict.
"""
import argparse
import importlib
import os
import sys

sys.path.insert(0, os.path.dirname(os.path.abspath(__file__)))
from vlib import common  # noqa: E402


def main():
    ap = argparse.ArgumentParser()
    ap.add_argument("pid")
    ap.add_argument("--tier", default=os.environ.get("VERIF_TIER", "quick"))
    ap.add_argument("--replay")
    a = ap.parse_args()
    seed = int(os.environ.get("VERIF_SEED", "20260930"))
    tier = a.tier if a.tier in ("quick", "thorough") else "quick"
    mod = importlib.import_module("props." + a.pid.lower())
    chk = common.Check(a.pid, tier, seed)
    try:
        if a.replay:
            rc = mod.replay(chk, a.replay)
            sys.exit(rc)
        stage = common.lean_stage(a.pid, tier)
        chk.lean(stage)
        if not any("lake build failed" in p or "translator failed" in p for p in stage["problems"]):
            mod.run(chk)
        else:
            # the model cannot be built: still run the implementation-level oracle
            mod.run(chk, model_ok=False)
    except Exception as e:
        # the machinery could not be run against this tree (harness does not build / import, an API it drives is
        # gone, ...): the tie between model and code is not established, so the property is not shown to hold.
        # Reported as a broken correspondence without failing input; the traceback is in the replay file.
        import json
        import traceback
        tb = traceback.format_exc()
        sys.stderr.write(tb)
        print(f"CHECK-ERROR property={a.pid}: {type(e).__name__}: {e}")
        os.makedirs(os.path.join(common.ROOT, "replays"), exist_ok=True)
        path = os.path.join(common.ROOT, "replays", f"{a.pid}-checkerror.json")
        with open(path, "w") as f:
            json.dump({"property": a.pid, "kind": "correspondence", "broken": ["the check could not be run against this tree"],
                       "error": f"{type(e).__name__}: {e}", "traceback": tb[-4000:]}, f, indent=1)
        try:
            chk.violation("correspondence", f"the check could not be run against this tree: {type(e).__name__}: {e}",
                          {"kind": "correspondence", "broken": ["check machinery"], "traceback": tb[-2000:]}, no_input=True)
            rc = chk.finish()
            sys.stdout.flush()
            sys.stderr.flush()
            os._exit(rc)
        except SystemExit:
            raise
        except Exception:  # noqa: BLE001
            print(f"VIOLATION property={a.pid} replay={path} no-failing-input-found")
            sys.exit(1)
    rc = chk.finish()
    # leave without interpreter finalisation: a client under test may have left a frozen event loop spinning in a
    # daemon thread, and tearing the interpreter down around it can abort the process with another exit status
    sys.stdout.flush()
    sys.stderr.flush()
    os._exit(rc)


if __name__ == "__main__":
    main()
