#!/usr/bin/env python3
"""./check <ID> [--tier quick|thorough] [--replay FILE]

Decides one property: regenerates the generated Lean constants from /repo, rebuilds and
audits the property's theorems, rebuilds the implementation from /repo's working tree, runs
the implementation-level oracle and the model/implementation correspondence, replays known
findings, writes evidence/<ID>.json and prints the verdict.
"""
import argparse
import importlib
import os
import sys

sys.path.insert(0, os.path.dirname(os.path.abspath(__file__)))
from vlib import common  # noqa: E402


def main():
    ap = argparse.ArgumentParser()
    ap.add_argument("pid")
    ap.add_argument("--tier", default=os.environ.get("VERIF_TIER", "quick"))
    ap.add_argument("--replay")
    a = ap.parse_args()
    seed = int(os.environ.get("VERIF_SEED", "20260930"))
    tier = a.tier if a.tier in ("quick", "thorough") else "quick"
    mod = importlib.import_module("props." + a.pid.lower())
    chk = common.Check(a.pid, tier, seed)
    try:
        if a.replay:
            rc = mod.replay(chk, a.replay)
            sys.exit(rc)
        stage = common.lean_stage(a.pid, tier)
        chk.lean(stage)
        if not any("lake build failed" in p or "translator failed" in p for p in stage["problems"]):
            mod.run(chk)
        else:
            # the model cannot be built: still run the implementation-level oracle
            mod.run(chk, model_ok=False)
    except Exception as e:  # a crash of the machinery is not a verdict; make it loud
        import traceback
        traceback.print_exc()
        print(f"CHECK-ERROR property={a.pid}: {type(e).__name__}: {e}")
        sys.exit(2)
    sys.exit(chk.finish())


if __name__ == "__main__":
    main()
