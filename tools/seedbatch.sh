#!/bin/sh
# seedbatch.sh <PROP> <checks...> : confirm, keep and evaluate the candidates of /var/tmp/seed/<PROP>/_out/*
P=$1; shift
for d in /var/tmp/seed/$P/_out/*/; do
  k=$(basename $d)
  c=$(python3 /verif/tools/seedtest.py confirm /var/tmp/seed/$P $k | tr '\n' ' ')
  case "$c" in
    *'"confirmed": true'*) python3 /verif/tools/seedtest.py keep /var/tmp/seed/$P $k $P >/dev/null; echo "== $P-$k confirmed";;
    *) echo "== $P-$k NOT CONFIRMED: $c"; continue;;
  esac
  python3 /verif/tools/seedtest.py run /verif/seeded/$P-$k "$@" | python3 -c "import json,sys; d=json.load(sys.stdin); [print('  ',k, v['verdict'][:75], '|', v['what'][:170]) for k,v in d.items()]"
done
