import GufoSnmp.Gen.Consts
import GufoSnmp.Model.Basic
import GufoSnmp.Model.Ber
import GufoSnmp.Model.Buffer
import GufoSnmp.Model.Pdu
import GufoSnmp.Model.Op
