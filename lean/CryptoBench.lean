import GufoSnmp.Model.Crypto.Vectors
/-!
# Line-oriented driver for cross-checking the crypto primitives

Not part of the library.  Run with

    cd /verif/lean && lake env lean --run CryptoBench.lean < requests > answers

One request per stdin line, one answer per stdout line (lower-case hex, or `error: …`):

    md5 <hex>                      sha1 <hex>
    desenc <keyhex> <blockhex>     desdec <keyhex> <blockhex>
    aesenc <keyhex> <blockhex>
    md5rep <n> <bytehex>           sha1rep <n> <bytehex>
    selftest

`md5 `/`sha1 ` with nothing after the space hash the empty string.  The `*rep` forms hash
`n` copies of one octet (e.g. `md5rep 1000000 61`) and additionally report the elapsed
time and throughput on stderr; they exist so that large inputs can be timed without the
cost of hex-decoding them.  `selftest` prints `selfTestFull` (all known-answer vectors
including the two 10⁶ × `a` ones).  See `GufoSnmp/Model/Crypto/crosscheck.py`.

Note that `lean --run` executes the `GufoSnmp` modules with the IR *interpreter* (about
0.2–0.4 MiB/s for the hashes).  For native speed (about 17–25 MiB/s end to end from a `List UInt8`) link the C files that
`lake build` already produced:

    cd /verif/lean && lake build GufoSnmp.Model.Crypto.Vectors
    lake env lean -c /tmp/CryptoBench.c CryptoBench.lean
    lake env leanc -O3 -o /tmp/cryptobench /tmp/CryptoBench.c \
      .lake/build/ir/GufoSnmp/Model/Crypto/{Md5,Sha1,Des,Aes,Vectors}.c
    python3 GufoSnmp/Model/Crypto/crosscheck.py --bin /tmp/cryptobench
-/
open GufoSnmp.Crypto

/-- Hash `n` copies of `byte` with `h`, reporting the time spent in `h` on stderr. -/
def timedRep (name : String) (h : List UInt8 → List UInt8) (n : Nat) (byte : UInt8) : IO String := do
  let msg ← IO.lazyPure fun _ => List.replicate n byte
  let t0 ← IO.monoNanosNow
  -- `IO.lazyPure` sequences the pure computation between the two clock reads
  let out ← IO.lazyPure fun _ => hex (h msg)
  let t1 ← IO.monoNanosNow
  let ms := (t1 - t0) / 1000000
  let rate := if t1 > t0 then (n * 1000000000 / (t1 - t0)) * 100 / 1048576 else 0
  IO.eprintln s!"{name}: {n} octets in {ms} ms ({rate / 100}.{(rate % 100) / 10}{rate % 10} MiB/s)"
  return out

def answer (line : String) : IO String := do
  let bytes (s : String) : Except String (List UInt8) :=
    match unhex? s with
    | some b => .ok b
    | none => .error s!"bad hex"
  let block2 (f : List UInt8 → List UInt8 → List UInt8) (k b : String) : String :=
    match bytes k, bytes b with
    | .ok k, .ok b =>
      match f k b with
      | [] => "error: bad length"
      | out => hex out
    | _, _ => "error: bad hex"
  match line.trimAscii.toString.splitOn " " with
  | ["selftest"] => return toString selfTestFull
  | ["md5"] => return hex (md5 [])
  | ["sha1"] => return hex (sha1 [])
  | ["md5", m] => return match bytes m with | .ok m => hex (md5 m) | .error e => s!"error: {e}"
  | ["sha1", m] => return match bytes m with | .ok m => hex (sha1 m) | .error e => s!"error: {e}"
  | ["desenc", k, b] => return block2 desEncryptBlock k b
  | ["desdec", k, b] => return block2 desDecryptBlock k b
  | ["aesenc", k, b] => return block2 aesEncryptBlock k b
  | [cmd, n, b] =>
    match cmd, n.toNat?, bytes b with
    | "md5rep", some n, .ok [b] => timedRep "md5" md5 n b
    | "sha1rep", some n, .ok [b] => timedRep "sha1" sha1 n b
    | _, _, _ => return "error: bad request"
  | _ => return "error: bad request"

def main : IO Unit := do
  let stdin ← IO.getStdin
  let stdout ← IO.getStdout
  repeat
    let line ← stdin.getLine
    if line.isEmpty then break
    stdout.putStrLn (← answer line)
  stdout.flush
