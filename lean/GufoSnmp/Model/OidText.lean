import GufoSnmp.Model.Ber
/-!
# OID text: `SnmpOid::try_from(&str)` and `String::try_from(&SnmpOid)` (`src/ber/objectid.rs`)

Text is a UTF-8 byte string; `.` is the byte 46, so splitting on it commutes with UTF-8
decoding, and every non-ASCII byte is a non-digit for `u32::from_str`.
-/
namespace GufoSnmp
open Gen

/-- `str::split(".")`. -/
def splitDots : Bytes → List Bytes
  | [] => [[]]
  | c :: rest =>
    if c.toNat = 46 then [] :: splitDots rest
    else match splitDots rest with
      | [] => [[c]]
      | p :: ps => (c :: p) :: ps

/-- an optional single leading `+` -/
def stripPlus : Bytes → Bytes
  | 43 :: r => r
  | s => s

/-- Rust `u32::from_str`: optional single `+`, at least one ASCII digit, value < 2^32. -/
def parseArcText (s : Bytes) : Option Nat :=
  if (stripPlus s).isEmpty || !(stripPlus s).all isDigit then none
  else if digitsVal (stripPlus s) < 2 ^ 32 then some (digitsVal (stripPlus s)) else none

/-- base-128 encoding of one sub-identifier, exactly the five-way branch of the source. -/
def encArc (n : Nat) : Bytes :=
  if n < 2 ^ 7 then [UInt8.ofNat n]
  else if n < 2 ^ 14 then [UInt8.ofNat (n / 2 ^ 7 + 128), UInt8.ofNat (n % 128)]
  else if n < 2 ^ 21 then
    [UInt8.ofNat (n / 2 ^ 14 + 128), UInt8.ofNat ((n / 2 ^ 7) % 128 + 128), UInt8.ofNat (n % 128)]
  else if n < 2 ^ 28 then
    [UInt8.ofNat (n / 2 ^ 21 + 128), UInt8.ofNat ((n / 2 ^ 14) % 128 + 128),
     UInt8.ofNat ((n / 2 ^ 7) % 128 + 128), UInt8.ofNat (n % 128)]
  else
    [UInt8.ofNat ((n / 2 ^ 28) % 128 + 128), UInt8.ofNat ((n / 2 ^ 21) % 128 + 128),
     UInt8.ofNat ((n / 2 ^ 14) % 128 + 128), UInt8.ofNat ((n / 2 ^ 7) % 128 + 128),
     UInt8.ofNat (n % 128)]

def parseArcs : List Bytes → Option (List Nat)
  | [] => some []
  | p :: ps => do
    let a ← parseArcText p
    let more ← parseArcs ps
    pure (a :: more)

/-- `SnmpOid::try_from(&str)` (after the arc-validation repair). -/
def oidFromStr (text : Bytes) : Outcome Bytes :=
  match splitDots text with
  | p1 :: p2 :: rest =>
    match parseArcText p1, parseArcText p2 with
    | some first, some second =>
      if first > 2 || second > 39 then .err .InvalidData
      else match parseArcs rest with
        | some arcs => .ok (UInt8.ofNat (40 * first + second) :: (arcs.map encArc).flatten)
        | none => .err .InvalidData
    | _, _ => .err .InvalidData
  | _ => .err .InvalidData

/-- decimal rendering of a natural number (`Display for u32/u8`). -/
def decimal (n : Nat) : Bytes :=
  if h : n < 10 then [UInt8.ofNat (48 + n)]
  else decimal (n / 10) ++ [UInt8.ofNat (48 + n % 10)]
termination_by n
decreasing_by omega

/-- the sub-identifier loop of `String::try_from(&SnmpOid)`: `b = (b << 7) + (c & 0x7f)` in `u32`. -/
def renderArcs : Bytes → Nat → Bytes
  | [], _ => []
  | c :: rest, b =>
    let b' := (b * 128) % 2 ^ 32 + c.toNat % 128
    if c.toNat < 128 then (46 :: decimal b') ++ renderArcs rest 0
    else renderArcs rest b'

/-- `String::try_from(&SnmpOid)`. -/
def oidToStr (oid : Bytes) : Outcome Bytes :=
  match oid with
  | [] => .err .InvalidData
  | first :: rest =>
    .ok (decimal (first.toNat / 40) ++ [46] ++ decimal (first.toNat % 40) ++ renderArcs rest 0)

end GufoSnmp
