import GufoSnmp.Model.Basic
/-!
# `src/gufo/snmp/user.py`: key classes and `User` (what the Python layer hands to the Rust sockets)
-/
namespace GufoSnmp.Py
open GufoSnmp

inductive KeyType where
  | password | master | localized
  deriving Repr, DecidableEq

/-- `KeyType._mask`: `value << 6` -/
def KeyType.mask : KeyType → Nat
  | .password => 0
  | .master => 64
  | .localized => 128

/-- `KeyType._is_aligned` -/
def KeyType.aligned : KeyType → Bool
  | .password => false
  | _ => true

/-- `BaseKey._padded`: truncate or zero-pad to `n` octets -/
def padded (key : Bytes) (n : Nat) : Bytes :=
  if key.length = n then key
  else if key.length > n then key.take n
  else key ++ List.replicate (n - key.length) 0

/-- `KEY_LENGTH` of `Md5Key` (alg 1) / `Sha1Key` (alg 2) -/
def authKeyLength (alg : Nat) : Nat := if alg = 1 then 16 else 20

structure Key where
  alg : Nat
  key : Bytes
  kt : KeyType
  deriving Repr, DecidableEq

/-- `BaseAuthKey.__init__` -/
def mkAuthKey (alg : Nat) (key : Bytes) (kt : KeyType) : Key :=
  ⟨alg, if kt.aligned then padded key (authKeyLength alg) else key, kt⟩

/-- `BasePrivKey(key, key_type)`: stored as given -/
def mkPrivKey (alg : Nat) (key : Bytes) (kt : KeyType) : Key := ⟨alg, key, kt⟩

structure User where
  name : Bytes
  auth : Option Key
  priv : Option Key
  deriving Repr, DecidableEq

/-- `User.__init__`: a privacy key needs an authentication key (`ValueError`); an aligned privacy key
is padded to the authentication key's length -/
def mkUser (name : Bytes) (auth : Option Key) (priv : Option Key) : Option User :=
  match priv, auth with
  | some _, none => none
  | some p, some a =>
    some ⟨name, auth, some (if p.kt.aligned then { p with key := padded p.key (authKeyLength a.alg) } else p)⟩
  | none, _ => some ⟨name, auth, none⟩

/-- `get_auth_alg`, `get_auth_key`, `get_priv_alg`, `get_priv_key` -/
def User.authAlg (u : User) : Nat := match u.auth with | some k => k.alg + k.kt.mask | none => 0
def User.authKey (u : User) : Bytes := match u.auth with | some k => k.key | none => []
def User.privAlg (u : User) : Nat := match u.priv with | some k => k.alg + k.kt.mask | none => 0
def User.privKey (u : User) : Bytes := match u.priv with | some k => k.key | none => []

end GufoSnmp.Py
