import GufoSnmp.Gen.Consts
/-!
# Outcome monad and the partial operations of Rust

Every Rust operation that can panic (`a[i]`, `&a[x..y]`, `a - b` on `usize`, checked
arithmetic under the `dev` profile, `clone_from_slice`, `unwrap`, `todo!()`, `/ 0`) is
modelled by a function that can return `Outcome.panic`, so "never panics" is a theorem
with content instead of an artefact of totalisation.
-/
namespace GufoSnmp
open Gen

abbrev Bytes := List UInt8

inductive Outcome (α : Type) where
  | ok (a : α)
  | err (e : SnmpError)
  | panic (why : String)
  deriving Repr, DecidableEq

namespace Outcome

@[inline] def bind {α β} (x : Outcome α) (f : α → Outcome β) : Outcome β :=
  match x with
  | .ok a => f a
  | .err e => .err e
  | .panic w => .panic w

instance : Monad Outcome where
  pure := .ok
  bind := Outcome.bind

def isPanic {α} : Outcome α → Bool
  | .panic _ => true
  | _ => false

def isOk {α} : Outcome α → Bool
  | .ok _ => true
  | _ => false

/-- `Result::map_err(|_| e)`-style: replace any error (panics stay). -/
def mapErr {α} (x : Outcome α) (e : SnmpError) : Outcome α :=
  match x with
  | .ok a => .ok a
  | .err _ => .err e
  | .panic w => .panic w

@[simp] theorem bind_ok {α β} (a : α) (f : α → Outcome β) : (Outcome.ok a >>= f) = f a := rfl
@[simp] theorem bind_err {α β} (e : SnmpError) (f : α → Outcome β) :
    (Outcome.err e >>= f) = Outcome.err e := rfl
@[simp] theorem bind_panic {α β} (w : String) (f : α → Outcome β) :
    (Outcome.panic w >>= f) = Outcome.panic w := rfl
@[simp] theorem pure_eq {α} (a : α) : (pure a : Outcome α) = Outcome.ok a := rfl

theorem bind_noPanic {α β} {x : Outcome α} {f : α → Outcome β}
    (hx : x.isPanic = false) (hf : ∀ a, x = .ok a → (f a).isPanic = false) :
    (x >>= f).isPanic = false := by
  cases x with
  | ok a => exact hf a rfl
  | err e => rfl
  | panic w => simp [isPanic] at hx

theorem bind_eq_ok {α β} {x : Outcome α} {f : α → Outcome β} {b : β}
    (h : (x >>= f) = .ok b) : ∃ a, x = .ok a ∧ f a = .ok b := by
  cases x with
  | ok a => exact ⟨a, rfl, h⟩
  | err e => cases h
  | panic w => cases h

end Outcome

/-- Rust `i[k]`. -/
def idx (i : Bytes) (k : Nat) : Outcome UInt8 :=
  match i[k]? with
  | some b => .ok b
  | none => .panic "index out of bounds"

/-- Rust `&i[..n]`. -/
def sliceTo (i : Bytes) (n : Nat) : Outcome Bytes :=
  if n ≤ i.length then .ok (i.take n) else .panic "slice end out of range"

/-- Rust `&i[n..]`. -/
def sliceFrom (i : Bytes) (n : Nat) : Outcome Bytes :=
  if n ≤ i.length then .ok (i.drop n) else .panic "slice start out of range"

/-- Rust `&i[a..b]`. -/
def slice (i : Bytes) (a b : Nat) : Outcome Bytes :=
  if a ≤ b ∧ b ≤ i.length then .ok ((i.take b).drop a) else .panic "slice index out of range"

/-- `usize` subtraction with overflow checks. -/
def usub (a b : Nat) : Outcome Nat :=
  if b ≤ a then .ok (a - b) else .panic "attempt to subtract with overflow"

/-- `u8` multiplication / addition with overflow checks. -/
def u8mul (a b : Nat) : Outcome Nat :=
  if a * b < 256 then .ok (a * b) else .panic "attempt to multiply with overflow"
def u8add (a b : Nat) : Outcome Nat :=
  if a + b < 256 then .ok (a + b) else .panic "attempt to add with overflow"

theorem idx_ok {i : Bytes} {k : Nat} (h : k < i.length) : idx i k = .ok i[k] := by
  simp [idx, List.getElem?_eq_getElem h]

theorem sliceTo_ok {i : Bytes} {n : Nat} (h : n ≤ i.length) : sliceTo i n = .ok (i.take n) := by
  simp [sliceTo, h]

theorem sliceFrom_ok {i : Bytes} {n : Nat} (h : n ≤ i.length) : sliceFrom i n = .ok (i.drop n) := by
  simp [sliceFrom, h]

/-- Wrap an integer into the `i64` range (two's complement). -/
def wrapI64 (x : Int) : Int := (x + 2 ^ 63) % 2 ^ 64 - 2 ^ 63

theorem wrapI64_id {x : Int} (h1 : -(2 ^ 63) ≤ x) (h2 : x < 2 ^ 63) : wrapI64 x = x := by
  unfold wrapI64
  have : (x + 2 ^ 63) % 2 ^ 64 = x + 2 ^ 63 := Int.emod_eq_of_lt (by omega) (by omega)
  omega

/-- Big-endian natural number denoted by a byte string. -/
def natOfBytes (bs : Bytes) : Nat := bs.foldl (fun acc b => acc * 256 + b.toNat) 0

end GufoSnmp
