import GufoSnmp.Model.Basic
/-!
# BER layer: header parser, generic `from_ber`, typed decoders, `SnmpValue::from_ber`

Transcribed from `src/ber/*.rs` and `src/snmp/value.rs` (tree after the `fix:` commits).
Bit operations are written arithmetically: `b & 0x80 == 0` is `b.toNat < 128`,
`(acc << 8) | x` is `acc * 256 + x` reduced modulo the machine width.
-/
namespace GufoSnmp
open Gen

structure Header where
  cls : Nat
  constructed : Bool
  tag : Nat
  length : Nat
  deriving Repr, DecidableEq

/-- Long-form tag loop of `BerHeader::from_ber`: `n = (n << 7) | (t & 0x7f)` in `u8`. -/
def tagLoop : Bytes → Nat → Outcome (Nat × Bytes)
  | [], _ => .err .Incomplete
  | t :: rest, n =>
    let n' := (n * 128) % 256 + t.toNat % 128
    if t.toNat < 128 then .ok (n', rest) else tagLoop rest n'

/-- Long-form length loop: `ln = (ln << 8) + b` in `usize` (64 bit). -/
def lenLoop : Nat → Bytes → Nat → Outcome (Nat × Bytes)
  | 0, rest, ln => .ok (ln, rest)
  | _ + 1, [], _ => .err .Incomplete
  | k + 1, b :: rest, ln => lenLoop k rest ((ln * 256) % 2 ^ 64 + b.toNat)

/-- `BerHeader::from_ber`; the returned tail is `content ++ rest`. -/
def parseHeader (i : Bytes) : Outcome (Header × Bytes) :=
  match i with
  | [] => .err .Incomplete
  | [_] => .err .Incomplete
  | id :: r1 => do
    let cls := id.toNat / 64
    let constructed := (id.toNat / 32) % 2 == 1
    let (tag, r2) ← (if id.toNat % 32 = 31 then tagLoop r1 0 else .ok (id.toNat % 32, r1))
    match r2 with
    | [] => .err .Incomplete
    | n :: r3 => do
      let (length, r4) ← (if n.toNat < 128 then .ok (n.toNat, r3) else lenLoop (n.toNat % 128) r3 0)
      if r4.length < length then .err .Incomplete
      else .ok ({ cls, constructed, tag, length }, r4)

/-- A typed decoder: the associated constants and `decode` of the `BerDecoder` trait. -/
structure Decoder (α : Type) where
  tag : Nat
  allowPrimitive : Bool
  allowConstructed : Bool
  decode : Bytes → Header → Outcome α

/-- Default `BerDecoder::from_ber`. -/
def fromBer {α} (d : Decoder α) (i : Bytes) : Outcome (α × Bytes) :=
  if i.length < 2 then .err .Incomplete else do
  let (hdr, tail) ← parseHeader i
  if hdr.tag ≠ d.tag || (hdr.constructed && !d.allowConstructed)
      || (!hdr.constructed && !d.allowPrimitive) then .err .UnexpectedTag
  else do
    let rest ← sliceFrom tail hdr.length
    let v ← d.decode tail hdr
    pure (v, rest)

/-! ## typed decoders -/

/-- `SnmpInt::decode` (after the sign-extension repair). -/
def decodeInt (i : Bytes) (h : Header) : Outcome Int :=
  if h.length = 0 then .ok 0
  else if h.length > 8 then .err .InvalidData
  else do
    let b0 ← idx i 0
    let init : Int := if b0.toNat < 128 then 0 else -1
    pure ((i.take h.length).foldl (fun acc x => wrapI64 (acc * 256 + x.toNat)) init)

def intDecoder : Decoder Int := ⟨intTag, intAllowPrimitive, intAllowConstructed, decodeInt⟩

/-- unsigned accumulators: `(acc << 8) | x` in `u32` / `u64`. -/
def decodeUnsigned (bits : Nat) (i : Bytes) (h : Header) : Outcome Nat :=
  .ok ((i.take h.length).foldl (fun acc x => (acc * 256 + x.toNat) % 2 ^ bits) 0)

def counter32Decoder : Decoder Nat := ⟨counter32Tag, counter32AllowPrimitive, counter32AllowConstructed, decodeUnsigned 32⟩
def gauge32Decoder : Decoder Nat := ⟨gauge32Tag, gauge32AllowPrimitive, gauge32AllowConstructed, decodeUnsigned 32⟩
def timeticksDecoder : Decoder Nat := ⟨timeticksTag, timeticksAllowPrimitive, timeticksAllowConstructed, decodeUnsigned 32⟩
def uinteger32Decoder : Decoder Nat := ⟨uinteger32Tag, uinteger32AllowPrimitive, uinteger32AllowConstructed, decodeUnsigned 32⟩
def counter64Decoder : Decoder Nat := ⟨counter64Tag, counter64AllowPrimitive, counter64AllowConstructed, decodeUnsigned 64⟩

def decodeBool (i : Bytes) (h : Header) : Outcome Bool :=
  if h.length ≠ 1 then .err .InvalidData else do
  let b ← idx i 0
  pure (b.toNat ≠ 0)

def boolDecoder : Decoder Bool := ⟨boolTag, boolAllowPrimitive, boolAllowConstructed, decodeBool⟩

def decodeNull (_i : Bytes) (h : Header) : Outcome Unit :=
  if h.length ≠ 0 then .err .InvalidTagFormat else .ok ()

def nullDecoder : Decoder Unit := ⟨nullTag, nullAllowPrimitive, nullAllowConstructed, decodeNull⟩

/-- `&i[..h.length]` decoders (OCTET STRING, OID, ObjectDescriptor, Opaque, RELATIVE-OID, SEQUENCE). -/
def decodeSlice (i : Bytes) (h : Header) : Outcome Bytes := sliceTo i h.length

def octetsDecoder : Decoder Bytes := ⟨octetsTag, octetsAllowPrimitive, octetsAllowConstructed, decodeSlice⟩
def oidDecoder : Decoder Bytes := ⟨oidTag, oidAllowPrimitive, oidAllowConstructed, decodeSlice⟩
def objDescDecoder : Decoder Bytes := ⟨objDescTag, objDescAllowPrimitive, objDescAllowConstructed, decodeSlice⟩
def opaqueDecoder : Decoder Bytes := ⟨opaqueTag, opaqueAllowPrimitive, opaqueAllowConstructed, decodeSlice⟩
def relOidDecoder : Decoder Bytes := ⟨relOidTag, relOidAllowPrimitive, relOidAllowConstructed, decodeSlice⟩
def sequenceDecoder : Decoder Bytes := ⟨sequenceTag, sequenceAllowPrimitive, sequenceAllowConstructed, decodeSlice⟩

def decodeIpAddress (i : Bytes) (h : Header) : Outcome (Nat × Nat × Nat × Nat) :=
  if h.length ≠ 4 then .err .InvalidTagFormat else do
  let a ← idx i 0
  let b ← idx i 1
  let c ← idx i 2
  let d ← idx i 3
  pure (a.toNat, b.toNat, c.toNat, d.toNat)

def ipAddressDecoder : Decoder (Nat × Nat × Nat × Nat) :=
  ⟨ipAddressTag, ipAddressAllowPrimitive, ipAddressAllowConstructed, decodeIpAddress⟩

/-- `SnmpOption::from_ber` (overridden trait method): any constructed element of universal
or context class; yields the tag number and the content. -/
def optionFromBer (i : Bytes) : Outcome ((Nat × Bytes) × Bytes) :=
  if i.length < 3 then .err .Incomplete else do
  let (hdr, tail) ← parseHeader i
  if !hdr.constructed || (hdr.cls ≠ 2 && hdr.cls ≠ 0) then .err .UnexpectedTag
  else do
    let rest ← sliceFrom tail hdr.length
    let v ← sliceTo tail hdr.length
    pure ((hdr.tag, v), rest)

/-! ## REAL (symbolic value; the final rounding to binary64 is outside Lean) -/

inductive FloatVal where
  | zero | inf | negInf | nan | negZero
  /-- NR1: `str::parse::<i32>` then exact conversion. -/
  | int (v : Int)
  /-- NR2 / NR3: text accepted by Rust's `f64::from_str`, correctly rounded by it. -/
  | dec (text : Bytes)
  /-- binary form: `± n * 2^e`, rounded once to binary64 by `SnmpReal::ldexp` (the rounding itself
  is outside Lean: it is compared with exact rational arithmetic on every run). -/
  | bin (neg : Bool) (n : Nat) (e : Int)
  deriving Repr, DecidableEq

def isDigit (b : UInt8) : Bool := 48 ≤ b.toNat && b.toNat ≤ 57

def digitsVal (ds : Bytes) : Nat := ds.foldl (fun acc d => acc * 10 + (d.toNat - 48)) 0

/-- Rust `i32::from_str`: optional `+`/`-`, at least one ASCII digit, range-checked. -/
def parseI32 (s : Bytes) : Option Int :=
  let (neg, ds) : Bool × Bytes :=
    match s with
    | 45 :: r => (true, r)
    | 43 :: r => (false, r)
    | _ => (false, s)
  if ds.isEmpty || !ds.all isDigit then none
  else
    let v : Int := if neg then -(digitsVal ds : Int) else (digitsVal ds : Int)
    if -(2 ^ 31) ≤ v ∧ v < 2 ^ 31 then some v else none

def lower (b : UInt8) : UInt8 := if 65 ≤ b.toNat && b.toNat ≤ 90 then b + 32 else b

/-- Grammar of Rust's `f64::from_str` (core::num::dec2flt). -/
def isRustFloat (s : Bytes) : Bool :=
  let body : Bytes := match s with
    | 45 :: r => r
    | 43 :: r => r
    | _ => s
  let low := body.map lower
  if low = "inf".toUTF8.toList || low = "infinity".toUTF8.toList || low = "nan".toUTF8.toList then true
  else
    let intPart := body.takeWhile isDigit
    let r1 := body.dropWhile isDigit
    let (fracPart, r2) : Bytes × Bytes := match r1 with
      | 46 :: r => (r.takeWhile isDigit, r.dropWhile isDigit)
      | _ => ([], r1)
    if intPart.isEmpty && fracPart.isEmpty then false
    else match r2 with
      | [] => true
      | e :: r3 =>
        if e.toNat = 101 || e.toNat = 69 then
          let ds := match r3 with
            | 45 :: r => r
            | 43 :: r => r
            | _ => r3
          !ds.isEmpty && ds.all isDigit
        else false

/-- `SnmpReal::parse_exponent`: two's complement, clamped to `±2^40` (far outside the f64 range)
as soon as the accumulator leaves that interval. -/
def parseExponentLoop : Bytes → Int → Int
  | [], v => v
  | b :: rest, v =>
    let v' := v * 256 + b.toNat
    if v' > 2 ^ 40 ∨ v' < -(2 ^ 40) then (if v' > 0 then 2 ^ 40 else -(2 ^ 40))
    else parseExponentLoop rest v'

def parseExponent (bs : Bytes) : Int :=
  match bs with
  | [] => 0
  | b :: _ => parseExponentLoop bs (if b.toNat ≥ 128 then -1 else 0)

/-- `SnmpReal::parse_mantissa`: `(n, shift, sticky)` with `N = n * 2^shift` up to the dropped
low-order bits, whose presence is recorded in `sticky`. -/
def parseMantissaLoop : Bytes → Nat → Int → Bool → Nat × Int × Bool
  | [], v, shift, sticky => (v, shift, sticky)
  | b :: rest, v, shift, sticky =>
    if v / 2 ^ 56 = 0 then parseMantissaLoop rest (v * 256 + b.toNat) shift sticky
    else parseMantissaLoop rest v (shift + 8) (sticky || b.toNat ≠ 0)

def parseMantissa (bs : Bytes) : Nat × Int :=
  let (v, shift, sticky) := parseMantissaLoop bs 0 0 false
  (if sticky then (if v % 2 = 0 then v + 1 else v) else v, shift)

/-- where the exponent octets are (X.690 8.5.7.4): `(start, length)` -/
def realExpLayout (i : Bytes) (f : Nat) : Outcome (Nat × Nat) :=
  if f % 4 = 3 then
    (if i.length < 2 then .err .InvalidData else do
      let l ← idx i 1
      pure (2, l.toNat))
  else .ok (1, f % 4 + 1)

/-- the binary branch of `SnmpReal::decode` (X.690 8.5.7, after the D8b repair) -/
def decodeRealBinary (i : Bytes) (f : Nat) : Outcome FloatVal := do
  let lay ← realExpLayout i f
  let mStart := lay.1 + lay.2
  if lay.2 = 0 ∨ i.length < mStart then .err .InvalidData else do
  let eb ← slice i lay.1 mStart
  let mb ← sliceFrom i mStart
  let nm := parseMantissa mb
  match (f / 16) % 4 with
  | 3 => .err .InvalidData
  | b =>
    let k : Int := if b = 0 then 1 else if b = 1 then 3 else 4
    let scale : Int := ((f / 4) % 4 : Nat)
    .ok (.bin ((f / 64) % 2 = 1) nm.1 (parseExponent eb * k + scale + nm.2))

/-- `SnmpReal::decode` (after the content-bounding repair). -/
def decodeReal (i0 : Bytes) (h : Header) : Outcome FloatVal :=
  if h.length = 0 then .ok .zero else do
  let i ← sliceTo i0 h.length
  let fb ← idx i 0
  let f := fb.toNat
  if f ≥ 128 then
    decodeRealBinary i f
  else if f < 64 then do
    let text ← sliceFrom i 1
    match f % 64 with
    | 1 => match parseI32 text with
      | some v => .ok (.int v)
      | none => .err .InvalidData
    | 2 => if isRustFloat text then .ok (.dec text) else .err .InvalidData
    | 3 => if isRustFloat text then .ok (.dec text) else .err .InvalidData
    | _ => .err .InvalidData
  else if f = 64 then .ok .inf
  else if f = 65 then .ok .negInf
  else if f = 66 then .ok .nan
  else if f = 67 then .ok .negZero
  else .err .InvalidData

def realDecoder : Decoder FloatVal := ⟨realTag, realAllowPrimitive, realAllowConstructed, decodeReal⟩

/-! ## SnmpValue -/

inductive Value where
  | bool (b : Bool)
  | int (v : Int)
  | null
  | octets (b : Bytes)
  | oid (b : Bytes)
  | objdesc (b : Bytes)
  | real (f : FloatVal)
  | ipaddr (a b c d : Nat)
  | counter32 (n : Nat)
  | gauge32 (n : Nat)
  | timeticks (n : Nat)
  | opaque (b : Bytes)
  | counter64 (n : Nat)
  | uinteger32 (n : Nat)
  | noSuchObject
  | noSuchInstance
  | endOfMibView
  deriving Repr, DecidableEq

/-- the value-constructing part of `SnmpValue::from_ber` (class / tag dispatch). -/
def decodeValue (tail : Bytes) (hdr : Header) : Outcome Value :=
  if hdr.constructed then .err .UnsupportedTag
  else if hdr.cls = 0 then
    if hdr.tag = tagBool then do let v ← decodeBool tail hdr; pure (.bool v)
    else if hdr.tag = tagInt then do let v ← decodeInt tail hdr; pure (.int v)
    else if hdr.tag = tagOctetString then do let v ← decodeSlice tail hdr; pure (.octets v)
    else if hdr.tag = tagNull then do let _ ← decodeNull tail hdr; pure .null
    else if hdr.tag = tagObjectId then do let v ← decodeSlice tail hdr; pure (.oid v)
    else if hdr.tag = tagObjectDescriptor then do let v ← decodeSlice tail hdr; pure (.objdesc v)
    else if hdr.tag = tagReal then do let v ← decodeReal tail hdr; pure (.real v)
    else .err .UnsupportedTag
  else if hdr.cls = 1 then
    if hdr.tag = tagAppIpaddress then do
      let (a, b, c, d) ← decodeIpAddress tail hdr; pure (.ipaddr a b c d)
    else if hdr.tag = tagAppCounter32 then do let v ← decodeUnsigned 32 tail hdr; pure (.counter32 v)
    else if hdr.tag = tagAppGauge32 then do let v ← decodeUnsigned 32 tail hdr; pure (.gauge32 v)
    else if hdr.tag = tagAppTimeticks then do let v ← decodeUnsigned 32 tail hdr; pure (.timeticks v)
    else if hdr.tag = tagAppOpaque then do let v ← decodeSlice tail hdr; pure (.opaque v)
    else if hdr.tag = tagAppCounter64 then do let v ← decodeUnsigned 64 tail hdr; pure (.counter64 v)
    else if hdr.tag = tagAppUinteger32 then do let v ← decodeUnsigned 32 tail hdr; pure (.uinteger32 v)
    else .err .UnsupportedTag
  else if hdr.cls = 2 then
    if hdr.tag = tagCtxNoSuchObject then .ok .noSuchObject
    else if hdr.tag = tagCtxNoSuchInstance then .ok .noSuchInstance
    else if hdr.tag = tagCtxEndOfMibView then .ok .endOfMibView
    else .err .UnsupportedTag
  else .err .UnsupportedTag

/-- `SnmpValue::from_ber`. -/
def valueFromBer (i : Bytes) : Outcome (Value × Bytes) := do
  let (hdr, tail) ← parseHeader i
  let v ← decodeValue tail hdr
  let rest ← sliceFrom tail hdr.length
  pure (v, rest)

/-! ## OIDs: relative OID normalisation, arc comparison, prefix test -/

/-- `SnmpRelativeOid::subelements`. -/
def subelements (d : Bytes) : Nat := (d.filter (fun c => c.toNat < 128)).length

/-- `SnmpRelativeOid::find_subelement` as a loop over `(offset, c)`. -/
def findSubelementLoop (total : Nat) : Bytes → Nat → Nat → Nat → Option Nat
  | [], _, _, _ => none
  | c :: rest, offset, left, start =>
    if left = 0 then (if start < total then some start else none)
    else if c.toNat < 128 then findSubelementLoop total rest (offset + 1) (left - 1) (offset + 1)
    else findSubelementLoop total rest (offset + 1) left start

def findSubelement (d : Bytes) (n : Nat) : Option Nat := findSubelementLoop d.length d 0 n 0

/-- `SnmpRelativeOid::try_normalize`. -/
def tryNormalize (rel oid : Bytes) : Outcome Bytes :=
  if oid.isEmpty then .err .InvalidData else do
  let relSi := subelements rel
  let base ← sliceFrom oid 1
  let baseSi := subelements base + 2
  let b2 ← usub baseSi 2
  if relSi < b2 then do
    let k ← usub baseSi relSi
    let k ← usub k 2
    let offset := (findSubelement base k).getD 0 + 1
    let pre ← sliceTo oid offset
    pure (pre ++ rel)
  else
    if rel.length < 2 then .err .InvalidData else do
    let first ← idx rel 0
    let second ← idx rel 1
    if first.toNat > 2 || second.toNat ≥ 128 || (first.toNat < 2 && second.toNat ≥ 40) then
      .err .InvalidData
    else do
      let _cap ← usub rel.length 1
      let m ← u8mul first.toNat 40
      let s ← u8add m second.toNat
      let rest ← sliceFrom rel 2
      pure (UInt8.ofNat s :: rest)

/-- `SnmpOid::split_arc`: first sub-identifier without leading `0x80` padding, and the rest. -/
def splitArcRaw : Bytes → Bytes × Bytes
  | [] => ([], [])
  | c :: rest =>
    if c.toNat < 128 then ([c], rest)
    else let (a, r) := splitArcRaw rest; (c :: a, r)

def splitArc (d : Bytes) : Bytes × Bytes :=
  let (arc, rest) := splitArcRaw d
  (arc.dropWhile (fun c => c.toNat = 128), rest)

theorem splitArcRaw_rest_length (d : Bytes) (h : d ≠ []) : (splitArcRaw d).2.length < d.length := by
  induction d with
  | nil => exact absurd rfl h
  | cons c rest ih =>
    unfold splitArcRaw
    split
    · simp
    · by_cases hr : rest = []
      · subst hr; simp [splitArcRaw]
      · have := ih hr; simp only [List.length_cons]; omega

/-- lexicographic comparison of equally long byte strings (`[u8]::cmp`). -/
def cmpBytes : Bytes → Bytes → Ordering
  | [], [] => .eq
  | [], _ :: _ => .lt
  | _ :: _, [] => .gt
  | a :: as, b :: bs =>
    if a.toNat < b.toNat then .lt else if a.toNat > b.toNat then .gt else cmpBytes as bs

/-- `SnmpOid::cmp_arcs`. -/
def cmpArcs (a b : Bytes) : Ordering :=
  match a, b with
  | [], [] => .eq
  | [], _ :: _ => .lt
  | _ :: _, [] => .gt
  | a0 :: as, b0 :: bs =>
    let x := splitArc (a0 :: as)
    let y := splitArc (b0 :: bs)
    let r := (compare x.1.length y.1.length).then (cmpBytes x.1 y.1)
    if r ≠ .eq then r else cmpArcs x.2 y.2
termination_by a.length
decreasing_by
  have := splitArcRaw_rest_length (a0 :: as) (by simp)
  simp only [splitArc] at *
  simpa using this

/-- `SnmpOid::starts_with`: `self` is a byte prefix of `oid`. -/
def oidStartsWith (self oid : Bytes) : Bool := self.isPrefixOf oid

end GufoSnmp
