/-! # Discrete-time model of a blocking / awaited receive (C18)

Time is a natural number of ticks.  The receive loop of `src/socket/snmpsocket.rs` (`_recv_inner`
/ `_recv_until`) waits for the next datagram with the socket timeout, decodes it (taking at most
`d` ticks), delivers it, fails on it, or skips it and waits again.

* `syncRecv`: the blocking call after the D14 repair: one deadline `start + T` for the whole call;
  after a skipped datagram only the rest of the timeout is waited for.
* `syncRecvOld`: the behaviour before the repair (every `recv` waits a full `T`), kept to show
  what the repaired code no longer does (`C18.old_unbounded`).
* `asyncRecv`: `asyncio.wait_for(get_response(), T)` in the async client: the deadline belongs to
  the event loop, the socket itself never blocks.
-/

namespace GufoSnmp.Timing

inductive Kind where
  | reply      -- the matching reply
  | stray      -- well-formed, but does not answer the outstanding request: skipped
  | garbage    -- does not decode as a message of the session's version
  deriving Repr, DecidableEq

structure Arrival where
  time : Nat
  kind : Kind
  deriving Repr, DecidableEq

inductive End where
  | delivered (t : Nat)
  | timeout (t : Nat)
  | decodeError (t : Nat)
  deriving Repr, DecidableEq

def End.time : End → Nat
  | .delivered t => t
  | .timeout t => t
  | .decodeError t => t

/-- blocking receive with one deadline (`now` = current time, `start` = when the call began) -/
def syncRecv (T d start : Nat) : Nat → List Arrival → End
  | _, [] => .timeout (start + T)
  | now, a :: rest =>
    let t := max now a.time
    if start + T ≤ t then .timeout (start + T)
    else match a.kind with
      | .reply => .delivered (t + d)
      | .garbage => .decodeError (t + d)
      | .stray => if T ≤ t + d - start then .timeout (t + d) else syncRecv T d start (t + d) rest

/-- the receive loop before the repair: each `recv` arms a fresh timeout -/
def syncRecvOld (T d : Nat) : Nat → List Arrival → End
  | now, [] => .timeout (now + T)
  | now, a :: rest =>
    let t := max now a.time
    if now + T ≤ t then .timeout (now + T)
    else match a.kind with
      | .reply => .delivered (t + d)
      | .garbage => .decodeError (t + d)
      | .stray => syncRecvOld T d (t + d) rest

/-- the awaited receive: the event loop cancels the wait at `start + T` -/
def asyncRecv (T d start : Nat) : Nat → List Arrival → End
  | _, [] => .timeout (start + T)
  | now, a :: rest =>
    let t := max now a.time
    if start + T ≤ t then .timeout (start + T)
    else match a.kind with
      | .reply => .delivered (t + d)
      | .garbage => .decodeError (t + d)
      | .stray => asyncRecv T d start (t + d) rest

/-- the same loop with the socket option made explicit: `cur` is the value of `SO_RCVTIMEO` armed on
the socket; every `recv` waits `cur` from `now`; after a skipped datagram `_recv_until` re-arms the
socket with what is left of `T`. Returns the end of the call and the value left on the socket. -/
def syncRecvS (T d start : Nat) : Nat → Nat → List Arrival → End × Nat
  | now, cur, [] => (.timeout (now + cur), cur)
  | now, cur, a :: rest =>
    let t := max now a.time
    if now + cur ≤ t then (.timeout (now + cur), cur)
    else match a.kind with
      | .reply => (.delivered (t + d), cur)
      | .garbage => (.decodeError (t + d), cur)
      | .stray =>
        if T ≤ t + d - start then (.timeout (t + d), cur)
        else syncRecvS T d start (t + d) (T - (t + d - start)) rest

/-- the socket as the session sees it between calls -/
structure Sock where
  configured : Nat
  armed : Nat
  deriving Repr, DecidableEq

/-- one blocking call, `_recv_inner`: read the armed timeout, run the loop, restore the value read -/
def syncCall (d : Nat) (s : Sock) (start : Nat) (arrivals : List Arrival) : Sock × End :=
  let T := s.armed
  ({ s with armed := T }, (syncRecvS T d start start T arrivals).1)

/-- a history of calls on one session: (start time, arrivals) each -/
def syncCalls (d : Nat) : Sock → List (Nat × List Arrival) → List End
  | _, [] => []
  | s, (start, arr) :: rest => (syncCall d s start arr).2 :: syncCalls d (syncCall d s start arr).1 rest

/-- the clock after skipping a run of datagrams -/
def clock (d : Nat) : Nat → List Arrival → Nat
  | now, [] => now
  | now, a :: rest => clock d (max now a.time + d) rest

end GufoSnmp.Timing
