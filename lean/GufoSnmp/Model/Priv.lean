import GufoSnmp.Model.Auth
/-!
# USM privacy (`src/privacy/*.rs`) over abstract block ciphers

`Ciphers.desEnc / desDec / aesEnc` are arbitrary functions of (key, block); CBC and CFB-128
are written out here the way the RustCrypto `cbc` / `cfb-mode` crates apply them to whole
blocks (and, for CFB decryption, to a trailing partial block).
-/
namespace GufoSnmp
open Gen

structure Ciphers where
  desEnc : Bytes → Bytes → Bytes
  desDec : Bytes → Bytes → Bytes
  aesEnc : Bytes → Bytes → Bytes

def xorBytes (a b : Bytes) : Bytes := List.zipWith xorByte a b

/-- split into consecutive blocks of `n` octets (the last one may be shorter) -/
def chunks (n : Nat) (bs : Bytes) : List Bytes :=
  if h : n = 0 ∨ bs = [] then [] else bs.take n :: chunks n (bs.drop n)
termination_by bs.length
decreasing_by
  have h1 : n ≠ 0 := fun e => h (Or.inl e)
  have h2 : bs ≠ [] := fun e => h (Or.inr e)
  have : 0 < bs.length := List.length_pos_iff.mpr h2
  simp only [List.length_drop]; omega

def cbcEncBlocks (E : Bytes → Bytes) : Bytes → List Bytes → List Bytes
  | _, [] => []
  | iv, p :: ps => let c := E (xorBytes p iv); c :: cbcEncBlocks E c ps

def cbcDecBlocks (Dd : Bytes → Bytes) : Bytes → List Bytes → List Bytes
  | _, [] => []
  | iv, c :: cs => xorBytes (Dd c) iv :: cbcDecBlocks Dd c cs

def cfbEncBlocks (E : Bytes → Bytes) : Bytes → List Bytes → List Bytes
  | _, [] => []
  | iv, p :: ps => let c := xorBytes p (E iv); c :: cfbEncBlocks E c ps

def cfbDecBlocks (E : Bytes → Bytes) : Bytes → List Bytes → List Bytes
  | _, [] => []
  | iv, c :: cs => xorBytes c (E iv) :: cfbDecBlocks E c cs

def cbcEnc (E : Bytes → Bytes) (iv data : Bytes) : Bytes := (cbcEncBlocks E iv (chunks 8 data)).flatten
def cbcDec (Dd : Bytes → Bytes) (iv data : Bytes) : Bytes := (cbcDecBlocks Dd iv (chunks 8 data)).flatten
def cfbEnc (E : Bytes → Bytes) (iv data : Bytes) : Bytes := (cfbEncBlocks E iv (chunks 16 data)).flatten
def cfbDec (E : Bytes → Bytes) (iv data : Bytes) : Bytes := (cfbDecBlocks E iv (chunks 16 data)).flatten

/-- big-endian fixed-width encoding (`to_be_bytes`) -/
def beBytes : Nat → Nat → Bytes
  | 0, _ => []
  | k + 1, v => beBytes k (v / 256) ++ [UInt8.ofNat (v % 256)]

/-- `x as u32` for an `i64` -/
def asU32 (x : Int) : Nat := (x % 2 ^ 32).toNat

inductive PrivKey where
  | noPriv
  | des (key preIv : Bytes) (salt : Nat) (buf : Buf)
  | aes (key : Bytes) (salt : Nat) (buf : Buf)
  deriving Repr, DecidableEq

def PrivKey.hasPriv : PrivKey → Bool
  | .noPriv => false
  | _ => true

/-- `PrivKey::new(code)` -/
def PrivKey.new (code : Nat) : Outcome PrivKey :=
  let alg := code % (privAlgMask + 1)
  if alg = Gen.noPriv then .ok .noPriv
  else if alg = privDes then .ok (.des (List.replicate 8 0) (List.replicate 8 0) 0 Buf.empty)
  else if alg = privAes128 then .ok (.aes (List.replicate 16 0) 0 Buf.empty)
  else .err .InvalidVersion

/-- `as_localized(key)`; `seed` is the random salt seed drawn by `rand` -/
def PrivKey.asLocalized (k : PrivKey) (key : Bytes) (seed : Nat) : Outcome PrivKey :=
  match k with
  | .noPriv => .ok .noPriv
  | .des _ _ _ buf =>
    if key.length < desKeyLength then .err .InvalidKey
    else .ok (.des (key.take desEncKeyLength) ((key.take desKeyLength).drop desEncKeyLength)
                   (seed % 2 ^ 32) buf)
  | .aes _ _ buf =>
    if key.length < aesKeyLength then .err .InvalidKey
    else .ok (.aes (key.take aesKeyLength) (seed % 2 ^ 64) buf)

/-- serialise padding + scoped PDU into the private buffer; returns (buffer, region to encrypt) -/
def privSerialize (blockSize : Nat) (buf : Buf) (s : ScopedPdu) : Outcome (Buf × Bytes) := do
  let b := buf.reset
  let b ← b.push (List.replicate blockSize 0)
  let b ← pushScoped b s
  let scopedLen ← usub b.len blockSize
  let rem := scopedLen % blockSize
  let paddedLen := if rem > 0 then scopedLen + blockSize - rem else scopedLen
  let data ← b.data
  let region ← sliceTo data paddedLen
  pure (b, region)

/-- `encrypt`: returns the new key state (the salt counter advances even when serialisation
fails) and, on success, (ciphertext, privacy parameters). -/
def PrivKey.encrypt (C : Ciphers) (k : PrivKey) (s : ScopedPdu) (boots time : Nat) :
    PrivKey × Outcome (Bytes × Bytes) :=
  match k with
  | .noPriv => (.noPriv, .err .NotImplemented)
  | .des key preIv salt buf =>
    let privParams := beBytes 4 (boots % 2 ^ 32) ++ beBytes 4 salt
    let salt' := (salt + 1) % 2 ^ 32
    let iv := xorBytes privParams preIv
    match privSerialize desBlockSize buf s with
    | .ok (b, region) =>
      let ct := cbcEnc (C.desEnc key) iv region
      (.des key preIv salt' (b.overwrite ct), .ok (ct, privParams))
    | .err e => (.des key preIv salt' buf, .err e)
    | .panic w => (.des key preIv salt' buf, .panic w)
  | .aes key salt buf =>
    let privParams := beBytes 4 (boots % 2 ^ 32) ++ beBytes 4 (time % 2 ^ 32) ++ beBytes 8 salt
    let salt' := (salt + 1) % 2 ^ 64
    match privSerialize aesBlockSize buf s with
    | .ok (b, region) =>
      let ct := cfbEnc (C.aesEnc key) privParams region
      (.aes key salt' (b.overwrite ct), .ok (ct, privParams.drop 8))
    | .err e => (.aes key salt' buf, .err e)
    | .panic w => (.aes key salt' buf, .panic w)

/-- `decrypt`: returns (scoped PDU, new key state) -/
def PrivKey.decrypt (C : Ciphers) (k : PrivKey) (data : Bytes) (usm : Usm) :
    Outcome (ScopedPdu × PrivKey) :=
  match k with
  | .noPriv => .err .NotImplemented
  | .des key preIv salt buf =>
    let iv := (xorBytes (usm.privacyParams.take 8) preIv ++ List.replicate 8 0).take 8
    let b := (buf.reset).skip data.length
    if data.length % desBlockSize ≠ 0 || b.len < data.length then .err .InvalidKey else do
    let pt := cbcDec (C.desDec key) iv data
    let b := b.overwrite pt
    let plain ← b.data
    let s ← scopedTryFrom plain
    pure (s, .des key preIv salt b)
  | .aes key salt buf =>
    if usm.privacyParams.length ≠ aesKeyLength - 8 then .err .InvalidKey else
    let iv := beBytes 4 (asU32 usm.engineBoots) ++ beBytes 4 (asU32 usm.engineTime) ++ usm.privacyParams
    let b := (buf.reset).skip data.length
    if b.len ≠ data.length then .err .InvalidKey else do
    let pt := cfbDec (C.aesEnc key) iv data
    let b := b.overwrite pt
    let plain ← b.data
    let s ← scopedTryFrom plain
    pure (s, .aes key salt b)

end GufoSnmp
