import GufoSnmp.Model.Pdu
import GufoSnmp.Model.OidText
/-!
# Operation layer: conversion of replies to Python values (`src/snmp/op/*.rs`, `IntoPyObject`)
-/
namespace GufoSnmp
open Gen

inductive PyScalar where
  | none
  | bool (b : Bool)
  | int (v : Int)
  | bytes (b : Bytes)
  | str (s : Bytes)
  | float (f : FloatVal)
  deriving Repr, DecidableEq

inductive PyVal where
  | scalar (s : PyScalar)
  /-- `(oid, value)` tuple; `raw` is ghost state: the OID octets the text was rendered from -/
  | pair (raw : Bytes) (oid : Bytes) (v : PyScalar)
  /-- GetBulk result list; `none` is the stop marker `None`; items are (ghost raw OID, text, value) -/
  | list (xs : List (Option (Bytes × Bytes × PyScalar)))
  /-- `dict` in insertion order, later bindings of a key replace earlier ones -/
  | dict (kvs : List (Bytes × PyScalar))
  deriving Repr, DecidableEq

/-- what a Python-visible call produces -/
inductive PyOut where
  | value (v : PyVal)
  | raise (e : PyExc)
  | panic (why : String)
  deriving Repr, DecidableEq

def PyOut.isPanic : PyOut → Bool
  | .panic _ => true
  | _ => false

/-- `?` on a `SnmpResult` inside a function returning `PyResult` -/
def liftErr {α} (x : Outcome α) (k : α → PyOut) : PyOut :=
  match x with
  | .ok a => k a
  | .err e => .raise (pyClass e)
  | .panic w => .panic w

/-- `IntoPyObject for &SnmpIpAddress`: dotted text -/
def ipText (a b c d : Nat) : Bytes :=
  decimal a ++ [46] ++ decimal b ++ [46] ++ decimal c ++ [46] ++ decimal d

/-- `IntoPyObject for &SnmpValue` -/
def valueToPy : Value → Outcome PyScalar
  | .bool b => .ok (.bool b)
  | .int v => .ok (.int v)
  | .null => .panic "not yet implemented: None"
  | .octets b => .ok (.bytes b)
  | .oid b => do let s ← oidToStr b; pure (.str s)
  | .objdesc b => .ok (.bytes b)
  | .real f => .ok (.float f)
  | .ipaddr a b c d => .ok (.str (ipText a b c d))
  | .counter32 n => .ok (.int n)
  | .gauge32 n => .ok (.int n)
  | .timeticks n => .ok (.int n)
  | .opaque b => .ok (.bytes b)
  | .counter64 n => .ok (.int n)
  | .uinteger32 n => .ok (.int n)
  | .noSuchObject => .panic "not yet implemented: never should be passed"
  | .noSuchInstance => .panic "not yet implemented: never should be passed"
  | .endOfMibView => .panic "not yet implemented: never should be passed"

/-- NULL and the three exception values: "no data" -/
def Value.isData : Value → Bool
  | .null | .noSuchObject | .noSuchInstance | .endOfMibView => false
  | _ => true

/-- `OpGet::to_python` -/
def opGetToPython : Pdu → PyOut
  | .getResponse _ _ _ vars =>
    match vars with
    | [] => .value (.scalar .none)
    | [var] =>
      match var.value with
      | .noSuchObject | .noSuchInstance | .endOfMibView => .raise (pyClass .NoSuchInstance)
      | .null => .value (.scalar .none)
      | v => liftErr (valueToPy v) (fun s => .value (.scalar s))
    | _ => .raise (pyClass .InvalidPdu)
  | .report _ => .raise (pyClass .AuthenticationFailed)
  | _ => .raise (pyClass .InvalidPdu)

/-- `PyDict::set_item`: replace the value of an existing key, else append -/
def dictSet (kvs : List (Bytes × PyScalar)) (k : Bytes) (v : PyScalar) : List (Bytes × PyScalar) :=
  if kvs.any (fun kv => kv.1 = k) then kvs.map (fun kv => if kv.1 = k then (k, v) else kv)
  else kvs ++ [(k, v)]

/-- the loop of `OpGetMany::to_python`; a conversion failure inside `set_item` is re-raised
as `RuntimeError` (`map_err(|e| PyRuntimeError::new_err(..))`) -/
def getManyLoop : List VarBind → List (Bytes × PyScalar) → PyOut
  | [], acc => .value (.dict acc)
  | var :: more, acc =>
    if !var.value.isData then getManyLoop more acc
    else match oidToStr var.oid with
      | .ok k => match valueToPy var.value with
        | .ok v => getManyLoop more (dictSet acc k v)
        | .err _ => .raise .RuntimeError
        | .panic w => .panic w
      | .err _ => .raise .RuntimeError
      | .panic w => .panic w

/-- `OpGetMany::to_python` -/
def opGetManyToPython : Pdu → PyOut
  | .getResponse _ _ _ vars => getManyLoop vars []
  | .report _ => .raise (pyClass .AuthenticationFailed)
  | _ => .raise (pyClass .InvalidPdu)

/-- `OpRefresh::to_python` -/
def opRefreshToPython (_ : Pdu) : PyOut := .value (.scalar .none)

/-- `GetIter` -/
structure GetIter where
  startOid : Bytes
  nextOid : Bytes
  maxRepetitions : Int
  deriving Repr, DecidableEq

/-- `GetIter::new` (`ValueError("invalid oid")` on a bad OID) -/
def GetIter.new (oidText : Bytes) (maxRep : Int) : Except PyExc GetIter :=
  match oidFromStr oidText with
  | .ok b => .ok ⟨b, b, maxRep⟩
  | _ => .error .ValueError

/-- `GetIter::set_next_oid` (after the monotonicity repair): accepted iff inside the subtree
and greater than the current position. -/
def GetIter.setNextOid (it : GetIter) (oid : Bytes) : GetIter × Bool :=
  if oidStartsWith it.startOid oid && cmpArcs oid it.nextOid == .gt then
    ({ it with nextOid := oid }, true)
  else (it, false)

def stopAsync : PyOut := .raise .StopAsyncIteration

/-- `OpGetNext::to_python` -/
def opGetNextToPython (pdu : Pdu) (iter : Option GetIter) : PyOut × Option GetIter :=
  match iter with
  | none => (.raise .ValueError, none)
  | some it =>
    match pdu with
    | .getResponse _ _ _ vars =>
      match vars with
      | [] => (stopAsync, some it)
      | [var] =>
        let (it', ok) := it.setNextOid var.oid
        if !ok then (stopAsync, some it')
        else if !var.value.isData then (stopAsync, some it')
        else
          (liftErr (oidToStr var.oid) (fun k =>
            liftErr (valueToPy var.value) (fun v => .value (.pair var.oid k v))), some it')
      | _ => (.raise (pyClass .InvalidPdu), some it)
    | .report _ => (.raise (pyClass .AuthenticationFailed), some it)
    | _ => (.raise (pyClass .InvalidPdu), some it)

/-- the loop of `OpGetBulk::to_python` -/
def getBulkLoop : List VarBind → GetIter → List (Option (Bytes × Bytes × PyScalar)) →
    (Except PyOut (List (Option (Bytes × Bytes × PyScalar)))) × GetIter
  | [], it, acc => (.ok acc, it)
  | var :: more, it, acc =>
    if !var.value.isData then getBulkLoop more it acc
    else
      let (it', ok) := it.setNextOid var.oid
      if !ok then (.ok (acc ++ [none]), it')
      else match oidToStr var.oid with
        | .ok k => match valueToPy var.value with
          | .ok v => getBulkLoop more it' (acc ++ [some (var.oid, k, v)])
          | .err e => (.error (.raise (pyClass e)), it')
          | .panic w => (.error (.panic w), it')
        | .err e => (.error (.raise (pyClass e)), it')
        | .panic w => (.error (.panic w), it')

/-- `OpGetBulk::to_python` -/
def opGetBulkToPython (pdu : Pdu) (iter : Option GetIter) : PyOut × Option GetIter :=
  match iter with
  | none => (.raise .ValueError, none)
  | some it =>
    match pdu with
    | .getResponse _ _ _ vars =>
      if vars.isEmpty then (stopAsync, some it)
      else match getBulkLoop vars it [] with
        | (.ok xs, it') => if xs.isEmpty then (stopAsync, some it') else (.value (.list xs), some it')
        | (.error out, it') => (out, some it')
    | .report _ => (.raise (pyClass .AuthenticationFailed), some it)
    | _ => (.raise (pyClass .InvalidPdu), some it)

end GufoSnmp
