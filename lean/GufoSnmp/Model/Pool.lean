import GufoSnmp.Model.Buffer
/-!
# The buffer pool (`src/buf/pool.rs`)

`BufferPool::acquire` pops a buffer from the free list (or makes a fresh one); dropping the handle
resets the buffer and pushes it back. Several handles can be out at the same time (a send while an
iterator holds one, several sessions in one process).
-/
namespace GufoSnmp

/-- the free list, top of the `Vec` first -/
structure Pool where
  free : List Buf := []
  deriving Repr, DecidableEq

def Pool.acquire (p : Pool) : Buf × Pool :=
  match p.free with
  | b :: rest => (b, ⟨rest⟩)
  | [] => (Buf.empty, p)

/-- `Drop for BufferHandle` -/
def Pool.release (p : Pool) (b : Buf) : Pool := ⟨b.reset :: p.free⟩

/-- what a program does with the pool: take a handle, write through handle `k`, drop handle `k` -/
inductive PoolOp where
  | acquire
  | write (k : Nat) (bytes : Bytes)
  | drop (k : Nat)
  deriving Repr, DecidableEq

/-- pool + the handles taken so far (`none` = already dropped) -/
structure PoolState where
  pool : Pool := {}
  handles : List (Option Buf) := []
  deriving Repr, DecidableEq

/-- one step; the observation is the length of the buffer just acquired, or the outcome of the write -/
def PoolState.step (s : PoolState) : PoolOp → Option (PoolState × String)
  | .acquire =>
    let (b, p) := s.pool.acquire
    some ({ pool := p, handles := s.handles ++ [some b] }, toString b.len)
  | .write k bytes =>
    match s.handles[k]? with
    | some (some b) =>
      match b.push bytes with
      | .ok b' => some ({ s with handles := s.handles.set k (some b') }, "-")
      | .err _ => some (s, "E")
      | .panic _ => none
    | _ => none
  | .drop k =>
    match s.handles[k]? with
    | some (some b) => some ({ pool := s.pool.release b, handles := s.handles.set k none }, "-")
    | _ => none

def PoolState.run (s : PoolState) : List PoolOp → Option (List String)
  | [] => some []
  | op :: more =>
    match s.step op with
    | some (s', r) => (PoolState.run s' more).map (r :: ·)
    | none => none

end GufoSnmp
