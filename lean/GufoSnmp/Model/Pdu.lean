import GufoSnmp.Model.Buffer
/-!
# PDUs and messages: decoders (`TryFrom<&[u8]>`) and encoders (`BerEncoder::push_ber`)

Transcribed from `src/snmp/{get,getbulk,getresponse,pdu,report}.rs` and `src/snmp/msg/**`.
-/
namespace GufoSnmp
open Gen

structure VarBind where
  oid : Bytes
  value : Value
  deriving Repr, DecidableEq

inductive Pdu where
  | getRequest (requestId : Int) (vars : List Bytes)
  | getNextRequest (requestId : Int) (vars : List Bytes)
  | getResponse (requestId errorStatus errorIndex : Int) (vars : List VarBind)
  | getBulkRequest (requestId nonRepeaters maxRepetitions : Int) (vars : List Bytes)
  | report (body : Bytes)
  deriving Repr, DecidableEq

/-! ## decoders -/

/-- `SnmpGet::parse_var` / `SnmpGetBulk::parse_var`. -/
def parseVar (i : Bytes) : Outcome (Bytes × Bytes) := do
  let (vs, rest) ← fromBer sequenceDecoder i
  let (oid, tail) ← fromBer oidDecoder vs
  let _ ← fromBer nullDecoder tail
  pure (oid, rest)

/-- the `while !v_tail.is_empty()` loop of the request decoders. The guard on `rest` is the
progress fact the Rust loop relies on; `no progress` is shown unreachable (Props/C01). -/
def parseVars (vTail : Bytes) : Outcome (List Bytes) :=
  if vTail.isEmpty then .ok [] else
  match parseVar vTail with
  | .ok (oid, rest) =>
    if _h : rest.length < vTail.length then
      match parseVars rest with
      | .ok more => .ok (oid :: more)
      | .err e => .err e
      | .panic w => .panic w
    else .panic "no progress"
  | .err e => .err e
  | .panic w => .panic w
termination_by vTail.length

/-- `SnmpGet::try_from`: returns (request id, names). -/
def getTryFrom (value : Bytes) : Outcome (Int × List Bytes) := do
  let (requestId, tail) ← fromBer intDecoder value
  let (errorStatus, tail) ← fromBer intDecoder tail
  if errorStatus ≠ 0 then .err .InvalidPdu else do
  let (errorIndex, tail) ← fromBer intDecoder tail
  if errorIndex ≠ 0 then .err .InvalidPdu else do
  let (vb, tail) ← fromBer sequenceDecoder tail
  if !tail.isEmpty then .err .TrailingData else do
  let vars ← parseVars vb
  pure (requestId, vars)

/-- `SnmpGetBulk::try_from`. -/
def getBulkTryFrom (value : Bytes) : Outcome (Int × Int × Int × List Bytes) := do
  let (requestId, tail) ← fromBer intDecoder value
  let (nonRepeaters, tail) ← fromBer intDecoder tail
  let (maxRepetitions, tail) ← fromBer intDecoder tail
  let (vb, tail) ← fromBer sequenceDecoder tail
  if !tail.isEmpty then .err .TrailingData else do
  let vars ← parseVars vb
  pure (requestId, nonRepeaters, maxRepetitions, vars)

/-- one iteration of the varbind loop of `SnmpGetResponse::try_from`; `prev` is the OID of
the previously decoded varbind (for RELATIVE-OID names). -/
def parseRespVar (vTail : Bytes) (prev : Option Bytes) : Outcome (VarBind × Bytes) := do
  let (vs, rest) ← fromBer sequenceDecoder vTail
  match vs with
  | [] => .err .Incomplete
  | first :: _ =>
    let (oid, tail) ← (
      if first.toNat = tagObjectId then fromBer oidDecoder vs
      else if first.toNat = tagRelativeOid then
        match prev with
        | none => .err .UnexpectedTag
        | some p => do
          let (rel, t) ← fromBer relOidDecoder vs
          let oid ← tryNormalize rel p
          pure (oid, t)
      else .err .UnexpectedTag)
    let (value, _) ← valueFromBer tail
    pure (⟨oid, value⟩, rest)

def parseRespVars (vTail : Bytes) (prev : Option Bytes) : Outcome (List VarBind) :=
  if vTail.isEmpty then .ok [] else
  match parseRespVar vTail prev with
  | .ok (vb, rest) =>
    if _h : rest.length < vTail.length then
      match parseRespVars rest (some vb.oid) with
      | .ok more => .ok (vb :: more)
      | .err e => .err e
      | .panic w => .panic w
    else .panic "no progress"
  | .err e => .err e
  | .panic w => .panic w
termination_by vTail.length

/-- `SnmpGetResponse::try_from`. -/
def getResponseTryFrom (value : Bytes) : Outcome Pdu := do
  let (requestId, tail) ← fromBer intDecoder value
  let (errorStatus, tail) ← fromBer intDecoder tail
  let (errorIndex, tail) ← fromBer intDecoder tail
  let (vb, tail) ← fromBer sequenceDecoder tail
  if !tail.isEmpty then .err .TrailingData else do
  let vars ← parseRespVars vb none
  pure (.getResponse requestId errorStatus errorIndex vars)

/-- `SnmpPdu::try_from`. -/
def pduTryFrom (value : Bytes) : Outcome Pdu := do
  let ((tag, body), _) ← optionFromBer value
  if tag = pduGetRequest then do
    let (r, vars) ← getTryFrom body; pure (.getRequest r vars)
  else if tag = pduGetNextRequest then do
    let (r, vars) ← getTryFrom body; pure (.getNextRequest r vars)
  else if tag = pduGetResponse then getResponseTryFrom body
  else if tag = pduGetBulkRequest then do
    let (r, n, m, vars) ← getBulkTryFrom body; pure (.getBulkRequest r n m vars)
  else if tag = pduReport then .ok (.report body)
  else .err .UnknownPdu

structure CommunityMsg where
  community : Bytes
  pdu : Pdu
  deriving Repr, DecidableEq

/-- `SnmpV1Message::try_from` / `SnmpV2cMessage::try_from` (`version` = 0 / 1). -/
def communityMsgTryFrom (version : Nat) (i : Bytes) : Outcome CommunityMsg := do
  let (envelope, tail) ← fromBer sequenceDecoder i
  if !tail.isEmpty then .err .TrailingData else do
  let (vc, tail) ← fromBer intDecoder envelope
  if vc ≠ (version : Int) then .err .InvalidVersion else do
  let (community, tail) ← fromBer octetsDecoder tail
  let pdu ← pduTryFrom tail
  pure ⟨community, pdu⟩

def v1TryFrom := communityMsgTryFrom snmpV1
def v2cTryFrom := communityMsgTryFrom snmpV2c

structure Usm where
  engineId : Bytes
  engineBoots : Int
  engineTime : Int
  userName : Bytes
  authParams : Bytes
  privacyParams : Bytes
  deriving Repr, DecidableEq

/-- `UsmParameters::try_from`. -/
def usmTryFrom (i : Bytes) : Outcome Usm := do
  let (envelope, tail) ← fromBer sequenceDecoder i
  if !tail.isEmpty then .err .TrailingData else do
  let (engineId, tail) ← fromBer octetsDecoder envelope
  let (engineBoots, tail) ← fromBer intDecoder tail
  let (engineTime, tail) ← fromBer intDecoder tail
  let (userName, tail) ← fromBer octetsDecoder tail
  let (authParams, tail) ← fromBer octetsDecoder tail
  let (privacyParams, _) ← fromBer octetsDecoder tail
  pure ⟨engineId, engineBoots, engineTime, userName, authParams, privacyParams⟩

structure ScopedPdu where
  engineId : Bytes
  pdu : Pdu
  deriving Repr, DecidableEq

/-- `ScopedPdu::try_from`. -/
def scopedTryFrom (i : Bytes) : Outcome ScopedPdu := do
  let (envelope, _) ← fromBer sequenceDecoder i
  let (engineId, tail) ← fromBer octetsDecoder envelope
  let (_ctxName, tail) ← fromBer octetsDecoder tail
  let pdu ← pduTryFrom tail
  pure ⟨engineId, pdu⟩

inductive MsgData where
  | plaintext (s : ScopedPdu)
  | encrypted (ct : Bytes)
  deriving Repr, DecidableEq

/-- `MsgData::try_from`. -/
def msgDataTryFrom (i : Bytes) : Outcome MsgData :=
  match i with
  | [] => .err .Incomplete
  | first :: _ =>
    if first.toNat = tagOctetString then do
      let (os, _) ← fromBer octetsDecoder i
      pure (.encrypted os)
    else do
      let s ← scopedTryFrom i
      pure (.plaintext s)

structure V3Msg where
  msgId : Int
  flagAuth : Bool
  flagPriv : Bool
  flagReport : Bool
  usm : Usm
  data : MsgData
  deriving Repr, DecidableEq

/-- `SnmpV3Message::try_from`. -/
def v3TryFrom (i : Bytes) : Outcome V3Msg := do
  let (envelope, tail) ← fromBer sequenceDecoder i
  if !tail.isEmpty then .err .TrailingData else do
  let (vc, tail) ← fromBer intDecoder envelope
  if vc ≠ (snmpV3 : Int) then .err .InvalidVersion else do
  let (hdrEnv, spTail) ← fromBer sequenceDecoder tail
  let (msgId, tail) ← fromBer intDecoder hdrEnv
  let (_maxSize, tail) ← fromBer intDecoder tail
  let (flagsData, tail) ← fromBer octetsDecoder tail
  if flagsData.length ≠ 1 then .err .InvalidPdu else do
  let flagsB ← idx flagsData 0
  let flags := flagsB.toNat
  let (securityModel, _) ← fromBer intDecoder tail
  if securityModel ≠ (usmModel : Int) then .err .UnknownSecurityModel else do
  let (securityParameters, tail) ← fromBer octetsDecoder spTail
  let usm ← usmTryFrom securityParameters
  let data ← msgDataTryFrom tail
  pure { msgId, flagAuth := flags % 2 = 1, flagPriv := (flags / 2) % 2 = 1,
         flagReport := (flags / 4) % 2 = 1, usm, data }

/-! ## encoders -/

/-- the varbind list shared by `SnmpGet::push_ber` and `SnmpGetBulk::push_ber`:
`for oid in vars.iter().rev() { null; oid; SEQUENCE }` -/
def pushVarsRev (b : Buf) : List Bytes → Outcome Buf
  | [] => .ok b
  | oid :: more => do
    let start := b.len
    let b ← pushNull b
    let b ← pushOid b oid
    let n ← usub b.len start
    let b ← b.pushTagLen 0x30 n
    pushVarsRev b more

def pushVarList (b : Buf) (vars : List Bytes) : Outcome Buf := do
  let rest := b.len
  let b ← pushVarsRev b vars.reverse
  let n ← usub b.len rest
  b.pushTagLen 0x30 n

/-- `SnmpGet::push_ber`. -/
def pushGet (b : Buf) (requestId : Int) (vars : List Bytes) : Outcome Buf := do
  let b ← pushVarList b vars
  let b ← b.push [2, 1, 0, 2, 1, 0]
  pushInt b requestId

/-- `SnmpGetBulk::push_ber`. -/
def pushGetBulk (b : Buf) (requestId nonRep maxRep : Int) (vars : List Bytes) : Outcome Buf := do
  let b ← pushVarList b vars
  let b ← pushInt b maxRep
  let b ← pushInt b nonRep
  pushInt b requestId

/-- `SnmpPdu::push_ber`. -/
def pushPdu (b : Buf) (pdu : Pdu) : Outcome Buf :=
  let rest := b.len
  match pdu with
  | .getRequest r vars => do
    let b ← pushGet b r vars
    let n ← usub b.len rest
    b.pushTagLen (UInt8.ofNat ctxGet) n
  | .getNextRequest r vars => do
    let b ← pushGet b r vars
    let n ← usub b.len rest
    b.pushTagLen (UInt8.ofNat ctxGetNext) n
  | .getBulkRequest r nr mr vars => do
    let b ← pushGetBulk b r nr mr vars
    let n ← usub b.len rest
    b.pushTagLen (UInt8.ofNat ctxGetBulk) n
  | _ => .err .NotImplemented

/-- `SnmpV1Message::push_ber` / `SnmpV2cMessage::push_ber`. The outer length is `buf.len()`:
the buffer must start empty. -/
def pushCommunityMsg (version : Nat) (b : Buf) (m : CommunityMsg) : Outcome Buf := do
  let b ← pushPdu b m.pdu
  let b ← b.pushTagged (UInt8.ofNat tagOctetString) m.community
  let b ← b.push [UInt8.ofNat tagInt, 1, UInt8.ofNat version]
  b.pushTagLen 0x30 b.len

/-- `OCTET STRING` field written as `EMPTY_BER` when empty, `push_tagged` otherwise. -/
def pushOctetsOrEmpty (b : Buf) (data : Bytes) : Outcome Buf :=
  if data.isEmpty then b.push [UInt8.ofNat tagOctetString, 0]
  else b.pushTagged (UInt8.ofNat tagOctetString) data

/-- `UsmParameters::push_ber`. -/
def pushUsm (b : Buf) (u : Usm) : Outcome Buf := do
  let l0 := b.len
  let b ← pushOctetsOrEmpty b u.privacyParams
  let b ← (if u.authParams.isEmpty then b.push [UInt8.ofNat tagOctetString, 0]
           else do
             let b ← b.pushTagged (UInt8.ofNat tagOctetString) u.authParams
             b.setBookmark 2)
  let b ← b.pushTagged (UInt8.ofNat tagOctetString) u.userName
  let b ← pushInt b u.engineTime
  let b ← pushInt b u.engineBoots
  let b ← pushOctetsOrEmpty b u.engineId
  let n ← usub b.len l0
  b.pushTagLen 0x30 n

/-- `ScopedPdu::push_ber`. -/
def pushScoped (b : Buf) (s : ScopedPdu) : Outcome Buf := do
  let rest := b.len
  let b ← pushPdu b s.pdu
  let b ← b.push [UInt8.ofNat tagOctetString, 0]
  let b ← pushOctetsOrEmpty b s.engineId
  let n ← usub b.len rest
  b.pushTagLen 0x30 n

/-- `MsgData::push_ber`. -/
def pushMsgData (b : Buf) : MsgData → Outcome Buf
  | .plaintext s => pushScoped b s
  | .encrypted ct => b.pushTagged (UInt8.ofNat tagOctetString) ct

/-- `SnmpV3Message::push_ber`. -/
def pushV3 (b : Buf) (m : V3Msg) : Outcome Buf := do
  let b ← pushMsgData b m.data
  let ln := b.len
  let b ← pushUsm b m.usm
  let n ← usub b.len ln
  let b ← b.pushTagLen (UInt8.ofNat tagOctetString) n
  let ln := b.len
  let b ← b.push [UInt8.ofNat tagInt, 1, UInt8.ofNat usmModel]
  let flag := (if m.flagAuth then flagAuth else 0) + (if m.flagPriv then flagPriv else 0)
              + (if m.flagReport then flagReport else 0)
  let b ← b.pushU8 (UInt8.ofNat flag)
  let b ← b.pushTagLen (UInt8.ofNat tagOctetString) 1
  let b ← pushInt b v3MaxSize
  let b ← pushInt b m.msgId
  let n ← usub b.len ln
  let b ← b.pushTagLen 0x30 n
  let b ← b.push [UInt8.ofNat tagInt, 1, UInt8.ofNat snmpV3]
  b.pushTagLen 0x30 b.len

end GufoSnmp
