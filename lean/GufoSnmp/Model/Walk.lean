import GufoSnmp.Model.PyClient
/-!
# Walks: the GetNext / GetBulk iterators driven over a sequence of replies

`replies` are the PDUs accepted for the successive requests (whatever the agent chose to send);
the Python wrappers (`GetNextIter.__next__`, `GetBulkIter.__next__` with its buffer and `None`
stop marker) are folded in.
-/
namespace GufoSnmp.Walk
open GufoSnmp Gen Py

inductive End where
  | stop                 -- StopIteration / StopAsyncIteration
  | raise (e : PyExc)
  | panic
  | noReply              -- the request went out, nothing was accepted (timeout)
  deriving Repr, DecidableEq

structure Res where
  /-- (raw OID octets, dotted text, value) in the order yielded -/
  yields : List Item
  /-- OID named in each request, in order -/
  requests : List Bytes
  ending : End
  deriving Repr, DecidableEq

/-- `for oid, v in session.getnext(base)` -/
def walkNext (it : GetIter) : List Pdu → Res
  | [] => ⟨[], [it.nextOid], .noReply⟩
  | p :: ps =>
    match opGetNextToPython p (some it) with
    | (.value (.pair raw k v), some it') =>
      let r := walkNext it' ps
      ⟨(raw, k, v) :: r.yields, it.nextOid :: r.requests, r.ending⟩
    | (.raise .StopAsyncIteration, _) => ⟨[], [it.nextOid], .stop⟩
    | (.raise e, _) => ⟨[], [it.nextOid], .raise e⟩
    | (.panic _, _) => ⟨[], [it.nextOid], .panic⟩
    | (.value _, _) => ⟨[], [it.nextOid], .raise .Other⟩

/-- items of a GetBulk result list up to the `None` marker; `true` when the marker was seen -/
def drain : List (Option Item) → List Item × Bool
  | [] => ([], false)
  | none :: _ => ([], true)
  | some x :: rest => let (xs, s) := drain rest; (x :: xs, s)

/-- `for oid, v in session.getbulk(base, max_repetitions)` -/
def walkBulk (it : GetIter) : List Pdu → Res
  | [] => ⟨[], [it.nextOid], .noReply⟩
  | p :: ps =>
    match opGetBulkToPython p (some it) with
    | (.value (.list xs), some it') =>
      let (items, stopped) := drain xs
      if stopped then ⟨items, [it.nextOid], .stop⟩
      else
        let r := walkBulk it' ps
        ⟨items ++ r.yields, it.nextOid :: r.requests, r.ending⟩
    | (.raise .StopAsyncIteration, _) => ⟨[], [it.nextOid], .stop⟩
    | (.raise e, _) => ⟨[], [it.nextOid], .raise e⟩
    | (.panic _, _) => ⟨[], [it.nextOid], .panic⟩
    | (.value _, _) => ⟨[], [it.nextOid], .raise .Other⟩

end GufoSnmp.Walk
