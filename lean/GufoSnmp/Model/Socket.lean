import GufoSnmp.Model.Priv
import GufoSnmp.Model.Op
/-!
# Sessions: `push_pdu`, `unwrap_pdu`, the send path and the receive loop (`src/socket/*.rs`)

Everything the environment decides is an explicit input: the random draws (`rawReq`, `rawMsg`,
salt seeds), the pooled buffer handed out by the pool, and the list of datagrams that arrive.
-/
namespace GufoSnmp
open Gen

structure CommunitySession where
  /-- 0 = v1, 1 = v2c -/
  version : Nat
  community : Bytes
  requestId : Int := 0
  deriving Repr, DecidableEq

structure V3Session where
  engineId : Bytes
  engineBoots : Int := 0
  engineTime : Int := 0
  userName : Bytes
  authKey : AuthKey
  privKey : PrivKey
  msgId : Int := 0
  requestId : Int := 0
  deriving Repr, DecidableEq

inductive Session where
  | community (s : CommunitySession)
  | v3 (s : V3Session)
  deriving Repr, DecidableEq

/-- `RequestId::get_next`: `x & 0x7fffffff` of a random `i64` -/
def maskId (raw : Int) : Int := raw % ((maxRequestId : Int) + 1)

/-- `SnmpPdu::check` -/
def Pdu.check (p : Pdu) (requestId : Int) : Bool :=
  match p with
  | .getRequest r _ => r == requestId
  | .getNextRequest r _ => r == requestId
  | .getBulkRequest r _ _ _ => r == requestId
  | .getResponse r _ _ _ => r == requestId
  | .report _ => true

/-! ## v3 constructor and `set_keys` -/

/-- key plumbing shared by `SnmpV3ClientSocket::new` and `set_keys` -/
def v3Keys (D : Digests) (engineId : Bytes) (authAlg : Nat) (authKey : Bytes) (privAlg : Nat)
    (privKey : Bytes) (seed : Nat) : Outcome (AuthKey × PrivKey) := do
  let auth ← AuthKey.new authAlg
  let auth ← asKeyType D auth authAlg authKey engineId
  let pk ← PrivKey.new privAlg
  if pk.hasPriv then do
    let pkAuth ← AuthKey.new authAlg
    let pkAuth ← asKeyType D pkAuth privAlg privKey engineId
    let pk ← pk.asLocalized pkAuth.getKey seed
    pure (auth, pk)
  else pure (auth, pk)

def V3Session.new (D : Digests) (engineId userName : Bytes) (authAlg : Nat) (authKey : Bytes)
    (privAlg : Nat) (privKey : Bytes) (seed : Nat) : Outcome V3Session := do
  let (auth, pk) ← v3Keys D engineId authAlg authKey privAlg privKey seed
  pure { engineId, userName, authKey := auth, privKey := pk }

/-- `set_keys`: the user name is replaced even when the key derivation then fails -/
def V3Session.setKeys (D : Digests) (s : V3Session) (userName : Bytes) (authAlg : Nat)
    (authKey : Bytes) (privAlg : Nat) (privKey : Bytes) (seed : Nat) : V3Session × Outcome Unit :=
  let s := { s with userName }
  match v3Keys D s.engineId authAlg authKey privAlg privKey seed with
  | .ok (auth, pk) => ({ s with authKey := auth, privKey := pk }, .ok ())
  | .err e => (s, .err e)
  | .panic w => (s, .panic w)

/-! ## send path -/

/-- `push_pdu` of the v1 / v2c sockets -/
def pushPduCommunity (s : CommunitySession) (pdu : Pdu) (buf : Buf) : Outcome Buf :=
  pushCommunityMsg s.version buf ⟨s.community, pdu⟩

/-- the tail of the v3 `push_pdu`: serialise, then sign at the bookmark when the session has an
authentication key -/
def finishV3 (D : Digests) (authKey : AuthKey) (msg : V3Msg) (buf : Buf) : Outcome Bytes := do
  let b ← pushV3 buf msg
  let dg ← b.data
  if authKey.hasAuth then do
    let offset ← b.getBookmark
    sign D authKey dg offset
  else pure dg

/-- the message the v3 socket builds around a scoped PDU / ciphertext -/
def v3MsgOf (s : V3Session) (flagReport : Bool) (privacyParams : Bytes) (data : MsgData) : V3Msg :=
  { msgId := s.msgId, flagAuth := s.authKey.hasAuth, flagPriv := s.privKey.hasPriv, flagReport,
    usm := ⟨s.engineId, s.engineBoots, s.engineTime, s.userName, s.authKey.placeholder, privacyParams⟩,
    data }

/-- `push_pdu` of the v3 socket; returns the new state and the finished datagram buffer -/
def pushPduV3 (D : Digests) (C : Ciphers) (s : V3Session) (pdu : Pdu) (rawMsg : Int) (buf : Buf) :
    V3Session × Outcome Bytes :=
  let flagPriv := s.privKey.hasPriv
  let flagReport := match pdu with
    | .getRequest _ vars => vars.isEmpty
    | _ => false
  let scopedPdu : ScopedPdu := ⟨s.engineId, pdu⟩
  let (pk', enc) : PrivKey × Outcome (Bytes × MsgData) :=
    if flagPriv then
      match s.privKey.encrypt C scopedPdu (asU32 s.engineBoots) (asU32 s.engineTime) with
      | (pk', .ok (ct, pp)) => (pk', .ok (pp, .encrypted ct))
      | (pk', .err e) => (pk', .err e)
      | (pk', .panic w) => (pk', .panic w)
    else (s.privKey, .ok ([], .plaintext scopedPdu))
  let s := { s with privKey := pk' }
  match enc with
  | .err e => (s, .err e)
  | .panic w => (s, .panic w)
  | .ok (privacyParams, data) =>
    let s := { s with msgId := maskId rawMsg }
    (s, finishV3 D s.authKey (v3MsgOf s flagReport privacyParams data) buf)

/-- the request an API call turns into (`PyOp::from_python`) -/
inductive Call where
  | get (oidText : Bytes)
  | getMany (oidTexts : List Bytes)
  | getNext (it : GetIter)
  | getBulk (it : GetIter)
  | refresh
  deriving Repr, DecidableEq

def oidsFromStrs : List Bytes → Outcome (List Bytes)
  | [] => .ok []
  | t :: ts => do
    let o ← oidFromStr t
    let more ← oidsFromStrs ts
    pure (o :: more)

def Call.toPdu (c : Call) (requestId : Int) : Outcome Pdu :=
  match c with
  | .get t => do let o ← oidFromStr t; pure (.getRequest requestId [o])
  | .getMany ts => do let os ← oidsFromStrs ts; pure (.getRequest requestId os)
  | .getNext it => .ok (.getNextRequest requestId [it.nextOid])
  | .getBulk it => .ok (.getBulkRequest requestId 0 it.maxRepetitions [it.nextOid])
  | .refresh => .ok (.getRequest requestId [])

/-- `send_request` + `_send_inner`: returns the new session and either the datagram handed to
the kernel or the error raised (nothing is sent then). `buf` is the buffer the pool hands out. -/
def Session.send (D : Digests) (C : Ciphers) (s : Session) (call : Call) (rawReq rawMsg : Int)
    (buf : Buf) : Session × Outcome Bytes :=
  let rid := maskId rawReq
  match s with
  | .community cs =>
    let cs := { cs with requestId := rid }
    (.community cs, do
      let pdu ← call.toPdu rid
      let b ← pushPduCommunity cs pdu buf
      b.data)
  | .v3 vs =>
    let vs := { vs with requestId := rid }
    match call.toPdu rid with
    | .ok pdu =>
      let (vs', out) := pushPduV3 D C vs pdu rawMsg buf
      (.v3 vs', out)
    | .err e => (.v3 vs, .err e)
    | .panic w => (.v3 vs, .panic w)

/-! ## receive path -/

/-- `unwrap_pdu` of the v1 / v2c sockets -/
def unwrapCommunity (s : CommunitySession) (m : CommunityMsg) : Option Pdu :=
  if m.community ≠ s.community then none
  else if !m.pdu.check s.requestId then none
  else some m.pdu

/-- `unwrap_pdu` of the v3 socket. A panic inside `decrypt` would propagate (third component). -/
def unwrapV3 (C : Ciphers) (s : V3Session) (m : V3Msg) : V3Session × Outcome (Option Pdu) :=
  let (s, data) : V3Session × Outcome (Option ScopedPdu) :=
    match m.data with
    | .plaintext x => (s, .ok (some x))
    | .encrypted ct =>
      match s.privKey.decrypt C ct m.usm with
      | .ok (x, pk') => ({ s with privKey := pk' }, .ok (some x))
      | .err _ => (s, .ok none)
      | .panic w => (s, .panic w)
  match data with
  | .panic w => (s, .panic w)
  | .err e => (s, .err e)
  | .ok none => (s, .ok none)
  | .ok (some sp) =>
    if !(s.userName == m.usm.userName
          && (s.engineId.isEmpty || m.usm.engineId == s.engineId)
          && m.msgId == s.msgId
          && sp.pdu.check s.requestId) then (s, .ok none)
    else
      let s := { s with engineBoots := m.usm.engineBoots, engineTime := m.usm.engineTime }
      let s := if s.engineId.isEmpty then { s with engineId := m.usm.engineId } else s
      (s, .ok (some sp.pdu))

/-- which conversion the pending operation applies to an accepted PDU -/
inductive OpKind where
  | get | getMany | getNext | getBulk | refresh
  deriving Repr, DecidableEq

def toPython (op : OpKind) (pdu : Pdu) (it : Option GetIter) : PyOut × Option GetIter :=
  match op with
  | .get => (opGetToPython pdu, it)
  | .getMany => (opGetManyToPython pdu, it)
  | .refresh => (opRefreshToPython pdu, it)
  | .getNext => opGetNextToPython pdu it
  | .getBulk => opGetBulkToPython pdu it

/-- decode + unwrap of one datagram: `none` = skipped -/
def Session.recvOne (C : Ciphers) (s : Session) (dg : Bytes) : Session × Outcome (Option Pdu) :=
  match s with
  | .community cs =>
    match communityMsgTryFrom cs.version dg with
    | .ok m => (s, .ok (unwrapCommunity cs m))
    | .err e => (s, .err e)
    | .panic w => (s, .panic w)
  | .v3 vs =>
    match v3TryFrom dg with
    | .ok m => let (vs', r) := unwrapV3 C vs m; (.v3 vs', r)
    | .err e => (s, .err e)
    | .panic w => (s, .panic w)

/-- `_recv_inner` over the datagrams that arrive (non-blocking socket: an empty queue is
`WouldBlock`). Returns the Python-visible outcome, the new session and iterator, and the
datagrams not consumed. -/
def Session.recvLoop (C : Ciphers) (s : Session) (op : OpKind) (it : Option GetIter) :
    List Bytes → PyOut × Session × Option GetIter × List Bytes
  | [] => (.raise (pyClass .WouldBlock), s, it, [])
  | dg :: rest =>
    match s.recvOne C dg with
    | (s', .ok (some pdu)) => let (out, it') := toPython op pdu it; (out, s', it', rest)
    | (s', .ok none) => Session.recvLoop C s' op it rest
    | (s', .err e) => (.raise (pyClass e), s', it, rest)
    | (s', .panic w) => (.panic w, s', it, rest)

end GufoSnmp
