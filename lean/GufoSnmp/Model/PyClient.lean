import GufoSnmp.Model.Socket
/-!
# The Python client layer (`src/gufo/snmp/sync_client/*.py`, `async_client/client.py`), where it
is logic: exception translation, the GetNext / GetBulk iterator wrappers, `fetch` policy.
The socket call is an input (its Python-visible outcome).
-/
namespace GufoSnmp.Py
open GufoSnmp Gen

/-- `except BlockingIOError as e: raise TimeoutError from e` (sync `get`, `get_many`) -/
def mapTimeout : PyOut → PyOut
  | .raise .BlockingIOError => .raise .TimeoutError
  | r => r

/-- sync `GetNextIter.__next__`: `StopAsyncIteration -> StopIteration`, `BlockingIOError -> TimeoutError` -/
def syncNextMap : PyOut → PyOut
  | .raise .StopAsyncIteration => .raise .StopIteration
  | .raise .BlockingIOError => .raise .TimeoutError
  | r => r

/-- async `GetNextIter.__anext__` keeps `StopAsyncIteration` (async protocol); timeouts come from `wait_for` -/
def asyncNextMap : PyOut → PyOut := id

abbrev Item := Bytes × Bytes × PyScalar

/-- state of `GetBulkIter`: the buffered list (with the `None` stop marker) -/
structure BulkIter where
  buffer : List (Option Item) := []
  deriving Repr, DecidableEq

inductive IterOut where
  | item (x : Item)
  | stop
  | raise (e : PyExc)
  | panic
  deriving Repr, DecidableEq

/-- `pop_or_stop` -/
def popOrStop (b : BulkIter) : IterOut × BulkIter :=
  match b.buffer with
  | [] => (.panic, b)                     -- pop from empty list: IndexError (unreachable: guarded)
  | none :: rest => (.stop, ⟨rest⟩)
  | some x :: rest => (.item x, ⟨rest⟩)

/-- `GetBulkIter.__next__` when the buffer is empty and the socket call returned `r` -/
def bulkRefill (r : PyOut) : IterOut × BulkIter :=
  match r with
  | .value (.list xs) => if xs.isEmpty then (.stop, ⟨[]⟩) else popOrStop ⟨xs⟩
  | .value _ => (.raise .Other, ⟨[]⟩)
  | .raise .BlockingIOError => (.raise .TimeoutError, ⟨[]⟩)
  | .raise .StopAsyncIteration => (.stop, ⟨[]⟩)
  | .raise e => (.raise e, ⟨[]⟩)
  | .panic _ => (.panic, ⟨[]⟩)

/-- `fetch()`: GetBulk only when bulk is allowed; `allow_bulk` is forced off for v1 -/
def allowBulk (isV1 : Bool) (allowBulkArg : Bool) : Bool := if isV1 then false else allowBulkArg

def fetchUsesBulk (isV1 allowBulkArg : Bool) : Bool := allowBulk isV1 allowBulkArg

/-- `getbulk(oid, max_repetitions)`: `max_repetitions or self._max_repetitions` -/
def effectiveMaxRep (arg : Option Int) (dflt : Int) : Int :=
  match arg with
  | some m => if m = 0 then dflt else m
  | none => dflt

end GufoSnmp.Py
