import GufoSnmp.Model.Socket
/-!
# The Python client layer (`src/gufo/snmp/sync_client/*.py`, `async_client/client.py`), where it
is logic: exception translation, the GetNext / GetBulk iterator wrappers, `fetch` policy.
The socket call is an input (its Python-visible outcome).
-/
namespace GufoSnmp.Py
open GufoSnmp Gen

/-- `except BlockingIOError as e: raise TimeoutError from e` (sync `get`, `get_many`) -/
def mapTimeout : PyOut → PyOut
  | .raise .BlockingIOError => .raise .TimeoutError
  | r => r

/-- sync `GetNextIter.__next__`: `StopAsyncIteration -> StopIteration`, `BlockingIOError -> TimeoutError` -/
def syncNextMap : PyOut → PyOut
  | .raise .StopAsyncIteration => .raise .StopIteration
  | .raise .BlockingIOError => .raise .TimeoutError
  | r => r

/-- async `GetNextIter.__anext__` keeps `StopAsyncIteration` (async protocol); timeouts come from `wait_for` -/
def asyncNextMap : PyOut → PyOut := id

abbrev Item := Bytes × Bytes × PyScalar

/-- state of `GetBulkIter`: the buffered list (with the `None` stop marker) -/
structure BulkIter where
  buffer : List (Option Item) := []
  deriving Repr, DecidableEq

inductive IterOut where
  | item (x : Item)
  | stop
  | raise (e : PyExc)
  | panic
  deriving Repr, DecidableEq

/-- `pop_or_stop` -/
def popOrStop (b : BulkIter) : IterOut × BulkIter :=
  match b.buffer with
  | [] => (.panic, b)                     -- pop from empty list: IndexError (unreachable: guarded)
  | none :: rest => (.stop, ⟨rest⟩)
  | some x :: rest => (.item x, ⟨rest⟩)

/-- `GetBulkIter.__next__` when the buffer is empty and the socket call returned `r` -/
def bulkRefill (r : PyOut) : IterOut × BulkIter :=
  match r with
  | .value (.list xs) => if xs.isEmpty then (.stop, ⟨[]⟩) else popOrStop ⟨xs⟩
  | .value _ => (.raise .Other, ⟨[]⟩)
  | .raise .BlockingIOError => (.raise .TimeoutError, ⟨[]⟩)
  | .raise .StopAsyncIteration => (.stop, ⟨[]⟩)
  | .raise e => (.raise e, ⟨[]⟩)
  | .panic _ => (.panic, ⟨[]⟩)

/-- one `next()` on a `GetBulkIter`: serve from the buffer, else call the socket (`script` = the outcomes of the
successive socket calls; running out of script is the driver's problem, reported as `Other`) -/
def bulkNext (b : BulkIter) (script : List PyOut) : IterOut × BulkIter × List PyOut :=
  if !b.buffer.isEmpty then
    let (o, b') := popOrStop b
    (o, b', script)
  else
    match script with
    | [] => (.raise .Other, b, [])
    | r :: rest =>
      let (o, b') := bulkRefill r
      (o, b', rest)

/-- `n` successive `next()` calls -/
def bulkRun : Nat → BulkIter → List PyOut → List IterOut
  | 0, _, _ => []
  | n + 1, b, script =>
    let (o, b', script') := bulkNext b script
    o :: bulkRun n b' script'

/-- `fetch()`: GetBulk only when bulk is allowed; `allow_bulk` is forced off for v1 -/
def allowBulk (isV1 : Bool) (allowBulkArg : Bool) : Bool := if isV1 then false else allowBulkArg

def fetchUsesBulk (isV1 allowBulkArg : Bool) : Bool := allowBulk isV1 allowBulkArg

/-- `getbulk(oid, max_repetitions)`: `max_repetitions or self._max_repetitions` -/
def effectiveMaxRep (arg : Option Int) (dflt : Int) : Int :=
  match arg with
  | some m => if m = 0 then dflt else m
  | none => dflt

/-! ## the async client's receive loop (`SnmpSession._recv`) -/

/-- `_recv(receiver)`: every time the socket becomes readable `receiver()` (a `recv_*` of the non-blocking
socket) is called; `BlockingIOError` (nothing matching in the queue yet) means "wait for the next
wake-up", anything else ends the call; `wait_for` turns the deadline into `TimeoutError`.
`attempts` = the outcomes of the successive `receiver()` calls that happen before the deadline. -/
def asyncRecv : List PyOut → PyOut
  | [] => .raise .TimeoutError
  | .raise .BlockingIOError :: rest => asyncRecv rest
  | r :: _ => r

/-! ## `refresh()` of the sync and async clients (SNMPv3 engine discovery / time synchronisation) -/

/-- the part of `SnmpSession` that `refresh()` reads and writes -/
structure RefreshState where
  isV3 : Bool
  deferred : Bool        -- `_deferred_user is not None`: the real user waits for the engine id
  toRefresh : Bool       -- `_to_refresh`
  requireAuth : Bool     -- `user.require_auth()` of the (deferred or configured) user
  deriving Repr, DecidableEq

inductive Act where
  | probe (answered : Bool)   -- `_sock.refresh()`: an empty reportable GET; `false` = it raised (timeout)
  | setKeys                   -- `_sock.set_keys(deferred user ...)`
  deriving Repr, DecidableEq

/-- `__init__`: `_to_refresh = not engine_id or user.require_auth()`; without an engine id the user is deferred -/
def RefreshState.init (engineIdGiven requireAuth : Bool) : RefreshState :=
  ⟨true, !engineIdGiven, !engineIdGiven || requireAuth, requireAuth⟩

/-- one `refresh()` call; `outcomes` = whether the successive probes get answered. Returns the actions
performed, whether the call raised, the state afterwards and the unused outcomes. -/
def refresh (st : RefreshState) (outcomes : List Bool) : List Act × Bool × RefreshState × List Bool :=
  if !st.isV3 || !st.toRefresh then ([], false, st, outcomes)
  else if st.deferred then
    match outcomes with
    | [] => ([.probe false], true, st, [])
    | false :: rest => ([.probe false], true, st, rest)
    | true :: rest =>
      let st' := { st with toRefresh := st.requireAuth, deferred := false }
      match rest with
      | [] => ([.probe true, .setKeys, .probe false], true, st', [])
      | false :: rest' => ([.probe true, .setKeys, .probe false], true, st', rest')
      | true :: rest' => ([.probe true, .setKeys, .probe true], false, st', rest')
  else
    match outcomes with
    | [] => ([.probe false], true, st, [])
    | false :: rest => ([.probe false], true, st, rest)
    | true :: rest => ([.probe true], false, st, rest)

/-- a history of `refresh()` calls (each consumes outcomes as needed) -/
def refreshes : Nat → RefreshState → List Bool → List (List Act × Bool) × RefreshState
  | 0, st, _ => ([], st)
  | n + 1, st, outcomes =>
    let r := refresh st outcomes
    let more := refreshes n r.2.2.1 r.2.2.2
    ((r.1, r.2.1) :: more.1, more.2)

end GufoSnmp.Py
