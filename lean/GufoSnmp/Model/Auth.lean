import GufoSnmp.Model.Pdu
/-!
# USM authentication (`src/auth/*.rs`, `src/util.rs`) over abstract digest functions

The digest primitives (RustCrypto `md-5`, `sha1`) are parameters: `Digests.md5` and
`Digests.sha1` are arbitrary functions `Bytes → Bytes`; theorems assume only their output
lengths (16 / 20). The driver instantiates them with executable Lean implementations.
-/
namespace GufoSnmp
open Gen

structure Digests where
  md5 : Bytes → Bytes
  sha1 : Bytes → Bytes

/-- output lengths of the digest functions (the only contract the theorems use) -/
structure Digests.WF (D : Digests) : Prop where
  md5_len : ∀ m, (D.md5 m).length = 16
  sha1_len : ∀ m, (D.sha1 m).length = 20

inductive AuthAlg where
  | md5 | sha1
  deriving Repr, DecidableEq

def AuthAlg.keySize : AuthAlg → Nat
  | .md5 => md5KeySize
  | .sha1 => sha1KeySize

def AuthAlg.signSize : AuthAlg → Nat
  | .md5 => md5SignSize
  | .sha1 => sha1SignSize

def Digests.hash (D : Digests) : AuthAlg → Bytes → Bytes
  | .md5 => D.md5
  | .sha1 => D.sha1

/-- `AuthKey`: `NoAuth` or a digest key of `KS` octets -/
inductive AuthKey where
  | noAuth
  | digest (alg : AuthAlg) (key : Bytes)
  deriving Repr, DecidableEq

def AuthKey.hasAuth : AuthKey → Bool
  | .noAuth => false
  | .digest _ _ => true

def AuthKey.getKey : AuthKey → Bytes
  | .noAuth => []
  | .digest _ k => k

def AuthKey.keySize : AuthKey → Nat
  | .noAuth => 0
  | .digest a _ => a.keySize

/-- `placeholder()`: `&ZEROES[..SS]` -/
def AuthKey.placeholder : AuthKey → Bytes
  | .noAuth => []
  | .digest a _ => List.replicate a.signSize 0

/-- `AuthKey::new(code)`: algorithm from the low six bits -/
def AuthKey.new (code : Nat) : Outcome AuthKey :=
  let alg := code % (ktAlgMask + 1)
  if alg = Gen.noAuth then .ok .noAuth
  else if alg = md5Auth then .ok (.digest .md5 (List.replicate md5KeySize 0))
  else if alg = sha1Auth then .ok (.digest .sha1 (List.replicate sha1KeySize 0))
  else .err .InvalidVersion

/-- `out.clone_from_slice(src)`: panics unless the lengths agree -/
def cloneFromSlice (outLen : Nat) (src : Bytes) : Outcome Bytes :=
  if src.length = outLen then .ok src else .panic "source slice length does not match destination"

/-- `password_to_master`: hash the first MEGABYTE octets of the repeated password -/
def passwordToMaster (D : Digests) (alg : AuthAlg) (password : Bytes) (outLen : Nat) : Outcome Bytes :=
  if password.length = 0 then .panic "attempt to divide by zero" else do
  let n := megabyte / password.length
  let rem := megabyte % password.length
  let stream := (List.replicate n password).flatten ++ (if rem > 0 then password.take rem else [])
  let digest := D.hash alg stream
  let d ← sliceTo digest alg.keySize
  cloneFromSlice outLen d

/-- `localize`: `H(key ‖ engine ‖ key)` truncated to the output length -/
def localize (D : Digests) (alg : AuthAlg) (key locality : Bytes) (outLen : Nat) : Outcome Bytes := do
  let digest := D.hash alg (key ++ locality ++ key)
  let d ← sliceTo digest outLen
  cloneFromSlice outLen d

def asLocalized (alg : AuthAlg) (key : Bytes) : Outcome AuthKey := do
  let k ← cloneFromSlice alg.keySize key
  pure (.digest alg k)

def asMaster (D : Digests) (alg : AuthAlg) (key locality : Bytes) : Outcome AuthKey := do
  let out ← localize D alg key locality alg.keySize
  asLocalized alg out

def asPassword (D : Digests) (alg : AuthAlg) (password locality : Bytes) : Outcome AuthKey := do
  let master ← passwordToMaster D alg password alg.keySize
  asMaster D alg master locality

/-- `AuthKey::as_key_type` (after the validation repair) -/
def asKeyType (D : Digests) (k : AuthKey) (algCode : Nat) (key engineId : Bytes) : Outcome AuthKey :=
  match k with
  | .noAuth => .ok .noAuth
  | .digest alg _ =>
    let kt := (algCode % 256) / 64 * 64
    if kt = ktPassword then
      if key.isEmpty then .err .InvalidKey else asPassword D alg key engineId
    else if kt = ktMaster then asMaster D alg key engineId
    else if kt = ktLocalized then
      if key.length ≠ alg.keySize then .err .InvalidKey else asLocalized alg key
    else .err .InvalidKey

def xorByte (a b : UInt8) : UInt8 := a ^^^ b

/-- the value `DigestAuth::sign` computes before truncation -/
def signDigest (D : Digests) (alg : AuthAlg) (key data : Bytes) : Outcome Bytes := do
  let restLen ← usub hmacPaddedLength alg.keySize
  let k1 := key.map (xorByte · (UInt8.ofNat ipadValue))
  let d1 := D.hash alg (k1 ++ List.replicate restLen (UInt8.ofNat ipadValue) ++ data)
  let k2 := key.map (xorByte · (UInt8.ofNat opadValue))
  let d1k ← sliceTo d1 alg.keySize
  pure (D.hash alg (k2 ++ List.replicate restLen (UInt8.ofNat opadValue) ++ d1k))

/-- `sign(data, offset)`: `data[offset..offset+SS].copy_from_slice(&d2[0..SS])` -/
def sign (D : Digests) (k : AuthKey) (data : Bytes) (offset : Nat) : Outcome Bytes :=
  match k with
  | .noAuth => .ok data
  | .digest alg key => do
    let d2 ← signDigest D alg key data
    let mac ← slice d2 0 alg.signSize
    if offset + alg.signSize ≤ data.length then
      pure (data.take offset ++ mac ++ data.drop (offset + alg.signSize))
    else .panic "range end index out of range"

/-- `util::get_master_key` (Python-visible; `none` result = exception class) -/
def getMasterKey (D : Digests) (alg : Nat) (passwd : Bytes) : Except PyExc Bytes :=
  if alg ≥ 256 then .error .Other else
  match AuthKey.new alg with
  | .err e => .error (pyClass e)
  | .panic _ => .error .Other
  | .ok k =>
    if passwd.isEmpty then .error .ValueError
    else match k with
      | .noAuth => .ok []
      | .digest a _ =>
        match passwordToMaster D a passwd a.keySize with
        | .ok b => .ok b
        | _ => .error .Other

/-- `util::get_localized_key` -/
def getLocalizedKey (D : Digests) (alg : Nat) (masterKey engineId : Bytes) : Except PyExc Bytes :=
  if alg ≥ 256 then .error .Other else
  match AuthKey.new alg with
  | .err e => .error (pyClass e)
  | .panic _ => .error .Other
  | .ok k =>
    if masterKey.length ≠ k.keySize then .error .ValueError
    else match k with
      | .noAuth => .ok []
      | .digest a _ =>
        match localize D a masterKey engineId a.keySize with
        | .ok b => .ok b
        | _ => .error .Other

end GufoSnmp
