import GufoSnmp.Gen.Consts
/-!
# `RPSPolicer` (`src/gufo/snmp/policer.py`), transcribed

Python `int` is unbounded, so `Int` is exact. `int(NS / rps)` is float arithmetic and is
taken as the input `delta` of the constructor model (trusted base: one float division).
-/
namespace GufoSnmp.Policer

structure St where
  prev : Option Int
  delta : Int
  deriving Repr, DecidableEq

/-- `RPSPolicer.__init__`: `rpsPositive` is `not (rps <= 0)`, `q` is `int(NS / rps)`;
`none` is `ValueError`. -/
def ctor (rpsPositive : Bool) (q : Int) : Option St :=
  if !rpsPositive then none
  else if q = 0 then none
  else some { prev := none, delta := q }

/-- `RPSPolicer.get_timeout` -/
def getTimeout (s : St) (ts : Int) : St × Option Int :=
  match s.prev with
  | none => ({ s with prev := some ts }, none)
  | some p =>
    let elapsed := ts - p
    if elapsed < 0 then ({ s with prev := some ts }, some s.delta)
    else if elapsed < s.delta then ({ s with prev := some (p + s.delta) }, some (s.delta - elapsed))
    else ({ s with prev := some (p + s.delta * (elapsed / s.delta)) }, none)

/-- `wait()` / `wait_sync()`: sleep exactly the returned delay when it is positive; the
request is released at the end of the sleep. -/
def release (ts : Int) (t : Option Int) : Int :=
  match t with
  | some d => if d > 0 then ts + d else ts
  | none => ts

/-- run a history of call times; returns the release times -/
def run (s : St) : List Int → List Int
  | [] => []
  | ts :: rest => release ts (getTimeout s ts).2 :: run (getTimeout s ts).1 rest

end GufoSnmp.Policer
