import GufoSnmp.Model.Crypto.Md5
import GufoSnmp.Model.Crypto.Sha1
import GufoSnmp.Model.Crypto.Des
import GufoSnmp.Model.Crypto.Aes
/-!
# Known-answer tests for the crypto primitives

`selfTest` is `true` iff every vector below matches.  The `#eval` guard at the end makes
the *build* fail on a mismatch.  Published vectors come from RFC 1321, FIPS 180, FIPS 197
and the classic DES worked example; the "random" ones were produced by the `openssl enc`
CLI (`-des-ecb -provider legacy -provider default` / `-aes-128-ecb`, `-nopad`).
-/
namespace GufoSnmp.Crypto

/-! ## Hex helpers (also used by `CryptoBench.lean`) -/

def hexDigit? (c : Char) : Option UInt8 :=
  if '0' ≤ c ∧ c ≤ '9' then some (c.toNat - '0'.toNat).toUInt8
  else if 'a' ≤ c ∧ c ≤ 'f' then some (c.toNat - 'a'.toNat + 10).toUInt8
  else if 'A' ≤ c ∧ c ≤ 'F' then some (c.toNat - 'A'.toNat + 10).toUInt8
  else none

/-- Decode a hex string; `none` on a non-hex character or an odd number of digits. -/
def unhex? (s : String) : Option (List UInt8) :=
  let rec go : List Char → Array UInt8 → Option (List UInt8)
    | [], acc => some acc.toList
    | [_], _ => none
    | a :: b :: rest, acc => do
      let hi ← hexDigit? a
      let lo ← hexDigit? b
      go rest (acc.push ((hi <<< 4) ||| lo))
  go s.toList (Array.mkEmpty (s.length / 2))

/-- Decode a hex string, `[]` if malformed (only used on literals below). -/
def unhex (s : String) : List UInt8 := (unhex? s).getD []

def hexChar (n : UInt8) : Char :=
  Char.ofNat (if n < 10 then '0'.toNat + n.toNat else 'a'.toNat + (n.toNat - 10))

/-- Lower-case hex encoding. -/
def hex (bs : List UInt8) : String :=
  String.ofList (bs.foldr (fun (b : UInt8) acc => hexChar (b >>> 4) :: hexChar (b &&& 0xf) :: acc) [])

/-! ## Vectors -/

/-- `(message, hex digest)`. -/
def md5Vectors : List (List UInt8 × String) := [
  ("".toUTF8.toList, "d41d8cd98f00b204e9800998ecf8427e"),
  ("a".toUTF8.toList, "0cc175b9c0f1b6a831c399e269772661"),
  ("abc".toUTF8.toList, "900150983cd24fb0d6963f7d28e17f72"),
  ("message digest".toUTF8.toList, "f96b697d7cb7938d525a2f31aaf161d0"),
  ("12345678901234567890123456789012345678901234567890123456789012345678901234567890".toUTF8.toList,
    "57edf4a22be3c955ac49da2e2107b67a")]

/-- `(message, hex digest)`. -/
def sha1Vectors : List (List UInt8 × String) := [
  ("".toUTF8.toList, "da39a3ee5e6b4b0d3255bfef95601890afd80709"),
  ("abc".toUTF8.toList, "a9993e364706816aba3e25717850c26c9cd0d89d"),
  ("abcdbcdecdefdefgefghfghighijhijkijkljklmklmnlmnomnopnopq".toUTF8.toList,
    "84983e441c3bd26ebaae4aa1f95129e5e54670f1")]

/-- `(key, plaintext, ciphertext)` in hex. -/
def desVectors : List (String × String × String) := [
  ("133457799bbcdff1", "0123456789abcdef", "85e813540f0ab405"),
  ("0123456789abcdef", "3031323334353637", "fece28f58618b10a"),
  -- openssl enc -des-ecb
  ("402a797640e1cd67", "b5db6aa1c863cfba", "9b80b296aa420c7b"),
  ("5b4bea38cd37c1ac", "857fc04e4ed1cca3", "c23fd99abd42dcef"),
  ("5ff67f8032ab7db6", "673fccf004851eb8", "7f5a3420b74e4452"),
  ("67dcd4a4110d286b", "7f3367d20966ad05", "5935d7409c9a74d3"),
  ("f699c20cf4a50b91", "408814b5981609c0", "e152379e663cef2b"),
  ("5324f3ff89e9dc46", "6836897740e695eb", "c9abb016d3ded32e"),
  ("f5ea33de31ddcfc1", "29a29295fff9066e", "0904f90c5d341e3f"),
  ("50f1dc06ba8e0ad0", "b065350ad5c2517f", "7f626875e2686144")]

/-- `(key, plaintext, ciphertext)` in hex. -/
def aesVectors : List (String × String × String) := [
  ("000102030405060708090a0b0c0d0e0f", "00112233445566778899aabbccddeeff", "69c4e0d86a7b0430d8cdb78070b4c55a"),
  ("2b7e151628aed2a6abf7158809cf4f3c", "3243f6a8885a308d313198a2e0370734", "3925841d02dc09fbdc118597196a0b32"),
  -- openssl enc -aes-128-ecb
  ("c844c0dd347ba3156986672d9b99019d", "e4886f8855376559c808a0134ab190ec", "1c610ae034f814911b26041ba0e9b81a"),
  ("f9bd2e60d596aeac5b537c5278bc26ca", "71aebad75a6388105d5a5cc84de5ade1", "243805adbf5519d13b1fbbdf2455ea1e"),
  ("2a206defa16d37670855c4e5288cc30b", "0545393efb7188ec4547c10162a37581", "897f0c8074b9b68778b3013d60baaf45"),
  ("5b7d4f479d08d971703462fa70c874de", "f5f40d831ef7a0cb688a7d8b6a68bd19", "7c2813161c4a38abc2554e5fd8f7792c"),
  ("f4b2de33645074be9115dcc53c136e9e", "e4183988ed7380be38cd1b2ae65d4be4", "c18882e06a904a927f40db8592febb6c"),
  ("c3e8d7447f1e73c0c8267559717b25c5", "d971248ea9fe936a801a3d8776e6e646", "8a12ac7d5d8b083042fd1c945e5a79ef"),
  ("56726225c5faa3be1b8e212e715ad0ed", "0991d008b7980bdcf255f864c61c4a0a", "40e1a22a63a4f82c108819d40369ce18"),
  ("595e477eaf4b9ba8434029a5618db392", "553f65886189e143ce9cfd43bb7383b3", "8f557f129c3753ccc3031b8910861782")]

/-! ## Checks -/

def md5Ok : Bool := md5Vectors.all fun (m, d) => hex (md5 m) == d
def sha1Ok : Bool := sha1Vectors.all fun (m, d) => hex (sha1 m) == d

/-- Encryption matches, decryption inverts it, and wrong lengths give `[]`. -/
def desOk : Bool :=
  (desVectors.all fun (k, p, c) =>
    hex (desEncryptBlock (unhex k) (unhex p)) == c && hex (desDecryptBlock (unhex k) (unhex c)) == p)
  && desEncryptBlock (unhex "01234567") (unhex "0123456789abcdef") == []
  && desEncryptBlock (unhex "0123456789abcdef") (unhex "0123456789abcdef00") == []
  && desDecryptBlock (unhex "0123456789abcdef01") (unhex "0123456789abcdef") == []
  && desDecryptBlock (unhex "0123456789abcdef") [] == []

def aesOk : Bool :=
  (aesVectors.all fun (k, p, c) => hex (aesEncryptBlock (unhex k) (unhex p)) == c)
  && Aes.SBOX.size == 256 && Aes.subByte 0x00 == 0x63 && Aes.subByte 0x53 == 0xed
  && aesEncryptBlock (unhex "000102030405060708090a0b0c0d0e") (unhex "00112233445566778899aabbccddeeff") == []
  && aesEncryptBlock (unhex "000102030405060708090a0b0c0d0e0f") (unhex "00112233445566778899aabbccddeeff00") == []

/-- All known-answer tests pass. -/
def selfTest : Bool := md5Ok && sha1Ok && desOk && aesOk

/-! The "one million `a`" vectors are heavy under the interpreter (`#eval`: about 2.5 s
for MD5 and 5 s for SHA-1; natively compiled: about 40 ms each), so they are not part of
`selfTest`. -/

def millionA : List UInt8 := List.replicate 1000000 0x61

/-- MD5 of 1,000,000 × `a` (RFC 1321 test suite extension). -/
def md5MillionA : Bool := hex (md5 millionA) == "7707d6ae4e027c70eea2a935c2296f21"

/-- SHA-1 of 1,000,000 × `a` (FIPS 180 example). -/
def sha1MillionA : Bool := hex (sha1 millionA) == "34aa973cd4c4daa4f61eeb2bdbad27316534016f"

/-- `selfTest` plus the heavy vectors; intended for compiled code. -/
def selfTestFull : Bool := selfTest && md5MillionA && sha1MillionA

end GufoSnmp.Crypto

#eval (GufoSnmp.Crypto.md5Ok, GufoSnmp.Crypto.sha1Ok, GufoSnmp.Crypto.desOk, GufoSnmp.Crypto.aesOk)
#eval GufoSnmp.Crypto.selfTest

-- Build-time guard: elaboration of this file fails if any vector mismatches.
#eval show IO Unit from
  if GufoSnmp.Crypto.selfTest then pure () else throw (IO.userError "crypto self test failed")

-- Heavy vector, kept out of `selfTest`; costs about 2.5 s of build time.
-- (`sha1MillionA` is not evaluated here; `CryptoBench.lean` / `crosscheck.py` cover it.)
#eval show IO Unit from
  if GufoSnmp.Crypto.md5MillionA then pure () else throw (IO.userError "MD5 million-a vector failed")
