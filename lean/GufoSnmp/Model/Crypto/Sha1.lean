/-!
# SHA-1 (FIPS 180-4)

Executable, total implementation over `List UInt8`.  The message is converted to a
`ByteArray` once, padded, and then consumed in 64-octet blocks with `UInt32` arithmetic.
-/
namespace GufoSnmp.Crypto
namespace Sha1

/-- Rotate left by `n` (`0 < n < 32`). -/
@[inline] def rotl (x n : UInt32) : UInt32 := (x <<< n) ||| (x >>> (32 - n))

/-- Total byte read (0 past the end; never happens for the indices used below). -/
@[inline] def byteAt (b : ByteArray) (i : Nat) : UInt8 :=
  if h : i < b.size then b[i] else 0

/-- Big-endian 32-bit word at octet offset `off`. -/
@[inline] def wordBE (b : ByteArray) (off : Nat) : UInt32 :=
  ((byteAt b off).toUInt32 <<< 24)
    ||| ((byteAt b (off + 1)).toUInt32 <<< 16)
    ||| ((byteAt b (off + 2)).toUInt32 <<< 8)
    ||| (byteAt b (off + 3)).toUInt32

/-- Append the big-endian octets of a 32-bit word. -/
@[inline] def pushBE (b : ByteArray) (w : UInt32) : ByteArray :=
  (((b.push (w >>> 24).toUInt8).push (w >>> 16).toUInt8).push (w >>> 8).toUInt8).push w.toUInt8

/-- FIPS 180-4 §5.1.1: `0x80`, zeros up to 56 mod 64, then the bit length as 64-bit BE. -/
def pad (msg : ByteArray) : ByteArray := Id.run do
  let len := msg.size
  let mut b := msg.push 0x80
  for _ in [0:(119 - len % 64) % 64] do
    b := b.push 0
  let bits : UInt64 := (len * 8).toUInt64
  for i in [0:8] do
    b := b.push (bits >>> (8 * (7 - i)).toUInt64).toUInt8
  return b

/-- The chaining state `(a, b, c, d, e)` / `(H0 … H4)`. -/
structure State where
  a : UInt32
  b : UInt32
  c : UInt32
  d : UInt32
  e : UInt32

def init : State := ⟨0x67452301, 0xefcdab89, 0x98badcfe, 0x10325476, 0xc3d2e1f0⟩

/-- The 80-word message schedule of the block starting at `off`. -/
def schedule (data : ByteArray) (off : Nat) : Array UInt32 := Id.run do
  let mut w : Array UInt32 := Array.mkEmpty 80
  for t in [0:16] do
    w := w.push (wordBE data (off + 4 * t))
  for t in [16:80] do
    w := w.push (rotl (w.getD (t - 3) 0 ^^^ w.getD (t - 8) 0 ^^^ w.getD (t - 14) 0 ^^^ w.getD (t - 16) 0) 1)
  return w

/-- One of the 80 steps. -/
@[inline] def step (w : Array UInt32) (t : Nat) (s : State) : State :=
  let f : UInt32 :=
    if t < 20 then (s.b &&& s.c) ||| (~~~s.b &&& s.d)
    else if t < 40 then s.b ^^^ s.c ^^^ s.d
    else if t < 60 then (s.b &&& s.c) ||| (s.b &&& s.d) ||| (s.c &&& s.d)
    else s.b ^^^ s.c ^^^ s.d
  let k : UInt32 :=
    if t < 20 then 0x5a827999
    else if t < 40 then 0x6ed9eba1
    else if t < 60 then 0x8f1bbcdc
    else 0xca62c1d6
  ⟨rotl s.a 5 + f + s.e + k + w.getD t 0, s.a, rotl s.b 30, s.c, s.d⟩

/-- Steps `t, t + 1, …, t + n - 1`.  The state is passed as five scalars so that the
compiled loop keeps it in registers. -/
def steps (w : Array UInt32) : (n t : Nat) → (a b c d e : UInt32) → State
  | 0, _, a, b, c, d, e => ⟨a, b, c, d, e⟩
  | n + 1, t, a, b, c, d, e =>
    let s := step w t ⟨a, b, c, d, e⟩
    steps w n (t + 1) s.a s.b s.c s.d s.e

/-- Compress the 64-octet block starting at `off`. -/
def compress (data : ByteArray) (off : Nat) (h : State) : State :=
  let s := steps (schedule data off) 80 0 h.a h.b h.c h.d h.e
  ⟨h.a + s.a, h.b + s.b, h.c + s.c, h.d + s.d, h.e + s.e⟩

/-- SHA-1 of a `ByteArray`. -/
def hash (msg : ByteArray) : ByteArray := Id.run do
  let data := pad msg
  let mut h := init
  for blk in [0:data.size / 64] do
    h := compress data (64 * blk) h
  return pushBE (pushBE (pushBE (pushBE (pushBE (ByteArray.emptyWithCapacity 20) h.a) h.b) h.c) h.d) h.e

end Sha1

/-- SHA-1 digest (20 octets) of `msg`, FIPS 180-4. -/
def sha1 (msg : List UInt8) : List UInt8 :=
  (Sha1.hash (msg.foldl ByteArray.push (ByteArray.emptyWithCapacity (msg.length + 72)))).toList

end GufoSnmp.Crypto
