/-!
# AES-128 forward cipher (FIPS 197)

The S-box is computed from its definition (inverse in GF(2⁸) followed by the affine map),
the state is a 16-element `Array UInt8` in FIPS column-major order (`s[r + 4c]`).
-/
namespace GufoSnmp.Crypto
namespace Aes

/-- Multiplication by `x` in GF(2⁸) modulo `x⁸ + x⁴ + x³ + x + 1`. -/
@[inline] def xtime (a : UInt8) : UInt8 :=
  (a <<< 1) ^^^ (if a &&& 0x80 != 0 then 0x1b else 0)

/-- Multiplication in GF(2⁸) (shift-and-add over the 8 bits of `b`). -/
def gmul (a b : UInt8) : UInt8 := Id.run do
  let mut acc : UInt8 := 0
  let mut p := a
  for i in [0:8] do
    if (b >>> i.toUInt8) &&& 1 != 0 then acc := acc ^^^ p
    p := xtime p
  return acc

/-- Multiplicative inverse in GF(2⁸) as `a²⁵⁴` (maps 0 to 0). -/
def ginv (a : UInt8) : UInt8 := Id.run do
  -- 254 = 0b11111110: square-and-multiply, most significant bit first.
  let mut r : UInt8 := 1
  for i in [0:8] do
    r := gmul r r
    if i < 7 then r := gmul r a
  return r

@[inline] def rotl8 (b : UInt8) (n : UInt8) : UInt8 := (b <<< n) ||| (b >>> (8 - n))

/-- FIPS 197 §5.1.1 `SubBytes` on one octet, from the definition. -/
def subByteSpec (a : UInt8) : UInt8 :=
  let b := ginv a
  b ^^^ rotl8 b 1 ^^^ rotl8 b 2 ^^^ rotl8 b 3 ^^^ rotl8 b 4 ^^^ 0x63

/-- The S-box as a 256-entry table. -/
def SBOX : Array UInt8 := (Array.range 256).map fun i => subByteSpec i.toUInt8

@[inline] def subByte (a : UInt8) : UInt8 := SBOX.getD a.toNat 0

/-- FIPS 197 §5.2: the 176-octet expanded key (11 round keys) of a 16-octet key. -/
def expandKey (key : Array UInt8) : Array UInt8 := Id.run do
  let mut rk := key
  let mut rcon : UInt8 := 1
  for i in [4:44] do
    let p := 4 * (i - 1)
    let mut t0 := rk.getD p 0
    let mut t1 := rk.getD (p + 1) 0
    let mut t2 := rk.getD (p + 2) 0
    let mut t3 := rk.getD (p + 3) 0
    if i % 4 = 0 then
      (t0, t1, t2, t3) := (subByte t1 ^^^ rcon, subByte t2, subByte t3, subByte t0)
      rcon := xtime rcon
    let q := 4 * (i - 4)
    rk := (((rk.push (rk.getD q 0 ^^^ t0)).push (rk.getD (q + 1) 0 ^^^ t1)).push
      (rk.getD (q + 2) 0 ^^^ t2)).push (rk.getD (q + 3) 0 ^^^ t3)
  return rk

/-- `AddRoundKey` with round key number `round`. -/
def addRoundKey (rk : Array UInt8) (round : Nat) (s : Array UInt8) : Array UInt8 :=
  s.mapIdx fun i b => b ^^^ rk.getD (16 * round + i) 0

def subBytes (s : Array UInt8) : Array UInt8 := s.map subByte

/-- `ShiftRows`: row `r` is rotated left by `r` columns. -/
def shiftRows (s : Array UInt8) : Array UInt8 :=
  (Array.range 16).map fun i =>
    let r := i % 4
    let c := i / 4
    s.getD (r + 4 * ((c + r) % 4)) 0

/-- `MixColumns`: each column is multiplied by `{03}x³ + {01}x² + {01}x + {02}`. -/
def mixColumns (s : Array UInt8) : Array UInt8 := Id.run do
  let mut out : Array UInt8 := Array.mkEmpty 16
  for c in [0:4] do
    let a0 := s.getD (4 * c) 0
    let a1 := s.getD (4 * c + 1) 0
    let a2 := s.getD (4 * c + 2) 0
    let a3 := s.getD (4 * c + 3) 0
    out := out.push (xtime a0 ^^^ (xtime a1 ^^^ a1) ^^^ a2 ^^^ a3)
    out := out.push (a0 ^^^ xtime a1 ^^^ (xtime a2 ^^^ a2) ^^^ a3)
    out := out.push (a0 ^^^ a1 ^^^ xtime a2 ^^^ (xtime a3 ^^^ a3))
    out := out.push ((xtime a0 ^^^ a0) ^^^ a1 ^^^ a2 ^^^ xtime a3)
  return out

/-- FIPS 197 §5.1 `Cipher` for Nr = 10. -/
def cipher (rk : Array UInt8) (block : Array UInt8) : Array UInt8 := Id.run do
  let mut s := addRoundKey rk 0 block
  for round in [1:10] do
    s := addRoundKey rk round (mixColumns (shiftRows (subBytes s)))
  return addRoundKey rk 10 (shiftRows (subBytes s))

end Aes

/-- AES-128-encrypt one 16-octet block under a 16-octet key.
Returns `[]` if either input has the wrong length. -/
def aesEncryptBlock (key : List UInt8) (block : List UInt8) : List UInt8 :=
  if key.length = 16 ∧ block.length = 16 then
    (Aes.cipher (Aes.expandKey key.toArray) block.toArray).toList
  else []

end GufoSnmp.Crypto
