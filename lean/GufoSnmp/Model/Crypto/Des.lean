/-!
# Single DES (FIPS 46-3)

Straightforward table-driven implementation.  Bit strings of width `w ≤ 64` are kept
right-aligned in a `UInt64`; FIPS numbers bits from 1 starting at the most significant
one, so "bit `p` of a `w`-bit string" is `(x >>> (w - p)) &&& 1`.
-/
namespace GufoSnmp.Crypto
namespace Des

/-- Initial permutation. -/
def IP : Array Nat := #[
  58, 50, 42, 34, 26, 18, 10, 2,
  60, 52, 44, 36, 28, 20, 12, 4,
  62, 54, 46, 38, 30, 22, 14, 6,
  64, 56, 48, 40, 32, 24, 16, 8,
  57, 49, 41, 33, 25, 17,  9, 1,
  59, 51, 43, 35, 27, 19, 11, 3,
  61, 53, 45, 37, 29, 21, 13, 5,
  63, 55, 47, 39, 31, 23, 15, 7]

/-- Final permutation `IP⁻¹`. -/
def FP : Array Nat := #[
  40, 8, 48, 16, 56, 24, 64, 32,
  39, 7, 47, 15, 55, 23, 63, 31,
  38, 6, 46, 14, 54, 22, 62, 30,
  37, 5, 45, 13, 53, 21, 61, 29,
  36, 4, 44, 12, 52, 20, 60, 28,
  35, 3, 43, 11, 51, 19, 59, 27,
  34, 2, 42, 10, 50, 18, 58, 26,
  33, 1, 41,  9, 49, 17, 57, 25]

/-- Expansion `E` (32 → 48 bits). -/
def E : Array Nat := #[
  32,  1,  2,  3,  4,  5,
   4,  5,  6,  7,  8,  9,
   8,  9, 10, 11, 12, 13,
  12, 13, 14, 15, 16, 17,
  16, 17, 18, 19, 20, 21,
  20, 21, 22, 23, 24, 25,
  24, 25, 26, 27, 28, 29,
  28, 29, 30, 31, 32,  1]

/-- Permutation `P` (32 → 32 bits). -/
def P : Array Nat := #[
  16,  7, 20, 21, 29, 12, 28, 17,
   1, 15, 23, 26,  5, 18, 31, 10,
   2,  8, 24, 14, 32, 27,  3,  9,
  19, 13, 30,  6, 22, 11,  4, 25]

/-- Permuted choice 1 (64 → 56 bits; drops the parity bits 8, 16, …, 64). -/
def PC1 : Array Nat := #[
  57, 49, 41, 33, 25, 17,  9,
   1, 58, 50, 42, 34, 26, 18,
  10,  2, 59, 51, 43, 35, 27,
  19, 11,  3, 60, 52, 44, 36,
  63, 55, 47, 39, 31, 23, 15,
   7, 62, 54, 46, 38, 30, 22,
  14,  6, 61, 53, 45, 37, 29,
  21, 13,  5, 28, 20, 12,  4]

/-- Permuted choice 2 (56 → 48 bits). -/
def PC2 : Array Nat := #[
  14, 17, 11, 24,  1,  5,
   3, 28, 15,  6, 21, 10,
  23, 19, 12,  4, 26,  8,
  16,  7, 27, 20, 13,  2,
  41, 52, 31, 37, 47, 55,
  30, 40, 51, 45, 33, 48,
  44, 49, 39, 56, 34, 53,
  46, 42, 50, 36, 29, 32]

/-- Left-rotation schedule of the key halves. -/
def shifts : Array Nat := #[1, 1, 2, 2, 2, 2, 2, 2, 1, 2, 2, 2, 2, 2, 2, 1]

/-- The eight S-boxes, each in FIPS layout: 4 rows × 16 columns, index `16 * row + col`. -/
def SBOX : Array (Array UInt64) := #[
  #[14,  4, 13,  1,  2, 15, 11,  8,  3, 10,  6, 12,  5,  9,  0,  7,
     0, 15,  7,  4, 14,  2, 13,  1, 10,  6, 12, 11,  9,  5,  3,  8,
     4,  1, 14,  8, 13,  6,  2, 11, 15, 12,  9,  7,  3, 10,  5,  0,
    15, 12,  8,  2,  4,  9,  1,  7,  5, 11,  3, 14, 10,  0,  6, 13],
  #[15,  1,  8, 14,  6, 11,  3,  4,  9,  7,  2, 13, 12,  0,  5, 10,
     3, 13,  4,  7, 15,  2,  8, 14, 12,  0,  1, 10,  6,  9, 11,  5,
     0, 14,  7, 11, 10,  4, 13,  1,  5,  8, 12,  6,  9,  3,  2, 15,
    13,  8, 10,  1,  3, 15,  4,  2, 11,  6,  7, 12,  0,  5, 14,  9],
  #[10,  0,  9, 14,  6,  3, 15,  5,  1, 13, 12,  7, 11,  4,  2,  8,
    13,  7,  0,  9,  3,  4,  6, 10,  2,  8,  5, 14, 12, 11, 15,  1,
    13,  6,  4,  9,  8, 15,  3,  0, 11,  1,  2, 12,  5, 10, 14,  7,
     1, 10, 13,  0,  6,  9,  8,  7,  4, 15, 14,  3, 11,  5,  2, 12],
  #[ 7, 13, 14,  3,  0,  6,  9, 10,  1,  2,  8,  5, 11, 12,  4, 15,
    13,  8, 11,  5,  6, 15,  0,  3,  4,  7,  2, 12,  1, 10, 14,  9,
    10,  6,  9,  0, 12, 11,  7, 13, 15,  1,  3, 14,  5,  2,  8,  4,
     3, 15,  0,  6, 10,  1, 13,  8,  9,  4,  5, 11, 12,  7,  2, 14],
  #[ 2, 12,  4,  1,  7, 10, 11,  6,  8,  5,  3, 15, 13,  0, 14,  9,
    14, 11,  2, 12,  4,  7, 13,  1,  5,  0, 15, 10,  3,  9,  8,  6,
     4,  2,  1, 11, 10, 13,  7,  8, 15,  9, 12,  5,  6,  3,  0, 14,
    11,  8, 12,  7,  1, 14,  2, 13,  6, 15,  0,  9, 10,  4,  5,  3],
  #[12,  1, 10, 15,  9,  2,  6,  8,  0, 13,  3,  4, 14,  7,  5, 11,
    10, 15,  4,  2,  7, 12,  9,  5,  6,  1, 13, 14,  0, 11,  3,  8,
     9, 14, 15,  5,  2,  8, 12,  3,  7,  0,  4, 10,  1, 13, 11,  6,
     4,  3,  2, 12,  9,  5, 15, 10, 11, 14,  1,  7,  6,  0,  8, 13],
  #[ 4, 11,  2, 14, 15,  0,  8, 13,  3, 12,  9,  7,  5, 10,  6,  1,
    13,  0, 11,  7,  4,  9,  1, 10, 14,  3,  5, 12,  2, 15,  8,  6,
     1,  4, 11, 13, 12,  3,  7, 14, 10, 15,  6,  8,  0,  5,  9,  2,
     6, 11, 13,  8,  1,  4, 10,  7,  9,  5,  0, 15, 14,  2,  3, 12],
  #[13,  2,  8,  4,  6, 15, 11,  1, 10,  9,  3, 14,  5,  0, 12,  7,
     1, 15, 13,  8, 10,  3,  7,  4, 12,  5,  6, 11,  0, 14,  9,  2,
     7, 11,  4,  1,  9, 12, 14,  2,  0,  6, 10, 13, 15,  3,  5,  8,
     2,  1, 14,  7,  4, 10,  8, 13, 15, 12,  9,  0,  3,  5,  6, 11]]

/-- Apply a FIPS-style bit-selection table to the `width`-bit string `x`:
output bit `i` (from the left) is input bit `tbl[i]` (1-based, from the left). -/
def permute (tbl : Array Nat) (width : Nat) (x : UInt64) : UInt64 :=
  tbl.foldl (fun acc p => (acc <<< 1) ||| ((x >>> (width - p).toUInt64) &&& 1)) 0

/-- Rotate a 28-bit half of the key register left by `n` (`n` is 1 or 2). -/
@[inline] def rotl28 (x : UInt64) (n : Nat) : UInt64 :=
  ((x <<< n.toUInt64) ||| (x >>> (28 - n).toUInt64)) &&& 0x0fffffff

/-- The sixteen 48-bit round keys `K1 … K16`. -/
def keySchedule (key : UInt64) : Array UInt64 := Id.run do
  let cd := permute PC1 64 key
  let mut c := cd >>> 28
  let mut d := cd &&& 0x0fffffff
  let mut ks : Array UInt64 := Array.mkEmpty 16
  for n in shifts do
    c := rotl28 c n
    d := rotl28 d n
    ks := ks.push (permute PC2 56 ((c <<< 28) ||| d))
  return ks

/-- S-box number `i` (0-based) applied to the 6-bit value `v = b1 b2 b3 b4 b5 b6`:
row `b1 b6`, column `b2 b3 b4 b5`. -/
@[inline] def sbox (i : Nat) (v : UInt64) : UInt64 :=
  let row := ((v >>> 4) &&& 2) ||| (v &&& 1)
  let col := (v >>> 1) &&& 0xf
  (SBOX.getD i #[]).getD (16 * row + col).toNat 0

/-- The cipher function `f(R, K)`. -/
def feistel (r k : UInt64) : UInt64 := Id.run do
  let x := permute E 32 r ^^^ k
  let mut out : UInt64 := 0
  for i in [0:8] do
    out := (out <<< 4) ||| sbox i ((x >>> (42 - 6 * i).toUInt64) &&& 0x3f)
  return permute P 32 out

/-- The DES data path with the given (ordered) round keys. -/
def crypt (ks : Array UInt64) (block : UInt64) : UInt64 := Id.run do
  let x := permute IP 64 block
  let mut l := x >>> 32
  let mut r := x &&& 0xffffffff
  for k in ks do
    (l, r) := (r, l ^^^ feistel r k)
  return permute FP 64 ((r <<< 32) ||| l)

/-- Big-endian value of an octet list. -/
def ofBytes (bs : List UInt8) : UInt64 :=
  bs.foldl (fun acc b => (acc <<< 8) ||| b.toUInt64) 0

/-- The eight big-endian octets of a 64-bit value. -/
def toBytes (x : UInt64) : List UInt8 :=
  (List.range 8).map fun i => (x >>> (8 * (7 - i)).toUInt64).toUInt8

end Des

/-- DES-encrypt one 8-octet block under an 8-octet key (parity bits ignored).
Returns `[]` if either input has the wrong length. -/
def desEncryptBlock (key : List UInt8) (block : List UInt8) : List UInt8 :=
  if key.length = 8 ∧ block.length = 8 then
    Des.toBytes (Des.crypt (Des.keySchedule (Des.ofBytes key)) (Des.ofBytes block))
  else []

/-- DES-decrypt one 8-octet block under an 8-octet key (parity bits ignored).
Returns `[]` if either input has the wrong length. -/
def desDecryptBlock (key : List UInt8) (block : List UInt8) : List UInt8 :=
  if key.length = 8 ∧ block.length = 8 then
    Des.toBytes (Des.crypt (Des.keySchedule (Des.ofBytes key)).reverse (Des.ofBytes block))
  else []

end GufoSnmp.Crypto
