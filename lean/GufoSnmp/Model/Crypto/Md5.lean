/-!
# MD5 (RFC 1321)

Executable, total implementation over `List UInt8`.  The message is converted to a
`ByteArray` once, padded, and then consumed in 64-octet blocks with `UInt32` arithmetic.
-/
namespace GufoSnmp.Crypto
namespace Md5

/-- `K[i] = floor(2^32 * |sin (i + 1)|)`. -/
def K : Array UInt32 := #[
  0xd76aa478, 0xe8c7b756, 0x242070db, 0xc1bdceee,
  0xf57c0faf, 0x4787c62a, 0xa8304613, 0xfd469501,
  0x698098d8, 0x8b44f7af, 0xffff5bb1, 0x895cd7be,
  0x6b901122, 0xfd987193, 0xa679438e, 0x49b40821,
  0xf61e2562, 0xc040b340, 0x265e5a51, 0xe9b6c7aa,
  0xd62f105d, 0x02441453, 0xd8a1e681, 0xe7d3fbc8,
  0x21e1cde6, 0xc33707d6, 0xf4d50d87, 0x455a14ed,
  0xa9e3e905, 0xfcefa3f8, 0x676f02d9, 0x8d2a4c8a,
  0xfffa3942, 0x8771f681, 0x6d9d6122, 0xfde5380c,
  0xa4beea44, 0x4bdecfa9, 0xf6bb4b60, 0xbebfbc70,
  0x289b7ec6, 0xeaa127fa, 0xd4ef3085, 0x04881d05,
  0xd9d4d039, 0xe6db99e5, 0x1fa27cf8, 0xc4ac5665,
  0xf4292244, 0x432aff97, 0xab9423a7, 0xfc93a039,
  0x655b59c3, 0x8f0ccc92, 0xffeff47d, 0x85845dd1,
  0x6fa87e4f, 0xfe2ce6e0, 0xa3014314, 0x4e0811a1,
  0xf7537e82, 0xbd3af235, 0x2ad7d2bb, 0xeb86d391]

/-- Per-round left-rotation amounts. -/
def S : Array UInt32 := #[
  7, 12, 17, 22, 7, 12, 17, 22, 7, 12, 17, 22, 7, 12, 17, 22,
  5,  9, 14, 20, 5,  9, 14, 20, 5,  9, 14, 20, 5,  9, 14, 20,
  4, 11, 16, 23, 4, 11, 16, 23, 4, 11, 16, 23, 4, 11, 16, 23,
  6, 10, 15, 21, 6, 10, 15, 21, 6, 10, 15, 21, 6, 10, 15, 21]

/-- Rotate left by `n` (`0 < n < 32`). -/
@[inline] def rotl (x n : UInt32) : UInt32 := (x <<< n) ||| (x >>> (32 - n))

/-- Total byte read (0 past the end; never happens for the indices used below). -/
@[inline] def byteAt (b : ByteArray) (i : Nat) : UInt8 :=
  if h : i < b.size then b[i] else 0

/-- Little-endian 32-bit word at octet offset `off`. -/
@[inline] def wordLE (b : ByteArray) (off : Nat) : UInt32 :=
  (byteAt b off).toUInt32
    ||| ((byteAt b (off + 1)).toUInt32 <<< 8)
    ||| ((byteAt b (off + 2)).toUInt32 <<< 16)
    ||| ((byteAt b (off + 3)).toUInt32 <<< 24)

/-- Append the little-endian octets of a 32-bit word. -/
@[inline] def pushLE (b : ByteArray) (w : UInt32) : ByteArray :=
  (((b.push w.toUInt8).push (w >>> 8).toUInt8).push (w >>> 16).toUInt8).push (w >>> 24).toUInt8

/-- RFC 1321 §3.1–3.2: `0x80`, zeros up to 56 mod 64, then the bit length as 64-bit LE. -/
def pad (msg : ByteArray) : ByteArray := Id.run do
  let len := msg.size
  let mut b := msg.push 0x80
  for _ in [0:(119 - len % 64) % 64] do
    b := b.push 0
  let bits : UInt64 := (len * 8).toUInt64
  for i in [0:8] do
    b := b.push (bits >>> (8 * i).toUInt64).toUInt8
  return b

/-- The chaining state `(A, B, C, D)`. -/
structure State where
  a : UInt32
  b : UInt32
  c : UInt32
  d : UInt32

def init : State := ⟨0x67452301, 0xefcdab89, 0x98badcfe, 0x10325476⟩

/-- One of the 64 steps; `m` holds the 16 message words of the current block. -/
@[inline] def step (m : Array UInt32) (i : Nat) (s : State) : State :=
  let f :=
    if i < 16 then (s.b &&& s.c) ||| (~~~s.b &&& s.d)
    else if i < 32 then (s.d &&& s.b) ||| (~~~s.d &&& s.c)
    else if i < 48 then s.b ^^^ s.c ^^^ s.d
    else s.c ^^^ (s.b ||| ~~~s.d)
  let g :=
    if i < 16 then i
    else if i < 32 then (5 * i + 1) % 16
    else if i < 48 then (3 * i + 5) % 16
    else (7 * i) % 16
  let f := f + s.a + K.getD i 0 + m.getD g 0
  ⟨s.d, s.b + rotl f (S.getD i 0), s.b, s.c⟩

/-- Steps `i, i + 1, …, i + n - 1`.  The state is passed as four scalars so that the
compiled loop keeps it in registers. -/
def steps (m : Array UInt32) : (n i : Nat) → (a b c d : UInt32) → State
  | 0, _, a, b, c, d => ⟨a, b, c, d⟩
  | n + 1, i, a, b, c, d =>
    let s := step m i ⟨a, b, c, d⟩
    steps m n (i + 1) s.a s.b s.c s.d

/-- Compress the 64-octet block starting at `off`. -/
def compress (data : ByteArray) (off : Nat) (h : State) : State := Id.run do
  let mut m : Array UInt32 := Array.mkEmpty 16
  for j in [0:16] do
    m := m.push (wordLE data (off + 4 * j))
  let s := steps m 64 0 h.a h.b h.c h.d
  return ⟨h.a + s.a, h.b + s.b, h.c + s.c, h.d + s.d⟩

/-- MD5 of a `ByteArray`. -/
def hash (msg : ByteArray) : ByteArray := Id.run do
  let data := pad msg
  let mut h := init
  for blk in [0:data.size / 64] do
    h := compress data (64 * blk) h
  return pushLE (pushLE (pushLE (pushLE (ByteArray.emptyWithCapacity 16) h.a) h.b) h.c) h.d

end Md5

/-- MD5 digest (16 octets) of `msg`, RFC 1321. -/
def md5 (msg : List UInt8) : List UInt8 :=
  (Md5.hash (msg.foldl ByteArray.push (ByteArray.emptyWithCapacity (msg.length + 72)))).toList

end GufoSnmp.Crypto
