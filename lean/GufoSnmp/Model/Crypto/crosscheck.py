#!/usr/bin/env python3
"""Randomized cross-check of the Lean crypto primitives against hashlib / OpenSSL.

Generates request lines for CryptoBench.lean, runs it once, and compares every answer:

* md5 / sha1          vs hashlib   (every length 0..300 once, random lengths up to 300,
                                    plus a few 1 MiB messages and the 10^6 x 'a' vectors)
* desenc / desdec     vs OpenSSL DES-CBC with a zero IV on a single block (== ECB)
* aesenc              vs OpenSSL AES-128-CFB128 of 16 zero octets with IV = block (== ECB(block))

Usage:
    python3 crosscheck.py [-n 2000] [--big 2] [--seed S] [--bin /path/to/native/cryptobench]

Without --bin the driver is run as `lake env lean --run CryptoBench.lean` in /verif/lean
(IR interpreter; a 1 MiB hash takes a few seconds there).
"""

import argparse
import hashlib
import os
import random
import subprocess
import sys
import time

HERE = os.path.dirname(os.path.abspath(__file__))
LEAN_ROOT = os.path.abspath(os.path.join(HERE, "..", "..", ".."))
sys.path.insert(0, os.path.abspath(os.path.join(LEAN_ROOT, "..", "harness", "py")))
import ossl  # noqa: E402

Z8, Z16 = bytes(8), bytes(16)


def build_cases(n, big, rng):
    """Return a list of (primitive, request line, expected answer)."""
    cases = []
    for name in ("md5", "sha1"):
        lengths = list(range(301)) + [rng.randrange(0, 301) for _ in range(max(0, n - 301))]
        msgs = [rng.randbytes(k) for k in lengths] + [rng.randbytes(1 << 20) for _ in range(big)]
        for m in msgs:
            cases.append((name, "%s %s" % (name, m.hex()), hashlib.new(name, m).hexdigest()))
        cases.append((name, "%srep 1000000 61" % name, hashlib.new(name, b"a" * 1000000).hexdigest()))
        cases.append((name, "%srep 1048576 00" % name, hashlib.new(name, bytes(1 << 20)).hexdigest()))
    for _ in range(n):
        k, b = rng.randbytes(8), rng.randbytes(8)
        cases.append(("desenc", "desenc %s %s" % (k.hex(), b.hex()), ossl.des_cbc_encrypt(k, Z8, b).hex()))
    for _ in range(n):
        k, b = rng.randbytes(8), rng.randbytes(8)
        cases.append(("desdec", "desdec %s %s" % (k.hex(), b.hex()), ossl.des_cbc_decrypt(k, Z8, b).hex()))
    for _ in range(n):
        k, b = rng.randbytes(16), rng.randbytes(16)
        cases.append(("aesenc", "aesenc %s %s" % (k.hex(), b.hex()), ossl.aes128_cfb_encrypt(k, b, Z16).hex()))
    # wrong lengths must be rejected, not mis-computed
    for req in ("desenc 00112233445566 0011223344556677", "desdec 0011223344556677 00112233445566778899",
                "aesenc 000102030405060708090a0b0c0d0e 00112233445566778899aabbccddeeff",
                "aesenc 000102030405060708090a0b0c0d0e0f 00112233445566778899aabbccddeeff00"):
        cases.append((req.split()[0] + "-badlen", req, "error: bad length"))
    return cases


def main():
    ap = argparse.ArgumentParser(description=__doc__, formatter_class=argparse.RawDescriptionHelpFormatter)
    ap.add_argument("-n", type=int, default=2000, help="random inputs per primitive (default 2000)")
    ap.add_argument("--big", type=int, default=2, help="random 1 MiB messages per hash (default 2)")
    ap.add_argument("--seed", type=int, default=20260930)
    ap.add_argument("--bin", help="natively compiled CryptoBench executable (default: lean --run)")
    args = ap.parse_args()

    rng = random.Random(args.seed)
    cases = build_cases(args.n, args.big, rng)
    rng.shuffle(cases)
    stdin = ("\n".join(c[1] for c in cases) + "\n").encode()

    cmd = [args.bin] if args.bin else ["lake", "env", "lean", "--run", "CryptoBench.lean"]
    t0 = time.time()
    p = subprocess.run(cmd, input=stdin, stdout=subprocess.PIPE, stderr=subprocess.PIPE, cwd=LEAN_ROOT)
    dt = time.time() - t0
    if p.returncode != 0:
        sys.stderr.write(p.stderr.decode(errors="replace"))
        sys.exit("driver exited with status %d" % p.returncode)
    answers = p.stdout.decode().splitlines()
    if len(answers) != len(cases):
        sys.exit("expected %d answers, got %d" % (len(cases), len(answers)))

    total, bad = {}, {}
    for (name, req, want), got in zip(cases, answers):
        total[name] = total.get(name, 0) + 1
        if got != want:
            bad[name] = bad.get(name, 0) + 1
            if bad[name] <= 3:
                print("MISMATCH %s: %s\n  want %s\n  got  %s" % (name, req[:100], want, got))
    for name in sorted(total):
        print("%-14s %5d cases, %d mismatches" % (name, total[name], bad.get(name, 0)))
    timing = [l for l in p.stderr.decode(errors="replace").splitlines() if "MiB/s" in l]
    for l in timing:
        print("timing:", l)
    print("driver: %s, %.1f s wall" % (" ".join(cmd), dt))
    print("RESULT:", "FAIL" if bad else "PASS")
    sys.exit(1 if bad else 0)


if __name__ == "__main__":
    main()
