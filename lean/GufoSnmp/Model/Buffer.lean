import GufoSnmp.Model.Ber
/-!
# The back-to-front message buffer (`src/buf/buffer.rs`) and the primitive encoders

`cells` stands for the slice `[pos, MAX_SIZE)`: `pos = cap - cells.length`. A cell is `none`
when it was exposed by `skip` and never written (reading it is undefined behaviour in Rust;
the model turns that into a distinguished panic).
-/
namespace GufoSnmp
open Gen

structure Buf where
  cells : List (Option UInt8) := []
  bookmark : Nat := 0
  deriving Repr, DecidableEq

namespace Buf

def cap : Nat := bufMaxSize
def empty : Buf := {}
@[inline] def len (b : Buf) : Nat := b.cells.length
/-- `free()` is `pos`. -/
@[inline] def pos (b : Buf) : Nat := cap - b.cells.length

/-- `push_u8`. -/
def pushU8 (b : Buf) (v : UInt8) : Outcome Buf :=
  if b.pos = 0 then .err .OutOfBuffer else .ok { b with cells := some v :: b.cells }

/-- `push`. -/
def push (b : Buf) (chunk : Bytes) : Outcome Buf :=
  if b.pos < chunk.length then .err .OutOfBuffer
  else .ok { b with cells := chunk.map some ++ b.cells }

/-- `push_tag_len`: short form, `0x81 v`, or `0x82 hi lo`. -/
def pushTagLen (b : Buf) (tag : UInt8) (v : Nat) : Outcome Buf :=
  if v < 128 then
    if b.pos < 2 then .err .OutOfBuffer
    else .ok { b with cells := some tag :: some (UInt8.ofNat (v % 256)) :: b.cells }
  else if v < 256 then
    if b.pos < 3 then .err .OutOfBuffer
    else .ok { b with cells := some tag :: some 0x81 :: some (UInt8.ofNat (v % 256)) :: b.cells }
  else
    if b.pos < 4 then .err .OutOfBuffer
    else .ok { b with cells := some tag :: some 0x82 :: some (UInt8.ofNat ((v / 256) % 256))
                                 :: some (UInt8.ofNat (v % 256)) :: b.cells }

/-- `push_tagged`. -/
def pushTagged (b : Buf) (tag : UInt8) (data : Bytes) : Outcome Buf := do
  let b ← b.push data
  b.pushTagLen tag data.length

def reset (b : Buf) : Buf := { b with cells := [] }

/-- `skip`: clamps at position 0. -/
def skip (b : Buf) (size : Nat) : Buf :=
  { b with cells := List.replicate (min size b.pos) none ++ b.cells }

/-- `set_bookmark(delta)`: `bookmark = pos + delta` (checked `usize` addition). -/
def setBookmark (b : Buf) (delta : Nat) : Outcome Buf :=
  if b.pos + delta < 2 ^ 64 then .ok { b with bookmark := b.pos + delta }
  else .panic "attempt to add with overflow"

/-- `get_bookmark()`: `bookmark - pos`. -/
def getBookmark (b : Buf) : Outcome Nat := usub b.bookmark b.pos

/-- `data()`; reading a never-written cell is flagged. -/
def data (b : Buf) : Outcome Bytes :=
  if b.cells.all Option.isSome then .ok (b.cells.filterMap id) else .panic "uninit read"

/-- writing `bytes` through `data_mut()[..bytes.length]`. -/
def overwrite (b : Buf) (bytes : Bytes) : Buf :=
  let n := min bytes.length b.cells.length
  { b with cells := (bytes.take n).map some ++ b.cells.drop n }

/-- all cells written -/
def Written (b : Buf) : Prop := ∀ c ∈ b.cells, c.isSome = true

/-- the bytes of a fully written buffer -/
def bytes (b : Buf) : Bytes := b.cells.filterMap id

end Buf

/-! ## primitive encoders -/

/-- positive branch of `SnmpInt::push_ber` (`left` is positive on entry; later iterations
may see 0). -/
def pushIntPos (b : Buf) (left : Nat) : Outcome Buf := do
  let b ← b.pushU8 (UInt8.ofNat (left % 256))
  if h : left < 255 then
    if left % 256 ≥ 128 then b.pushU8 0 else pure b
  else pushIntPos b (left / 256)
termination_by left
decreasing_by omega

/-- negative branch (arithmetic-shift loop, after the repair). -/
def pushIntNeg (b : Buf) (left : Int) : Outcome Buf :=
  if hneg : left ≥ 0 then .panic "pushIntNeg: not negative" else do
  let byte := left % 256
  let b ← b.pushU8 (UInt8.ofNat byte.toNat)
  let left' := left / 256
  if left' = -1 ∧ byte ≥ 128 then pure b
  else pushIntNeg b left'
termination_by left.natAbs
decreasing_by omega

/-- `SnmpInt::push_ber`. -/
def pushInt (b : Buf) (v : Int) : Outcome Buf :=
  if v = 0 then b.push [UInt8.ofNat tagInt, 1, 0]
  else do
    let start := b.len
    let b ← (if v > 0 then pushIntPos b v.toNat else pushIntNeg b v)
    let n ← usub b.len start
    b.pushTagLen (UInt8.ofNat tagInt) n

/-- `SnmpOid::push_ber`. -/
def pushOid (b : Buf) (oid : Bytes) : Outcome Buf := do
  let b ← b.push oid
  b.pushTagLen (UInt8.ofNat tagObjectId) oid.length

/-- `SnmpNull::push_ber`. -/
def pushNull (b : Buf) : Outcome Buf := b.push [5, 0]

end GufoSnmp
