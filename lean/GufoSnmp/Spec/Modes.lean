import GufoSnmp.Model.Basic
/-!
# Independent specification: CBC (RFC 3414 §8.1.1) and CFB-128 (RFC 3826 §3.1.3) over an abstract block cipher
-/
namespace GufoSnmp.Spec

def xorB (a b : Bytes) : Bytes := List.zipWith (fun x y => x ^^^ y) a b

/-- consecutive blocks of `n` octets -/
def blocks (n : Nat) : Nat → Bytes → List Bytes
  | 0, _ => []
  | fuel + 1, bs => if bs = [] ∨ n = 0 then [] else bs.take n :: blocks n fuel (bs.drop n)

/-- CBC: c_i = E(p_i ⊕ c_{i-1}), c_0 = IV -/
def cbcEncrypt (E : Bytes → Bytes) : Bytes → List Bytes → List Bytes
  | _, [] => []
  | prev, p :: ps => let c := E (xorB p prev); c :: cbcEncrypt E c ps

/-- CFB-128: c_i = p_i ⊕ E(c_{i-1}), c_0 = IV -/
def cfbEncrypt (E : Bytes → Bytes) : Bytes → List Bytes → List Bytes
  | _, [] => []
  | prev, p :: ps => let c := xorB p (E prev); c :: cfbEncrypt E c ps

end GufoSnmp.Spec
