import GufoSnmp.Model.Basic
/-!
# Independent specification: X.690 encoding of OBJECT IDENTIFIER contents and canonical text

These definitions do not call any model function.
-/
namespace GufoSnmp.Spec

/-- higher-order base-128 digits (each with the continuation bit set) -/
def b128hi (n : Nat) : Bytes :=
  if h : n = 0 then [] else b128hi (n / 128) ++ [UInt8.ofNat (n % 128 + 128)]
termination_by n
decreasing_by omega

/-- X.690 §8.19.2: a sub-identifier as base-128 digits, most significant first, bit 8 set on
all but the last octet, no leading 0x80 octet -/
def b128 (n : Nat) : Bytes := b128hi (n / 128) ++ [UInt8.ofNat (n % 128)]

/-- X.690 §8.19: content octets of an OID given as arcs (first two arcs merged) -/
def derOid : List Nat → Option Bytes
  | a0 :: a1 :: rest => some (UInt8.ofNat (40 * a0 + a1) :: (rest.map b128).flatten)
  | _ => none

/-- canonical decimal digits of a natural number -/
def digits (n : Nat) : Bytes :=
  if h : n < 10 then [UInt8.ofNat (48 + n)] else digits (n / 10) ++ [UInt8.ofNat (48 + n % 10)]
termination_by n
decreasing_by omega

/-- canonical dotted text of a list of arcs -/
def dotted : List Nat → Bytes
  | [] => []
  | [a] => digits a
  | a :: rest => digits a ++ [46] ++ dotted rest

end GufoSnmp.Spec
