import GufoSnmp.Model.Basic
/-!
# Independent specification: HMAC (RFC 2104) and the USM truncation to 96 bits (RFC 3414 §6, §7)
-/
namespace GufoSnmp.Spec

/-- `HMAC_H(K, m)` for a key not longer than the block size `B` -/
def hmac (H : Bytes → Bytes) (B : Nat) (key msg : Bytes) : Bytes :=
  let k0 := key ++ List.replicate (B - key.length) 0
  H (k0.map (fun x => x ^^^ 0x5c) ++ H (k0.map (fun x => x ^^^ 0x36) ++ msg))

/-- HMAC-MD5-96 / HMAC-SHA-96: the first 12 octets -/
def hmac96 (H : Bytes → Bytes) (key msg : Bytes) : Bytes := (hmac H 64 key msg).take 12

/-- the first `n` octets of the endlessly repeated password -/
def cycleTake (pw : Bytes) (n : Nat) : Bytes :=
  ((List.replicate (n / pw.length + 1) pw).flatten).take n

/-- RFC 3414 A.2.1 / A.2.2 password to key: digest of the first 2^20 octets of the repeated password -/
def passwordToKey (H : Bytes → Bytes) (pw : Bytes) : Bytes := H (cycleTake pw 1048576)

/-- RFC 3414 A.2: key localisation -/
def localizeKey (H : Bytes → Bytes) (ku engineId : Bytes) : Bytes := H (ku ++ engineId ++ ku)

end GufoSnmp.Spec
