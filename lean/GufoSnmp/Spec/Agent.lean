import GufoSnmp.Spec.Der
/-!
# Independent specification: an RFC 3416 agent over a finite MIB, and the subtree of a base OID
-/
namespace GufoSnmp.Spec

abbrev Arcs := List Nat

/-- strict lexicographic order on OIDs (a proper prefix is smaller) -/
def arcsLt : Arcs → Arcs → Bool
  | [], [] => false
  | [], _ :: _ => true
  | _ :: _, [] => false
  | a :: as, b :: bs => if a < b then true else if b < a then false else arcsLt as bs

/-- OIDs the client can name: at least two arcs, first ≤ 2, second ≤ 39, all below 2^32 -/
def ValidOid (o : Arcs) : Prop :=
  ∃ a0 a1 r, o = a0 :: a1 :: r ∧ a0 ≤ 2 ∧ a1 ≤ 39 ∧ ∀ x ∈ r, x < 2 ^ 32

/-- GetNext (RFC 3416 §4.2.2): the first entry of the sorted MIB that is greater than the request -/
def agentNext {V} (mib : List (Arcs × V)) (o : Arcs) : Option (Arcs × V) :=
  mib.find? (fun e => arcsLt o e.1)

/-- the entries lying strictly below `base`, in MIB order -/
def subtree {V} (base : Arcs) (mib : List (Arcs × V)) : List (Arcs × V) :=
  mib.filter (fun e => base.isPrefixOf e.1 && arcsLt base e.1)

/-- strictly sorted MIB -/
def SortedMib {V} (mib : List (Arcs × V)) : Prop := mib.Pairwise (fun x y => arcsLt x.1 y.1 = true)

end GufoSnmp.Spec
