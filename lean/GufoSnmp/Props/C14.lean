import GufoSnmp.Lemmas.PrivSpec
import GufoSnmp.Lemmas.AuthLemmas
import GufoSnmp.Lemmas.IntCodec
/-!
# C14 — privacy salts never repeat and nothing confidential goes in clear

Any sequence of sends (succeeding or failing), interleaved with anything that does not touch the
salt counter (receives, timeouts); up to 2^32 (DES) / 2^64 (AES) messages per key installation.
-/
namespace GufoSnmp.C14
open GufoSnmp Gen Outcome

/-- salt counter of a privacy key state -/
def saltOf : PrivKey → Nat
  | .noPriv => 0
  | .des _ _ s _ => s
  | .aes _ s _ => s

def modulus : PrivKey → Nat
  | .noPriv => 1
  | .des _ _ _ _ => 2 ^ 32
  | .aes _ _ _ => 2 ^ 64

/-- **C14.counter**: every `encrypt` call — successful or not — advances the salt counter by one
(mod 2^32 / 2^64) and changes nothing else of the key -/
theorem counter_step (C : Ciphers) (k : PrivKey) (s : ScopedPdu) (boots time : Nat) :
    saltOf (k.encrypt C s boots time).1 = (saltOf k + 1) % modulus k ∧
    modulus (k.encrypt C s boots time).1 = modulus k := by
  cases k with
  | noPriv => exact ⟨rfl, rfl⟩
  | des key preIv salt buf =>
    simp only [PrivKey.encrypt]
    split <;> exact ⟨rfl, rfl⟩
  | aes key salt buf =>
    simp only [PrivKey.encrypt]
    split <;> exact ⟨rfl, rfl⟩

/-- the salt transmitted with a successful encryption is the counter before the call -/
theorem salt_sent (C : Ciphers) (k : PrivKey) (s : ScopedPdu) (boots time : Nat) (ct pp : Bytes)
    (h : (k.encrypt C s boots time).2 = .ok (ct, pp)) :
    (∀ key preIv salt buf, k = .des key preIv salt buf → pp = beBytes 4 (boots % 2 ^ 32) ++ beBytes 4 salt) ∧
    (∀ key salt buf, k = .aes key salt buf → pp = beBytes 8 salt) := by
  constructor
  · intro key preIv salt buf hk
    subst hk
    simp only [PrivKey.encrypt] at h
    split at h
    · simp only [Outcome.ok.injEq, Prod.mk.injEq] at h; exact h.2.symm
    · cases h
    · cases h
  · intro key salt buf hk
    subst hk
    simp only [PrivKey.encrypt] at h
    split at h
    · simp only [Outcome.ok.injEq, Prod.mk.injEq] at h
      rw [← h.2]
      have : (beBytes 4 (boots % 2 ^ 32) ++ beBytes 4 (time % 2 ^ 32)).length = 8 := by simp [beBytes]
      rw [List.append_assoc] at *
      simp [beBytes]
    · cases h
    · cases h

/-- the counter after `n` encrypt calls -/
def afterN (C : Ciphers) (k : PrivKey) : List (ScopedPdu × Nat × Nat) → PrivKey
  | [] => k
  | (s, b, t) :: rest => afterN C (k.encrypt C s b t).1 rest

theorem afterN_salt (C : Ciphers) : ∀ (calls : List (ScopedPdu × Nat × Nat)) (k : PrivKey),
    saltOf k < modulus k →
    saltOf (afterN C k calls) = (saltOf k + calls.length) % modulus k ∧ modulus (afterN C k calls) = modulus k
  | [], k, hk => by
    simp only [afterN, List.length_nil, Nat.add_zero]
    exact ⟨(Nat.mod_eq_of_lt hk).symm, trivial⟩
  | (s, b, t) :: rest, k, hk => by
    obtain ⟨h1, h2⟩ := counter_step C k s b t
    have hpos : 0 < modulus k := by omega
    obtain ⟨i1, i2⟩ := afterN_salt C rest (k.encrypt C s b t).1 (by rw [h1, h2]; exact Nat.mod_lt _ hpos)
    simp only [afterN, List.length_cons]
    rw [i1, i2, h1, h2]
    refine ⟨?_, rfl⟩
    rw [Nat.add_mod, Nat.mod_mod, ← Nat.add_mod]
    congr 1; omega

/-- keys installed by `as_localized` keep the counter reduced -/
theorem installed_reduced (k : PrivKey) (key : Bytes) (seed : Nat) (k' : PrivKey)
    (h : k.asLocalized key seed = .ok k') : saltOf k' < modulus k' := by
  cases k with
  | noPriv => cases h; decide
  | des a b c d =>
    simp only [PrivKey.asLocalized] at h
    split at h
    · cases h
    · cases h; exact Nat.mod_lt _ (by decide)
  | aes a c d =>
    simp only [PrivKey.asLocalized] at h
    split at h
    · cases h
    · cases h; exact Nat.mod_lt _ (by decide)

/-- **C14.no_repeat**: within one key installation the counters used by the i-th and the j-th
encryption differ whenever fewer than 2^32 (DES) / 2^64 (AES) messages lie between them -/
theorem no_repeat (s0 M i j : Nat) (hM : 0 < M) (hij : i < j) (hj : j - i < M) :
    (s0 + i) % M ≠ (s0 + j) % M := by
  intro h
  have h1 : (s0 + j) = (s0 + i) + (j - i) := by omega
  rw [h1] at h
  have h2 := Nat.add_mod (s0 + i) (j - i) M
  rw [h2] at h
  have hd : (j - i) % M = j - i := Nat.mod_eq_of_lt hj
  rw [hd] at h
  have hlt : (s0 + i) % M < M := Nat.mod_lt _ hM
  by_cases hc : (s0 + i) % M + (j - i) < M
  · rw [Nat.mod_eq_of_lt hc] at h; omega
  · have : ((s0 + i) % M + (j - i)) % M = (s0 + i) % M + (j - i) - M := by
      rw [Nat.mod_eq_sub_mod (by omega), Nat.mod_eq_of_lt (by omega)]
    rw [this] at h; omega

theorem beBytes_length : ∀ (k v : Nat), (beBytes k v).length = k
  | 0, _ => rfl
  | k + 1, v => by simp [beBytes, beBytes_length k]

/-- big-endian fixed-width encodings of different in-range values differ -/
theorem beBytes_inj : ∀ (k a b : Nat), a < 256 ^ k → b < 256 ^ k → beBytes k a = beBytes k b → a = b
  | 0, a, b, ha, hb, _ => by simp at ha hb; omega
  | k + 1, a, b, ha, hb, h => by
    simp only [beBytes] at h
    have hl := beBytes_length k (a / 256)
    have hl' := beBytes_length k (b / 256)
    have := List.append_inj h (by rw [hl, hl'])
    obtain ⟨h1, h2⟩ := this
    rw [Nat.pow_succ] at ha hb
    have ih := beBytes_inj k (a / 256) (b / 256) (by omega) (by omega) h1
    simp only [List.cons.injEq, and_true] at h2
    have h3 := congrArg UInt8.toNat h2
    rw [ofNat_toNat (by omega), ofNat_toNat (by omega)] at h3
    omega

/-- **C14.params_differ**: the transmitted msgPrivacyParameters of two messages of one key
installation (same boots for DES) differ -/
theorem params_differ (s0 i j boots : Nat) (hij : i < j) :
    (j - i < 2 ^ 32 → beBytes 4 (boots % 2 ^ 32) ++ beBytes 4 ((s0 + i) % 2 ^ 32) ≠
        beBytes 4 (boots % 2 ^ 32) ++ beBytes 4 ((s0 + j) % 2 ^ 32)) ∧
    (j - i < 2 ^ 64 → beBytes 8 ((s0 + i) % 2 ^ 64) ≠ beBytes 8 ((s0 + j) % 2 ^ 64)) := by
  constructor
  · intro hj h
    have := List.append_cancel_left h
    have e := beBytes_inj 4 _ _ (by have := Nat.mod_lt (s0 + i) (show 0 < 2 ^ 32 by decide); omega)
      (by have := Nat.mod_lt (s0 + j) (show 0 < 2 ^ 32 by decide); omega) this
    exact no_repeat s0 (2 ^ 32) i j (by decide) hij hj e
  · intro hj h
    have e := beBytes_inj 8 _ _ (by have := Nat.mod_lt (s0 + i) (show 0 < 2 ^ 64 by decide); omega)
      (by have := Nat.mod_lt (s0 + j) (show 0 < 2 ^ 64 by decide); omega) h
    exact no_repeat s0 (2 ^ 64) i j (by decide) hij hj e

/-- msgPrivacyParameters emitted by the `n`-th encrypt call of a key installation (if it succeeded) -/
def ppAt (C : Ciphers) (k : PrivKey) (calls : List (ScopedPdu × Nat × Nat)) (n : Nat) : Option Bytes :=
  match calls[n]? with
  | none => none
  | some (s, b, t) =>
    match ((afterN C k (calls.take n)).encrypt C s b t).2 with
    | .ok (_, pp) => some pp
    | _ => none

/-- **C14.sequence_distinct**: over any sequence of encrypt calls on one key installation (any
requests, any engine boots / time values, failed calls in between), the msgPrivacyParameters of two
different messages differ, as long as fewer than 2^32 (DES) / 2^64 (AES) calls lie between them -/
theorem sequence_distinct (C : Ciphers) (k : PrivKey) (hk : saltOf k < modulus k)
    (calls : List (ScopedPdu × Nat × Nat)) (i j : Nat) (hij : i < j) (hj : j - i < modulus k)
    (pi pj : Bytes) (hi : ppAt C k calls i = some pi) (hjj : ppAt C k calls j = some pj) : pi ≠ pj := by
  unfold ppAt at hi hjj
  cases hci : calls[i]? with
  | none => rw [hci] at hi; cases hi
  | some ci =>
    cases hcj : calls[j]? with
    | none => rw [hcj] at hjj; cases hjj
    | some cj =>
      obtain ⟨si, bi, ti⟩ := ci
      obtain ⟨sj, bj, tj⟩ := cj
      rw [hci] at hi; rw [hcj] at hjj
      simp only at hi hjj
      have hli : i < calls.length := by
        rcases Nat.lt_or_ge i calls.length with h | h
        · exact h
        · rw [List.getElem?_eq_none h] at hci; cases hci
      have hlj : j < calls.length := by
        rcases Nat.lt_or_ge j calls.length with h | h
        · exact h
        · rw [List.getElem?_eq_none h] at hcj; cases hcj
      obtain ⟨a1, a2⟩ := afterN_salt C (calls.take i) k hk
      obtain ⟨b1, b2⟩ := afterN_salt C (calls.take j) k hk
      rw [List.length_take, Nat.min_eq_left (by omega)] at a1 b1
      cases hei : ((afterN C k (calls.take i)).encrypt C si bi ti).2 with
      | ok ri =>
        cases hej : ((afterN C k (calls.take j)).encrypt C sj bj tj).2 with
        | ok rj =>
          obtain ⟨cti, ppi⟩ := ri
          obtain ⟨ctj, ppj⟩ := rj
          rw [hei] at hi; rw [hej] at hjj
          simp only [Option.some.injEq] at hi hjj
          subst hi; subst hjj
          obtain ⟨di, ai⟩ := salt_sent C _ si bi ti cti ppi hei
          obtain ⟨dj, aj⟩ := salt_sent C _ sj bj tj ctj ppj hej
          have hne := no_repeat (saltOf k) (modulus k) i j (by omega) hij hj
          cases hki : afterN C k (calls.take i) with
          | noPriv => rw [hki] at hei; simp [PrivKey.encrypt] at hei
          | des key preIv salt buf =>
            have hm : modulus k = 2 ^ 32 := by rw [← a2, hki]; rfl
            cases hkj : afterN C k (calls.take j) with
            | noPriv => rw [hkj] at hej; simp [PrivKey.encrypt] at hej
            | des key' preIv' salt' buf' =>
              rw [di key preIv salt buf hki, dj key' preIv' salt' buf' hkj]
              rw [hki] at a1; rw [hkj] at b1
              simp only [saltOf] at a1 b1
              intro heq
              have hlen : (beBytes 4 (bi % 2 ^ 32)).length = (beBytes 4 (bj % 2 ^ 32)).length := by
                rw [beBytes_length, beBytes_length]
              have h2 := (List.append_inj heq hlen).2
              have hs1 : salt < 256 ^ 4 := by
                rw [a1, hm]; exact Nat.lt_of_lt_of_le (Nat.mod_lt _ (by decide)) (by decide)
              have hs2 : salt' < 256 ^ 4 := by
                rw [b1, hm]; exact Nat.lt_of_lt_of_le (Nat.mod_lt _ (by decide)) (by decide)
              have := beBytes_inj 4 salt salt' hs1 hs2 h2
              rw [a1, b1] at this
              exact hne this
            | aes key' salt' buf' =>
              have : modulus k = 2 ^ 64 := by rw [← b2, hkj]; rfl
              rw [hm] at this; exact absurd this (by decide)
          | aes key salt buf =>
            have hm : modulus k = 2 ^ 64 := by rw [← a2, hki]; rfl
            cases hkj : afterN C k (calls.take j) with
            | noPriv => rw [hkj] at hej; simp [PrivKey.encrypt] at hej
            | des key' preIv' salt' buf' =>
              have : modulus k = 2 ^ 32 := by rw [← b2, hkj]; rfl
              rw [hm] at this; exact absurd this (by decide)
            | aes key' salt' buf' =>
              rw [ai key salt buf hki, aj key' salt' buf' hkj]
              rw [hki] at a1; rw [hkj] at b1
              simp only [saltOf] at a1 b1
              intro heq
              have hs1 : salt < 256 ^ 8 := by
                rw [a1, hm]; exact Nat.lt_of_lt_of_le (Nat.mod_lt _ (by decide)) (by decide)
              have hs2 : salt' < 256 ^ 8 := by
                rw [b1, hm]; exact Nat.lt_of_lt_of_le (Nat.mod_lt _ (by decide)) (by decide)
              have := beBytes_inj 8 salt salt' hs1 hs2 heq
              rw [a1, b1] at this
              exact hne this
        | err e => rw [hej] at hjj; cases hjj
        | panic w => rw [hej] at hjj; cases hjj
      | err e => rw [hei] at hi; cases hi
      | panic w => rw [hei] at hi; cases hi

/-! ## Session level: receives (and timeouts, which touch nothing) between the sends -/

/-- **C14.decrypt_keeps_salt**: decrypting a reply leaves the salt counter alone -/
theorem decrypt_keeps_salt (C : Ciphers) (k k' : PrivKey) (ct : Bytes) (usm : Usm) (sp : ScopedPdu)
    (h : k.decrypt C ct usm = .ok (sp, k')) : saltOf k' = saltOf k ∧ modulus k' = modulus k := by
  cases k with
  | noPriv => simp [PrivKey.decrypt] at h
  | des key preIv salt buf =>
    simp only [PrivKey.decrypt] at h
    split at h
    · cases h
    · obtain ⟨plain, _, h⟩ := Outcome.bind_eq_ok h
      obtain ⟨x, _, h⟩ := Outcome.bind_eq_ok h
      simp only [Outcome.pure_eq, Outcome.ok.injEq, Prod.mk.injEq] at h
      rw [← h.2]; exact ⟨rfl, rfl⟩
  | aes key salt buf =>
    simp only [PrivKey.decrypt] at h
    split at h
    · cases h
    · split at h
      · cases h
      · obtain ⟨plain, _, h⟩ := Outcome.bind_eq_ok h
        obtain ⟨x, _, h⟩ := Outcome.bind_eq_ok h
        simp only [Outcome.pure_eq, Outcome.ok.injEq, Prod.mk.injEq] at h
        rw [← h.2]; exact ⟨rfl, rfl⟩

/-- receiving any v3 message (accepted, skipped, undecryptable) leaves the counter alone -/
theorem unwrap_keeps_salt (C : Ciphers) (s : V3Session) (m : V3Msg) :
    saltOf (unwrapV3 C s m).1.privKey = saltOf s.privKey ∧
    modulus (unwrapV3 C s m).1.privKey = modulus s.privKey := by
  unfold unwrapV3
  cases hd : m.data with
  | plaintext x =>
    simp only
    split
    · exact ⟨rfl, rfl⟩
    · split <;> exact ⟨rfl, rfl⟩
  | encrypted ct =>
    simp only
    cases hk : s.privKey.decrypt C ct m.usm with
    | ok r =>
      obtain ⟨x, pk'⟩ := r
      have := decrypt_keeps_salt C s.privKey pk' ct m.usm x hk
      simp only
      split
      · exact this
      · split <;> exact this
    | err e => exact ⟨rfl, rfl⟩
    | panic w => exact ⟨rfl, rfl⟩

/-- every request of a session with a privacy key advances the counter by exactly one, whether or
not the request could be serialised -/
theorem push_steps_salt (D : Digests) (C : Ciphers) (s : V3Session) (pdu : Pdu) (rawMsg : Int) (buf : Buf)
    (hp : s.privKey.hasPriv = true) :
    saltOf (pushPduV3 D C s pdu rawMsg buf).1.privKey = (saltOf s.privKey + 1) % modulus s.privKey ∧
    modulus (pushPduV3 D C s pdu rawMsg buf).1.privKey = modulus s.privKey := by
  have hc := counter_step C s.privKey ⟨s.engineId, pdu⟩ (asU32 s.engineBoots) (asU32 s.engineTime)
  unfold pushPduV3
  simp only [hp, if_true]
  cases he : s.privKey.encrypt C ⟨s.engineId, pdu⟩ (asU32 s.engineBoots) (asU32 s.engineTime) with
  | mk pk' r =>
    rw [he] at hc
    cases r with
    | ok v => obtain ⟨ct, pp⟩ := v; exact hc
    | err e => exact hc
    | panic w => exact hc

/-- what happens to a v3 session: it sends a request, or a message arrives -/
inductive SEv where
  | push (pdu : Pdu) (rawMsg : Int) (buf : Buf)
  | recv (m : V3Msg)

def srun (D : Digests) (C : Ciphers) : V3Session → List SEv → V3Session
  | s, [] => s
  | s, .push pdu rawMsg buf :: rest => srun D C (pushPduV3 D C s pdu rawMsg buf).1 rest
  | s, .recv m :: rest => srun D C (unwrapV3 C s m).1 rest

def pushes : List SEv → Nat
  | [] => 0
  | .push _ _ _ :: rest => pushes rest + 1
  | .recv _ :: rest => pushes rest

theorem hasPriv_of_modulus (k k' : PrivKey) (h : modulus k' = modulus k) (hp : k.hasPriv = true) :
    k'.hasPriv = true := by
  cases k <;> cases k' <;> simp_all [modulus, PrivKey.hasPriv]

/-- **C14.session_counter**: in any history of a session — requests, replies accepted or skipped,
undecryptable datagrams, timeouts — the salt counter is the installed value plus the number of
requests sent so far: receiving never rewinds or reuses it -/
theorem session_counter (D : Digests) (C : Ciphers) : ∀ (evs : List SEv) (s : V3Session),
    s.privKey.hasPriv = true → saltOf s.privKey < modulus s.privKey →
    saltOf (srun D C s evs).privKey = (saltOf s.privKey + pushes evs) % modulus s.privKey ∧
    modulus (srun D C s evs).privKey = modulus s.privKey
  | [], s, _, hk => by
    simp only [srun, pushes, Nat.add_zero]
    exact ⟨(Nat.mod_eq_of_lt hk).symm, trivial⟩
  | .push pdu rawMsg buf :: rest, s, hp, hk => by
    obtain ⟨h1, h2⟩ := push_steps_salt D C s pdu rawMsg buf hp
    have hpos : 0 < modulus s.privKey := by omega
    obtain ⟨i1, i2⟩ := session_counter D C rest (pushPduV3 D C s pdu rawMsg buf).1
      (hasPriv_of_modulus _ _ h2 hp) (by rw [h1, h2]; exact Nat.mod_lt _ hpos)
    simp only [srun, pushes]
    rw [i1, i2, h1, h2]
    refine ⟨?_, rfl⟩
    rw [Nat.add_mod, Nat.mod_mod, ← Nat.add_mod]
    congr 1; omega
  | .recv m :: rest, s, hp, hk => by
    obtain ⟨h1, h2⟩ := unwrap_keeps_salt C s m
    obtain ⟨i1, i2⟩ := session_counter D C rest (unwrapV3 C s m).1
      (hasPriv_of_modulus _ _ h2 hp) (by rw [h1, h2]; exact hk)
    simp only [srun, pushes]
    rw [i1, i2, h1, h2]
    exact ⟨rfl, rfl⟩

/-- **C14.session_distinct**: the counters in force at two different requests of one session differ,
whatever was received in between, as long as fewer than 2^32 (DES) / 2^64 (AES) requests separate them -/
theorem session_distinct (D : Digests) (C : Ciphers) (s : V3Session) (h1 h2 : List SEv)
    (hp : s.privKey.hasPriv = true) (hk : saltOf s.privKey < modulus s.privKey)
    (hpos : 0 < pushes h2) (hlt : pushes h2 < modulus s.privKey) :
    saltOf (srun D C s (h1 ++ h2)).privKey ≠ saltOf (srun D C s h1).privKey := by
  have hrun : ∀ (a b : List SEv) (t : V3Session), srun D C t (a ++ b) = srun D C (srun D C t a) b := by
    intro a
    induction a with
    | nil => intro b t; rfl
    | cons e a ih => intro b t; cases e <;> simp only [List.cons_append, srun, ih]
  have hpu : ∀ (a b : List SEv), pushes (a ++ b) = pushes a + pushes b := by
    intro a
    induction a with
    | nil => intro b; simp [pushes]
    | cons e a ih => intro b; cases e <;> simp only [List.cons_append, pushes, ih] <;> omega
  obtain ⟨a1, _⟩ := session_counter D C h1 s hp hk
  obtain ⟨b1, _⟩ := session_counter D C (h1 ++ h2) s hp hk
  rw [a1, b1, hpu]
  intro heq
  exact no_repeat (saltOf s.privKey) (modulus s.privKey) (pushes h1) (pushes h1 + pushes h2) (by omega)
    (by omega) (by omega) (by simpa [Nat.add_assoc] using heq.symm)

/-- **C14.params_length**: msgPrivacyParameters of an encrypted request are always 8 octets -/
theorem params_length (C : Ciphers) (k : PrivKey) (s : ScopedPdu) (boots time : Nat) (ct pp : Bytes)
    (h : (k.encrypt C s boots time).2 = .ok (ct, pp)) : pp.length = 8 := by
  obtain ⟨hd, ha⟩ := salt_sent C k s boots time ct pp h
  cases k with
  | noPriv => simp [PrivKey.encrypt] at h
  | des key preIv salt buf => rw [hd key preIv salt buf rfl]; simp [beBytes_length]
  | aes key salt buf => rw [ha key salt buf rfl]; simp [beBytes_length]

/-- **C14.flags**: a session with a privacy key sets the priv flag and sends msgData as an OCTET
STRING holding the ciphertext -/
theorem flags (s : V3Session) (fr : Bool) (pp ct : Bytes) :
    (v3MsgOf s fr pp (.encrypted ct)).flagPriv = s.privKey.hasPriv ∧
    encMsgData (.encrypted ct) = some (tlvBytes (UInt8.ofNat tagOctetString) ct) := ⟨rfl, rfl⟩

/-- everything of an encrypted message that is not ciphertext: a function of the session, the
reportable bit, the salt and the ciphertext LENGTH only — not of the request -/
def frame (s : V3Session) (fr : Bool) (pp : Bytes) (ctLen : Nat) : V3Msg → Bytes := fun m =>
  v3Prefix m (tagLenBytes (UInt8.ofNat tagOctetString) ctLen)

/-- **C14.frame**: the datagram of an encrypted request is `prefix ‖ MAC-or-placeholder ‖
msgPrivacyParameters ‖ OCTET STRING header ‖ ciphertext`; the request (OIDs, request id, context
engine id) enters only through the ciphertext -/
theorem frame_split (s : V3Session) (fr : Bool) (pp ct : Bytes) :
    let m := v3MsgOf s fr pp (.encrypted ct)
    encV3 m = some (v3Prefix m (tlvBytes (UInt8.ofNat tagOctetString) ct) ++ (m.usm.authParams ++
      (tlvBytes (UInt8.ofNat tagOctetString) pp ++ (tagLenBytes (UInt8.ofNat tagOctetString) ct.length ++ ct)))) := by
  simp only [encV3, encMsgData, v3MsgOf, Option.map_some]
  rw [encV3_split]
  rfl

/-- the prefix depends on the message data only through its length -/
theorem v3Prefix_len_only (m : V3Msg) (d1 d2 : Bytes) (h : d1.length = d2.length) :
    v3Prefix m d1 = v3Prefix m d2 := by
  unfold v3Prefix
  have : (encV3Body m d1).length = (encV3Body m d2).length := by
    simp only [encV3Body, v3Tail, List.length_append, h]
  rw [this]

/-- two requests encrypted under the same session state, salt and ciphertext length produce
datagrams that agree everywhere outside the ciphertext octets -/
theorem frame_request_independent (s : V3Session) (fr : Bool) (pp ct1 ct2 : Bytes) (h : ct1.length = ct2.length) :
    v3Prefix (v3MsgOf s fr pp (.encrypted ct1)) (tlvBytes (UInt8.ofNat tagOctetString) ct1) =
    v3Prefix (v3MsgOf s fr pp (.encrypted ct2)) (tlvBytes (UInt8.ofNat tagOctetString) ct2) := by
  have hl : (tlvBytes (UInt8.ofNat tagOctetString) ct1).length = (tlvBytes (UInt8.ofNat tagOctetString) ct2).length := by
    simp only [tlvBytes, List.length_append, h]
  rw [v3Prefix_len_only _ _ _ hl]
  rfl

end GufoSnmp.C14
