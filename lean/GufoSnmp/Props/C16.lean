import GufoSnmp.Lemmas.Extent
import GufoSnmp.Lemmas.PrivLemmas
/-!
# C16 — decoding an element reads exactly its declared extent

For all byte strings `x`, `s` (no bound): the value decoded from `x ++ s` equals the value
decoded from `x`, the remaining input is the old remainder followed by exactly `s`; a header
whose declared length exceeds what follows it is rejected with `Incomplete`; bytes after the
top-level message or after the varbind list of a PDU are rejected with `TrailingData`.
-/
namespace GufoSnmp.C16
open GufoSnmp Gen Outcome

/-- **C16.extent**: generic `from_ber` of every typed decoder -/
theorem extent {α} (d : Decoder α) (hd : d.Local) (x s : Bytes) (v : α) (rest : Bytes)
    (h : fromBer d x = .ok (v, rest)) : fromBer d (x ++ s) = .ok (v, rest ++ s) :=
  fromBer_append d hd s h

/-- every typed decoder of the library is local (reads only the declared content) -/
theorem all_local :
    intDecoder.Local ∧ boolDecoder.Local ∧ nullDecoder.Local ∧ octetsDecoder.Local ∧ oidDecoder.Local ∧
    objDescDecoder.Local ∧ opaqueDecoder.Local ∧ relOidDecoder.Local ∧ sequenceDecoder.Local ∧
    ipAddressDecoder.Local ∧ realDecoder.Local ∧ counter32Decoder.Local ∧ gauge32Decoder.Local ∧
    timeticksDecoder.Local ∧ uinteger32Decoder.Local ∧ counter64Decoder.Local :=
  ⟨intDecoder_local, boolDecoder_local, nullDecoder_local, octetsDecoder_local, oidDecoder_local,
   objDescDecoder_local, opaqueDecoder_local, relOidDecoder_local, sequenceDecoder_local,
   ipAddressDecoder_local, realDecoder_local, counter32Decoder_local, gauge32Decoder_local,
   timeticksDecoder_local, uinteger32Decoder_local, counter64Decoder_local⟩

/-- **C16.extent_exact**: an element that decodes alone leaves exactly the appended bytes -/
theorem extent_exact {α} (d : Decoder α) (hd : d.Local) (x s : Bytes) (v : α)
    (h : fromBer d x = .ok (v, [])) : fromBer d (x ++ s) = .ok (v, s) := by
  have := fromBer_append d hd s h
  simpa using this

/-- **C16.value_extent**: the varbind value decoder (`SnmpValue::from_ber`), REAL included -/
theorem value_extent (x s : Bytes) (v : Value) (rest : Bytes)
    (h : valueFromBer x = .ok (v, rest)) : valueFromBer (x ++ s) = .ok (v, rest ++ s) :=
  valueFromBer_append s h

/-- **C16.header_extent** -/
theorem header_extent (x s : Bytes) (h : Header) (tail : Bytes)
    (hp : parseHeader x = .ok (h, tail)) : parseHeader (x ++ s) = .ok (h, tail ++ s) :=
  parseHeader_append s hp

/-- **C16.inner_overrun**: the header octets alone determine the header; whenever fewer
octets follow than the header declares — e.g. an inner length tampered to exceed what is left
of the enclosing content — the result is `Incomplete`, never a read past the input. -/
theorem inner_overrun (x : Bytes) (h : Header) (tail : Bytes) (hp : parseHeader x = .ok (h, tail)) :
    ∃ hb, x = hb ++ tail ∧ ∀ t' : Bytes, t'.length < h.length →
      parseHeader (hb ++ t') = .err .Incomplete := by
  obtain ⟨hb, hx, _, hall⟩ := parseHeader_prefix hp
  exact ⟨hb, hx, fun t' ht => by rw [hall t', if_pos ht]⟩

/-- a successful parse never declares more than what is available -/
theorem declared_available (x : Bytes) (h : Header) (tail : Bytes)
    (hp : parseHeader x = .ok (h, tail)) : h.length ≤ tail.length := (parseHeader_ok hp).1

/-- **C16.top_trailing** (v1 / v2c): bytes after the outermost SEQUENCE are rejected -/
theorem top_trailing_community (version : Nat) (x s : Bytes) (m : CommunityMsg) (hs : s ≠ [])
    (h : communityMsgTryFrom version x = .ok m) :
    communityMsgTryFrom version (x ++ s) = .err .TrailingData := by
  unfold communityMsgTryFrom at h ⊢
  obtain ⟨⟨env, tail⟩, h1, h⟩ := bind_eq_ok h
  simp only at h
  split at h
  · cases h
  · rename_i ht
    have ht' : tail = [] := by simpa using ht
    subst ht'
    rw [fromBer_append _ sequenceDecoder_local s h1]
    simp only [bind_ok, List.nil_append]
    rw [if_pos (by cases s with
      | nil => exact absurd rfl hs
      | cons _ _ => rfl)]

/-- **C16.top_trailing** (v3) -/
theorem top_trailing_v3 (x s : Bytes) (m : V3Msg) (hs : s ≠ []) (h : v3TryFrom x = .ok m) :
    v3TryFrom (x ++ s) = .err .TrailingData := by
  unfold v3TryFrom at h ⊢
  obtain ⟨⟨env, tail⟩, h1, h⟩ := bind_eq_ok h
  simp only at h
  split at h
  · cases h
  · rename_i ht
    have ht' : tail = [] := by simpa using ht
    subst ht'
    rw [fromBer_append _ sequenceDecoder_local s h1]
    simp only [bind_ok, List.nil_append]
    rw [if_pos (by cases s with
      | nil => exact absurd rfl hs
      | cons _ _ => rfl)]

/-- **C16.pdu_trailing**: bytes after the varbind list inside a response PDU body -/
theorem pdu_trailing_response (x s : Bytes) (p : Pdu) (hs : s ≠ []) (h : getResponseTryFrom x = .ok p) :
    getResponseTryFrom (x ++ s) = .err .TrailingData := by
  unfold getResponseTryFrom at h ⊢
  obtain ⟨⟨r, t1⟩, h1, h⟩ := bind_eq_ok h
  obtain ⟨⟨es, t2⟩, h2, h⟩ := bind_eq_ok h
  obtain ⟨⟨ei, t3⟩, h3, h⟩ := bind_eq_ok h
  obtain ⟨⟨vb, t4⟩, h4, h⟩ := bind_eq_ok h
  simp only at h
  split at h
  · cases h
  · rename_i ht
    have ht' : t4 = [] := by simpa using ht
    subst ht'
    rw [fromBer_append _ intDecoder_local s h1]; simp only [bind_ok]
    rw [fromBer_append _ intDecoder_local s h2]; simp only [bind_ok]
    rw [fromBer_append _ intDecoder_local s h3]; simp only [bind_ok]
    rw [fromBer_append _ sequenceDecoder_local s h4]; simp only [bind_ok, List.nil_append]
    rw [if_pos (by cases s with
      | nil => exact absurd rfl hs
      | cons _ _ => rfl)]

/-! ## encrypted payloads: the decoder reads the decrypted octets and nothing else -/

/-! ## Extent at the PDU and scoped-PDU layers

These decoders take the first element of their input and do not look at what follows it (their callers
hand them exactly one element's worth of content, or reject the remainder themselves — `top_trailing_*`,
`pdu_trailing_response`). What follows never changes what is decoded. -/

theorem optionFromBer_append (x s : Bytes) (r : (Nat × Bytes) × Bytes)
    (h : optionFromBer x = .ok r) : optionFromBer (x ++ s) = .ok (r.1, r.2 ++ s) := by
  unfold optionFromBer at h ⊢
  split at h
  · cases h
  · rename_i hlen
    rw [if_neg (by simp only [List.length_append]; omega)]
    obtain ⟨⟨hdr, tail⟩, hp, h⟩ := bind_eq_ok h
    obtain ⟨hl, _⟩ := parseHeader_ok hp
    rw [parseHeader_append s hp]
    simp only [bind_ok] at h ⊢
    split at h
    · cases h
    · rename_i hc
      rw [if_neg hc]
      obtain ⟨rest, hr, h⟩ := bind_eq_ok h
      obtain ⟨v, hv, h⟩ := bind_eq_ok h
      cases h
      rw [sliceFrom_ok hl] at hr; cases hr
      rw [sliceFrom_append hl, sliceTo_append hl, hv]
      rfl

/-- **C16.pdu_extent**: a PDU is decoded from its own element only: octets after it change nothing -/
theorem pdu_extent (x s : Bytes) (p : Pdu) (h : pduTryFrom x = .ok p) : pduTryFrom (x ++ s) = .ok p := by
  unfold pduTryFrom at h ⊢
  obtain ⟨⟨⟨tag, body⟩, rest⟩, ho, h⟩ := bind_eq_ok h
  rw [optionFromBer_append x s _ ho]
  simp only [bind_ok] at h ⊢
  exact h

/-- **C16.scoped_extent**: the scoped PDU — also the one obtained by decryption, where zero padding or
anything else may follow the SEQUENCE — is decoded from its own element only -/
theorem scoped_extent (x s : Bytes) (sp : ScopedPdu) (h : scopedTryFrom x = .ok sp) :
    scopedTryFrom (x ++ s) = .ok sp := by
  unfold scopedTryFrom at h ⊢
  obtain ⟨⟨env, rest⟩, he, h⟩ := bind_eq_ok h
  rw [fromBer_append sequenceDecoder sequenceDecoder_local s he]
  simp only [bind_ok] at h ⊢
  exact h

/-- a definite length that claims more than the enclosing element holds is refused at every layer that
opens an element with the generic decoder: the PDU layer -/
theorem pdu_inner_overrun (x : Bytes) (h : Header) (tail : Bytes) (hp : parseHeader x = .ok (h, tail))
    (hx : 3 ≤ x.length) :
    ∃ hb, x = hb ++ tail ∧ ∀ t' : Bytes, t'.length < h.length → 3 ≤ (hb ++ t').length →
      pduTryFrom (hb ++ t') = .err .Incomplete := by
  obtain ⟨hb, hxe, hall⟩ := inner_overrun x h tail hp
  refine ⟨hb, hxe, fun t' ht h3 => ?_⟩
  unfold pduTryFrom optionFromBer
  rw [if_neg (by omega), hall t' ht]
  rfl

/-- **C16.decrypt_extent** (DES): whatever the cipher object's private buffer held before (older
requests, older replies), a successful decrypt parsed exactly the CBC-decrypted octets of this
message: a declared length that runs past them cannot be satisfied from stale buffer contents -/
theorem decrypt_extent_des (C : Ciphers) (hC : C.WF) (key preIv : Bytes) (salt : Nat) (buf : Buf) (data : Bytes)
    (usm : Usm) (s : ScopedPdu) (k' : PrivKey)
    (h : (PrivKey.des key preIv salt buf).decrypt C data usm = .ok (s, k')) :
    scopedTryFrom (cbcDec (C.desDec key)
      ((xorBytes (usm.privacyParams.take 8) preIv ++ List.replicate 8 0).take 8) data) = .ok s := by
  unfold PrivKey.decrypt at h
  simp only at h
  split at h
  · cases h
  · rename_i hcond
    simp only [Bool.or_eq_true, decide_eq_true_eq, not_or, Nat.not_lt, ne_eq, Decidable.not_not] at hcond
    obtain ⟨hm, hlen⟩ := hcond
    have hsk : ((buf.reset).skip data.length).cells.length = data.length := by
      have : ((buf.reset).skip data.length).len ≤ data.length := by
        simp [Buf.len, Buf.skip, Buf.reset, Buf.pos]; omega
      simp only [Buf.len] at hlen this; omega
    have hiv : ((xorBytes (usm.privacyParams.take 8) preIv ++ List.replicate 8 0).take 8).length = 8 := by
      simp [List.length_take]
    have hpt := cbcDec_length C hC key _ data hiv hm
    rw [overwrite_data _ _ (by rw [hpt, hsk])] at h
    simp only [bind_ok] at h
    obtain ⟨s', hs, h2⟩ := bind_eq_ok h
    cases h2
    exact hs

/-- the same for AES-128-CFB -/
theorem decrypt_extent_aes (C : Ciphers) (hC : C.WF) (key : Bytes) (salt : Nat) (buf : Buf) (data : Bytes)
    (usm : Usm) (s : ScopedPdu) (k' : PrivKey)
    (h : (PrivKey.aes key salt buf).decrypt C data usm = .ok (s, k')) :
    scopedTryFrom (cfbDec (C.aesEnc key)
      (beBytes 4 (asU32 usm.engineBoots) ++ beBytes 4 (asU32 usm.engineTime) ++ usm.privacyParams) data) = .ok s := by
  unfold PrivKey.decrypt at h
  simp only at h
  split at h
  · cases h
  · split at h
    · cases h
    · rename_i hlen
      simp only [ne_eq, Decidable.not_not] at hlen
      have hpt := cfbDec_length C hC key
        (beBytes 4 (asU32 usm.engineBoots) ++ beBytes 4 (asU32 usm.engineTime) ++ usm.privacyParams) data
      rw [overwrite_data _ _ (by rw [hpt]; simp only [Buf.len] at hlen; exact hlen.symm)] at h
      simp only [bind_ok] at h
      obtain ⟨s', hs, h2⟩ := bind_eq_ok h
      cases h2
      exact hs

/-- and the outcome does not depend on the private buffer's earlier contents at all: the whole decrypt
step (result and new key state) is the same whatever cells the buffer held -/
theorem decrypt_history_free (C : Ciphers) (key preIv : Bytes) (salt : Nat) (c1 c2 : List (Option UInt8)) (bm : Nat)
    (data : Bytes) (usm : Usm) :
    (PrivKey.des key preIv salt ⟨c1, bm⟩).decrypt C data usm = (PrivKey.des key preIv salt ⟨c2, bm⟩).decrypt C data usm ∧
    (PrivKey.aes key salt ⟨c1, bm⟩).decrypt C data usm = (PrivKey.aes key salt ⟨c2, bm⟩).decrypt C data usm := by
  constructor <;> rfl

end GufoSnmp.C16
