import GufoSnmp.Lemmas.Extent
/-!
# C16 — decoding an element reads exactly its declared extent

For all byte strings `x`, `s` (no bound): the value decoded from `x ++ s` equals the value
decoded from `x`, the remaining input is the old remainder followed by exactly `s`; a header
whose declared length exceeds what follows it is rejected with `Incomplete`; bytes after the
top-level message or after the varbind list of a PDU are rejected with `TrailingData`.
-/
namespace GufoSnmp.C16
open GufoSnmp Gen Outcome

/-- **C16.extent**: generic `from_ber` of every typed decoder -/
theorem extent {α} (d : Decoder α) (hd : d.Local) (x s : Bytes) (v : α) (rest : Bytes)
    (h : fromBer d x = .ok (v, rest)) : fromBer d (x ++ s) = .ok (v, rest ++ s) :=
  fromBer_append d hd s h

/-- every typed decoder of the library is local (reads only the declared content) -/
theorem all_local :
    intDecoder.Local ∧ boolDecoder.Local ∧ nullDecoder.Local ∧ octetsDecoder.Local ∧ oidDecoder.Local ∧
    objDescDecoder.Local ∧ opaqueDecoder.Local ∧ relOidDecoder.Local ∧ sequenceDecoder.Local ∧
    ipAddressDecoder.Local ∧ realDecoder.Local ∧ counter32Decoder.Local ∧ gauge32Decoder.Local ∧
    timeticksDecoder.Local ∧ uinteger32Decoder.Local ∧ counter64Decoder.Local :=
  ⟨intDecoder_local, boolDecoder_local, nullDecoder_local, octetsDecoder_local, oidDecoder_local,
   objDescDecoder_local, opaqueDecoder_local, relOidDecoder_local, sequenceDecoder_local,
   ipAddressDecoder_local, realDecoder_local, counter32Decoder_local, gauge32Decoder_local,
   timeticksDecoder_local, uinteger32Decoder_local, counter64Decoder_local⟩

/-- **C16.extent_exact**: an element that decodes alone leaves exactly the appended bytes -/
theorem extent_exact {α} (d : Decoder α) (hd : d.Local) (x s : Bytes) (v : α)
    (h : fromBer d x = .ok (v, [])) : fromBer d (x ++ s) = .ok (v, s) := by
  have := fromBer_append d hd s h
  simpa using this

/-- **C16.value_extent**: the varbind value decoder (`SnmpValue::from_ber`), REAL included -/
theorem value_extent (x s : Bytes) (v : Value) (rest : Bytes)
    (h : valueFromBer x = .ok (v, rest)) : valueFromBer (x ++ s) = .ok (v, rest ++ s) :=
  valueFromBer_append s h

/-- **C16.header_extent** -/
theorem header_extent (x s : Bytes) (h : Header) (tail : Bytes)
    (hp : parseHeader x = .ok (h, tail)) : parseHeader (x ++ s) = .ok (h, tail ++ s) :=
  parseHeader_append s hp

/-- **C16.inner_overrun**: the header octets alone determine the header; whenever fewer
octets follow than the header declares — e.g. an inner length tampered to exceed what is left
of the enclosing content — the result is `Incomplete`, never a read past the input. -/
theorem inner_overrun (x : Bytes) (h : Header) (tail : Bytes) (hp : parseHeader x = .ok (h, tail)) :
    ∃ hb, x = hb ++ tail ∧ ∀ t' : Bytes, t'.length < h.length →
      parseHeader (hb ++ t') = .err .Incomplete := by
  obtain ⟨hb, hx, _, hall⟩ := parseHeader_prefix hp
  exact ⟨hb, hx, fun t' ht => by rw [hall t', if_pos ht]⟩

/-- a successful parse never declares more than what is available -/
theorem declared_available (x : Bytes) (h : Header) (tail : Bytes)
    (hp : parseHeader x = .ok (h, tail)) : h.length ≤ tail.length := (parseHeader_ok hp).1

/-- **C16.top_trailing** (v1 / v2c): bytes after the outermost SEQUENCE are rejected -/
theorem top_trailing_community (version : Nat) (x s : Bytes) (m : CommunityMsg) (hs : s ≠ [])
    (h : communityMsgTryFrom version x = .ok m) :
    communityMsgTryFrom version (x ++ s) = .err .TrailingData := by
  unfold communityMsgTryFrom at h ⊢
  obtain ⟨⟨env, tail⟩, h1, h⟩ := bind_eq_ok h
  simp only at h
  split at h
  · cases h
  · rename_i ht
    have ht' : tail = [] := by simpa using ht
    subst ht'
    rw [fromBer_append _ sequenceDecoder_local s h1]
    simp only [bind_ok, List.nil_append]
    rw [if_pos (by cases s with
      | nil => exact absurd rfl hs
      | cons _ _ => rfl)]

/-- **C16.top_trailing** (v3) -/
theorem top_trailing_v3 (x s : Bytes) (m : V3Msg) (hs : s ≠ []) (h : v3TryFrom x = .ok m) :
    v3TryFrom (x ++ s) = .err .TrailingData := by
  unfold v3TryFrom at h ⊢
  obtain ⟨⟨env, tail⟩, h1, h⟩ := bind_eq_ok h
  simp only at h
  split at h
  · cases h
  · rename_i ht
    have ht' : tail = [] := by simpa using ht
    subst ht'
    rw [fromBer_append _ sequenceDecoder_local s h1]
    simp only [bind_ok, List.nil_append]
    rw [if_pos (by cases s with
      | nil => exact absurd rfl hs
      | cons _ _ => rfl)]

/-- **C16.pdu_trailing**: bytes after the varbind list inside a response PDU body -/
theorem pdu_trailing_response (x s : Bytes) (p : Pdu) (hs : s ≠ []) (h : getResponseTryFrom x = .ok p) :
    getResponseTryFrom (x ++ s) = .err .TrailingData := by
  unfold getResponseTryFrom at h ⊢
  obtain ⟨⟨r, t1⟩, h1, h⟩ := bind_eq_ok h
  obtain ⟨⟨es, t2⟩, h2, h⟩ := bind_eq_ok h
  obtain ⟨⟨ei, t3⟩, h3, h⟩ := bind_eq_ok h
  obtain ⟨⟨vb, t4⟩, h4, h⟩ := bind_eq_ok h
  simp only at h
  split at h
  · cases h
  · rename_i ht
    have ht' : t4 = [] := by simpa using ht
    subst ht'
    rw [fromBer_append _ intDecoder_local s h1]; simp only [bind_ok]
    rw [fromBer_append _ intDecoder_local s h2]; simp only [bind_ok]
    rw [fromBer_append _ intDecoder_local s h3]; simp only [bind_ok]
    rw [fromBer_append _ sequenceDecoder_local s h4]; simp only [bind_ok, List.nil_append]
    rw [if_pos (by cases s with
      | nil => exact absurd rfl hs
      | cons _ _ => rfl)]

end GufoSnmp.C16
