import GufoSnmp.Lemmas.PrivLemmas
/-!
# C04 — only the reply to the outstanding request is ever delivered

All datagram sequences (any loss, duplication, delay, reordering, rewriting), all sessions, all
histories of sends (each send overwrites the single outstanding request id).
-/
namespace GufoSnmp.C04
open GufoSnmp Gen Outcome

/-- a PDU that passes `check` and is not a Report answers request `rid` -/
theorem check_sound (p : Pdu) (rid : Int) (h : p.check rid = true) :
    (∃ b, p = .report b) ∨
    (∃ r es ei vars, p = .getResponse r es ei vars ∧ r = rid) ∨
    (∃ r vars, (p = .getRequest r vars ∨ p = .getNextRequest r vars) ∧ r = rid) ∨
    (∃ r n m vars, p = .getBulkRequest r n m vars ∧ r = rid) := by
  cases p with
  | report b => exact Or.inl ⟨b, rfl⟩
  | getResponse r es ei vars =>
    simp only [Pdu.check, beq_iff_eq] at h
    exact Or.inr (Or.inl ⟨r, es, ei, vars, rfl, h⟩)
  | getRequest r vars =>
    simp only [Pdu.check, beq_iff_eq] at h
    exact Or.inr (Or.inr (Or.inl ⟨r, vars, Or.inl rfl, h⟩))
  | getNextRequest r vars =>
    simp only [Pdu.check, beq_iff_eq] at h
    exact Or.inr (Or.inr (Or.inl ⟨r, vars, Or.inr rfl, h⟩))
  | getBulkRequest r n m vars =>
    simp only [Pdu.check, beq_iff_eq] at h
    exact Or.inr (Or.inr (Or.inr ⟨r, n, m, vars, rfl, h⟩))

/-- **C04.deliver_sound** (v1 / v2c): a datagram is handed to the conversion layer only if it
decodes as a message of the session's version, its community equals the session's and its PDU
carries the outstanding request id (or is a Report) -/
theorem deliver_sound_community (C : Ciphers) (cs : CommunitySession) (dg : Bytes) (pdu : Pdu)
    (h : ((Session.community cs).recvOne C dg).2 = .ok (some pdu)) :
    ∃ m, communityMsgTryFrom cs.version dg = .ok m ∧ m.community = cs.community ∧ m.pdu = pdu ∧
      pdu.check cs.requestId = true := by
  simp only [Session.recvOne] at h
  split at h
  · rename_i m hm
    simp only [Outcome.ok.injEq] at h
    unfold unwrapCommunity at h
    split at h
    · cases h
    · rename_i hc
      split at h
      · cases h
      · rename_i hk
        simp only [Option.some.injEq] at h
        refine ⟨m, hm, by simpa using hc, h, ?_⟩
        rw [← h]; simpa using hk
  · cases h
  · cases h

/-- **C04.deliver_sound** (v3): user name, engine id (once known), message id and request id must
all match -/
theorem deliver_sound_v3 (C : Ciphers) (vs : V3Session) (m : V3Msg) (pdu : Pdu)
    (h : (unwrapV3 C vs m).2 = .ok (some pdu)) :
    vs.userName = m.usm.userName ∧ (vs.engineId = [] ∨ m.usm.engineId = vs.engineId) ∧ m.msgId = vs.msgId ∧
      pdu.check vs.requestId = true := by
  unfold unwrapV3 at h
  cases hd : m.data with
  | plaintext x =>
    rw [hd] at h
    simp only at h
    split at h
    · cases h
    · rename_i hc
      simp only [Outcome.ok.injEq, Option.some.injEq] at h
      simp only [Bool.not_eq_true', Bool.not_eq_false, Bool.and_eq_true, beq_iff_eq, Bool.or_eq_true,
        List.isEmpty_iff] at hc
      obtain ⟨⟨⟨h1, h2⟩, h3⟩, h4⟩ := hc
      exact ⟨h1, h2, h3, by rw [← h]; exact h4⟩
  | encrypted ct =>
    rw [hd] at h
    simp only at h
    cases hdec : vs.privKey.decrypt C ct m.usm with
    | ok p =>
      obtain ⟨x, pk'⟩ := p
      rw [hdec] at h
      simp only at h
      split at h
      · cases h
      · rename_i hc
        simp only [Outcome.ok.injEq, Option.some.injEq] at h
        simp only [Bool.not_eq_true', Bool.not_eq_false, Bool.and_eq_true, beq_iff_eq, Bool.or_eq_true,
          List.isEmpty_iff] at hc
        obtain ⟨⟨⟨h1, h2⟩, h3⟩, h4⟩ := hc
        exact ⟨h1, h2, h3, by rw [← h]; exact h4⟩
    | err e => rw [hdec] at h; cases h
    | panic w => rw [hdec] at h; cases h

/-- **C04.skip_continues**: a well-formed datagram that fails the test is skipped and the wait goes
on with the remaining datagrams -/
theorem skip_continues (C : Ciphers) (s s' : Session) (op : OpKind) (it : Option GetIter) (dg : Bytes)
    (rest : List Bytes) (h : s.recvOne C dg = (s', .ok none)) :
    s.recvLoop C op it (dg :: rest) = s'.recvLoop C op it rest := by
  rw [Session.recvLoop, h]

/-- **C04.malformed_ends**: a datagram that does not decode as the session's version ends the call
with the decoder's exception; later datagrams stay unread -/
theorem malformed_ends (C : Ciphers) (s s' : Session) (op : OpKind) (it : Option GetIter) (dg : Bytes)
    (rest : List Bytes) (e : SnmpError) (h : s.recvOne C dg = (s', .err e)) :
    s.recvLoop C op it (dg :: rest) = (.raise (pyClass e), s', it, rest) := by
  rw [Session.recvLoop, h]

/-- nothing arrives: the non-blocking socket reports `BlockingIOError` (mapped to `TimeoutError`
by the sync client) -/
theorem nothing_arrives (C : Ciphers) (s : Session) (op : OpKind) (it : Option GetIter) :
    s.recvLoop C op it [] = (.raise .BlockingIOError, s, it, []) := rfl

/-- **C04.deliver**: the first acceptable datagram is the one delivered -/
theorem deliver (C : Ciphers) (s s' : Session) (op : OpKind) (it : Option GetIter) (dg : Bytes) (pdu : Pdu)
    (rest : List Bytes) (h : s.recvOne C dg = (s', .ok (some pdu))) :
    s.recvLoop C op it (dg :: rest) = ((toPython op pdu it).1, s', (toPython op pdu it).2, rest) := by
  rw [Session.recvLoop, h]

theorem pushPduV3_reqid (D : Digests) (C : Ciphers) (vs : V3Session) (pdu : Pdu) (rawMsg : Int) (buf : Buf) :
    (pushPduV3 D C vs pdu rawMsg buf).1.requestId = vs.requestId := by
  unfold pushPduV3
  cases hp : vs.privKey.hasPriv with
  | false => simp only [Bool.false_eq_true, if_false]
  | true =>
    simp only [if_true]
    cases he : vs.privKey.encrypt C ⟨vs.engineId, pdu⟩ (asU32 vs.engineBoots) (asU32 vs.engineTime) with
    | mk pk' r =>
      cases r with
      | ok x => obtain ⟨ct, pp⟩ := x; rfl
      | err e => rfl
      | panic w => rfl

/-- **C04.latest_only**: every send replaces the outstanding request id; a response carrying any
other id — in particular that of an earlier request — fails the test -/
theorem latest_only (D : Digests) (C : Ciphers) (s : Session) (call : Call) (rawReq rawMsg : Int) (buf : Buf) :
    (match (s.send D C call rawReq rawMsg buf).1 with
     | .community cs => cs.requestId
     | .v3 vs => vs.requestId) = maskId rawReq := by
  cases s with
  | community cs => rfl
  | v3 vs =>
    simp only [Session.send]
    cases hc : call.toPdu (maskId rawReq) with
    | ok pdu =>
      simp only
      exact pushPduV3_reqid D C { vs with requestId := maskId rawReq } pdu rawMsg buf
    | err e => rfl
    | panic w => rfl

theorem stale_response_skipped (r rid es ei : Int) (vars : List VarBind) (h : r ≠ rid) :
    (Pdu.getResponse r es ei vars).check rid = false := by
  simp only [Pdu.check, beq_eq_false_iff_ne]; exact h

/-- a community mismatch is skipped whatever the PDU -/
theorem community_mismatch (cs : CommunitySession) (m : CommunityMsg) (h : m.community ≠ cs.community) :
    unwrapCommunity cs m = none := by
  unfold unwrapCommunity; rw [if_pos h]

end GufoSnmp.C04
