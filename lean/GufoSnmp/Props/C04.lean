import GufoSnmp.Lemmas.PrivLemmas
import GufoSnmp.Lemmas.RecvErr
/-!
# C04 — only the reply to the outstanding request is ever delivered

All datagram sequences (any loss, duplication, delay, reordering, rewriting), all sessions, all
histories of sends (each send overwrites the single outstanding request id).
-/
namespace GufoSnmp.C04
open GufoSnmp Gen Outcome

/-- a PDU that passes `check` and is not a Report answers request `rid` -/
theorem check_sound (p : Pdu) (rid : Int) (h : p.check rid = true) :
    (∃ b, p = .report b) ∨
    (∃ r es ei vars, p = .getResponse r es ei vars ∧ r = rid) ∨
    (∃ r vars, (p = .getRequest r vars ∨ p = .getNextRequest r vars) ∧ r = rid) ∨
    (∃ r n m vars, p = .getBulkRequest r n m vars ∧ r = rid) := by
  cases p with
  | report b => exact Or.inl ⟨b, rfl⟩
  | getResponse r es ei vars =>
    simp only [Pdu.check, beq_iff_eq] at h
    exact Or.inr (Or.inl ⟨r, es, ei, vars, rfl, h⟩)
  | getRequest r vars =>
    simp only [Pdu.check, beq_iff_eq] at h
    exact Or.inr (Or.inr (Or.inl ⟨r, vars, Or.inl rfl, h⟩))
  | getNextRequest r vars =>
    simp only [Pdu.check, beq_iff_eq] at h
    exact Or.inr (Or.inr (Or.inl ⟨r, vars, Or.inr rfl, h⟩))
  | getBulkRequest r n m vars =>
    simp only [Pdu.check, beq_iff_eq] at h
    exact Or.inr (Or.inr (Or.inr ⟨r, n, m, vars, rfl, h⟩))

/-- **C04.deliver_sound** (v1 / v2c): a datagram is handed to the conversion layer only if it
decodes as a message of the session's version, its community equals the session's and its PDU
carries the outstanding request id (or is a Report) -/
theorem deliver_sound_community (C : Ciphers) (cs : CommunitySession) (dg : Bytes) (pdu : Pdu)
    (h : ((Session.community cs).recvOne C dg).2 = .ok (some pdu)) :
    ∃ m, communityMsgTryFrom cs.version dg = .ok m ∧ m.community = cs.community ∧ m.pdu = pdu ∧
      pdu.check cs.requestId = true := by
  simp only [Session.recvOne] at h
  split at h
  · rename_i m hm
    simp only [Outcome.ok.injEq] at h
    unfold unwrapCommunity at h
    split at h
    · cases h
    · rename_i hc
      split at h
      · cases h
      · rename_i hk
        simp only [Option.some.injEq] at h
        refine ⟨m, hm, by simpa using hc, h, ?_⟩
        rw [← h]; simpa using hk
  · cases h
  · cases h

/-- **C04.deliver_sound** (v3): user name, engine id (once known), message id and request id must
all match -/
theorem deliver_sound_v3 (C : Ciphers) (vs : V3Session) (m : V3Msg) (pdu : Pdu)
    (h : (unwrapV3 C vs m).2 = .ok (some pdu)) :
    vs.userName = m.usm.userName ∧ (vs.engineId = [] ∨ m.usm.engineId = vs.engineId) ∧ m.msgId = vs.msgId ∧
      pdu.check vs.requestId = true := by
  unfold unwrapV3 at h
  cases hd : m.data with
  | plaintext x =>
    rw [hd] at h
    simp only at h
    split at h
    · cases h
    · rename_i hc
      simp only [Outcome.ok.injEq, Option.some.injEq] at h
      simp only [Bool.not_eq_true', Bool.not_eq_false, Bool.and_eq_true, beq_iff_eq, Bool.or_eq_true,
        List.isEmpty_iff] at hc
      obtain ⟨⟨⟨h1, h2⟩, h3⟩, h4⟩ := hc
      exact ⟨h1, h2, h3, by rw [← h]; exact h4⟩
  | encrypted ct =>
    rw [hd] at h
    simp only at h
    cases hdec : vs.privKey.decrypt C ct m.usm with
    | ok p =>
      obtain ⟨x, pk'⟩ := p
      rw [hdec] at h
      simp only at h
      split at h
      · cases h
      · rename_i hc
        simp only [Outcome.ok.injEq, Option.some.injEq] at h
        simp only [Bool.not_eq_true', Bool.not_eq_false, Bool.and_eq_true, beq_iff_eq, Bool.or_eq_true,
          List.isEmpty_iff] at hc
        obtain ⟨⟨⟨h1, h2⟩, h3⟩, h4⟩ := hc
        exact ⟨h1, h2, h3, by rw [← h]; exact h4⟩
    | err e => rw [hdec] at h; cases h
    | panic w => rw [hdec] at h; cases h

/-- **C04.skip_continues**: a well-formed datagram that fails the test is skipped and the wait goes
on with the remaining datagrams -/
theorem skip_continues (C : Ciphers) (s s' : Session) (op : OpKind) (it : Option GetIter) (dg : Bytes)
    (rest : List Bytes) (h : s.recvOne C dg = (s', .ok none)) :
    s.recvLoop C op it (dg :: rest) = s'.recvLoop C op it rest := by
  rw [Session.recvLoop, h]

/-- **C04.malformed_ends**: a datagram that does not decode as the session's version ends the call
with the decoder's exception; later datagrams stay unread -/
theorem malformed_ends (C : Ciphers) (s s' : Session) (op : OpKind) (it : Option GetIter) (dg : Bytes)
    (rest : List Bytes) (e : SnmpError) (h : s.recvOne C dg = (s', .err e)) :
    s.recvLoop C op it (dg :: rest) = (.raise (pyClass e), s', it, rest) := by
  rw [Session.recvLoop, h]

/-- nothing arrives: the non-blocking socket reports `BlockingIOError` (mapped to `TimeoutError`
by the sync client) -/
theorem nothing_arrives (C : Ciphers) (s : Session) (op : OpKind) (it : Option GetIter) :
    s.recvLoop C op it [] = (.raise .BlockingIOError, s, it, []) := rfl

/-- **C04.deliver**: the first acceptable datagram is the one delivered -/
theorem deliver (C : Ciphers) (s s' : Session) (op : OpKind) (it : Option GetIter) (dg : Bytes) (pdu : Pdu)
    (rest : List Bytes) (h : s.recvOne C dg = (s', .ok (some pdu))) :
    s.recvLoop C op it (dg :: rest) = ((toPython op pdu it).1, s', (toPython op pdu it).2, rest) := by
  rw [Session.recvLoop, h]

theorem pushPduV3_reqid (D : Digests) (C : Ciphers) (vs : V3Session) (pdu : Pdu) (rawMsg : Int) (buf : Buf) :
    (pushPduV3 D C vs pdu rawMsg buf).1.requestId = vs.requestId := by
  unfold pushPduV3
  cases hp : vs.privKey.hasPriv with
  | false => simp only [Bool.false_eq_true, if_false]
  | true =>
    simp only [if_true]
    cases he : vs.privKey.encrypt C ⟨vs.engineId, pdu⟩ (asU32 vs.engineBoots) (asU32 vs.engineTime) with
    | mk pk' r =>
      cases r with
      | ok x => obtain ⟨ct, pp⟩ := x; rfl
      | err e => rfl
      | panic w => rfl

/-- **C04.latest_only**: every send replaces the outstanding request id; a response carrying any
other id — in particular that of an earlier request — fails the test -/
theorem latest_only (D : Digests) (C : Ciphers) (s : Session) (call : Call) (rawReq rawMsg : Int) (buf : Buf) :
    (match (s.send D C call rawReq rawMsg buf).1 with
     | .community cs => cs.requestId
     | .v3 vs => vs.requestId) = maskId rawReq := by
  cases s with
  | community cs => rfl
  | v3 vs =>
    simp only [Session.send]
    cases hc : call.toPdu (maskId rawReq) with
    | ok pdu =>
      simp only
      exact pushPduV3_reqid D C { vs with requestId := maskId rawReq } pdu rawMsg buf
    | err e => rfl
    | panic w => rfl

theorem stale_response_skipped (r rid es ei : Int) (vars : List VarBind) (h : r ≠ rid) :
    (Pdu.getResponse r es ei vars).check rid = false := by
  simp only [Pdu.check, beq_eq_false_iff_ne]; exact h

/-- a community mismatch is skipped whatever the PDU -/
theorem community_mismatch (cs : CommunitySession) (m : CommunityMsg) (h : m.community ≠ cs.community) :
    unwrapCommunity cs m = none := by
  unfold unwrapCommunity; rw [if_pos h]

/-! ## whole histories -/

/-- the single outstanding request id of a session -/
def reqId : Session → Int
  | .community cs => cs.requestId
  | .v3 vs => vs.requestId

theorem unwrapV3_reqid (C : Ciphers) (s : V3Session) (m : V3Msg) :
    (unwrapV3 C s m).1.requestId = s.requestId := by
  unfold unwrapV3
  cases m.data with
  | plaintext x =>
    simp only
    split
    · rfl
    · split <;> rfl
  | encrypted ct =>
    simp only
    cases s.privKey.decrypt C ct m.usm with
    | ok p =>
      simp only
      split
      · rfl
      · split <;> rfl
    | err e => rfl
    | panic w => rfl

/-- receiving never changes the outstanding id -/
theorem recvOne_reqid (C : Ciphers) (s : Session) (dg : Bytes) : reqId (s.recvOne C dg).1 = reqId s := by
  cases s with
  | community cs =>
    simp only [Session.recvOne]
    cases communityMsgTryFrom cs.version dg <;> rfl
  | v3 vs =>
    simp only [Session.recvOne]
    cases v3TryFrom dg with
    | ok m => simp only [reqId]; exact unwrapV3_reqid C vs m
    | err e => rfl
    | panic w => rfl

/-- the delivery decision of one datagram, for both session kinds -/
theorem recvOne_sound (C : Ciphers) (s : Session) (dg : Bytes) (pdu : Pdu)
    (h : (s.recvOne C dg).2 = .ok (some pdu)) : pdu.check (reqId s) = true := by
  cases s with
  | community cs =>
    obtain ⟨m, _, _, _, hc⟩ := deliver_sound_community C cs dg pdu h
    exact hc
  | v3 vs =>
    simp only [Session.recvOne] at h
    cases hm : v3TryFrom dg with
    | ok m =>
      rw [hm] at h
      exact (deliver_sound_v3 C vs m pdu h).2.2.2
    | err e => rw [hm] at h; cases h
    | panic w => rw [hm] at h; cases h

/-- the PDU (if any) a receive call hands to the conversion layer, and the session afterwards -/
def recvPdu (C : Ciphers) (s : Session) : List Bytes → Option Pdu × Session
  | [] => (none, s)
  | dg :: rest =>
    match s.recvOne C dg with
    | (s', .ok (some pdu)) => (some pdu, s')
    | (s', .ok none) => recvPdu C s' rest
    | (s', _) => (none, s')

theorem recvPdu_sound (C : Ciphers) : ∀ (dgs : List Bytes) (s : Session),
    reqId (recvPdu C s dgs).2 = reqId s ∧ ∀ pdu, (recvPdu C s dgs).1 = some pdu → pdu.check (reqId s) = true
  | [], s => ⟨rfl, fun _ h => by cases h⟩
  | dg :: rest, s => by
    have hk := recvOne_reqid C s dg
    have hsnd := recvOne_sound C s dg
    simp only [recvPdu]
    cases hr : s.recvOne C dg with
    | mk s' r =>
      rw [hr] at hk hsnd
      simp only at hk hsnd
      cases r with
      | ok o =>
        cases o with
        | some p =>
          simp only
          exact ⟨hk, fun pdu h => by cases h; exact hsnd p rfl⟩
        | none =>
          simp only
          have := recvPdu_sound C rest s'
          rw [hk] at this
          exact this
      | err e => exact ⟨hk, fun _ h => by cases h⟩
      | panic w => exact ⟨hk, fun _ h => by cases h⟩

/-- `recvPdu` is the receive loop: the caller gets the conversion of exactly that PDU, or an exception
when there is none -/
theorem recvLoop_recvPdu (C : Ciphers) (op : OpKind) (it : Option GetIter) : ∀ (dgs : List Bytes) (s : Session),
    (∃ pdu, (recvPdu C s dgs).1 = some pdu ∧ (s.recvLoop C op it dgs).1 = (toPython op pdu it).1) ∨
    ((recvPdu C s dgs).1 = none ∧
      ((∃ e, (s.recvLoop C op it dgs).1 = .raise e) ∨ ∃ w, (s.recvLoop C op it dgs).1 = .panic w))
  | [], s => Or.inr ⟨rfl, Or.inl ⟨_, rfl⟩⟩
  | dg :: rest, s => by
    simp only [recvPdu, Session.recvLoop]
    cases hr : s.recvOne C dg with
    | mk s' r =>
      cases r with
      | ok o =>
        cases o with
        | some p => exact Or.inl ⟨p, rfl, rfl⟩
        | none => exact recvLoop_recvPdu C op it rest s'
      | err e => exact Or.inr ⟨rfl, Or.inl ⟨_, rfl⟩⟩
      | panic w => exact Or.inr ⟨rfl, Or.inr ⟨_, rfl⟩⟩

/-! ## Completeness of the acceptance test: what matches IS delivered, what does not IS skipped -/

/-- **C04.accept_community**: a datagram that decodes as a message of the session's version, carries the
session's community and answers the outstanding request id is delivered (v1 / v2c) -/
theorem accept_community (C : Ciphers) (cs : CommunitySession) (dg : Bytes) (m : CommunityMsg)
    (hd : communityMsgTryFrom cs.version dg = .ok m) (hc : m.community = cs.community)
    (hr : m.pdu.check cs.requestId = true) :
    (Session.community cs).recvOne C dg = (.community cs, .ok (some m.pdu)) := by
  simp only [Session.recvOne, hd, unwrapCommunity, hc, hr]
  simp

/-- **C04.skip_community**: a well-formed message of the session's version with another community or
another request id is skipped: no value, no exception, the session unchanged -/
theorem skip_community (C : Ciphers) (cs : CommunitySession) (dg : Bytes) (m : CommunityMsg)
    (hd : communityMsgTryFrom cs.version dg = .ok m)
    (hn : m.community ≠ cs.community ∨ m.pdu.check cs.requestId = false) :
    (Session.community cs).recvOne C dg = (.community cs, .ok none) := by
  simp only [Session.recvOne, hd, unwrapCommunity]
  cases hn with
  | inl h => simp [h]
  | inr h => simp [h]

/-- the acceptance test of the v3 socket, as a proposition -/
def V3Match (vs : V3Session) (m : V3Msg) (sp : ScopedPdu) : Prop :=
  vs.userName = m.usm.userName ∧ (vs.engineId = [] ∨ m.usm.engineId = vs.engineId) ∧ m.msgId = vs.msgId ∧
    sp.pdu.check vs.requestId = true

/-- **C04.accept_v3**: a clear-text v3 message that names the session's user, its engine id (any engine
id while none is known), the outstanding msgID and request id is delivered -/
theorem accept_v3 (C : Ciphers) (vs : V3Session) (dg : Bytes) (m : V3Msg) (sp : ScopedPdu)
    (hd : v3TryFrom dg = .ok m) (hp : m.data = .plaintext sp) (hm : V3Match vs m sp) :
    ((Session.v3 vs).recvOne C dg).2 = .ok (some sp.pdu) := by
  obtain ⟨hu, he, hi, hr⟩ := hm
  simp only [Session.recvOne, hd, unwrapV3, hp]
  have hcond : (vs.userName == m.usm.userName && (vs.engineId.isEmpty || m.usm.engineId == vs.engineId)
      && m.msgId == vs.msgId && sp.pdu.check vs.requestId) = true := by
    rw [hu, hi, hr]
    cases he with
    | inl h => simp [h]
    | inr h => simp [h]
  simp only [hcond]
  rfl

/-- **C04.skip_v3**: a clear-text v3 message that fails any clause of the test is skipped and leaves the
session (engine id, clock, ids, keys) exactly as it was -/
theorem skip_v3 (C : Ciphers) (vs : V3Session) (dg : Bytes) (m : V3Msg) (sp : ScopedPdu)
    (hd : v3TryFrom dg = .ok m) (hp : m.data = .plaintext sp)
    (hn : vs.userName ≠ m.usm.userName ∨ (vs.engineId ≠ [] ∧ m.usm.engineId ≠ vs.engineId) ∨ m.msgId ≠ vs.msgId ∨
      sp.pdu.check vs.requestId = false) :
    (Session.v3 vs).recvOne C dg = (.v3 vs, .ok none) := by
  simp only [Session.recvOne, hd, unwrapV3, hp]
  have hcond : (vs.userName == m.usm.userName && (vs.engineId.isEmpty || m.usm.engineId == vs.engineId)
      && m.msgId == vs.msgId && sp.pdu.check vs.requestId) = false := by
    rcases hn with h | ⟨h1, h2⟩ | h | h
    · simp [h]
    · have : vs.engineId.isEmpty = false := by
        cases hv : vs.engineId with
        | nil => exact absurd hv h1
        | cons _ _ => rfl
      simp [this, h2]
    · simp [h]
    · simp [h]
  simp only [hcond]
  rfl

/-- the session after skipping a run of datagrams (`none` if one of them is not skipped) -/
def skipAll (C : Ciphers) : Session → List Bytes → Option Session
  | s, [] => some s
  | s, dg :: rest =>
    match s.recvOne C dg with
    | (s', .ok none) => skipAll C s' rest
    | _ => none

/-- **C04.eventually_delivered**: however many non-matching datagrams come first, the first acceptable
datagram is the one whose conversion the caller gets, and whatever follows it stays unread -/
theorem eventually_delivered (C : Ciphers) (op : OpKind) (it : Option GetIter) :
    ∀ (pre : List Bytes) (s s1 s2 : Session) (dg : Bytes) (pdu : Pdu) (rest : List Bytes),
    skipAll C s pre = some s1 → s1.recvOne C dg = (s2, .ok (some pdu)) →
    s.recvLoop C op it (pre ++ dg :: rest) = ((toPython op pdu it).1, s2, (toPython op pdu it).2, rest)
  | [], s, s1, s2, dg, pdu, rest, hs, hd => by
    simp only [skipAll, Option.some.injEq] at hs
    subst hs
    exact deliver C s s2 op it dg pdu rest hd
  | d :: pre, s, s1, s2, dg, pdu, rest, hs, hd => by
    simp only [skipAll] at hs
    cases hr : s.recvOne C d with
    | mk s' r =>
      rw [hr] at hs
      cases r with
      | ok o =>
        cases o with
        | none =>
          simp only at hs
          rw [List.cons_append, skip_continues C s s' op it d _ hr]
          exact eventually_delivered C op it pre s' s1 s2 dg pdu rest hs hd
        | some p => simp at hs
      | err e => simp at hs
      | panic w => simp at hs

/-- for v1 / v2c the skipped datagrams never change the session -/
theorem skipAll_community (C : Ciphers) (cs : CommunitySession) : ∀ (pre : List Bytes),
    (∀ d ∈ pre, ∃ m, communityMsgTryFrom cs.version d = .ok m ∧
      (m.community ≠ cs.community ∨ m.pdu.check cs.requestId = false)) →
    skipAll C (.community cs) pre = some (.community cs)
  | [], _ => rfl
  | d :: pre, h => by
    obtain ⟨m, hd, hn⟩ := h d (by simp)
    simp only [skipAll, skip_community C cs d m hd hn]
    exact skipAll_community C cs pre (fun x hx => h x (by simp [hx]))

/-- **C04.reply_after_strays** (v1 / v2c): any number of messages with a foreign community or a foreign
request id, then the reply: the reply's PDU is what the conversion layer gets -/
theorem reply_after_strays (C : Ciphers) (cs : CommunitySession) (op : OpKind) (it : Option GetIter)
    (pre : List Bytes) (dg : Bytes) (m : CommunityMsg) (rest : List Bytes)
    (hpre : ∀ d ∈ pre, ∃ m', communityMsgTryFrom cs.version d = .ok m' ∧
      (m'.community ≠ cs.community ∨ m'.pdu.check cs.requestId = false))
    (hd : communityMsgTryFrom cs.version dg = .ok m) (hc : m.community = cs.community)
    (hr : m.pdu.check cs.requestId = true) :
    (Session.community cs).recvLoop C op it (pre ++ dg :: rest) =
      ((toPython op m.pdu it).1, .community cs, (toPython op m.pdu it).2, rest) :=
  eventually_delivered C op it pre _ _ _ dg m.pdu rest (skipAll_community C cs pre hpre)
    (accept_community C cs dg m hd hc hr)

/-! ## A datagram that is not a message of the session's version ends the call with `SnmpDecodeError` -/

/-- **C04.error_is_decode_error**: whenever one datagram makes the receive step fail, the failure is of
the `SnmpDecodeError` class (error table generated from `src/error.rs`): no other exception class can
come out of the decoding of a datagram -/
theorem recvOne_err_class (C : Ciphers) (s : Session) (dg : Bytes) (e : SnmpError)
    (h : (s.recvOne C dg).2 = .err e) : pyClass e = .SnmpDecodeError :=
  GufoSnmp.recvOne_decode_class C s dg e h

/-- **C04.malformed_raises_decode_error**: the call ends with `SnmpDecodeError`, later datagrams unread -/
theorem malformed_raises_decode_error (C : Ciphers) (s s' : Session) (op : OpKind) (it : Option GetIter)
    (dg : Bytes) (rest : List Bytes) (e : SnmpError) (h : s.recvOne C dg = (s', .err e)) :
    s.recvLoop C op it (dg :: rest) = (.raise .SnmpDecodeError, s', it, rest) := by
  rw [malformed_ends C s s' op it dg rest e h, recvOne_err_class C s dg e (by rw [h])]

/-- **C04.wrong_version**: a perfectly well-formed message of the *other* community-based version is
refused with `InvalidVersion` (→ `SnmpDecodeError`): a v1 session never accepts a v2c reply or vice versa -/
theorem wrong_version (v v' : Nat) (dg : Bytes) (m : CommunityMsg) (hne : (v' : Int) ≠ (v : Int))
    (h : communityMsgTryFrom v' dg = .ok m) : communityMsgTryFrom v dg = .err .InvalidVersion := by
  unfold communityMsgTryFrom at h ⊢
  obtain ⟨⟨env, tail⟩, h1, h⟩ := bind_eq_ok h
  rw [h1]
  simp only [bind_ok] at h ⊢
  split at h
  · cases h
  · rename_i ht
    rw [if_neg ht]
    obtain ⟨⟨vc, t1⟩, h2, h⟩ := bind_eq_ok h
    rw [h2]
    simp only [bind_ok] at h ⊢
    split at h
    · cases h
    · rename_i hv
      simp only [ne_eq, Decidable.not_not] at hv
      rw [if_pos (by rw [hv]; exact hne)]

/-- the events of a session's life -/
inductive Ev where
  | send (call : Call) (rawReq rawMsg : Int) (buf : Buf)
  | recv (datagrams : List Bytes)

/-- run a history; every receive is observed as (the id of the most recent send, the delivered PDU) -/
def run (D : Digests) (C : Ciphers) : Session → Int → List Ev → List (Int × Option Pdu)
  | _, _, [] => []
  | s, _, .send call rr rm buf :: rest => run D C (s.send D C call rr rm buf).1 (maskId rr) rest
  | s, last, .recv dgs :: rest => (last, (recvPdu C s dgs).1) :: run D C (recvPdu C s dgs).2 last rest

/-- **C04.history_sound**: in every history of sends and receives (any interleaving, any datagram
sequences: lost, duplicated, delayed, reordered or rewritten replies), a PDU handed to the caller
carries the request id of the most recent send (or is a Report): a value that answered an earlier
request is never returned -/
theorem history_sound (D : Digests) (C : Ciphers) : ∀ (evs : List Ev) (s : Session) (last : Int),
    reqId s = last → ∀ (l : Int) (pdu : Pdu), (l, some pdu) ∈ run D C s last evs → pdu.check l = true
  | [], _, _, _, _, _, h => by simp [run] at h
  | .send call rr rm buf :: rest, s, last, _, l, pdu, h => by
    simp only [run] at h
    have hl : reqId (s.send D C call rr rm buf).1 = maskId rr := by
      have := latest_only D C s call rr rm buf
      cases hs : (s.send D C call rr rm buf).1 with
      | community cs => rw [hs] at this; exact this
      | v3 vs => rw [hs] at this; exact this
    exact history_sound D C rest _ _ hl l pdu h
  | .recv dgs :: rest, s, last, hinv, l, pdu, h => by
    simp only [run, List.mem_cons, Prod.mk.injEq] at h
    obtain ⟨hk, hsnd⟩ := recvPdu_sound C dgs s
    rcases h with ⟨rfl, hp⟩ | h
    · rw [← hinv]
      exact hsnd pdu hp.symm
    · exact history_sound D C rest _ _ (by rw [hk]; exact hinv) l pdu h

end GufoSnmp.C04
