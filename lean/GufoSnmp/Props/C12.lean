import GufoSnmp.Lemmas.AuthLemmas
import GufoSnmp.Lemmas.PrivLemmas
import GufoSnmp.Model.User
/-!
# C12 — USM keys are derived exactly as RFC 3414 A.2 prescribes

All non-empty passwords of any length (dividing 2^20 or not, longer than 2^20 or not), all
engine ids, both digests (as parameters with their output lengths), all key types.
`Spec.passwordToKey`, `Spec.localizeKey`, `Spec.cycleTake` are written independently.
-/
namespace GufoSnmp.C12
open GufoSnmp Gen Outcome

theorem flatten_replicate_length (n : Nat) (pw : Bytes) : ((List.replicate n pw).flatten).length = n * pw.length := by
  induction n with
  | zero => simp
  | succ k ih => simp [List.replicate_succ, ih, Nat.succ_mul]; omega

/-- the "n whole copies plus a remainder" loop is the first N octets of the repeated password -/
theorem expand_eq_cycle (pw : Bytes) (N : Nat) (hp : 0 < pw.length) :
    (List.replicate (N / pw.length) pw).flatten ++ (if N % pw.length > 0 then pw.take (N % pw.length) else [])
      = Spec.cycleTake pw N := by
  unfold Spec.cycleTake
  have hsucc : List.replicate (N / pw.length + 1) pw = List.replicate (N / pw.length) pw ++ [pw] := by
    rw [List.replicate_succ']
  rw [hsucc, List.flatten_append]
  have hone : [pw].flatten = pw := by simp
  rw [hone]
  have hlen := flatten_replicate_length (N / pw.length) pw
  have hN : N = (List.replicate (N / pw.length) pw).flatten.length + N % pw.length := by
    rw [hlen]; have := Nat.div_add_mod N pw.length; rw [Nat.mul_comm] at this; omega
  generalize hA : (List.replicate (N / pw.length) pw).flatten = A at *
  rw [List.take_append, List.take_of_length_le (show A.length ≤ N by omega)]
  congr 1
  have hr : N - A.length = N % pw.length := by omega
  rw [hr]
  split
  · rfl
  · rename_i h
    have : N % pw.length = 0 := by omega
    rw [this]; rfl

/-- **C12.p2m**: password to master key is `H` of the first 1 048 576 octets of the repeated password -/
theorem p2m (D : Digests) (hD : D.WF) (alg : AuthAlg) (pw : Bytes) (hp : pw ≠ []) :
    passwordToMaster D alg pw alg.keySize = .ok (Spec.passwordToKey (D.hash alg) pw) := by
  unfold passwordToMaster Spec.passwordToKey
  have hlen : 0 < pw.length := List.length_pos_iff.mpr hp
  rw [if_neg (by omega)]
  have hmb : megabyte = 1048576 := rfl
  simp only [hmb]
  rw [expand_eq_cycle pw 1048576 hlen]
  simp only [sliceTo_hash D hD, bind_ok]
  unfold cloneFromSlice
  rw [if_pos (hash_len D hD alg _)]

/-- **C12.localize**: localisation is `H(Ku ‖ engineID ‖ Ku)` -/
theorem localize_spec (D : Digests) (hD : D.WF) (alg : AuthAlg) (ku engineId : Bytes) :
    localize D alg ku engineId alg.keySize = .ok (Spec.localizeKey (D.hash alg) ku engineId) := by
  unfold localize Spec.localizeKey
  simp only [sliceTo_hash D hD, bind_ok]
  unfold cloneFromSlice
  rw [if_pos (hash_len D hD alg _)]

/-- `as_key_type` by the value of the two high bits -/
theorem asKeyType_unfold (D : Digests) (alg : AuthAlg) (k0 key engineId : Bytes) (c : Nat) :
    asKeyType D (.digest alg k0) c key engineId =
      (if c % 256 / 64 * 64 = 0 then (if key.isEmpty then .err .InvalidKey else asPassword D alg key engineId)
       else if c % 256 / 64 * 64 = 64 then asMaster D alg key engineId
       else if c % 256 / 64 * 64 = 128 then
         (if key.length ≠ alg.keySize then .err .InvalidKey else asLocalized alg key)
       else .err .InvalidKey) := rfl

theorem asLocalized_hash (D : Digests) (hD : D.WF) (alg : AuthAlg) (x : Bytes) :
    asLocalized alg (D.hash alg x) = .ok (.digest alg (D.hash alg x)) := by
  unfold asLocalized cloneFromSlice; rw [if_pos (hash_len D hD alg x)]; rfl

theorem asMaster_spec (D : Digests) (hD : D.WF) (alg : AuthAlg) (key engineId : Bytes) :
    asMaster D alg key engineId = .ok (.digest alg (Spec.localizeKey (D.hash alg) key engineId)) := by
  unfold asMaster
  rw [localize_spec D hD]
  simp only [bind_ok, Spec.localizeKey]
  exact asLocalized_hash D hD alg _

theorem asPassword_spec (D : Digests) (hD : D.WF) (alg : AuthAlg) (key engineId : Bytes) (hne : key ≠ []) :
    asPassword D alg key engineId =
      .ok (.digest alg (Spec.localizeKey (D.hash alg) (Spec.passwordToKey (D.hash alg) key) engineId)) := by
  unfold asPassword
  rw [p2m D hD alg key hne]
  simp only [bind_ok]
  exact asMaster_spec D hD alg _ engineId

/-- the three key types (two high bits of the algorithm code) -/
theorem dispatch (D : Digests) (hD : D.WF) (alg : AuthAlg) (k0 key engineId : Bytes) (code : Nat) (hc : code < 64) :
    (key ≠ [] → asKeyType D (.digest alg k0) code key engineId =
      .ok (.digest alg (Spec.localizeKey (D.hash alg) (Spec.passwordToKey (D.hash alg) key) engineId))) ∧
    (asKeyType D (.digest alg k0) (code + 64) key engineId =
      .ok (.digest alg (Spec.localizeKey (D.hash alg) key engineId))) ∧
    (key.length = alg.keySize → asKeyType D (.digest alg k0) (code + 128) key engineId = .ok (.digest alg key)) ∧
    (asKeyType D (.digest alg k0) (code + 192) key engineId = .err .InvalidKey) := by
  refine ⟨?_, ?_, ?_, ?_⟩
  · intro hne
    have hne' : key.isEmpty = false := by cases key <;> simp_all
    rw [asKeyType_unfold, if_pos (by omega), hne']
    simp only [Bool.false_eq_true, if_false]
    exact asPassword_spec D hD alg key engineId hne
  · rw [asKeyType_unfold, if_neg (by omega), if_pos (by omega)]
    exact asMaster_spec D hD alg key engineId
  · intro hl
    rw [asKeyType_unfold, if_neg (by omega), if_neg (by omega), if_pos (by omega), if_neg (by simp [hl])]
    unfold asLocalized cloneFromSlice
    rw [if_pos hl]; rfl
  · rw [asKeyType_unfold, if_neg (by omega), if_neg (by omega), if_neg (by omega)]

/-- **C12.refuse**: an empty password, a localized key of the wrong size or an unknown
algorithm code is refused with an error — never a panic -/
theorem refuse (D : Digests) (alg : AuthAlg) (k0 engineId : Bytes) (code : Nat) (hc : code < 64) :
    asKeyType D (.digest alg k0) code [] engineId = .err .InvalidKey ∧
    (∀ key, key.length ≠ alg.keySize →
      asKeyType D (.digest alg k0) (code + 128) key engineId = .err .InvalidKey) ∧
    (∀ c, c % 64 ≠ 0 → c % 64 ≠ 1 → c % 64 ≠ 2 → AuthKey.new c = .err .InvalidVersion) := by
  refine ⟨?_, ?_, ?_⟩
  · rw [asKeyType_unfold, if_pos (by omega)]; rfl
  · intro key hl
    rw [asKeyType_unfold, if_neg (by omega), if_neg (by omega), if_pos (by omega), if_pos hl]
  · intro c h0 h1 h2
    unfold AuthKey.new
    have e : ktAlgMask + 1 = 64 := rfl
    simp only [e]
    rw [if_neg (by simpa [Gen.noAuth] using h0), if_neg (by simpa [md5Auth] using h1),
      if_neg (by simpa [sha1Auth] using h2)]

/-- key derivation never panics, whatever the key material -/
theorem asKeyType_total (D : Digests) (hD : D.WF) (k : AuthKey) (code : Nat) (key engineId : Bytes) :
    (asKeyType D k code key engineId).isPanic = false := by
  cases k with
  | noAuth => rfl
  | digest alg k0 =>
    rw [asKeyType_unfold]
    split
    · split
      · rfl
      · rename_i hne
        have hne' : key ≠ [] := by intro h; simp [h] at hne
        rw [asPassword_spec D hD alg key engineId hne']; rfl
    · split
      · rw [asMaster_spec D hD]; rfl
      · split
        · split
          · rfl
          · rename_i hl
            simp only [ne_eq, Decidable.not_not] at hl
            unfold asLocalized cloneFromSlice
            rw [if_pos hl]; rfl
        · rfl

/-- **C12.session_keys**: what a v3 session installs: the auth key by key type, and the privacy
key = the privacy secret run through the SAME (auth) digest derivation, truncated to 16 octets
by the cipher (DES: key = first 8, pre-IV = next 8) -/
theorem session_priv_key (key : Bytes) (seed : Nat) (hl : 16 ≤ key.length) :
    (PrivKey.des [] [] 0 Buf.empty).asLocalized key seed =
      .ok (.des (key.take 8) ((key.take 16).drop 8) (seed % 2 ^ 32) Buf.empty) ∧
    (PrivKey.aes [] 0 Buf.empty).asLocalized key seed = .ok (.aes (key.take 16) (seed % 2 ^ 64) Buf.empty) ∧
    (∀ short : Bytes, short.length < 16 →
      (PrivKey.des [] [] 0 Buf.empty).asLocalized short seed = .err .InvalidKey ∧
      (PrivKey.aes [] 0 Buf.empty).asLocalized short seed = .err .InvalidKey) := by
  refine ⟨?_, ?_, ?_⟩
  · have hd : ¬ key.length < desKeyLength := by unfold desKeyLength; omega
    simp only [PrivKey.asLocalized, hd, if_false]
    rfl
  · have hd : ¬ key.length < aesKeyLength := by unfold aesKeyLength; omega
    simp only [PrivKey.asLocalized, hd, if_false]
    rfl
  · intro short hs
    have hd : short.length < desKeyLength := by unfold desKeyLength; omega
    have ha : short.length < aesKeyLength := by unfold aesKeyLength; omega
    simp only [PrivKey.asLocalized, hd, ha, if_true, and_self]

/-- `get_master_key` / `get_localized_key` as exposed to Python -/
theorem exposed (D : Digests) (hD : D.WF) (pw ku engineId : Bytes) (hp : pw ≠ []) :
    getMasterKey D md5Auth pw = .ok (Spec.passwordToKey D.md5 pw) ∧
    getMasterKey D sha1Auth pw = .ok (Spec.passwordToKey D.sha1 pw) ∧
    getMasterKey D md5Auth [] = .error .ValueError ∧
    (ku.length = 16 → getLocalizedKey D md5Auth ku engineId = .ok (Spec.localizeKey D.md5 ku engineId)) ∧
    (ku.length = 20 → getLocalizedKey D sha1Auth ku engineId = .ok (Spec.localizeKey D.sha1 ku engineId)) ∧
    (ku.length ≠ 16 → getLocalizedKey D md5Auth ku engineId = .error .ValueError) := by
  have hne : pw.isEmpty = false := by cases pw <;> simp_all
  have p1 : passwordToMaster D .md5 pw md5KeySize = .ok (Spec.passwordToKey D.md5 pw) := p2m D hD .md5 pw hp
  have p2 : passwordToMaster D .sha1 pw sha1KeySize = .ok (Spec.passwordToKey D.sha1 pw) := p2m D hD .sha1 pw hp
  have l1 : localize D .md5 ku engineId md5KeySize = .ok (Spec.localizeKey D.md5 ku engineId) :=
    localize_spec D hD .md5 ku engineId
  have l2 : localize D .sha1 ku engineId sha1KeySize = .ok (Spec.localizeKey D.sha1 ku engineId) :=
    localize_spec D hD .sha1 ku engineId
  have n1 : AuthKey.new md5Auth = .ok (.digest .md5 (List.replicate md5KeySize 0)) := rfl
  have n2 : AuthKey.new sha1Auth = .ok (.digest .sha1 (List.replicate sha1KeySize 0)) := rfl
  refine ⟨?_, ?_, ?_, ?_, ?_, ?_⟩
  · unfold getMasterKey
    rw [if_neg (by decide), n1]
    simp only [hne, Bool.false_eq_true, if_false, AuthAlg.keySize, p1]
  · unfold getMasterKey
    rw [if_neg (by decide), n2]
    simp only [hne, Bool.false_eq_true, if_false, AuthAlg.keySize, p2]
  · unfold getMasterKey
    rw [if_neg (by decide), n1]
    simp only [List.isEmpty_nil, if_true]
  · intro hl
    unfold getLocalizedKey
    rw [if_neg (by decide), n1]
    simp only [AuthKey.keySize, AuthAlg.keySize, md5KeySize, hl, ne_eq, not_true_eq_false, if_false]
    simp only [md5KeySize] at l1
    rw [l1]
  · intro hl
    unfold getLocalizedKey
    rw [if_neg (by decide), n2]
    simp only [AuthKey.keySize, AuthAlg.keySize, sha1KeySize, hl, ne_eq, not_true_eq_false, if_false]
    simp only [sha1KeySize] at l2
    rw [l2]
  · intro hl
    unfold getLocalizedKey
    rw [if_neg (by decide), n1]
    simp only [AuthKey.keySize, AuthAlg.keySize, md5KeySize, ne_eq, hl, not_false_eq_true, if_true]

/-! ## the Python key classes (`user.py`) in front of the sockets -/

theorem padded_length (key : Bytes) (n : Nat) : (Py.padded key n).length = n := by
  unfold Py.padded
  split
  · assumption
  · split
    · simp [List.length_take]; omega
    · simp; omega

/-- **C12.user_keys_sized**: a master or localized authentication key built through `Md5Key` / `Sha1Key`
reaches the socket with exactly the digest's key size — so the Rust layer never sees a wrong-size
master / localized key from the public API (the padding is the Python layer's doing) -/
theorem user_keys_sized (alg : Nat) (key : Bytes) (kt : Py.KeyType) (h : kt.aligned = true) :
    (Py.mkAuthKey alg key kt).key.length = Py.authKeyLength alg := by
  simp only [Py.mkAuthKey, h, if_true]
  exact padded_length _ _

/-- a key of the right size is handed over unchanged -/
theorem user_key_kept (alg : Nat) (key : Bytes) (kt : Py.KeyType) (h : key.length = Py.authKeyLength alg) :
    (Py.mkAuthKey alg key kt).key = key := by
  simp only [Py.mkAuthKey, Py.padded, h, if_true]
  split <;> rfl

/-- **C12.user_codes**: the algorithm code handed to the socket carries the digest in its low six bits
and the key type in the two high bits, which is what `AuthKey::new` / `as_key_type` take apart -/
theorem user_codes (name : Bytes) (a : Py.Key) (p : Option Py.Key) (u : Py.User) (ha : a.alg < 64)
    (h : Py.mkUser name (some a) p = some u) :
    u.authAlg % 64 = a.alg ∧ u.authAlg / 64 * 64 = a.kt.mask ∧ u.authKey = a.key ∧
    (∀ pk, p = some pk → pk.alg < 64 → u.privAlg % 64 = pk.alg ∧ u.privAlg / 64 * 64 = pk.kt.mask ∧
      (pk.kt.aligned = true → u.privKey.length = Py.authKeyLength a.alg) ∧
      (pk.kt.aligned = false → u.privKey = pk.key)) := by
  cases p with
  | none =>
    simp only [Py.mkUser, Option.some.injEq] at h
    subst h
    refine ⟨?_, ?_, rfl, fun pk hp => by cases hp⟩ <;>
      (simp only [Py.User.authAlg]; cases a.kt <;> simp only [Py.KeyType.mask] <;> omega)
  | some pk =>
    simp only [Py.mkUser, Option.some.injEq] at h
    subst h
    refine ⟨?_, ?_, rfl, ?_⟩
    · simp only [Py.User.authAlg]; cases a.kt <;> simp only [Py.KeyType.mask] <;> omega
    · simp only [Py.User.authAlg]; cases a.kt <;> simp only [Py.KeyType.mask] <;> omega
    · intro pk' hp hlt
      cases hp
      refine ⟨?_, ?_, ?_, ?_⟩
      · simp only [Py.User.privAlg]
        split <;> (cases pk.kt <;> simp only [Py.KeyType.mask] <;> omega)
      · simp only [Py.User.privAlg]
        split <;> (cases pk.kt <;> simp only [Py.KeyType.mask] <;> omega)
      · intro hal
        simp only [Py.User.privKey, hal, if_true]
        exact padded_length _ _
      · intro hal
        simp only [Py.User.privKey, hal, Bool.false_eq_true, if_false]

/-- a privacy key without an authentication key is refused (`ValueError`) -/
theorem user_priv_needs_auth (name : Bytes) (p : Py.Key) : Py.mkUser name none (some p) = none := rfl

/-! ## The keys a session installs, end to end (`SnmpV3ClientSocket::new` / `set_keys`) -/

/-- algorithm code of a digest, as `user.py` passes it -/
def authCode : AuthAlg → Nat
  | .md5 => md5Auth
  | .sha1 => sha1Auth

theorem new_authCode (a : AuthAlg) (kt : Nat) (hkt : kt = 0 ∨ kt = 64 ∨ kt = 128) :
    ∃ k0, AuthKey.new (authCode a + kt) = .ok (.digest a k0) := by
  cases a <;> rcases hkt with h | h | h <;> subst h <;> exact ⟨_, rfl⟩

/-- **C12.session_keys_password**: a session configured with an authentication password and a privacy
password installs: authentication key = Kul(auth password), and privacy key = the first 16 octets of
Kul(privacy password) computed with the *authentication* digest (RFC 3414 A.2 with 8.1.1.1 / RFC 3826
1.2.1): DES key = octets 0..7, pre-IV = octets 8..15; AES key = octets 0..15 -/
theorem session_keys_password (D : Digests) (hD : D.WF) (a : AuthAlg) (eng pw ppw : Bytes) (seed : Nat)
    (hpw : pw ≠ []) (hppw : ppw ≠ []) :
    let kul := fun (p : Bytes) => Spec.localizeKey (D.hash a) (Spec.passwordToKey (D.hash a) p) eng
    v3Keys D eng (authCode a) pw privDes ppw seed =
      .ok (.digest a (kul pw), .des ((kul ppw).take 8) (((kul ppw).take 16).drop 8) (seed % 2 ^ 32) Buf.empty) ∧
    v3Keys D eng (authCode a) pw privAes128 ppw seed =
      .ok (.digest a (kul pw), .aes ((kul ppw).take 16) (seed % 2 ^ 64) Buf.empty) := by
  intro kul
  have hk16 : ∀ p : Bytes, 16 ≤ (kul p).length := by
    intro p
    have : (kul p).length = a.keySize := by
      simp only [kul, Spec.localizeKey]; exact hash_len D hD a _
    rw [this]; cases a <;> decide
  have hauth : ∀ k0, asKeyType D (.digest a k0) (authCode a) pw eng = .ok (.digest a (kul pw)) := by
    intro k0
    have := (dispatch D hD a k0 pw eng (authCode a) (by cases a <;> decide)).1 hpw
    exact this
  have hpd : ∀ k0, asKeyType D (.digest a k0) privDes ppw eng = .ok (.digest a (kul ppw)) := by
    intro k0
    exact (dispatch D hD a k0 ppw eng privDes (by decide)).1 hppw
  have hpa : ∀ k0, asKeyType D (.digest a k0) privAes128 ppw eng = .ok (.digest a (kul ppw)) := by
    intro k0
    exact (dispatch D hD a k0 ppw eng privAes128 (by decide)).1 hppw
  obtain ⟨k0, hnew⟩ := new_authCode a 0 (Or.inl rfl)
  simp only [Nat.add_zero] at hnew
  constructor
  · unfold v3Keys
    simp only [hnew, bind_ok, hauth, hpd]
    have hpn : PrivKey.new privDes = .ok (.des (List.replicate 8 0) (List.replicate 8 0) 0 Buf.empty) := rfl
    simp only [hpn, bind_ok, PrivKey.hasPriv, if_true, AuthKey.getKey]
    have hd : ¬ (kul ppw).length < desKeyLength := by have := hk16 ppw; unfold desKeyLength; omega
    simp only [PrivKey.asLocalized, hd, if_false, bind_ok, pure_eq]
    rfl
  · unfold v3Keys
    simp only [hnew, bind_ok, hauth, hpa]
    have hpn : PrivKey.new privAes128 = .ok (.aes (List.replicate 16 0) 0 Buf.empty) := rfl
    simp only [hpn, bind_ok, PrivKey.hasPriv, if_true, AuthKey.getKey]
    have hd : ¬ (kul ppw).length < aesKeyLength := by have := hk16 ppw; unfold aesKeyLength; omega
    simp only [PrivKey.asLocalized, hd, if_false, bind_ok, pure_eq]
    rfl

/-- **C12.session_keys_total**: the key plumbing never panics, whatever the codes, secrets and engine id
(an empty password, a wrong-length localized key, an unknown algorithm are refused with an error) -/
theorem session_keys_total (D : Digests) (hD : D.WF) (eng : Bytes) (aalg : Nat) (akey : Bytes) (palg : Nat)
    (pkey : Bytes) (seed : Nat) : (v3Keys D eng aalg akey palg pkey seed).isPanic = false := by
  have hk : ∀ (k : AuthKey) (c : Nat) (key : Bytes), (asKeyType D k c key eng).isPanic = false :=
    fun k c key => asKeyType_total D hD k c key eng
  unfold v3Keys
  apply bind_noPanic
  · unfold AuthKey.new; dsimp only; repeat (first | rfl | split)
  · intro a0 _
    apply bind_noPanic (hk _ _ _)
    intro a1 _
    apply bind_noPanic
    · unfold PrivKey.new; dsimp only; repeat (first | rfl | split)
    · intro p0 _
      split
      · apply bind_noPanic
        · unfold AuthKey.new; dsimp only; repeat (first | rfl | split)
        · intro q0 _
          apply bind_noPanic (hk _ _ _)
          intro q1 _
          apply bind_noPanic
          · cases p0 <;> simp only [PrivKey.asLocalized] <;> repeat (first | rfl | split)
          · intro _ _; rfl
      · rfl

end GufoSnmp.C12
