import GufoSnmp.Lemmas.Minimal
import GufoSnmp.Lemmas.OidLemmas
/-!
# C15 — everything the library encodes, it decodes back unchanged and minimally

All `i64` values, all OID / OCTET STRING contents shorter than 65536 octets, all Get / GetNext /
GetBulk requests in v1 / v2c messages that fit the buffer (v3: see `Props/C03`, `Props/C09`).
-/
namespace GufoSnmp.C15
open GufoSnmp Gen Outcome

def I64 (v : Int) : Prop := -(2 ^ 63) ≤ v ∧ v < 2 ^ 63

/-- **C15.int_encodes**: `SnmpInt::push_ber` into any buffer with room writes exactly `encInt v` -/
theorem int_encodes (b : Buf) (hb : b.Inv) (v : Int) :
    pushInt b v = if b.len + (encInt v).length ≤ Buf.cap then .ok (b.prepend (encInt v)) else .err .OutOfBuffer :=
  pushInt_spec b hb v

/-- **C15.int_roundtrip**: decoding what was encoded returns the value and leaves nothing over -/
theorem int_roundtrip (v : Int) (hv : I64 v) (rest : Bytes) :
    fromBer intDecoder (encInt v ++ rest) = .ok (v, rest) := fromBer_encInt v hv.1 hv.2 rest

/-- **C15.int_minimal**: the content has 1..8 octets, denotes `v` in two's complement and has no
redundant leading octet (X.690 §8.3.2); the length octet is the short form. -/
theorem int_minimal (v : Int) (hv : I64 v) :
    twos (intContent v) = v ∧ 1 ≤ (intContent v).length ∧ (intContent v).length ≤ 8 ∧
    MinimalInt (intContent v) ∧
    encInt v = UInt8.ofNat tagInt :: UInt8.ofNat (intContent v).length :: intContent v := by
  obtain ⟨h1, h2, h3⟩ := intContent_spec v hv.1 hv.2
  refine ⟨h1, h2, h3, intContent_minimal v, ?_⟩
  unfold encInt tagLenBytes
  rw [if_pos (by omega), Nat.mod_eq_of_lt (by omega)]
  rfl

/-- any two distinct values have distinct encodings (the decoder is a left inverse) -/
theorem int_injective (v w : Int) (hv : I64 v) (hw : I64 w) (h : encInt v = encInt w) : v = w := by
  have h1 := int_roundtrip v hv []
  have h2 := int_roundtrip w hw []
  rw [h, h2] at h1
  cases h1; rfl

/-- **C15.tag_len**: `push_tag_len` writes the minimal definite length form and the header
parser inverts it, for every low-tag identifier and every length below 65536 -/
theorem tag_len (tag : UInt8) (ht : tag.toNat % 32 ≠ 31) (v : Nat) (hv : v < 65536) (tail : Bytes)
    (hl : v ≤ tail.length) :
    tagLenBytes tag v = tag :: minimalLen v ∧
    parseHeader (tagLenBytes tag v ++ tail) = .ok (hdrOf tag v, tail) :=
  ⟨tagLenBytes_minimal tag v hv, parseHeader_tagLen tag ht v hv tail hl⟩

/-- **C15.oid / octets / null** -/
theorem oid_roundtrip (oid rest : Bytes) (h : oid.length < 65536) :
    fromBer oidDecoder (encOid oid ++ rest) = .ok (oid, rest) := fromBer_encOid oid rest h

theorem octets_roundtrip (c rest : Bytes) (h : c.length < 65536) :
    fromBer octetsDecoder (tlvBytes (UInt8.ofNat tagOctetString) c ++ rest) = .ok (c, rest) :=
  fromBer_octets c rest h

theorem null_roundtrip (rest : Bytes) : fromBer nullDecoder (encNull ++ rest) = .ok ((), rest) :=
  fromBer_encNull rest

/-- **C15.oid_text**: an OID given as text is encoded with minimal base-128 sub-identifiers
(no leading 0x80 octet) and prints back as the canonical text of the same arcs -/
theorem oid_text (a0 a1 : Nat) (rest : List Nat) (h0 : a0 ≤ 2) (h1 : a1 ≤ 39)
    (hr : ∀ a ∈ rest, a < 2 ^ 32) :
    ∃ b, oidFromStr (Spec.dotted (a0 :: a1 :: rest)) = .ok b ∧ Spec.derOid (a0 :: a1 :: rest) = some b ∧
      oidToStr b = .ok (Spec.dotted (a0 :: a1 :: rest)) := by
  have h := oidFromStr_dotted a0 a1 rest h0 h1 hr
  cases hf : oidFromStr (Spec.dotted (a0 :: a1 :: rest)) with
  | ok b =>
    rw [hf] at h; simp only [Outcome.bind, Outcome.ok.injEq] at h
    exact ⟨b, rfl, h.symm, oidToStr_der a0 a1 rest h0 h1 hr b h.symm⟩
  | err e => rw [hf] at h; cases h
  | panic w => rw [hf] at h; cases h

/-- **C15.pdu_roundtrip**: every request PDU -/
theorem pdu_roundtrip (pdu : Pdu) (enc rest : Bytes) (hr : pdu.InRange) (he : encPdu pdu = some enc)
    (hc : enc.length < 65536) : pduTryFrom (enc ++ rest) = .ok pdu :=
  pduTryFrom_encPdu pdu enc rest hr he hc

/-- **C15.msg_v1_v2c**: a v1 / v2c request that fits the buffer is written as `enc` (TLV tree
with minimal lengths at every level by `tag_len`, `int_minimal`) and decodes back to itself. -/
theorem msg_community (version : Nat) (hv : version < 128) (m : CommunityMsg) (enc : Bytes)
    (hr : m.pdu.InRange) (he : encCommunityMsg version m = some enc) (hfit : enc.length ≤ Buf.cap) :
    (pushCommunityMsg version Buf.empty m >>= Buf.data) = .ok enc ∧
    communityMsgTryFrom version enc = .ok m := by
  constructor
  · rw [pushCommunityMsg_spec version Buf.empty rfl m enc he]
    unfold specOut
    rw [if_pos (by simpa [Buf.len, Buf.empty] using hfit)]
    simp only [bind_ok]
    exact data_prepend_empty enc
  · exact communityMsg_roundtrip version hv m enc hr he (by
      have : Buf.cap < 65536 := by decide
      omega)

/-! Non-vacuity -/
example : I64 (-(2 ^ 63)) ∧ I64 (2 ^ 63 - 1) ∧ I64 (-32767) := by
  unfold I64; refine ⟨⟨?_, ?_⟩, ⟨?_, ?_⟩, ⟨?_, ?_⟩⟩ <;> omega
example : encInt 0 = [2, 1, 0] := by decide

end GufoSnmp.C15
