import GufoSnmp.Lemmas.Minimal
import GufoSnmp.Lemmas.OidLemmas
import GufoSnmp.Lemmas.EncSpecV3
import GufoSnmp.Props.C11
/-!
# C15 — everything the library encodes, it decodes back unchanged and minimally

All `i64` values, all OID / OCTET STRING contents shorter than 65536 octets, all Get / GetNext /
GetBulk requests in v1 / v2c messages that fit the buffer (v3: see `Props/C03`, `Props/C09`).
-/
namespace GufoSnmp.C15
open GufoSnmp Gen Outcome

def I64 (v : Int) : Prop := -(2 ^ 63) ≤ v ∧ v < 2 ^ 63

/-- **C15.int_encodes**: `SnmpInt::push_ber` into any buffer with room writes exactly `encInt v` -/
theorem int_encodes (b : Buf) (hb : b.Inv) (v : Int) :
    pushInt b v = if b.len + (encInt v).length ≤ Buf.cap then .ok (b.prepend (encInt v)) else .err .OutOfBuffer :=
  pushInt_spec b hb v

/-- **C15.int_roundtrip**: decoding what was encoded returns the value and leaves nothing over -/
theorem int_roundtrip (v : Int) (hv : I64 v) (rest : Bytes) :
    fromBer intDecoder (encInt v ++ rest) = .ok (v, rest) := fromBer_encInt v hv.1 hv.2 rest

/-- **C15.int_minimal**: the content has 1..8 octets, denotes `v` in two's complement and has no
redundant leading octet (X.690 §8.3.2); the length octet is the short form. -/
theorem int_minimal (v : Int) (hv : I64 v) :
    twos (intContent v) = v ∧ 1 ≤ (intContent v).length ∧ (intContent v).length ≤ 8 ∧
    MinimalInt (intContent v) ∧
    encInt v = UInt8.ofNat tagInt :: UInt8.ofNat (intContent v).length :: intContent v := by
  obtain ⟨h1, h2, h3⟩ := intContent_spec v hv.1 hv.2
  refine ⟨h1, h2, h3, intContent_minimal v, ?_⟩
  unfold encInt tagLenBytes
  rw [if_pos (by omega), Nat.mod_eq_of_lt (by omega)]
  rfl

/-- any two distinct values have distinct encodings (the decoder is a left inverse) -/
theorem int_injective (v w : Int) (hv : I64 v) (hw : I64 w) (h : encInt v = encInt w) : v = w := by
  have h1 := int_roundtrip v hv []
  have h2 := int_roundtrip w hw []
  rw [h, h2] at h1
  cases h1; rfl

/-- **C15.tag_len**: `push_tag_len` writes the minimal definite length form and the header
parser inverts it, for every low-tag identifier and every length below 65536 -/
theorem tag_len (tag : UInt8) (ht : tag.toNat % 32 ≠ 31) (v : Nat) (hv : v < 65536) (tail : Bytes)
    (hl : v ≤ tail.length) :
    tagLenBytes tag v = tag :: minimalLen v ∧
    parseHeader (tagLenBytes tag v ++ tail) = .ok (hdrOf tag v, tail) :=
  ⟨tagLenBytes_minimal tag v hv, parseHeader_tagLen tag ht v hv tail hl⟩

/-- **C15.oid / octets / null** -/
theorem oid_roundtrip (oid rest : Bytes) (h : oid.length < 65536) :
    fromBer oidDecoder (encOid oid ++ rest) = .ok (oid, rest) := fromBer_encOid oid rest h

theorem octets_roundtrip (c rest : Bytes) (h : c.length < 65536) :
    fromBer octetsDecoder (tlvBytes (UInt8.ofNat tagOctetString) c ++ rest) = .ok (c, rest) :=
  fromBer_octets c rest h

theorem null_roundtrip (rest : Bytes) : fromBer nullDecoder (encNull ++ rest) = .ok ((), rest) :=
  fromBer_encNull rest

/-- **C15.oid_text**: an OID given as text is encoded with minimal base-128 sub-identifiers
(no leading 0x80 octet) and prints back as the canonical text of the same arcs -/
theorem oid_text (a0 a1 : Nat) (rest : List Nat) (h0 : a0 ≤ 2) (h1 : a1 ≤ 39)
    (hr : ∀ a ∈ rest, a < 2 ^ 32) :
    ∃ b, oidFromStr (Spec.dotted (a0 :: a1 :: rest)) = .ok b ∧ Spec.derOid (a0 :: a1 :: rest) = some b ∧
      oidToStr b = .ok (Spec.dotted (a0 :: a1 :: rest)) := by
  have h := oidFromStr_dotted a0 a1 rest h0 h1 hr
  cases hf : oidFromStr (Spec.dotted (a0 :: a1 :: rest)) with
  | ok b =>
    rw [hf] at h; simp only [Outcome.bind, Outcome.ok.injEq] at h
    exact ⟨b, rfl, h.symm, oidToStr_der a0 a1 rest h0 h1 hr b h.symm⟩
  | err e => rw [hf] at h; cases h
  | panic w => rw [hf] at h; cases h

/-- **C15.pdu_roundtrip**: every request PDU -/
theorem pdu_roundtrip (pdu : Pdu) (enc rest : Bytes) (hr : pdu.InRange) (he : encPdu pdu = some enc)
    (hc : enc.length < 65536) : pduTryFrom (enc ++ rest) = .ok pdu :=
  pduTryFrom_encPdu pdu enc rest hr he hc

/-- **C15.msg_v1_v2c**: a v1 / v2c request that fits the buffer is written as `enc` (TLV tree
with minimal lengths at every level by `tag_len`, `int_minimal`) and decodes back to itself. -/
theorem msg_community (version : Nat) (hv : version < 128) (m : CommunityMsg) (enc : Bytes)
    (hr : m.pdu.InRange) (he : encCommunityMsg version m = some enc) (hfit : enc.length ≤ Buf.cap) :
    (pushCommunityMsg version Buf.empty m >>= Buf.data) = .ok enc ∧
    communityMsgTryFrom version enc = .ok m := by
  constructor
  · rw [pushCommunityMsg_spec version Buf.empty rfl m enc he]
    unfold specOut
    rw [if_pos (by simpa [Buf.len, Buf.empty] using hfit)]
    simp only [bind_ok]
    exact data_prepend_empty enc
  · exact communityMsg_roundtrip version hv m enc hr he (by
      have : Buf.cap < 65536 := by decide
      omega)

/-! Non-vacuity -/
example : I64 (-(2 ^ 63)) ∧ I64 (2 ^ 63 - 1) ∧ I64 (-32767) := by
  unfold I64; refine ⟨⟨?_, ?_⟩, ⟨?_, ?_⟩, ⟨?_, ?_⟩⟩ <;> omega
example : encInt 0 = [2, 1, 0] := by decide

/-! ## v3 -/

theorem tlvBytes_head (tag : UInt8) (c : Bytes) : ∃ rest, tlvBytes tag c = tag :: rest := by
  unfold tlvBytes tagLenBytes
  split
  · exact ⟨_, rfl⟩
  · split <;> exact ⟨_, rfl⟩

theorem encInt_small (v : Nat) (hv : v < 128) : ([UInt8.ofNat tagInt, 1, UInt8.ofNat v] : Bytes) = encInt v := by
  unfold encInt intContent
  by_cases h0 : (v : Int) = 0
  · have : v = 0 := by omega
    subst this; decide
  · rw [if_neg h0, if_pos (by omega)]
    have : posBytes (v : Int).toNat = [UInt8.ofNat v] := by
      unfold posBytes
      have : (v : Int).toNat = v := by omega
      rw [this, dif_pos (by omega), if_neg (by omega), Nat.mod_eq_of_lt (by omega)]
    rw [this]; rfl

/-- USM security parameters round-trip -/
theorem usm_roundtrip (u : Usm) (hb : I64 u.engineBoots) (ht : I64 u.engineTime) (hl : (encUsm u).length < 65536) :
    usmTryFrom (encUsm u) = .ok u := by
  unfold encUsm at hl ⊢
  have hge := tlvBytes_length_ge 0x30
    (tlvBytes (UInt8.ofNat tagOctetString) u.engineId ++ (encInt u.engineBoots ++ (encInt u.engineTime ++
      (tlvBytes (UInt8.ofNat tagOctetString) u.userName ++ (tlvBytes (UInt8.ofNat tagOctetString) u.authParams ++
        tlvBytes (UInt8.ofNat tagOctetString) u.privacyParams)))))
  have g1 := tlvBytes_length_ge (UInt8.ofNat tagOctetString) u.engineId
  have g2 := tlvBytes_length_ge (UInt8.ofNat tagOctetString) u.userName
  have g3 := tlvBytes_length_ge (UInt8.ofNat tagOctetString) u.authParams
  have g4 := tlvBytes_length_ge (UInt8.ofNat tagOctetString) u.privacyParams
  simp only [List.length_append] at hge
  unfold usmTryFrom
  have := fromBer_seq (tlvBytes (UInt8.ofNat tagOctetString) u.engineId ++ (encInt u.engineBoots ++ (encInt u.engineTime ++
      (tlvBytes (UInt8.ofNat tagOctetString) u.userName ++ (tlvBytes (UInt8.ofNat tagOctetString) u.authParams ++
        tlvBytes (UInt8.ofNat tagOctetString) u.privacyParams))))) [] (by simp only [List.length_append]; omega)
  simp only [List.append_nil] at this
  rw [this]
  simp only [bind_ok, List.isEmpty_nil, Bool.not_true, Bool.false_eq_true, if_false]
  rw [fromBer_octets _ _ (by omega)]
  simp only [bind_ok]
  rw [fromBer_encInt _ hb.1 hb.2]
  simp only [bind_ok]
  rw [fromBer_encInt _ ht.1 ht.2]
  simp only [bind_ok]
  rw [fromBer_octets _ _ (by omega)]
  simp only [bind_ok]
  rw [fromBer_octets _ _ (by omega)]
  simp only [bind_ok]
  have := fromBer_octets u.privacyParams [] (by omega)
  simp only [List.append_nil] at this
  rw [this]
  rfl

/-- msgData round-trips (plaintext scoped PDU or ciphertext OCTET STRING) -/
theorem msgdata_roundtrip (d : MsgData) (e : Bytes) (he : encMsgData d = some e) (hl : e.length < 65536)
    (hr : ∀ s, d = .plaintext s → s.pdu.InRange) : msgDataTryFrom e = .ok d := by
  cases d with
  | plaintext s =>
    have hs : encScoped s = some e := he
    have hfirst : ∃ rest, e = 0x30 :: rest := by
      unfold encScoped at hs
      cases hp : encPdu s.pdu with
      | none => rw [hp] at hs; cases hs
      | some p =>
        rw [hp] at hs; simp only [Option.map_some, Option.some.injEq] at hs; subst hs
        exact tlvBytes_head 0x30 _
    obtain ⟨rest, hrest⟩ := hfirst
    unfold msgDataTryFrom
    rw [hrest]
    simp only
    have h30 : ¬ (0x30 : UInt8).toNat = tagOctetString := by decide
    rw [if_neg h30, ← hrest]
    have := C11.scoped_roundtrip s e [] (hr s rfl) hs hl
    simp only [List.append_nil] at this
    rw [this]
    rfl
  | encrypted ct =>
    simp only [encMsgData, Option.some.injEq] at he; subst he
    have hge := tlvBytes_length_ge (UInt8.ofNat tagOctetString) ct
    have hfirst : ∃ rest, tlvBytes (UInt8.ofNat tagOctetString) ct = 0x04 :: rest :=
      tlvBytes_head (UInt8.ofNat tagOctetString) ct
    obtain ⟨rest, hrest⟩ := hfirst
    unfold msgDataTryFrom
    rw [hrest]
    simp only
    have h04 : (0x04 : UInt8).toNat = tagOctetString := by decide
    rw [if_pos h04, ← hrest]
    have := fromBer_octets ct [] (by omega)
    simp only [List.append_nil] at this
    rw [this]
    rfl

/-- **C15.msg_v3**: every v3 message the library serialises (any flags, USM parameters, plaintext or
encrypted msgData) is read back by its own decoder as the same message -/
theorem msg_v3 (m : V3Msg) (enc : Bytes) (he : encV3 m = some enc) (hl : enc.length < 65536)
    (hid : I64 m.msgId) (hb : I64 m.usm.engineBoots) (ht : I64 m.usm.engineTime)
    (hr : ∀ s, m.data = .plaintext s → s.pdu.InRange) : v3TryFrom enc = .ok m := by
  unfold encV3 at he
  cases hd : encMsgData m.data with
  | none => rw [hd] at he; cases he
  | some d =>
    rw [hd] at he; simp only [Option.map_some, Option.some.injEq] at he; subst he
    have hge := tlvBytes_length_ge 0x30 (encV3Body m d)
    have hbody : (encV3Body m d).length < 65536 := by omega
    unfold v3TryFrom
    have := fromBer_seq (encV3Body m d) [] hbody
    simp only [List.append_nil] at this
    rw [this]
    simp only [bind_ok, List.isEmpty_nil, Bool.not_true, Bool.false_eq_true, if_false]
    unfold encV3Body at hbody ⊢
    have hver : ([UInt8.ofNat tagInt, 1, UInt8.ofNat snmpV3] : Bytes) = encInt (snmpV3 : Int) := encInt_small snmpV3 (by decide)
    rw [hver, fromBer_encInt _ (by decide) (by decide)]
    simp only [bind_ok]
    rw [if_neg (by simp)]
    unfold encV3Header v3Tail at hbody ⊢
    have hgh := tlvBytes_length_ge 0x30 (v3HdrContent m)
    have hgu := tlvBytes_length_ge (UInt8.ofNat tagOctetString) (encUsm m.usm)
    simp only [List.length_append, List.length_cons, List.length_nil] at hbody
    rw [fromBer_seq _ _ (by omega)]
    simp only [bind_ok]
    unfold v3HdrContent
    rw [fromBer_encInt _ hid.1 hid.2]
    simp only [bind_ok]
    rw [fromBer_encInt _ (by decide) (by decide)]
    simp only [bind_ok]
    have hfl : tagLenBytes (UInt8.ofNat tagOctetString) 1 ++ ([UInt8.ofNat (flagOctet m)] ++
        [UInt8.ofNat tagInt, 1, UInt8.ofNat usmModel]) =
        tlvBytes (UInt8.ofNat tagOctetString) [UInt8.ofNat (flagOctet m)] ++ [UInt8.ofNat tagInt, 1, UInt8.ofNat usmModel] := by
      simp [tlvBytes]
    rw [hfl, fromBer_octets _ _ (by simp)]
    simp only [bind_ok, List.length_cons, List.length_nil]
    rw [if_neg (by simp)]
    simp only [idx, List.getElem?_cons_zero, bind_ok]
    have hmodel : ([UInt8.ofNat tagInt, 1, UInt8.ofNat usmModel] : Bytes) = encInt (usmModel : Int) ++ [] := by
      rw [List.append_nil]; exact encInt_small usmModel (by decide)
    rw [hmodel, fromBer_encInt _ (by decide) (by decide)]
    simp only [bind_ok]
    rw [if_neg (by simp)]
    rw [fromBer_octets _ _ (by omega)]
    simp only [bind_ok]
    rw [usm_roundtrip m.usm hb ht (by omega)]
    simp only [bind_ok]
    rw [msgdata_roundtrip m.data d hd (by omega) hr]
    simp only [bind_ok]
    have hflag : flagOctet m < 8 := by
      unfold flagOctet Gen.flagAuth Gen.flagPriv Gen.flagReport
      cases m.flagAuth <;> cases m.flagPriv <;> cases m.flagReport <;> decide
    have hfo : (UInt8.ofNat (flagOctet m)).toNat = flagOctet m := ofNat_toNat (by omega)
    rw [hfo]
    have h1 : (flagOctet m % 2 = 1) = (m.flagAuth = true) := by
      unfold flagOctet Gen.flagAuth Gen.flagPriv Gen.flagReport
      cases m.flagAuth <;> cases m.flagPriv <;> cases m.flagReport <;> decide
    have h2 : (flagOctet m / 2 % 2 = 1) = (m.flagPriv = true) := by
      unfold flagOctet Gen.flagAuth Gen.flagPriv Gen.flagReport
      cases m.flagAuth <;> cases m.flagPriv <;> cases m.flagReport <;> decide
    have h3 : (flagOctet m / 4 % 2 = 1) = (m.flagReport = true) := by
      unfold flagOctet Gen.flagAuth Gen.flagPriv Gen.flagReport
      cases m.flagAuth <;> cases m.flagPriv <;> cases m.flagReport <;> decide
    simp only [h1, h2, h3, decide_eq_true_eq, Bool.decide_eq_true]
    rfl

end GufoSnmp.C15
