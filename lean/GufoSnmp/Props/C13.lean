import GufoSnmp.Props.C04
import GufoSnmp.Props.C09
import GufoSnmp.Model.PyClient
/-!
# C13 — engine discovery and time sync follow the agent

All histories of {send, accepted message, skipped message, set_keys}; all agent identities.
-/
namespace GufoSnmp.C13
open GufoSnmp Gen Outcome

/-- engine id of the session after processing a decoded message -/
def nextState (C : Ciphers) (s : V3Session) (m : V3Msg) : V3Session := (unwrapV3 C s m).1

/-- the decrypt stage of `unwrap_pdu`: new key state and the scoped PDU, if any -/
def stage1 (C : Ciphers) (s : V3Session) (m : V3Msg) : V3Session × Outcome (Option ScopedPdu) :=
  match m.data with
  | .plaintext x => (s, .ok (some x))
  | .encrypted ct =>
    match s.privKey.decrypt C ct m.usm with
    | .ok (x, pk') => ({ s with privKey := pk' }, .ok (some x))
    | .err _ => (s, .ok none)
    | .panic w => (s, .panic w)

/-- the matching stage -/
def stage2 (s : V3Session) (m : V3Msg) (data : Outcome (Option ScopedPdu)) : V3Session × Outcome (Option Pdu) :=
  match data with
  | .panic w => (s, .panic w)
  | .err e => (s, .err e)
  | .ok none => (s, .ok none)
  | .ok (some sp) =>
    if !(s.userName == m.usm.userName
          && (s.engineId.isEmpty || m.usm.engineId == s.engineId)
          && m.msgId == s.msgId
          && sp.pdu.check s.requestId) then (s, .ok none)
    else
      let s := { s with engineBoots := m.usm.engineBoots, engineTime := m.usm.engineTime }
      let s := if s.engineId.isEmpty then { s with engineId := m.usm.engineId } else s
      (s, .ok (some sp.pdu))

theorem unwrapV3_stages (C : Ciphers) (s : V3Session) (m : V3Msg) :
    unwrapV3 C s m = stage2 (stage1 C s m).1 m (stage1 C s m).2 := rfl

theorem stage1_frame (C : Ciphers) (s : V3Session) (m : V3Msg) :
    (stage1 C s m).1.engineId = s.engineId ∧ (stage1 C s m).1.engineBoots = s.engineBoots ∧
    (stage1 C s m).1.engineTime = s.engineTime ∧ (stage1 C s m).1.userName = s.userName ∧
    (stage1 C s m).1.authKey = s.authKey ∧ (stage1 C s m).1.msgId = s.msgId ∧
    (stage1 C s m).1.requestId = s.requestId := by
  unfold stage1
  cases m.data with
  | plaintext x => exact ⟨rfl, rfl, rfl, rfl, rfl, rfl, rfl⟩
  | encrypted ct =>
    simp only
    cases s.privKey.decrypt C ct m.usm with
    | ok p => exact ⟨rfl, rfl, rfl, rfl, rfl, rfl, rfl⟩
    | err e => exact ⟨rfl, rfl, rfl, rfl, rfl, rfl, rfl⟩
    | panic w => exact ⟨rfl, rfl, rfl, rfl, rfl, rfl, rfl⟩

theorem stage2_accept (s : V3Session) (m : V3Msg) (d : Outcome (Option ScopedPdu)) (pdu : Pdu)
    (h : (stage2 s m d).2 = .ok (some pdu)) :
    (stage2 s m d).1.engineBoots = m.usm.engineBoots ∧ (stage2 s m d).1.engineTime = m.usm.engineTime ∧
    (stage2 s m d).1.engineId = (if s.engineId = [] then m.usm.engineId else s.engineId) := by
  unfold stage2 at h ⊢
  cases d with
  | panic w => cases h
  | err e => cases h
  | ok o =>
    cases o with
    | none => cases h
    | some sp =>
      simp only at h ⊢
      split
      · rename_i hc; rw [if_pos hc] at h; cases h
      · by_cases he : s.engineId = []
        · simp [he]
        · have : s.engineId.isEmpty = false := by cases hs : s.engineId <;> simp_all
          simp [he, this]

theorem stage2_skip (s : V3Session) (m : V3Msg) (d : Outcome (Option ScopedPdu))
    (h : ∀ pdu, (stage2 s m d).2 ≠ .ok (some pdu)) : (stage2 s m d).1 = s := by
  unfold stage2 at h ⊢
  cases d with
  | panic w => rfl
  | err e => rfl
  | ok o =>
    cases o with
    | none => rfl
    | some sp =>
      simp only at h ⊢
      split
      · rfl
      · rename_i hc
        rw [if_neg hc] at h
        exact absurd rfl (h sp.pdu)

theorem stage2_frame (s : V3Session) (m : V3Msg) (d : Outcome (Option ScopedPdu)) :
    (stage2 s m d).1.userName = s.userName ∧ (stage2 s m d).1.authKey = s.authKey ∧
    (stage2 s m d).1.msgId = s.msgId ∧ (stage2 s m d).1.requestId = s.requestId := by
  unfold stage2
  cases d with
  | panic w => exact ⟨rfl, rfl, rfl, rfl⟩
  | err e => exact ⟨rfl, rfl, rfl, rfl⟩
  | ok o =>
    cases o with
    | none => exact ⟨rfl, rfl, rfl, rfl⟩
    | some sp =>
      simp only
      split
      · exact ⟨rfl, rfl, rfl, rfl⟩
      · split <;> exact ⟨rfl, rfl, rfl, rfl⟩

/-- what `unwrap_pdu` does to the USM state, in one place -/
theorem unwrap_state (C : Ciphers) (s : V3Session) (m : V3Msg) :
    (∀ pdu, (unwrapV3 C s m).2 = .ok (some pdu) →
      (nextState C s m).engineBoots = m.usm.engineBoots ∧ (nextState C s m).engineTime = m.usm.engineTime ∧
      (nextState C s m).engineId = (if s.engineId = [] then m.usm.engineId else s.engineId)) ∧
    ((∀ pdu, (unwrapV3 C s m).2 ≠ .ok (some pdu)) →
      (nextState C s m).engineBoots = s.engineBoots ∧ (nextState C s m).engineTime = s.engineTime ∧
      (nextState C s m).engineId = s.engineId) ∧
    (nextState C s m).userName = s.userName ∧ (nextState C s m).authKey = s.authKey ∧
    (nextState C s m).msgId = s.msgId ∧ (nextState C s m).requestId = s.requestId := by
  unfold nextState
  rw [unwrapV3_stages]
  obtain ⟨f1, f2, f3, f4, f5, f6, f7⟩ := stage1_frame C s m
  refine ⟨?_, ?_, ?_, ?_, ?_, ?_⟩
  · intro pdu h
    have := stage2_accept _ m _ pdu h
    rw [f1] at this
    exact this
  · intro h
    have := stage2_skip _ m _ h
    rw [this]
    exact ⟨f2, f3, f1⟩
  · rw [(stage2_frame _ m _).1, f4]
  · rw [(stage2_frame _ m _).2.1, f5]
  · rw [(stage2_frame _ m _).2.2.1, f6]
  · rw [(stage2_frame _ m _).2.2.2, f7]

/-- **C13.discovery**: a session without an engine id adopts the engine id of the first message it
accepts (the agent's Report to the discovery probe) -/
theorem discovery (C : Ciphers) (s : V3Session) (m : V3Msg) (pdu : Pdu) (h0 : s.engineId = [])
    (h : (unwrapV3 C s m).2 = .ok (some pdu)) : (nextState C s m).engineId = m.usm.engineId := by
  have := ((unwrap_state C s m).1 pdu h).2.2
  rw [if_pos h0] at this; exact this

/-- **C13.sticky**: once known (configured or discovered), the engine id never changes, whatever
arrives -/
theorem sticky (C : Ciphers) (s : V3Session) (m : V3Msg) (h0 : s.engineId ≠ []) :
    (nextState C s m).engineId = s.engineId := by
  by_cases h : ∃ pdu, (unwrapV3 C s m).2 = .ok (some pdu)
  · obtain ⟨pdu, hp⟩ := h
    have := ((unwrap_state C s m).1 pdu hp).2.2
    rw [if_neg h0] at this; exact this
  · exact ((unwrap_state C s m).2.1 (fun pdu hp => h ⟨pdu, hp⟩)).2.2

/-- **C13.time_sync**: boots and time are those of the most recent accepted message; anything
not accepted leaves them alone -/
theorem time_sync (C : Ciphers) (s : V3Session) (m : V3Msg) :
    (∀ pdu, (unwrapV3 C s m).2 = .ok (some pdu) →
      (nextState C s m).engineBoots = m.usm.engineBoots ∧ (nextState C s m).engineTime = m.usm.engineTime) ∧
    ((∀ pdu, (unwrapV3 C s m).2 ≠ .ok (some pdu)) →
      (nextState C s m).engineBoots = s.engineBoots ∧ (nextState C s m).engineTime = s.engineTime) :=
  ⟨fun pdu h => ⟨((unwrap_state C s m).1 pdu h).1, ((unwrap_state C s m).1 pdu h).2.1⟩,
   fun h => ⟨((unwrap_state C s m).2.1 h).1, ((unwrap_state C s m).2.1 h).2.1⟩⟩

/-- **C13.stamp**: every request carries the session's engine id (USM and context), boots and time -/
theorem stamp (s : V3Session) (fr : Bool) (pp : Bytes) (data : MsgData) :
    (v3MsgOf s fr pp data).usm.engineId = s.engineId ∧ (v3MsgOf s fr pp data).usm.engineBoots = s.engineBoots ∧
    (v3MsgOf s fr pp data).usm.engineTime = s.engineTime ∧ (v3MsgOf s fr pp data).usm.userName = s.userName :=
  ⟨rfl, rfl, rfl, rfl⟩

/-- the scoped PDU names the session's engine id as context engine id, and the probe
(empty-varbind GET) is the only reportable request -/
theorem scoped_and_probe (D : Digests) (C : Ciphers) (s : V3Session) (pdu : Pdu) (rawMsg : Int) (buf : Buf)
    (hnp : s.privKey.hasPriv = false) :
    (pushPduV3 D C s pdu rawMsg buf).2 =
      finishV3 D s.authKey (v3MsgOf { s with msgId := maskId rawMsg }
        (match pdu with | .getRequest _ vars => vars.isEmpty | _ => false) []
        (.plaintext ⟨s.engineId, pdu⟩)) buf := by
  unfold pushPduV3
  simp only [hnp, Bool.false_eq_true, if_false]
  rfl

/-- **C13.configured**: a session created with an engine id uses it from its first message -/
theorem configured (D : Digests) (engineId user : Bytes) (aa : Nat) (ak : Bytes) (pa : Nat) (pk : Bytes)
    (seed : Nat) (s : V3Session) (h : V3Session.new D engineId user aa ak pa pk seed = .ok s) :
    s.engineId = engineId ∧ s.engineBoots = 0 ∧ s.engineTime = 0 := by
  unfold V3Session.new at h
  obtain ⟨⟨auth, p⟩, _, h⟩ := bind_eq_ok h
  cases h
  exact ⟨rfl, rfl, rfl⟩

/-- **C13.set_keys**: `set_keys` localizes the user's keys to the engine id the session holds at
that moment (the discovered one), and keeps it -/
theorem set_keys (D : Digests) (s : V3Session) (user : Bytes) (aa : Nat) (ak : Bytes) (pa : Nat) (pk : Bytes)
    (seed : Nat) :
    (s.setKeys D user aa ak pa pk seed).1.engineId = s.engineId ∧
    (s.setKeys D user aa ak pa pk seed).1.userName = user ∧
    (∀ auth priv, v3Keys D s.engineId aa ak pa pk seed = .ok (auth, priv) →
      (s.setKeys D user aa ak pa pk seed).1.authKey = auth ∧ (s.setKeys D user aa ak pa pk seed).1.privKey = priv) := by
  unfold V3Session.setKeys
  simp only
  cases hk : v3Keys D s.engineId aa ak pa pk seed with
  | ok p => obtain ⟨a, b⟩ := p; exact ⟨rfl, rfl, fun auth priv h => by cases h; exact ⟨rfl, rfl⟩⟩
  | err e => exact ⟨rfl, rfl, fun auth priv h => by cases h⟩
  | panic w => exact ⟨rfl, rfl, fun auth priv h => by cases h⟩

/-- **C13.refresh_flow**: discovery followed by `set_keys`: the keys are localized to the engine
id the agent announced -/
theorem refresh_flow (D : Digests) (C : Ciphers) (s : V3Session) (m : V3Msg) (pdu : Pdu) (h0 : s.engineId = [])
    (h : (unwrapV3 C s m).2 = .ok (some pdu)) (user : Bytes) (aa : Nat) (ak : Bytes) (pa : Nat) (pk : Bytes)
    (seed : Nat) (auth : AuthKey) (priv : PrivKey)
    (hk : v3Keys D m.usm.engineId aa ak pa pk seed = .ok (auth, priv)) :
    ((nextState C s m).setKeys D user aa ak pa pk seed).1.authKey = auth ∧
    ((nextState C s m).setKeys D user aa ak pa pk seed).1.engineId = m.usm.engineId := by
  have he := discovery C s m pdu h0 h
  have := set_keys D (nextState C s m) user aa ak pa pk seed
  rw [he] at this
  exact ⟨(this.2.2 auth priv hk).1, this.1⟩

/-! ## `refresh()` in the Python clients -/

/-! ## Whole histories: sends, receives and key changes in any order -/

/-- **C13.push_frame**: sending a request (successfully or not, encrypted or not) changes nothing of
the USM state but the msgID and the privacy key's salt / buffer: engine id, boots, time, user name and
authentication key stay as they were -/
theorem push_frame (D : Digests) (C : Ciphers) (s : V3Session) (pdu : Pdu) (rawMsg : Int) (buf : Buf) :
    (pushPduV3 D C s pdu rawMsg buf).1.engineId = s.engineId ∧
    (pushPduV3 D C s pdu rawMsg buf).1.engineBoots = s.engineBoots ∧
    (pushPduV3 D C s pdu rawMsg buf).1.engineTime = s.engineTime ∧
    (pushPduV3 D C s pdu rawMsg buf).1.userName = s.userName ∧
    (pushPduV3 D C s pdu rawMsg buf).1.authKey = s.authKey := by
  unfold pushPduV3
  cases hp : s.privKey.hasPriv with
  | false => simp only [Bool.false_eq_true, if_false, and_self]
  | true =>
    simp only [if_true]
    cases he : s.privKey.encrypt C ⟨s.engineId, pdu⟩ (asU32 s.engineBoots) (asU32 s.engineTime) with
    | mk pk' r =>
      cases r with
      | ok x => obtain ⟨ct, pp⟩ := x; exact ⟨rfl, rfl, rfl, rfl, rfl⟩
      | err e => exact ⟨rfl, rfl, rfl, rfl, rfl⟩
      | panic w => exact ⟨rfl, rfl, rfl, rfl, rfl⟩

/-- `set_keys` never touches the engine id or the clock -/
theorem setKeys_frame (D : Digests) (s : V3Session) (user : Bytes) (aa : Nat) (ak : Bytes) (pa : Nat) (pk : Bytes)
    (seed : Nat) :
    (s.setKeys D user aa ak pa pk seed).1.engineId = s.engineId ∧
    (s.setKeys D user aa ak pa pk seed).1.engineBoots = s.engineBoots ∧
    (s.setKeys D user aa ak pa pk seed).1.engineTime = s.engineTime := by
  unfold V3Session.setKeys
  simp only
  cases v3Keys D s.engineId aa ak pa pk seed with
  | ok r => obtain ⟨a, p⟩ := r; exact ⟨rfl, rfl, rfl⟩
  | err e => exact ⟨rfl, rfl, rfl⟩
  | panic w => exact ⟨rfl, rfl, rfl⟩

/-- what can happen to a v3 session -/
inductive HEv where
  | push (pdu : Pdu) (rawMsg : Int) (buf : Buf)
  | recv (m : V3Msg)
  | setKeys (user : Bytes) (aa : Nat) (ak : Bytes) (pa : Nat) (pk : Bytes) (seed : Nat)

def hstep (D : Digests) (C : Ciphers) (s : V3Session) : HEv → V3Session
  | .push pdu rawMsg buf => (pushPduV3 D C s pdu rawMsg buf).1
  | .recv m => (unwrapV3 C s m).1
  | .setKeys user aa ak pa pk seed => (s.setKeys D user aa ak pa pk seed).1

def hrun (D : Digests) (C : Ciphers) : V3Session → List HEv → V3Session
  | s, [] => s
  | s, e :: rest => hrun D C (hstep D C s e) rest

/-- the clock the session should hold: that of the most recent message it accepted -/
def lastClock (D : Digests) (C : Ciphers) : V3Session → List HEv → Int × Int
  | s, [] => (s.engineBoots, s.engineTime)
  | s, e :: rest => lastClock D C (hstep D C s e) rest

/-- was the message accepted (delivered to the caller) by the session in this state? -/
def accepted (C : Ciphers) (s : V3Session) (m : V3Msg) : Prop := ∃ pdu, (unwrapV3 C s m).2 = .ok (some pdu)

open Classical in
/-- **C13.step_clock**: one event: the clock changes only by accepting a message, and then to that
message's msgAuthoritativeEngineBoots / Time -/
theorem step_clock (D : Digests) (C : Ciphers) (s : V3Session) (e : HEv) :
    ((hstep D C s e).engineBoots, (hstep D C s e).engineTime) =
      match e with
      | .recv m => if accepted C s m then (m.usm.engineBoots, m.usm.engineTime) else (s.engineBoots, s.engineTime)
      | _ => (s.engineBoots, s.engineTime) := by
  cases e with
  | push pdu rawMsg buf =>
    obtain ⟨_, h2, h3, _, _⟩ := push_frame D C s pdu rawMsg buf
    simp only [hstep, h2, h3]
  | setKeys user aa ak pa pk seed =>
    obtain ⟨_, h2, h3⟩ := setKeys_frame D s user aa ak pa pk seed
    simp only [hstep, h2, h3]
  | recv m =>
    simp only [hstep]
    by_cases h : accepted C s m
    · obtain ⟨pdu, hp⟩ := h
      have := (time_sync C s m).1 pdu hp
      unfold nextState at this
      rw [if_pos (show accepted C s m from ⟨pdu, hp⟩), this.1, this.2]
    · have := (time_sync C s m).2 (fun pdu hp => h ⟨pdu, hp⟩)
      unfold nextState at this
      rw [if_neg h, this.1, this.2]

/-- **C13.engine_sticky_history**: over any history, once the engine id is known it is never replaced -/
theorem engine_sticky_history (D : Digests) (C : Ciphers) : ∀ (evs : List HEv) (s : V3Session),
    s.engineId ≠ [] → (hrun D C s evs).engineId = s.engineId
  | [], _, _ => rfl
  | e :: rest, s, h0 => by
    have hstep_id : (hstep D C s e).engineId = s.engineId := by
      cases e with
      | push pdu rawMsg buf => exact (push_frame D C s pdu rawMsg buf).1
      | setKeys user aa ak pa pk seed => exact (setKeys_frame D s user aa ak pa pk seed).1
      | recv m => exact sticky C s m h0
    simp only [hrun]
    rw [engine_sticky_history D C rest _ (by rw [hstep_id]; exact h0), hstep_id]

/-- **C13.key_sized_history**: over any history that starts from a constructed session, the
authentication key always has its digest's length (what `C09.auth_wire` / `C03.wire_v3` assume) -/
theorem key_sized_history (D : Digests) (C : Ciphers) : ∀ (evs : List HEv) (s : V3Session),
    C09.Sized s.authKey → C09.Sized (hrun D C s evs).authKey
  | [], _, h => h
  | e :: rest, s, h => by
    simp only [hrun]
    apply key_sized_history D C rest
    cases e with
    | push pdu rawMsg buf => simp only [hstep]; rw [(push_frame D C s pdu rawMsg buf).2.2.2.2]; exact h
    | setKeys user aa ak pa pk seed => exact C09.setKeys_sized D s user aa ak pa pk seed h
    | recv m =>
      simp only [hstep]
      have := (unwrap_state C s m).2.2.2.1
      unfold nextState at this
      rw [this]; exact h

/-- **C13.request_stamp_history**: the request built after any history carries the engine id the session
holds, and the boots / time of the most recent accepted message (`step_clock` at every step) -/
theorem request_stamp_history (D : Digests) (C : Ciphers) (s : V3Session) (evs : List HEv) (fr : Bool) (pp : Bytes)
    (data : MsgData) :
    (v3MsgOf (hrun D C s evs) fr pp data).usm.engineId = (hrun D C s evs).engineId ∧
    ((v3MsgOf (hrun D C s evs) fr pp data).usm.engineBoots, (v3MsgOf (hrun D C s evs) fr pp data).usm.engineTime) =
      lastClock D C s evs := by
  refine ⟨rfl, ?_⟩
  induction evs generalizing s with
  | nil => rfl
  | cons e rest ih => simp only [hrun, lastClock]; exact ih _

/-- **C13.deferred_kept**: a discovery probe that is not answered leaves the session exactly as it was:
the deferred user is still there for the next attempt -/
theorem deferred_kept (st : Py.RefreshState) (rest : List Bool) (hd : st.deferred = true) (hv : st.isV3 = true)
    (ht : st.toRefresh = true) :
    (Py.refresh st (false :: rest)).2.2.1 = st ∧ (Py.refresh st (false :: rest)).2.1 = true ∧
    (Py.refresh st []).2.2.1 = st := by
  simp [Py.refresh, hd, hv, ht]

/-- **C13.keys_after_discovery**: `set_keys` happens exactly when a deferred session's probe was
answered, immediately after it, and the session is then no longer deferred -/
theorem keys_after_discovery (st : Py.RefreshState) (outcomes : List Bool) :
    (Py.Act.setKeys ∈ (Py.refresh st outcomes).1 ↔
      (st.isV3 = true ∧ st.toRefresh = true ∧ st.deferred = true ∧ outcomes.head? = some true)) ∧
    (Py.Act.setKeys ∈ (Py.refresh st outcomes).1 → (Py.refresh st outcomes).2.2.1.deferred = false ∧
      ∃ tail, (Py.refresh st outcomes).1 = Py.Act.probe true :: Py.Act.setKeys :: tail) := by
  unfold Py.refresh
  cases hv : st.isV3 <;> cases ht : st.toRefresh <;> cases hd : st.deferred <;> simp
  all_goals (cases outcomes with
    | nil => simp
    | cons o rest =>
      cases o <;> simp
      all_goals (try (cases rest with
        | nil => simp
        | cons o2 rest2 => cases o2 <;> simp)))

/-- a session created with its engine id never defers and never calls `set_keys` -/
theorem configured_never_sets_keys (requireAuth : Bool) (n : Nat) (outcomes : List Bool) :
    ∀ r ∈ (Py.refreshes n (Py.RefreshState.init true requireAuth) outcomes).1, Py.Act.setKeys ∉ r.1 := by
  have hgen : ∀ (n : Nat) (st : Py.RefreshState) (outcomes : List Bool), st.deferred = false →
      ∀ r ∈ (Py.refreshes n st outcomes).1, Py.Act.setKeys ∉ r.1 := by
    intro n
    induction n with
    | zero => intro st o _ r hr; simp [Py.refreshes] at hr
    | succ n ih =>
      intro st o hd r hr
      simp only [Py.refreshes, List.mem_cons] at hr
      have hstep : (Py.refresh st o).2.2.1.deferred = false ∧ Py.Act.setKeys ∉ (Py.refresh st o).1 := by
        unfold Py.refresh
        cases hv : st.isV3 <;> cases ht : st.toRefresh <;> simp [hd]
        all_goals (cases o with
          | nil => simp [hd]
          | cons x xs => cases x <;> simp [hd])
      rcases hr with rfl | hr
      · exact hstep.2
      · exact ih _ _ hstep.1 r hr
  exact hgen n _ outcomes (by simp [Py.RefreshState.init])

end GufoSnmp.C13
