import GufoSnmp.Model.Policer
/-!
# C19 — the rate limiter never lets the request rate exceed rps

Histories: any list of call times in which every call happens at or after the release of
the previous one (sequential use of a monotonic clock). No bound on the length of the history,
on the interval or on the gaps.
-/
namespace GufoSnmp.Policer

/-- every call is made at or after the previous release -/
def Admissible (s : St) (lastRel : Int) : List Int → Prop
  | [] => True
  | ts :: rest =>
    lastRel ≤ ts ∧ Admissible (getTimeout s ts).1 (release ts (getTimeout s ts).2) rest

/-- invariant after a call: slot start `p` ≤ release < `p + delta` -/
def Inv (s : St) (rel : Int) : Prop := ∃ p, s.prev = some p ∧ p ≤ rel ∧ rel < p + s.delta

/-- one step from a state satisfying the invariant -/
theorem step_inv (s : St) (rel ts : Int) (hd : 0 < s.delta) (hi : Inv s rel) (ha : rel ≤ ts) :
    Inv (getTimeout s ts).1 (release ts (getTimeout s ts).2) ∧ (getTimeout s ts).1.delta = s.delta ∧
    release ts (getTimeout s ts).2 - ts ≤ s.delta ∧ ts ≤ release ts (getTimeout s ts).2 ∧
    (∃ p p', s.prev = some p ∧ (getTimeout s ts).1.prev = some p' ∧ p + s.delta ≤ p') := by
  obtain ⟨p, hp, h1, h2⟩ := hi
  simp only [getTimeout, hp]
  have he : ¬ (ts - p < 0) := by omega
  simp only [he, ite_false]
  split
  · rename_i h
    simp only [release]
    have : s.delta - (ts - p) > 0 := by omega
    simp only [this, ite_true]
    refine ⟨⟨p + s.delta, rfl, by omega, by simp only; omega⟩, trivial, by omega, by omega,
      p, _, rfl, rfl, by omega⟩
  · rename_i h
    simp only [release]
    have hq : 1 ≤ (ts - p) / s.delta := by
      apply Int.le_ediv_of_mul_le hd; omega
    have hm := Int.emod_add_mul_ediv (ts - p) s.delta
    have hm0 := Int.emod_nonneg (ts - p) (Int.ne_of_gt hd)
    have hm1 := Int.emod_lt_of_pos (ts - p) hd
    have hmul : s.delta * 1 ≤ s.delta * ((ts - p) / s.delta) :=
      Int.mul_le_mul_of_nonneg_left hq (Int.le_of_lt hd)
    refine ⟨⟨_, rfl, ?_, ?_⟩, ?_, ?_, ?_, ?_⟩
    · omega
    · simp only; omega
    · trivial
    · omega
    · omega
    · exact ⟨p, _, rfl, rfl, by omega⟩

/-- the very first call of a fresh policer passes immediately and establishes the invariant -/
theorem first_inv (s : St) (ts : Int) (hd : 0 < s.delta) (h0 : s.prev = none) :
    Inv (getTimeout s ts).1 (release ts (getTimeout s ts).2) ∧ (getTimeout s ts).1.delta = s.delta ∧
    release ts (getTimeout s ts).2 = ts := by
  simp only [getTimeout, h0, release]
  exact ⟨⟨ts, rfl, by omega, by simp only; omega⟩, trivial, trivial⟩

/-- **C19.delay_le**: no call is delayed by more than one interval, and never released early. -/
theorem delay_le (s : St) (rel : Int) (tss : List Int) (hd : 0 < s.delta) (hi : Inv s rel)
    (ha : Admissible s rel tss) :
    ∀ (k : Nat) (ts r : Int), tss[k]? = some ts → (run s tss)[k]? = some r → ts ≤ r ∧ r - ts ≤ s.delta := by
  induction tss generalizing s rel with
  | nil => intro k ts r h; simp at h
  | cons t rest ih =>
    obtain ⟨hle, hrest⟩ := ha
    obtain ⟨hinv, hdel, hdl, hge, _⟩ := step_inv s rel t hd hi hle
    intro k ts r hk hr
    cases k with
    | zero =>
      simp only [List.getElem?_cons_zero, Option.some.injEq] at hk
      simp only [run, List.getElem?_cons_zero, Option.some.injEq] at hr
      subst hk; subst hr; exact ⟨hge, hdl⟩
    | succ k =>
      simp only [List.getElem?_cons_succ] at hk
      simp only [run, List.getElem?_cons_succ] at hr
      have := ih (getTimeout s t).1 _ (by rw [hdel]; exact hd) hinv hrest k ts r hk hr
      rw [hdel] at this; exact this

/-- after a state with slot `p`, the k-th later release is at least `p + (k+1)·delta` -/
theorem run_lower (s : St) (rel p : Int) (tss : List Int) (hd : 0 < s.delta)
    (hp : s.prev = some p) (h1 : p ≤ rel) (h2 : rel < p + s.delta) (ha : Admissible s rel tss) :
    ∀ (k : Nat) (r : Int), (run s tss)[k]? = some r → p + ((k : Int) + 1) * s.delta ≤ r := by
  induction tss generalizing s rel p with
  | nil => intro k r h; simp [run] at h
  | cons t rest ih =>
    obtain ⟨hle, hrest⟩ := ha
    obtain ⟨⟨p', hp', hl', hu'⟩, hdel, _, _, ⟨q, q', hq, hq', hqq⟩⟩ :=
      step_inv s rel t hd ⟨p, hp, h1, h2⟩ hle
    rw [hp] at hq; cases hq
    rw [hp'] at hq'; cases hq'
    intro k r hr
    cases k with
    | zero =>
      simp only [run, List.getElem?_cons_zero, Option.some.injEq] at hr
      subst hr; simp only [Int.natCast_zero, Int.zero_add, Int.one_mul]; omega
    | succ k =>
      simp only [run, List.getElem?_cons_succ] at hr
      have := ih (getTimeout s t).1 _ p' (by rw [hdel]; exact hd) hp' hl' hu'
        hrest k r hr
      rw [hdel] at this
      have e : ((k + 1 : Nat) : Int) + 1 = ((k : Int) + 1) + 1 := by omega
      rw [e, Int.add_mul, Int.one_mul]
      omega

/-- every later element `x` at distance `k` (0-based) from `r` satisfies `x - r > k·δ` -/
def SpacedFrom (δ r : Int) : Nat → List Int → Prop
  | _, [] => True
  | k, x :: xs => x - r > (k : Int) * δ ∧ SpacedFrom δ r (k + 1) xs

/-- all pairs `i < j`: `l[j] - l[i] > (j - i - 1)·δ` -/
def Spaced (δ : Int) : List Int → Prop
  | [] => True
  | r :: rs => SpacedFrom δ r 0 rs ∧ Spaced δ rs

theorem spacedFrom_of_lower (δ r base : Int) (n : Nat) (l : List Int)
    (h : ∀ (k : Nat) (x : Int), l[k]? = some x → base + ((k : Int) + 1) * δ ≤ x)
    (hb : r < base + δ - (n : Int) * δ) : SpacedFrom δ r n l := by
  induction l generalizing n base with
  | nil => trivial
  | cons x xs ih =>
    refine ⟨?_, ?_⟩
    · have := h 0 x rfl
      simp only [Int.natCast_zero, Int.zero_add, Int.one_mul] at this
      omega
    · apply ih (base + δ) (n + 1)
      · intro k y hy
        have := h (k + 1) y (by simpa using hy)
        have e : ((k + 1 : Nat) : Int) + 1 = ((k : Int) + 1) + 1 := by omega
        rw [e, Int.add_mul, Int.one_mul] at this
        omega
      · have e : ((n + 1 : Nat) : Int) * δ = (n : Int) * δ + δ := by
          rw [Int.natCast_add, Int.add_mul]; simp
        rw [e]; omega

theorem run_spaced_inv (s : St) (rel : Int) (tss : List Int) (hd : 0 < s.delta) (hi : Inv s rel)
    (ha : Admissible s rel tss) : Spaced s.delta (run s tss) := by
  induction tss generalizing s rel with
  | nil => trivial
  | cons t rest ih =>
    obtain ⟨hle, hrest⟩ := ha
    obtain ⟨hinv, hdel, _, _, _⟩ := step_inv s rel t hd hi hle
    obtain ⟨p', hp', hl', hu'⟩ := hinv
    refine ⟨?_, ?_⟩
    · apply spacedFrom_of_lower s.delta _ p' 0 _
      · intro k x hx
        have := run_lower (getTimeout s t).1 _ p' rest (by rw [hdel]; exact hd) hp' hl' hu' hrest k x hx
        rw [hdel] at this; exact this
      · rw [hdel] at hu'; simp only [Int.natCast_zero, Int.zero_mul]; omega
    · have := ih (getTimeout s t).1 _ (by rw [hdel]; exact hd) ⟨p', hp', hl', hu'⟩ hrest
      rw [hdel] at this; exact this

/-- histories of a freshly constructed policer: non-decreasing-by-release call times -/
def AdmissibleFresh (s : St) : List Int → Prop
  | [] => True
  | ts :: rest => Admissible (getTimeout s ts).1 (release ts (getTimeout s ts).2) rest

/-- **C19.window** (recursive form): in every admissible history of a fresh policer, any two
releases `i < j` are more than `(j - i - 1)` intervals apart. -/
theorem window (s : St) (tss : List Int) (hd : 0 < s.delta) (h0 : s.prev = none)
    (ha : AdmissibleFresh s tss) : Spaced s.delta (run s tss) := by
  cases tss with
  | nil => trivial
  | cons t rest =>
    obtain ⟨hinv, hdel, _⟩ := first_inv s t hd h0
    obtain ⟨p', hp', hl', hu'⟩ := hinv
    refine ⟨?_, ?_⟩
    · apply spacedFrom_of_lower s.delta _ p' 0 _
      · intro k x hx
        have := run_lower (getTimeout s t).1 _ p' rest (by rw [hdel]; exact hd) hp' hl' hu' ha k x hx
        rw [hdel] at this; exact this
      · rw [hdel] at hu'; simp only [Int.natCast_zero, Int.zero_mul]; omega
    · have := run_spaced_inv (getTimeout s t).1 _ rest (by rw [hdel]; exact hd) ⟨p', hp', hl', hu'⟩ ha
      rw [hdel] at this; exact this

theorem spacedFrom_index (δ r : Int) (n : Nat) (l : List Int) (h : SpacedFrom δ r n l) :
    ∀ (k : Nat) (x : Int), l[k]? = some x → x - r > ((n + k : Nat) : Int) * δ := by
  induction l generalizing n with
  | nil => intro k x hx; simp at hx
  | cons y ys ih =>
    intro k x hx
    cases k with
    | zero => simp only [List.getElem?_cons_zero, Option.some.injEq] at hx; subst hx; exact h.1
    | succ k =>
      have := ih (n + 1) h.2 k x (by simpa using hx)
      have e : n + 1 + k = n + (k + 1) := by omega
      rw [e] at this; exact this

/-- index form of `Spaced`: `l[i + 1 + k] - l[i] > k·δ`, i.e. any `k + 2` consecutive
releases span more than `k` intervals. -/
theorem spaced_index (δ : Int) (l : List Int) (h : Spaced δ l) :
    ∀ (i k : Nat) (a b : Int), l[i]? = some a → l[i + 1 + k]? = some b → b - a > (k : Int) * δ := by
  induction l with
  | nil => intro i k a b ha; simp at ha
  | cons y ys ih =>
    intro i k a b ha hb
    cases i with
    | zero =>
      simp only [List.getElem?_cons_zero, Option.some.injEq] at ha; subst ha
      have hb' : ys[k]? = some b := by
        have : 0 + 1 + k = k + 1 := by omega
        rw [this] at hb; simpa using hb
      have := spacedFrom_index δ y 0 ys h.1 k b hb'
      simpa using this
    | succ i =>
      have ha' : ys[i]? = some a := by simpa using ha
      have hb' : ys[i + 1 + k]? = some b := by
        have : i + 1 + 1 + k = (i + 1 + k) + 1 := by omega
        rw [this] at hb; simpa using hb
      exact ih h.2 i k a b ha' hb'

/-- **C19.window_index**: the statement of the property in index form. -/
theorem window_index (s : St) (tss : List Int) (hd : 0 < s.delta) (h0 : s.prev = none)
    (ha : AdmissibleFresh s tss) :
    ∀ (i k : Nat) (a b : Int), (run s tss)[i]? = some a → (run s tss)[i + 1 + k]? = some b →
      b - a > (k : Int) * s.delta :=
  spaced_index s.delta _ (window s tss hd h0 ha)

/-- **C19.delay_le_fresh**: delay bound over whole histories of a fresh policer. -/
theorem delay_le_fresh (s : St) (tss : List Int) (hd : 0 < s.delta) (h0 : s.prev = none)
    (ha : AdmissibleFresh s tss) :
    ∀ (k : Nat) (ts r : Int), tss[k]? = some ts → (run s tss)[k]? = some r → ts ≤ r ∧ r - ts ≤ s.delta := by
  cases tss with
  | nil => intro k ts r h; simp at h
  | cons t rest =>
    obtain ⟨hinv, hdel, hrel⟩ := first_inv s t hd h0
    intro k ts r hk hr
    cases k with
    | zero =>
      simp only [List.getElem?_cons_zero, Option.some.injEq] at hk
      simp only [run, List.getElem?_cons_zero, Option.some.injEq] at hr
      subst hk; subst hr; rw [hrel]; omega
    | succ k =>
      simp only [List.getElem?_cons_succ] at hk
      simp only [run, List.getElem?_cons_succ] at hr
      have := delay_le (getTimeout s t).1 _ rest (by rw [hdel]; exact hd) hinv ha k ts r hk hr
      rw [hdel] at this; exact this

/-- **C19.release_exact**: the functional specification of one call. With slot start `p` and a
call at `ts ≥ p`, the request is released at exactly `max ts (p + δ)` — the end of the running
slot when it comes early, at once when it comes after it — and the new slot start stays on the
grid `p + k·δ`, `k ≥ 1`, with the release inside the new slot. -/
theorem release_exact (s : St) (p ts : Int) (hd : 0 < s.delta) (hp : s.prev = some p)
    (hts : p ≤ ts) :
    release ts (getTimeout s ts).2 = max ts (p + s.delta) ∧
    ∃ k : Int, 1 ≤ k ∧ (getTimeout s ts).1.prev = some (p + s.delta * k) ∧
      p + s.delta * k ≤ release ts (getTimeout s ts).2 ∧
      release ts (getTimeout s ts).2 < p + s.delta * k + s.delta := by
  simp only [getTimeout, hp]
  have he : ¬ (ts - p < 0) := by omega
  simp only [he, ite_false]
  split
  · rename_i h
    simp only [release]
    have : s.delta - (ts - p) > 0 := by omega
    simp only [this, ite_true]
    refine ⟨by omega, 1, by omega, by simp, by simp; omega, by simp; omega⟩
  · rename_i h
    simp only [release]
    have hq : 1 ≤ (ts - p) / s.delta := by
      apply Int.le_ediv_of_mul_le hd; omega
    have hm := Int.emod_add_mul_ediv (ts - p) s.delta
    have hm0 := Int.emod_nonneg (ts - p) (Int.ne_of_gt hd)
    have hm1 := Int.emod_lt_of_pos (ts - p) hd
    refine ⟨by omega, (ts - p) / s.delta, hq, rfl, by omega, by omega⟩

/-- **C19.idle_passes**: a call that arrives after the running slot has ended is not delayed. -/
theorem idle_passes (s : St) (p ts : Int) (hd : 0 < s.delta) (hp : s.prev = some p)
    (hts : p + s.delta ≤ ts) : release ts (getTimeout s ts).2 = ts := by
  have := (release_exact s p ts hd hp (by omega)).1
  omega

/-- **C19.run_length**: every call of a history is released exactly once. -/
theorem run_length (s : St) (tss : List Int) : (run s tss).length = tss.length := by
  induction tss generalizing s with
  | nil => rfl
  | cons t rest ih => simp only [run, List.length_cons, ih]

/-- **C19.rate_bound**: the long-run reading of the property. If `k + 2` releases of a history of a
fresh policer all fall inside a time window of length `W`, then `k·δ < W`: a window of `W` nanoseconds
holds fewer than `W/δ + 2` releases, whatever the history. -/
theorem rate_bound (s : St) (tss : List Int) (hd : 0 < s.delta) (h0 : s.prev = none)
    (ha : AdmissibleFresh s tss) (i k : Nat) (a b W : Int)
    (hi : (run s tss)[i]? = some a) (hj : (run s tss)[i + 1 + k]? = some b) (hw : b - a ≤ W) :
    (k : Int) * s.delta < W := by
  have := window_index s tss hd h0 ha i k a b hi hj
  omega

/-- **C19.releases_increasing**: consecutive releases of a history are strictly increasing — requests leave
in the order they were asked for and no two at the same instant. -/
theorem releases_increasing (s : St) (tss : List Int) (hd : 0 < s.delta) (h0 : s.prev = none)
    (ha : AdmissibleFresh s tss) (i : Nat) (a b : Int)
    (hi : (run s tss)[i]? = some a) (hj : (run s tss)[i + 1]? = some b) : a < b := by
  have := window_index s tss hd h0 ha i 0 a b hi (by simpa using hj)
  simp only [Int.natCast_zero, Int.zero_mul] at this
  omega

/-- **C19.ctor**: non-positive rates and rates above 10^9 (interval truncates to 0) are
refused; every constructed policer has a positive interval and no history. -/
theorem ctor_refuses (pos : Bool) (q : Int) (hq : 0 ≤ q) :
    (ctor pos q = none ↔ (pos = false ∨ q = 0)) ∧
    (∀ s, ctor pos q = some s → 0 < s.delta ∧ s.prev = none ∧ s.delta = q) := by
  unfold ctor
  cases pos <;> simp
  by_cases h : q = 0
  · simp [h]
  · simp [h]; omega

/-! Non-vacuity: a concrete admissible history with short, exact and long gaps. -/
example : AdmissibleFresh ⟨none, 100⟩ [0, 10, 150, 200, 1000] := by
  simp [AdmissibleFresh, Admissible, getTimeout, release]
example : run ⟨none, 100⟩ [0, 10, 150, 200, 1000] = [0, 100, 200, 300, 1000] := by
  simp [run, getTimeout, release]

/-! Non-vacuity of `release_exact` / `idle_passes`: an early call and a call two slots late. -/
example : release 10 (getTimeout ⟨some 0, 100⟩ 10).2 = max 10 (0 + 100) ∧ (0 : Int) < 100 ∧ (0 : Int) ≤ 10 := by decide
example : release 250 (getTimeout ⟨some 0, 100⟩ 250).2 = 250 ∧ (getTimeout ⟨some 0, 100⟩ 250).1.prev = some 200 := by decide

end GufoSnmp.Policer
