import GufoSnmp.Model.PyClient
import GufoSnmp.Lemmas.TotalOp
/-!
# C07 — get / get_many results and SNMP exceptions map as documented

All replies: any number of varbinds, any mix of data values, NULL and the three exception
values, any names, duplicates.
-/
namespace GufoSnmp.C07
open GufoSnmp Gen

/-- **C07.get_table** -/
theorem get_table (r es ei : Int) (vars : List VarBind) :
    opGetToPython (.getResponse r es ei vars) =
      match vars with
      | [] => .value (.scalar .none)
      | [var] =>
        if var.value = .null then .value (.scalar .none)
        else if var.value = .noSuchObject ∨ var.value = .noSuchInstance ∨ var.value = .endOfMibView then
          .raise .NoSuchInstance
        else liftErr (valueToPy var.value) (fun s => .value (.scalar s))
      | _ :: _ :: _ => .raise .SnmpDecodeError := by
  match vars with
  | [] => rfl
  | [var] =>
    simp only [opGetToPython]
    cases hv : var.value <;> simp [pyClass]
  | _ :: _ :: _ => rfl

/-- a data value never raises `NoSuchInstance` and `get` on it never panics -/
theorem get_data (r es ei : Int) (var : VarBind) (hd : var.value.isData = true) :
    opGetToPython (.getResponse r es ei [var]) = liftErr (valueToPy var.value) (fun s => .value (.scalar s)) := by
  simp only [opGetToPython]
  cases hv : var.value <;> simp_all [Value.isData]

/-- the dict `get_many` builds from a list of varbinds: data values only, keyed by dotted
text, later bindings of the same key replace earlier ones (specification) -/
def dictSpec : List VarBind → List (Bytes × PyScalar) → Option (List (Bytes × PyScalar))
  | [], acc => some acc
  | var :: more, acc =>
    if !var.value.isData then dictSpec more acc
    else match oidToStr var.oid, valueToPy var.value with
      | .ok k, .ok v => dictSpec more (dictSet acc k v)
      | _, _ => none

/-- **C07.get_many_dict**: when every data varbind converts, the result is exactly the dict
of the data varbinds; otherwise `RuntimeError` -/
theorem get_many_dict : ∀ (vars : List VarBind) (acc : List (Bytes × PyScalar)),
    getManyLoop vars acc =
      match dictSpec vars acc with
      | some d => .value (.dict d)
      | none => .raise .RuntimeError
  | [], acc => rfl
  | var :: more, acc => by
    unfold getManyLoop dictSpec
    split
    · exact get_many_dict more acc
    · rename_i hd
      have hdata : var.value.isData = true := by simpa using hd
      cases hk : oidToStr var.oid with
      | ok k =>
        cases hv : valueToPy var.value with
        | ok v => simp only; exact get_many_dict more _
        | err e => rfl
        | panic w =>
          have := valueToPy_np var.value hdata; rw [hv] at this; exact absurd this (np_panic w)
      | err e => rfl
      | panic w =>
        have := oidToStr_np var.oid; rw [hk] at this; exact absurd this (np_panic w)

/-- keys of the accumulated dict stay unique: a later binding replaces, never duplicates -/
theorem dictSet_keys (kvs : List (Bytes × PyScalar)) (k : Bytes) (v : PyScalar)
    (h : (kvs.map (·.1)).Nodup) : ((dictSet kvs k v).map (·.1)).Nodup := by
  unfold dictSet
  split
  · have : (kvs.map (fun kv => if kv.1 = k then (k, v) else kv)).map (·.1) = kvs.map (·.1) := by
      rw [List.map_map]
      apply List.map_congr_left
      intro kv _
      simp only [Function.comp]
      split
      · rename_i he; exact he.symm
      · rfl
    rw [this]; exact h
  · rename_i hany
    simp only [List.map_append, List.map_cons, List.map_nil]
    rw [List.nodup_append]
    refine ⟨h, by simp, ?_⟩
    intro a ha b hb
    simp only [List.mem_singleton] at hb
    subst hb
    intro heq
    subst heq
    apply hany
    simp only [List.any_eq_true, decide_eq_true_eq]
    obtain ⟨kv, hkv, hk⟩ := List.mem_map.mp ha
    exact ⟨kv, hkv, hk⟩

/-- **C07.report_auth**: a Report in place of a response raises `SnmpAuthError` for get,
get_many, getnext, getbulk -/
theorem report_auth (body : Bytes) (it : GetIter) :
    opGetToPython (.report body) = .raise .SnmpAuthError ∧
    opGetManyToPython (.report body) = .raise .SnmpAuthError ∧
    (opGetNextToPython (.report body) (some it)).1 = .raise .SnmpAuthError ∧
    (opGetBulkToPython (.report body) (some it)).1 = .raise .SnmpAuthError := by
  refine ⟨rfl, rfl, rfl, rfl⟩

/-- a request PDU echoed back is rejected with `SnmpDecodeError` (an `SnmpError`) -/
theorem request_rejected (r : Int) (vars : List Bytes) :
    opGetToPython (.getRequest r vars) = .raise .SnmpDecodeError ∧
    opGetManyToPython (.getRequest r vars) = .raise .SnmpDecodeError := ⟨rfl, rfl⟩

/-- **C07.timeout_map**: the sync client turns `BlockingIOError` into `TimeoutError` and
passes everything else through -/
theorem timeout_map (r : PyOut) :
    Py.mapTimeout r = (if r = .raise .BlockingIOError then .raise .TimeoutError else r) := by
  unfold Py.mapTimeout
  split
  · simp
  · rename_i h
    rw [if_neg]
    intro he; exact h he

/-- the SNMP exception classes derive from `SnmpError` -/
theorem hierarchy : pyBase .NoSuchInstance = .SnmpError ∧ pyBase .SnmpAuthError = .SnmpError ∧
    pyBase .SnmpDecodeError = .SnmpError := by decide

/-! Non-vacuity -/
example : opGetToPython (.getResponse 1 0 0 [⟨[43, 6], .int 42⟩]) = .value (.scalar (.int 42)) := by decide
example : opGetToPython (.getResponse 1 0 0 [⟨[43, 6], .noSuchObject⟩]) = .raise .NoSuchInstance := by decide

/-! ## the async client's receive loop -/

theorem asyncRecv_cons_ne (a : PyOut) (rest : List PyOut) (h : a ≠ .raise .BlockingIOError) :
    Py.asyncRecv (a :: rest) = a := by
  cases a with
  | value v => rfl
  | panic w => rfl
  | raise e => cases e <;> first | rfl | exact absurd rfl h

/-- **C07.async_recv**: the awaited call ends with the FIRST outcome of the socket that is not
"nothing for me yet" — value or exception, unchanged — and with `TimeoutError` when there is none
before the deadline; it never surfaces `BlockingIOError` -/
theorem async_recv (attempts : List PyOut) :
    Py.asyncRecv attempts ≠ .raise .BlockingIOError ∧
    (∀ (pre : List PyOut) (r : PyOut) (post : List PyOut), attempts = pre ++ r :: post →
      (∀ x ∈ pre, x = .raise .BlockingIOError) → r ≠ .raise .BlockingIOError → Py.asyncRecv attempts = r) ∧
    ((∀ x ∈ attempts, x = .raise .BlockingIOError) → Py.asyncRecv attempts = .raise .TimeoutError) := by
  refine ⟨?_, ?_, ?_⟩
  · induction attempts with
    | nil => simp [Py.asyncRecv]
    | cons a rest ih =>
      by_cases h : a = .raise .BlockingIOError
      · subst h; simpa [Py.asyncRecv] using ih
      · rw [asyncRecv_cons_ne a rest h]; exact h
  · intro pre
    induction pre generalizing attempts with
    | nil =>
      intro r post he _ hr
      subst he
      exact asyncRecv_cons_ne r post hr
    | cons p pre' ih =>
      intro r post he hp hr
      subst he
      have hp0 : p = .raise .BlockingIOError := hp p (by simp)
      subst hp0
      simp only [List.cons_append, Py.asyncRecv]
      exact ih _ r post rfl (fun x hx => hp x (by simp [hx])) hr
  · induction attempts with
    | nil => intro _; rfl
    | cons a rest ih =>
      intro h
      have ha : a = .raise .BlockingIOError := h a (by simp)
      subst ha
      simp only [Py.asyncRecv]
      exact ih (fun x hx => h x (by simp [hx]))

/-! ## `get_many` as a mapping: an independent reading of the dict -/

/-- value stored under a key (first entry with that key; `dictSet_keys`: there is at most one) -/
def dlook (key : Bytes) : List (Bytes × PyScalar) → Option PyScalar
  | [] => none
  | (k, v) :: rest => if k = key then some v else dlook key rest

theorem dlook_append_miss (key : Bytes) (kvs : List (Bytes × PyScalar)) (k : Bytes) (v : PyScalar)
    (h : dlook key kvs = none) : dlook key (kvs ++ [(k, v)]) = if k = key then some v else none := by
  induction kvs with
  | nil => simp [dlook]
  | cons kv rest ih =>
    obtain ⟨k0, v0⟩ := kv
    simp only [dlook] at h ⊢
    split at h
    · cases h
    · rename_i hne
      simp only [List.cons_append, dlook, hne, if_false]
      exact ih h

theorem dlook_append_hit (key : Bytes) (kvs more : List (Bytes × PyScalar)) (v : PyScalar)
    (h : dlook key kvs = some v) : dlook key (kvs ++ more) = some v := by
  induction kvs with
  | nil => simp [dlook] at h
  | cons kv rest ih =>
    obtain ⟨k0, v0⟩ := kv
    simp only [dlook] at h
    simp only [List.cons_append, dlook]
    split
    · rename_i he; rw [if_pos he] at h; exact h
    · rename_i hne; rw [if_neg hne] at h; exact ih h

theorem any_iff_dlook (kvs : List (Bytes × PyScalar)) (k : Bytes) :
    kvs.any (fun kv => kv.1 = k) = (dlook k kvs).isSome := by
  induction kvs with
  | nil => rfl
  | cons kv rest ih =>
    obtain ⟨k0, v0⟩ := kv
    simp only [List.any_cons, dlook]
    by_cases he : k0 = k
    · simp [he]
    · simp [he, ih]

/-- **C07.dictSet_lookup**: `dict[k] = v` — afterwards `k` maps to `v` and every other key to what it
mapped to before -/
theorem dictSet_lookup (kvs : List (Bytes × PyScalar)) (k : Bytes) (v : PyScalar) (key : Bytes) :
    dlook key (dictSet kvs k v) = if key = k then some v else dlook key kvs := by
  unfold dictSet
  have hany := any_iff_dlook kvs k
  split
  · rename_i ha
    -- some entry has key k: the mapped list
    clear hany
    induction kvs with
    | nil => simp at ha
    | cons kv rest ih =>
      obtain ⟨k0, v0⟩ := kv
      simp only [List.map_cons]
      by_cases h0 : k0 = k
      · subst h0
        simp only [if_true, dlook]
        by_cases hk : key = k0
        · subst hk; simp
        · have : ¬ k0 = key := fun e => hk e.symm
          simp only [this, if_false, hk]
          -- rest: mapping does not change other keys
          have hrest : ∀ (l : List (Bytes × PyScalar)),
              dlook key (l.map (fun kv => if kv.1 = k0 then (k0, v) else kv)) = dlook key l := by
            intro l
            induction l with
            | nil => rfl
            | cons x xs ihx =>
              obtain ⟨a, b⟩ := x
              simp only [List.map_cons, dlook]
              by_cases ha0 : a = k0
              · subst ha0; simp only [if_true, dlook, this, if_false]; exact ihx
              · simp only [ha0, if_false, dlook]; rw [ihx]
          exact hrest rest
      · have har : rest.any (fun kv => kv.1 = k) = true := by
          simp only [List.any_cons, h0, decide_false, Bool.false_or] at ha; exact ha
        simp only [h0, if_false, dlook]
        by_cases hk : k0 = key
        · have : ¬ key = k := fun e => h0 (hk.trans e)
          simp [hk, this]
        · simp only [hk, if_false]
          exact ih har
  · rename_i ha
    have hnone : dlook k kvs = none := by
      rw [hany] at ha
      cases h : dlook k kvs with
      | none => rfl
      | some x => rw [h] at ha; simp at ha
    by_cases hk : key = k
    · subst hk
      rw [dlook_append_miss key kvs key v hnone]; simp
    · simp only [hk, if_false]
      cases hl : dlook key kvs with
      | none =>
        rw [dlook_append_miss key kvs k v hl]
        have : ¬ k = key := fun e => hk e.symm
        simp [this]
      | some x => exact dlook_append_hit key kvs _ x hl

/-- the value the last data varbind named `key` carries, if any (specification, reads the reply only) -/
def lastBinding (key : Bytes) : List VarBind → Option PyScalar → Option PyScalar
  | [], cur => cur
  | var :: more, cur =>
    if !var.value.isData then lastBinding key more cur
    else match oidToStr var.oid, valueToPy var.value with
      | .ok k, .ok v => lastBinding key more (if key = k then some v else cur)
      | _, _ => lastBinding key more cur

/-- **C07.get_many_mapping**: the dict `get_many` returns maps a dotted name to the value of the LAST
data varbind of the reply that carries that name (NULL / noSuch* / endOfMibView varbinds contribute
nothing), and to nothing if no data varbind carries it -/
theorem get_many_mapping : ∀ (vars : List VarBind) (acc d : List (Bytes × PyScalar)) (key : Bytes),
    dictSpec vars acc = some d → dlook key d = lastBinding key vars (dlook key acc)
  | [], acc, d, key, h => by
    simp only [dictSpec, Option.some.injEq] at h
    subst h; rfl
  | var :: more, acc, d, key, h => by
    unfold dictSpec at h
    unfold lastBinding
    split at h
    · rename_i hd
      rw [if_pos hd]
      exact get_many_mapping more acc d key h
    · rename_i hd
      rw [if_neg hd]
      cases hk : oidToStr var.oid with
      | ok k =>
        cases hv : valueToPy var.value with
        | ok v =>
          rw [hk, hv] at h
          simp only at h ⊢
          rw [get_many_mapping more _ d key h, dictSet_lookup]
        | err e => rw [hk, hv] at h; simp at h
        | panic w => rw [hk, hv] at h; simp at h
      | err e => rw [hk] at h; simp at h
      | panic w => rw [hk] at h; simp at h

end GufoSnmp.C07
