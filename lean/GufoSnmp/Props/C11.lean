import GufoSnmp.Lemmas.PrivSpec
import GufoSnmp.Lemmas.RoundTrip
/-!
# C11 — encrypted payloads are exactly the scoped PDU under RFC 3414 / RFC 3826

Block ciphers are parameters (`Ciphers`, contract `Ciphers.WF`: whole blocks, DES decryption
inverts DES encryption). `Spec.cbcEncrypt` / `Spec.cfbEncrypt` are written independently.
Every request, every key, every salt, every boots / time, ANY contents of the cipher object's
private buffer (i.e. any earlier history of sends, receives and failures).
-/
namespace GufoSnmp.C11
open GufoSnmp Gen Outcome

/-- the model's mode functions are the specification's -/
theorem cbc_is_spec (E : Bytes → Bytes) : ∀ (ps : List Bytes) (iv : Bytes),
    cbcEncBlocks E iv ps = Spec.cbcEncrypt E iv ps
  | [], _ => rfl
  | p :: ps, iv => by
    simp only [cbcEncBlocks, Spec.cbcEncrypt]
    congr 1
    exact cbc_is_spec E ps _

theorem cfb_is_spec (E : Bytes → Bytes) : ∀ (ps : List Bytes) (iv : Bytes),
    cfbEncBlocks E iv ps = Spec.cfbEncrypt E iv ps
  | [], _ => rfl
  | p :: ps, iv => by
    simp only [cfbEncBlocks, Spec.cfbEncrypt]
    congr 1
    exact cfb_is_spec E ps _

/-- **C11.des_encrypt**: msgData = DES-CBC, key = Kul[0..8], IV = Kul[8..16] ⊕ salt, salt = boots ‖
counter, of the scoped PDU followed by fewer than 8 zero octets — for any private-buffer history -/
theorem des_encrypt (C : Ciphers) (key preIv : Bytes) (salt : Nat) (buf : Buf) (s : ScopedPdu) (e : Bytes)
    (boots time : Nat) (he : encScoped s = some e) (hfit : e.length + 8 ≤ Buf.cap) :
    ((PrivKey.des key preIv salt buf).encrypt C s boots time).2 =
      .ok (cbcEnc (C.desEnc key) (xorBytes (beBytes 4 (boots % 2 ^ 32) ++ beBytes 4 salt) preIv)
             (e ++ List.replicate (padLen 8 e.length) 0),
           beBytes 4 (boots % 2 ^ 32) ++ beBytes 4 salt) ∧ padLen 8 e.length < 8 := by
  obtain ⟨b', hs, _⟩ := privSerialize_spec 8 (by decide) buf s e he hfit
  refine ⟨?_, padLen_lt 8 _ (by decide)⟩
  simp only [PrivKey.encrypt]
  have : desBlockSize = 8 := rfl
  rw [this, hs]

/-- **C11.aes_encrypt**: msgData = AES-128-CFB, IV = boots ‖ time ‖ 64-bit counter, of the scoped
PDU followed by fewer than 16 zero octets; the transmitted salt is the counter -/
theorem aes_encrypt (C : Ciphers) (key : Bytes) (salt : Nat) (buf : Buf) (s : ScopedPdu) (e : Bytes)
    (boots time : Nat) (he : encScoped s = some e) (hfit : e.length + 16 ≤ Buf.cap) :
    ((PrivKey.aes key salt buf).encrypt C s boots time).2 =
      .ok (cfbEnc (C.aesEnc key) (beBytes 4 (boots % 2 ^ 32) ++ beBytes 4 (time % 2 ^ 32) ++ beBytes 8 salt)
             (e ++ List.replicate (padLen 16 e.length) 0),
           (beBytes 4 (boots % 2 ^ 32) ++ beBytes 4 (time % 2 ^ 32) ++ beBytes 8 salt).drop 8) ∧
    padLen 16 e.length < 16 := by
  obtain ⟨b', hs, _⟩ := privSerialize_spec 16 (by decide) buf s e he hfit
  refine ⟨?_, padLen_lt 16 _ (by decide)⟩
  simp only [PrivKey.encrypt]
  have : aesBlockSize = 16 := rfl
  rw [this, hs]

/-- **C11.history_free**: the ciphertext does not depend on what the cipher object's private
buffer held before (earlier requests, decrypted replies, failed attempts) -/
theorem history_free (C : Ciphers) (key preIv : Bytes) (salt : Nat) (buf1 buf2 : Buf) (s : ScopedPdu) (e : Bytes)
    (boots time : Nat) (he : encScoped s = some e) (hfit : e.length + 16 ≤ Buf.cap) :
    ((PrivKey.des key preIv salt buf1).encrypt C s boots time).2 =
      ((PrivKey.des key preIv salt buf2).encrypt C s boots time).2 ∧
    ((PrivKey.aes key salt buf1).encrypt C s boots time).2 = ((PrivKey.aes key salt buf2).encrypt C s boots time).2 := by
  constructor
  · rw [(des_encrypt C key preIv salt buf1 s e boots time he (by omega)).1,
      (des_encrypt C key preIv salt buf2 s e boots time he (by omega)).1]
  · rw [(aes_encrypt C key salt buf1 s e boots time he hfit).1, (aes_encrypt C key salt buf2 s e boots time he hfit).1]

/-- **C11.modes_invert**: CBC / CFB decryption as the library applies it inverts the encryption -/
theorem modes_invert (C : Ciphers) (hC : C.WF) (key : Bytes) :
    (∀ (ps : List Bytes) (iv : Bytes), iv.length = 8 → (∀ p ∈ ps, p.length = 8) →
      cbcDecBlocks (C.desDec key) iv (cbcEncBlocks (C.desEnc key) iv ps) = ps) ∧
    (∀ (ps : List Bytes) (iv : Bytes), (∀ p ∈ ps, p.length ≤ 16) →
      cfbDecBlocks (C.aesEnc key) iv (cfbEncBlocks (C.aesEnc key) iv ps) = ps) :=
  ⟨cbc_inverse _ _ (hC.des_inv key) (hC.desEnc_len key), cfb_inverse _ (hC.aesEnc_len key)⟩

/-- what `decrypt` parses is followed by padding it ignores: a scoped PDU followed by any octets
decodes to that scoped PDU -/
theorem scoped_roundtrip (s : ScopedPdu) (e pad : Bytes) (hr : s.pdu.InRange) (he : encScoped s = some e)
    (hl : e.length < 65536) : scopedTryFrom (e ++ pad) = .ok s := by
  unfold encScoped at he
  cases hp : encPdu s.pdu with
  | none => rw [hp] at he; cases he
  | some p =>
    rw [hp] at he; simp only [Option.map_some, Option.some.injEq] at he; subst he
    have hge := tlvBytes_length_ge 0x30 (tlvBytes (UInt8.ofNat tagOctetString) s.engineId ++ ([UInt8.ofNat tagOctetString, 0] ++ p))
    have hge2 := tlvBytes_length_ge (UInt8.ofNat tagOctetString) s.engineId
    simp only [List.length_append, List.length_cons, List.length_nil] at hge
    unfold scopedTryFrom
    rw [fromBer_seq _ _ (by simp only [List.length_append, List.length_cons, List.length_nil]; omega)]
    simp only [bind_ok]
    rw [fromBer_octets _ _ (by omega)]
    simp only [bind_ok]
    have hempty : ([UInt8.ofNat tagOctetString, 0] ++ p : Bytes) = tlvBytes (UInt8.ofNat tagOctetString) [] ++ p := rfl
    rw [hempty, fromBer_octets _ _ (by simp)]
    simp only [bind_ok]
    have := pduTryFrom_encPdu s.pdu p [] hr hp (by omega)
    simp only [List.append_nil] at this
    rw [this]
    rfl

/-- the IV `decrypt` derives from a received 8-octet salt is the one `encrypt` used -/
theorem des_iv_agrees (pp preIv : Bytes) (h1 : pp.length = 8) (h2 : preIv.length = 8) :
    (xorBytes (pp.take 8) preIv ++ List.replicate 8 0).take 8 = xorBytes pp preIv := by
  have : pp.take 8 = pp := by rw [← h1]; exact List.take_length
  rw [this, List.take_append_of_le_length (by rw [xorBytes_length]; omega)]
  have hl : (xorBytes pp preIv).length = 8 := by rw [xorBytes_length]; omega
  rw [← hl, List.take_length]

/-! ## A reply encrypted as the RFCs prescribe is decrypted to exactly its content -/

theorem chunks_of_blocks (n : Nat) (hn : 0 < n) : ∀ (bs : List Bytes), (∀ b ∈ bs, b.length = n) →
    chunks n bs.flatten = bs
  | [], _ => by unfold chunks; simp
  | b :: rest, h => by
    have hb : b.length = n := h b (by simp)
    have hne : b ≠ [] := by intro e; rw [e] at hb; simp at hb; omega
    unfold chunks
    rw [dif_neg (by
      intro hc
      rcases hc with hc | hc
      · omega
      · simp only [List.flatten_cons, List.append_eq_nil_iff] at hc; exact hne hc.1)]
    simp only [List.flatten_cons]
    rw [List.take_left' hb, List.drop_left' hb]
    rw [chunks_of_blocks n hn rest (fun x hx => h x (by simp [hx]))]

theorem cbcEncBlocks_len (E : Bytes → Bytes) (hE : ∀ b, (E b).length = 8) : ∀ (ps : List Bytes) (iv : Bytes),
    ∀ c ∈ cbcEncBlocks E iv ps, c.length = 8
  | [], _, c, hc => by simp [cbcEncBlocks] at hc
  | p :: ps, iv, c, hc => by
    simp only [cbcEncBlocks, List.mem_cons] at hc
    rcases hc with rfl | hc
    · exact hE _
    · exact cbcEncBlocks_len E hE ps _ c hc

/-- CBC decryption undoes CBC encryption on whole octet strings of a multiple of 8 octets -/
theorem cbcDec_cbcEnc (C : Ciphers) (hC : C.WF) (key iv pt : Bytes) (hiv : iv.length = 8) (hm : pt.length % 8 = 0) :
    cbcDec (C.desDec key) iv (cbcEnc (C.desEnc key) iv pt) = pt := by
  unfold cbcDec cbcEnc
  rw [chunks_of_blocks 8 (by decide) _ (cbcEncBlocks_len _ (hC.desEnc_len key) _ _)]
  rw [cbc_inverse _ _ (hC.des_inv key) (hC.desEnc_len key) _ iv hiv (chunks_eq 8 pt hm)]
  exact chunks_flatten 8 (by decide) pt

theorem cbcEnc_length (C : Ciphers) (hC : C.WF) (key iv pt : Bytes) (hm : pt.length % 8 = 0) :
    (cbcEnc (C.desEnc key) iv pt).length = pt.length := by
  have hgen : ∀ (ps : List Bytes) (iv : Bytes), (∀ p ∈ ps, p.length = 8) →
      (cbcEncBlocks (C.desEnc key) iv ps).flatten.length = ps.flatten.length := by
    intro ps
    induction ps with
    | nil => intro iv _; rfl
    | cons p ps ih =>
      intro iv hp
      simp only [cbcEncBlocks, List.flatten_cons, List.length_append]
      rw [ih _ (fun x hx => hp x (by simp [hx])), hC.desEnc_len, hp p (by simp)]
  unfold cbcEnc
  rw [hgen _ iv (chunks_eq 8 pt hm), chunks_flatten 8 (by decide)]

/-- **C11.des_reply_roundtrip**: a reply whose msgData is the DES-CBC encryption (key and IV as RFC 3414
8.1.1.1 derives them from the localized key and the transmitted salt) of a scoped PDU followed by any
padding up to a multiple of 8 octets is decrypted by the session to exactly that scoped PDU, whatever the
private buffer held before -/
theorem des_reply_roundtrip (C : Ciphers) (hC : C.WF) (key preIv : Bytes) (salt : Nat) (buf : Buf) (pt pp : Bytes)
    (usm : Usm) (s : ScopedPdu) (hpp : usm.privacyParams = pp) (hppl : pp.length = 8) (hpre : preIv.length = 8)
    (hm : pt.length % 8 = 0) (hfit : pt.length ≤ Buf.cap) (hs : scopedTryFrom pt = .ok s) :
    ∃ buf', (PrivKey.des key preIv salt buf).decrypt C (cbcEnc (C.desEnc key) (xorBytes pp preIv) pt) usm =
      .ok (s, .des key preIv salt buf') := by
  have hivl : (xorBytes pp preIv).length = 8 := by rw [xorBytes_length]; omega
  have hctl := cbcEnc_length C hC key (xorBytes pp preIv) pt hm
  unfold PrivKey.decrypt
  simp only [hpp, des_iv_agrees pp preIv hppl hpre]
  have hsk : ((buf.reset).skip (cbcEnc (C.desEnc key) (xorBytes pp preIv) pt).length).cells.length = pt.length := by
    rw [hctl]
    simp only [Buf.skip, Buf.reset, Buf.pos, List.length_append, List.length_replicate, List.length_nil]
    simp only [Buf.cap] at hfit ⊢
    omega
  rw [if_neg (by
    simp only [Bool.or_eq_true, decide_eq_true_eq, not_or, Nat.not_lt, ne_eq, Decidable.not_not]
    exact ⟨by rw [hctl]; exact hm, by simp only [Buf.len]; rw [hsk, hctl]; exact Nat.le_refl _⟩)]
  rw [cbcDec_cbcEnc C hC key _ pt hivl hm]
  rw [overwrite_data _ _ (by rw [hsk])]
  simp only [bind_ok, hs, pure_eq]
  exact ⟨_, rfl⟩

theorem chunks_same_shape (n : Nat) : ∀ (x : Bytes) (L : List Bytes),
    L.map List.length = (chunks n x).map List.length → chunks n L.flatten = L := by
  intro x
  induction hl : x.length using Nat.strongRecOn generalizing x with
  | _ l ih =>
    intro L hL
    unfold chunks at hL
    split at hL
    · simp only [List.map_nil, List.map_eq_nil_iff] at hL
      subst hL
      unfold chunks; simp
    · rename_i hc
      have hn : n ≠ 0 := fun e => hc (Or.inl e)
      have hx : x ≠ [] := fun e => hc (Or.inr e)
      have hxl : 0 < x.length := List.length_pos_iff.mpr hx
      cases L with
      | nil => simp at hL
      | cons a L' =>
        simp only [List.map_cons, List.cons.injEq, List.length_take] at hL
        obtain ⟨ha, hL'⟩ := hL
        have hane : a ≠ [] := by intro e; rw [e] at ha; simp at ha; omega
        by_cases hfull : n ≤ x.length
        · have han : a.length = n := by omega
          have := ih (x.drop n).length (by rw [List.length_drop]; omega) (x.drop n) rfl L' hL'
          unfold chunks
          rw [dif_neg (by
            intro h; rcases h with h | h
            · exact hn h
            · simp only [List.flatten_cons, List.append_eq_nil_iff] at h; exact hane h.1)]
          simp only [List.flatten_cons]
          rw [List.take_left' han, List.drop_left' han, this]
        · have hdrop : x.drop n = [] := List.drop_eq_nil_of_le (by omega)
          rw [hdrop] at hL'
          have hnil : chunks n ([] : Bytes) = [] := by unfold chunks; simp
          rw [hnil] at hL'
          simp only [List.map_nil, List.map_eq_nil_iff] at hL'
          subst hL'
          have hal : a.length ≤ n := by omega
          unfold chunks
          rw [dif_neg (by
            intro h; rcases h with h | h
            · exact hn h
            · simp only [List.flatten_cons, List.flatten_nil, List.append_nil] at h; exact hane h)]
          simp only [List.flatten_cons, List.flatten_nil, List.append_nil]
          rw [List.take_of_length_le hal, List.drop_eq_nil_of_le hal, hnil]

theorem cfbEncBlocks_shape (E : Bytes → Bytes) (hE : ∀ b, (E b).length = 16) : ∀ (ps : List Bytes) (iv : Bytes),
    (∀ p ∈ ps, p.length ≤ 16) → (cfbEncBlocks E iv ps).map List.length = ps.map List.length
  | [], _, _ => rfl
  | p :: ps, iv, hp => by
    have h16 := hp p (by simp)
    simp only [cfbEncBlocks, List.map_cons]
    rw [cfbEncBlocks_shape E hE ps _ (fun x hx => hp x (by simp [hx])), xorBytes_length, hE]
    congr 1
    omega

/-- CFB-128 decryption undoes CFB-128 encryption on octet strings of any length -/
theorem cfbDec_cfbEnc (C : Ciphers) (hC : C.WF) (key iv pt : Bytes) :
    cfbDec (C.aesEnc key) iv (cfbEnc (C.aesEnc key) iv pt) = pt := by
  unfold cfbDec cfbEnc
  rw [chunks_same_shape 16 pt _ (cfbEncBlocks_shape _ (hC.aesEnc_len key) _ iv (chunks_le 16 pt))]
  rw [cfb_inverse _ (hC.aesEnc_len key) _ iv (chunks_le 16 pt)]
  exact chunks_flatten 16 (by decide) pt

theorem cfbEnc_length (C : Ciphers) (hC : C.WF) (key iv pt : Bytes) :
    (cfbEnc (C.aesEnc key) iv pt).length = pt.length := by
  have h := congrArg (fun (l : List Nat) => l.sum)
    (cfbEncBlocks_shape _ (hC.aesEnc_len key) (chunks 16 pt) iv (chunks_le 16 pt))
  unfold cfbEnc
  rw [List.length_flatten, h, ← List.length_flatten, chunks_flatten 16 (by decide)]

/-- **C11.aes_reply_roundtrip**: a reply whose msgData is the AES-128-CFB encryption (IV = engine boots ‖
engine time ‖ transmitted salt, RFC 3826 3.1.2.1) of a scoped PDU followed by anything is decrypted by the
session to exactly that scoped PDU, whatever the private buffer held before -/
theorem aes_reply_roundtrip (C : Ciphers) (hC : C.WF) (key : Bytes) (salt : Nat) (buf : Buf) (pt : Bytes)
    (usm : Usm) (s : ScopedPdu) (hppl : usm.privacyParams.length = 8) (hfit : pt.length ≤ Buf.cap)
    (hs : scopedTryFrom pt = .ok s) :
    ∃ buf', (PrivKey.aes key salt buf).decrypt C
        (cfbEnc (C.aesEnc key)
          (beBytes 4 (asU32 usm.engineBoots) ++ beBytes 4 (asU32 usm.engineTime) ++ usm.privacyParams) pt) usm =
      .ok (s, .aes key salt buf') := by
  have hctl := cfbEnc_length C hC key
    (beBytes 4 (asU32 usm.engineBoots) ++ beBytes 4 (asU32 usm.engineTime) ++ usm.privacyParams) pt
  unfold PrivKey.decrypt
  simp only
  rw [if_neg (by simp only [ne_eq, Decidable.not_not]; rw [hppl]; decide)]
  have hsk : ((buf.reset).skip (cfbEnc (C.aesEnc key)
      (beBytes 4 (asU32 usm.engineBoots) ++ beBytes 4 (asU32 usm.engineTime) ++ usm.privacyParams) pt).length).cells.length
      = pt.length := by
    rw [hctl]
    simp only [Buf.skip, Buf.reset, Buf.pos, List.length_append, List.length_replicate, List.length_nil]
    simp only [Buf.cap] at hfit ⊢
    omega
  rw [if_neg (by simp only [ne_eq, Decidable.not_not, Buf.len]; rw [hsk, hctl])]
  rw [cfbDec_cfbEnc C hC key _ pt]
  rw [overwrite_data _ _ (by rw [hsk])]
  simp only [bind_ok, hs, pure_eq]
  exact ⟨_, rfl⟩

/-! Non-vacuity: the hypotheses are satisfiable -/
example : encScoped ⟨[1, 2, 3], .getRequest 5 [[43, 6]]⟩ ≠ none := by simp [encScoped, encPdu]

end GufoSnmp.C11
