import GufoSnmp.Lemmas.PrivSpec
import GufoSnmp.Lemmas.RoundTrip
/-!
# C11 — encrypted payloads are exactly the scoped PDU under RFC 3414 / RFC 3826

Block ciphers are parameters (`Ciphers`, contract `Ciphers.WF`: whole blocks, DES decryption
inverts DES encryption). `Spec.cbcEncrypt` / `Spec.cfbEncrypt` are written independently.
Every request, every key, every salt, every boots / time, ANY contents of the cipher object's
private buffer (i.e. any earlier history of sends, receives and failures).
-/
namespace GufoSnmp.C11
open GufoSnmp Gen Outcome

/-- the model's mode functions are the specification's -/
theorem cbc_is_spec (E : Bytes → Bytes) : ∀ (ps : List Bytes) (iv : Bytes),
    cbcEncBlocks E iv ps = Spec.cbcEncrypt E iv ps
  | [], _ => rfl
  | p :: ps, iv => by
    simp only [cbcEncBlocks, Spec.cbcEncrypt]
    congr 1
    exact cbc_is_spec E ps _

theorem cfb_is_spec (E : Bytes → Bytes) : ∀ (ps : List Bytes) (iv : Bytes),
    cfbEncBlocks E iv ps = Spec.cfbEncrypt E iv ps
  | [], _ => rfl
  | p :: ps, iv => by
    simp only [cfbEncBlocks, Spec.cfbEncrypt]
    congr 1
    exact cfb_is_spec E ps _

/-- **C11.des_encrypt**: msgData = DES-CBC, key = Kul[0..8], IV = Kul[8..16] ⊕ salt, salt = boots ‖
counter, of the scoped PDU followed by fewer than 8 zero octets — for any private-buffer history -/
theorem des_encrypt (C : Ciphers) (key preIv : Bytes) (salt : Nat) (buf : Buf) (s : ScopedPdu) (e : Bytes)
    (boots time : Nat) (he : encScoped s = some e) (hfit : e.length + 8 ≤ Buf.cap) :
    ((PrivKey.des key preIv salt buf).encrypt C s boots time).2 =
      .ok (cbcEnc (C.desEnc key) (xorBytes (beBytes 4 (boots % 2 ^ 32) ++ beBytes 4 salt) preIv)
             (e ++ List.replicate (padLen 8 e.length) 0),
           beBytes 4 (boots % 2 ^ 32) ++ beBytes 4 salt) ∧ padLen 8 e.length < 8 := by
  obtain ⟨b', hs, _⟩ := privSerialize_spec 8 (by decide) buf s e he hfit
  refine ⟨?_, padLen_lt 8 _ (by decide)⟩
  simp only [PrivKey.encrypt]
  have : desBlockSize = 8 := rfl
  rw [this, hs]

/-- **C11.aes_encrypt**: msgData = AES-128-CFB, IV = boots ‖ time ‖ 64-bit counter, of the scoped
PDU followed by fewer than 16 zero octets; the transmitted salt is the counter -/
theorem aes_encrypt (C : Ciphers) (key : Bytes) (salt : Nat) (buf : Buf) (s : ScopedPdu) (e : Bytes)
    (boots time : Nat) (he : encScoped s = some e) (hfit : e.length + 16 ≤ Buf.cap) :
    ((PrivKey.aes key salt buf).encrypt C s boots time).2 =
      .ok (cfbEnc (C.aesEnc key) (beBytes 4 (boots % 2 ^ 32) ++ beBytes 4 (time % 2 ^ 32) ++ beBytes 8 salt)
             (e ++ List.replicate (padLen 16 e.length) 0),
           (beBytes 4 (boots % 2 ^ 32) ++ beBytes 4 (time % 2 ^ 32) ++ beBytes 8 salt).drop 8) ∧
    padLen 16 e.length < 16 := by
  obtain ⟨b', hs, _⟩ := privSerialize_spec 16 (by decide) buf s e he hfit
  refine ⟨?_, padLen_lt 16 _ (by decide)⟩
  simp only [PrivKey.encrypt]
  have : aesBlockSize = 16 := rfl
  rw [this, hs]

/-- **C11.history_free**: the ciphertext does not depend on what the cipher object's private
buffer held before (earlier requests, decrypted replies, failed attempts) -/
theorem history_free (C : Ciphers) (key preIv : Bytes) (salt : Nat) (buf1 buf2 : Buf) (s : ScopedPdu) (e : Bytes)
    (boots time : Nat) (he : encScoped s = some e) (hfit : e.length + 16 ≤ Buf.cap) :
    ((PrivKey.des key preIv salt buf1).encrypt C s boots time).2 =
      ((PrivKey.des key preIv salt buf2).encrypt C s boots time).2 ∧
    ((PrivKey.aes key salt buf1).encrypt C s boots time).2 = ((PrivKey.aes key salt buf2).encrypt C s boots time).2 := by
  constructor
  · rw [(des_encrypt C key preIv salt buf1 s e boots time he (by omega)).1,
      (des_encrypt C key preIv salt buf2 s e boots time he (by omega)).1]
  · rw [(aes_encrypt C key salt buf1 s e boots time he hfit).1, (aes_encrypt C key salt buf2 s e boots time he hfit).1]

/-- **C11.modes_invert**: CBC / CFB decryption as the library applies it inverts the encryption -/
theorem modes_invert (C : Ciphers) (hC : C.WF) (key : Bytes) :
    (∀ (ps : List Bytes) (iv : Bytes), iv.length = 8 → (∀ p ∈ ps, p.length = 8) →
      cbcDecBlocks (C.desDec key) iv (cbcEncBlocks (C.desEnc key) iv ps) = ps) ∧
    (∀ (ps : List Bytes) (iv : Bytes), (∀ p ∈ ps, p.length ≤ 16) →
      cfbDecBlocks (C.aesEnc key) iv (cfbEncBlocks (C.aesEnc key) iv ps) = ps) :=
  ⟨cbc_inverse _ _ (hC.des_inv key) (hC.desEnc_len key), cfb_inverse _ (hC.aesEnc_len key)⟩

/-- what `decrypt` parses is followed by padding it ignores: a scoped PDU followed by any octets
decodes to that scoped PDU -/
theorem scoped_roundtrip (s : ScopedPdu) (e pad : Bytes) (hr : s.pdu.InRange) (he : encScoped s = some e)
    (hl : e.length < 65536) : scopedTryFrom (e ++ pad) = .ok s := by
  unfold encScoped at he
  cases hp : encPdu s.pdu with
  | none => rw [hp] at he; cases he
  | some p =>
    rw [hp] at he; simp only [Option.map_some, Option.some.injEq] at he; subst he
    have hge := tlvBytes_length_ge 0x30 (tlvBytes (UInt8.ofNat tagOctetString) s.engineId ++ ([UInt8.ofNat tagOctetString, 0] ++ p))
    have hge2 := tlvBytes_length_ge (UInt8.ofNat tagOctetString) s.engineId
    simp only [List.length_append, List.length_cons, List.length_nil] at hge
    unfold scopedTryFrom
    rw [fromBer_seq _ _ (by simp only [List.length_append, List.length_cons, List.length_nil]; omega)]
    simp only [bind_ok]
    rw [fromBer_octets _ _ (by omega)]
    simp only [bind_ok]
    have hempty : ([UInt8.ofNat tagOctetString, 0] ++ p : Bytes) = tlvBytes (UInt8.ofNat tagOctetString) [] ++ p := rfl
    rw [hempty, fromBer_octets _ _ (by simp)]
    simp only [bind_ok]
    have := pduTryFrom_encPdu s.pdu p [] hr hp (by omega)
    simp only [List.append_nil] at this
    rw [this]
    rfl

/-- the IV `decrypt` derives from a received 8-octet salt is the one `encrypt` used -/
theorem des_iv_agrees (pp preIv : Bytes) (h1 : pp.length = 8) (h2 : preIv.length = 8) :
    (xorBytes (pp.take 8) preIv ++ List.replicate 8 0).take 8 = xorBytes pp preIv := by
  have : pp.take 8 = pp := by rw [← h1]; exact List.take_length
  rw [this, List.take_append_of_le_length (by rw [xorBytes_length]; omega)]
  have hl : (xorBytes pp preIv).length = 8 := by rw [xorBytes_length]; omega
  rw [← hl, List.take_length]

/-! Non-vacuity: the hypotheses are satisfiable -/
example : encScoped ⟨[1, 2, 3], .getRequest 5 [[43, 6]]⟩ ≠ none := by simp [encScoped, encPdu]

end GufoSnmp.C11
