import GufoSnmp.Lemmas.WalkLemmas
import GufoSnmp.Lemmas.CmpArcs
/-!
# C06 — a walk never leaves its subtree, never goes backwards, always ends

The agent is arbitrary: `replies` is any list of PDUs (any varbind lists, any OIDs, any values,
Reports, requests echoed back). `Walk.walkNext` / `Walk.walkBulk` fold the Rust conversion
layer (`OpGetNext` / `OpGetBulk::to_python`, `GetIter`) and the Python iterator wrappers.
-/
namespace GufoSnmp.C06
open GufoSnmp Gen Walk

/-- raw OIDs of the yielded items -/
def raws (r : Res) : List Bytes := r.yields.map (·.1)

/-- **C06.contained**: every yielded OID lies inside the requested subtree (GetNext and GetBulk) -/
theorem contained (it : GetIter) (replies : List Pdu) :
    (∀ y ∈ (walkNext it replies).yields, oidStartsWith it.startOid y.1 = true) ∧
    (∀ y ∈ (walkBulk it replies).yields, oidStartsWith it.startOid y.1 = true) :=
  ⟨(walkNext_spec replies it).1, (walkBulk_spec replies it).1⟩

/-- **C06.strictly_increasing**: each yielded OID is greater than the previous one (and the
first is greater than the starting point) in sub-identifier order -/
theorem strictly_increasing (it : GetIter) (replies : List Pdu) :
    Chain it.nextOid (raws (walkNext it replies)) ∧ Chain it.nextOid (raws (walkBulk it replies)) :=
  ⟨(walkNext_spec replies it).2.1, (walkBulk_spec replies it).2⟩

theorem chain_all_gt : ∀ (prev : Bytes) (ys : List Bytes), Chain prev ys → ∀ y ∈ ys, cmpArcs y prev = .gt
  | _, [], _, _, hy => by simp at hy
  | prev, x :: xs, ⟨h1, h2⟩, y, hy => by
    simp only [List.mem_cons] at hy
    rcases hy with rfl | hy
    · exact h1
    · exact cmpArcs_trans y x prev (chain_all_gt x xs h2 y hy) h1

theorem chain_nodup : ∀ (prev : Bytes) (ys : List Bytes), Chain prev ys → ys.Nodup ∧ prev ∉ ys
  | _, [], _ => ⟨List.nodup_nil, by simp⟩
  | prev, x :: xs, ⟨h1, h2⟩ => by
    obtain ⟨hn, hx⟩ := chain_nodup x xs h2
    refine ⟨List.nodup_cons.mpr ⟨hx, hn⟩, ?_⟩
    intro hmem
    have := chain_all_gt prev (x :: xs) ⟨h1, h2⟩ prev hmem
    exact cmpArcs_irrefl prev this

/-- **C06.no_repeat**: a walk never reports an OID twice, and never reports its own starting point -/
theorem no_repeat (it : GetIter) (replies : List Pdu) :
    (raws (walkNext it replies)).Nodup ∧ (raws (walkBulk it replies)).Nodup ∧
    it.nextOid ∉ raws (walkNext it replies) ∧ it.nextOid ∉ raws (walkBulk it replies) := by
  obtain ⟨h1, h2⟩ := strictly_increasing it replies
  exact ⟨(chain_nodup _ _ h1).1, (chain_nodup _ _ h2).1, (chain_nodup _ _ h1).2, (chain_nodup _ _ h2).2⟩

/-- **C06.follow_up** (GetNext): the first request names the starting OID, each later request
names the OID just yielded -/
theorem follow_up_next (it : GetIter) (replies : List Pdu) :
    (walkNext it replies).requests = it.nextOid :: raws (walkNext it replies) :=
  (walkNext_spec replies it).2.2

/-- **C06.follow_up** (GetBulk): after a batch that did not end the walk, the next request names
the last OID accepted from that batch (or the previous position when nothing was accepted) -/
theorem follow_up_bulk (p : Pdu) (ps : List Pdu) (it it' : GetIter) (xs : List (Option Py.Item))
    (h : opGetBulkToPython p (some it) = (.value (.list xs), some it')) (hns : (drain xs).2 = false) :
    (walkBulk it (p :: ps)).requests = it.nextOid :: (walkBulk it' ps).requests ∧
    it'.nextOid = lastOf it.nextOid ((drain xs).1.map (·.1)) :=
  walkBulk_follow h hns

/-- **C06.stops** (GetNext): an empty reply, an OID outside the subtree or not above the current
position, or a value that is not data (NULL, noSuchObject, noSuchInstance, endOfMibView) ends the
walk at once, whatever the agent would send afterwards -/
theorem stops_next (it : GetIter) (r es ei : Int) (vars : List VarBind) (ps : List Pdu)
    (h : vars = [] ∨ ∃ var, vars = [var] ∧ ((it.setNextOid var.oid).2 = false ∨ var.value.isData = false)) :
    walkNext it (.getResponse r es ei vars :: ps) = ⟨[], [it.nextOid], .stop⟩ := by
  rcases h with rfl | ⟨var, rfl, h⟩
  · rfl
  · unfold walkNext opGetNextToPython
    simp only
    cases hs : it.setNextOid var.oid with
    | mk it1 ok =>
      rw [hs] at h
      simp only at h ⊢
      cases ok with
      | false => rfl
      | true =>
        rcases h with h | h
        · cases h
        · simp [h, stopAsync]

/-- **C06.stops** (GetBulk): a reply without data values ends the walk -/
theorem getBulkLoop_nodata : ∀ (vars : List VarBind) (it : GetIter) (acc : List (Option Py.Item)),
    (∀ var ∈ vars, var.value.isData = false) → getBulkLoop vars it acc = (.ok acc, it)
  | [], _, _, _ => rfl
  | var :: more, it, acc, h => by
    unfold getBulkLoop
    rw [if_pos (by simp [h var (by simp)])]
    exact getBulkLoop_nodata more it acc (fun v hv => h v (by simp [hv]))

theorem stops_bulk (it : GetIter) (r es ei : Int) (vars : List VarBind) (ps : List Pdu)
    (h : ∀ var ∈ vars, var.value.isData = false) :
    walkBulk it (.getResponse r es ei vars :: ps) = ⟨[], [it.nextOid], .stop⟩ := by
  unfold walkBulk opGetBulkToPython
  simp only
  cases vars with
  | nil => rfl
  | cons v vs =>
    simp only [List.isEmpty_cons, Bool.false_eq_true, if_false]
    rw [getBulkLoop_nodata (v :: vs) it [] h]
    rfl

/-- once the stop marker is seen the walk ends: nothing after it is yielded and no further
request is made -/
theorem stops_at_marker (p : Pdu) (ps : List Pdu) (it it' : GetIter) (xs : List (Option Py.Item))
    (h : opGetBulkToPython p (some it) = (.value (.list xs), some it')) (hs : (drain xs).2 = true) :
    walkBulk it (p :: ps) = ⟨(drain xs).1, [it.nextOid], .stop⟩ := by
  rw [walkBulk, h]
  simp only
  cases hd : drain xs with
  | mk items stopped =>
    rw [hd] at hs
    simp only at hs
    subst hs
    rfl

/-- every item yielded by a GetBulk step is one of the data varbinds of that reply -/
theorem bulk_items_received (vars : List VarBind) (it it' : GetIter) (xs : List (Option Py.Item))
    (h : getBulkLoop vars it [] = (.ok xs, it')) :
    ∀ y ∈ (drain xs).1, ∃ var ∈ vars, var.oid = y.1 ∧ var.value.isData = true := by
  obtain ⟨new, h1, _, _, _, _, h6⟩ := getBulkLoop_spec vars it [] xs it' h
  simp only [List.nil_append] at h1
  subst h1
  exact h6

/-- the conversion loop of a GetBulk reply appends, in the order received, a selection of the reply's
varbinds -/
theorem getBulkLoop_order : ∀ (vars : List VarBind) (it : GetIter) (acc xs : List (Option Py.Item)) (it' : GetIter),
    getBulkLoop vars it acc = (.ok xs, it') →
    ∃ new, xs = acc ++ new ∧ ((drain new).1.map (·.1)).Sublist (vars.map (·.oid))
  | [], it, acc, xs, it', h => by
    simp only [getBulkLoop, Prod.mk.injEq, Except.ok.injEq] at h
    exact ⟨[], by simp [h.1], by simp [drain]⟩
  | var :: more, it, acc, xs, it', h => by
    unfold getBulkLoop at h
    split at h
    · obtain ⟨new, h1, h2⟩ := getBulkLoop_order more it acc xs it' h
      exact ⟨new, h1, by simp only [List.map_cons]; exact List.Sublist.cons _ h2⟩
    · cases hs : it.setNextOid var.oid with
      | mk it1 ok =>
        rw [hs] at h
        simp only at h
        cases ok with
        | false =>
          simp only [Bool.not_false, if_true, Prod.mk.injEq, Except.ok.injEq] at h
          exact ⟨[none], h.1.symm, by simp [drain]⟩
        | true =>
          simp only [Bool.not_true, Bool.false_eq_true, if_false] at h
          split at h
          · rename_i k hk
            split at h
            · rename_i v hv
              obtain ⟨new, h1, h2⟩ := getBulkLoop_order more it1 _ xs it' h
              refine ⟨some (var.oid, k, v) :: new, by rw [h1]; simp, ?_⟩
              rw [drain_some]
              simp only [List.map_cons]
              exact List.Sublist.cons₂ _ h2
            · cases h
            · cases h
          · cases h
          · cases h

/-- **C06.bulk_order**: the rows a GetBulk step yields are rows of that reply, in the order the agent
sent them (none invented, none reordered, none repeated) -/
theorem bulk_order (vars : List VarBind) (it it' : GetIter) (xs : List (Option Py.Item))
    (h : getBulkLoop vars it [] = (.ok xs, it')) :
    ((drain xs).1.map (·.1)).Sublist (vars.map (·.oid)) := by
  obtain ⟨new, h1, h2⟩ := getBulkLoop_order vars it [] xs it' h
  simp only [List.nil_append] at h1
  subst h1; exact h2

/-- **C06.bulk_stop_first**: the first data row that falls outside the subtree or does not increase ends
the batch with the stop marker right there: whatever the agent put after it is not looked at -/
theorem bulk_stop_first (v : VarBind) (post : List VarBind) (it : GetIter) (acc : List (Option Py.Item))
    (hd : v.value.isData = true) (hr : (it.setNextOid v.oid).2 = false) :
    getBulkLoop (v :: post) it acc = (.ok (acc ++ [none]), (it.setNextOid v.oid).1) := by
  unfold getBulkLoop
  simp only [hd, Bool.not_true, Bool.false_eq_true, if_false]
  cases hs : it.setNextOid v.oid with
  | mk it1 ok =>
    rw [hs] at hr
    simp only at hr
    subst hr
    simp

/-- rows without data (NULL and the exception values) inside a batch are passed over without a yield -/
theorem bulk_skips_nodata (v : VarBind) (post : List VarBind) (it : GetIter) (acc : List (Option Py.Item))
    (hd : v.value.isData = false) : getBulkLoop (v :: post) it acc = getBulkLoop post it acc := by
  rw [getBulkLoop]
  simp [hd]

/-! ## The Python `GetBulkIter` wrapper (`sync_client/getbulk.py`, `async_client/client.py`) -/

/-- **C06.bulkiter_serves_buffer**: once a reply is buffered, successive `next()` calls hand out exactly the rows
before the stop marker, in order, without calling the socket (the script of socket outcomes is untouched), and
— when the marker is there — the call after the last row ends the iteration. This is the `drain` the walk
theorems (`follow_up_bulk`, `stops_at_marker`, `C05.getbulk_walk`) are stated with. -/
theorem bulkiter_serves_buffer : ∀ (xs : List (Option Py.Item)) (script : List PyOut),
    Py.bulkRun (drain xs).1.length ⟨xs⟩ script = (drain xs).1.map Py.IterOut.item ∧
    ((drain xs).2 = true →
      Py.bulkRun ((drain xs).1.length + 1) ⟨xs⟩ script = (drain xs).1.map Py.IterOut.item ++ [Py.IterOut.stop])
  | [], script => ⟨rfl, fun h => by simp [drain] at h⟩
  | none :: rest, script => by
    refine ⟨rfl, fun _ => ?_⟩
    simp [drain, Py.bulkRun, Py.bulkNext, Py.popOrStop]
  | some x :: rest, script => by
    obtain ⟨h1, h2⟩ := bulkiter_serves_buffer rest script
    have step : ∀ n, Py.bulkRun (n + 1) ⟨some x :: rest⟩ script = Py.IterOut.item x :: Py.bulkRun n ⟨rest⟩ script := by
      intro n
      simp [Py.bulkRun, Py.bulkNext, Py.popOrStop]
    rw [drain_some]
    constructor
    · simp only [List.length_cons, List.map_cons]
      rw [step, h1]
    · intro hs
      simp only [List.length_cons, List.map_cons, List.cons_append]
      rw [step, h2 hs]

/-- **C06.bulkiter_refill**: with an empty buffer `next()` makes exactly one socket call; a timeout of that call
is `TimeoutError`, never a silent end of the walk; the end of the view (`StopAsyncIteration` from the socket or an
empty list) ends it -/
theorem bulkiter_refill (script : List PyOut) :
    Py.bulkNext ⟨[]⟩ (.raise .BlockingIOError :: script) = (.raise .TimeoutError, ⟨[]⟩, script) ∧
    Py.bulkNext ⟨[]⟩ (.raise .StopAsyncIteration :: script) = (.stop, ⟨[]⟩, script) ∧
    Py.bulkNext ⟨[]⟩ (.value (.list []) :: script) = (.stop, ⟨[]⟩, script) ∧
    (∀ x rest, Py.bulkNext ⟨[]⟩ (.value (.list (some x :: rest)) :: script) = (.item x, ⟨rest⟩, script)) :=
  ⟨rfl, rfl, rfl, fun _ _ => rfl⟩

/-- **C06.nextiter_table**: the sync `GetNextIter.__next__` hands through what the socket step produced; it only
renames the end of the walk (`StopAsyncIteration` → `StopIteration`) and the socket timeout (`BlockingIOError` →
`TimeoutError`): a timeout is never turned into the end of the walk, and the end of the walk never into an error;
the async iterator renames nothing -/
theorem nextiter_table :
    Py.syncNextMap (.raise .BlockingIOError) = .raise .TimeoutError ∧
    Py.syncNextMap (.raise .StopAsyncIteration) = .raise .StopIteration ∧
    (∀ v, Py.syncNextMap (.value v) = .value v) ∧
    (∀ e, e ≠ .BlockingIOError → e ≠ .StopAsyncIteration → Py.syncNextMap (.raise e) = .raise e) ∧
    (∀ r, Py.asyncNextMap r = r) := by
  refine ⟨rfl, rfl, fun _ => rfl, ?_, fun _ => rfl⟩
  intro e h1 h2
  cases e <;> simp_all [Py.syncNextMap]

/-- a Report or a request PDU never yields anything -/
theorem report_yields_nothing (it : GetIter) (body : Bytes) (ps : List Pdu) :
    (walkNext it (.report body :: ps)).yields = [] ∧ (walkBulk it (.report body :: ps)).yields = [] := by
  constructor <;> rfl

/-! Non-vacuity: an iterator state and a chain -/
example : Chain [43, 6] [[43, 6, 1], [43, 6, 2]] := by
  refine ⟨?_, ?_, trivial⟩ <;> simp [cmpArcs, splitArc, splitArcRaw, cmpBytes, Ordering.then]

end GufoSnmp.C06
